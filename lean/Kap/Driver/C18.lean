/-
Driver for C18: reads the cases printed by harness/c18 (which recorded and replayed with the REAL kapacitor code),
and judges for each case
  * the property itself (Spec/C18.lean) on the OBSERVED deliveries — first, so that a violation is reported as such;
    a violation that is exactly one of the recorded deviation clauses is reported as KNOWN <key>;
  * observed = model (Model/C18.lean `streamRoundTrip` / `batchRoundTrip`), the tie.
-/
import Kap.Spec.C18
open Kap Kap.C18

namespace Kap.C18.Drv

def hexNat (s : String) : Option Nat :=
  if s.isEmpty then none else
  s.toList.foldl (fun acc c => match acc, hexVal c with | some n, some d => some (n * 16 + d) | _, _ => none) (some 0)

def bytesTok (t : String) : Option Bytes := unescRaw t

def escBytes (b : Bytes) : String := if b.isEmpty then "%" else b.foldl (fun acc x => acc ++ escByte x) ""

def parseTags (t : String) : Option Tags :=
  if t == "-" then some [] else
  (t.splitOn ",").mapM (fun kv => match kv.splitOn "=" with
    | [k, v] => do pure ((← bytesTok k), (← bytesTok v))
    | _ => none)

/-- value token → value (+ the float text, when it is a float: the `strconv` oracle). -/
def parseFV (t : String) : Option (FV × Option (Nat × Bytes)) :=
  match t.splitOn "~" with
  | ["f", bits, txt] => do let b ← hexNat bits; let x ← bytesTok txt; pure (.float b, some (b, x))
  | ["i", v] => do pure (.int (← v.toInt?), none)
  | ["s", s] => do pure (.str (← bytesTok s), none)
  | ["b", "1"] => some (.bool true, none)
  | ["b", "0"] => some (.bool false, none)
  | _ => none

def parseFields (t : String) : Option (Fields × List (Nat × Bytes)) :=
  if t == "-" then some ([], []) else do
  let kvs ← (t.splitOn ",").mapM (fun kv => match kv.splitOn "=" with
    | [k, v] => do let k ← bytesTok k; let (x, o) ← parseFV v; pure ((k, x), o)
    | _ => none)
  pure (kvs.map (·.1), kvs.filterMap (·.2))

/-- time token; a trailing `L` marks a time that is not in UTC. -/
def parseTime (t : String) : Option (Int × Bool) :=
  if t.endsWith "L" then (t.dropEnd 1).toString.toInt?.map (fun v => (v, true)) else t.toInt?.map (fun v => (v, false))

def parseNames (t : String) : Option (List Bytes) := if t == "-" then some [] else (t.splitOn ",").mapM bytesTok

def sortedKeys {α} (l : List (Bytes × α)) : Bool :=
  match l with
  | [] => true
  | x :: rest => (rest.foldl (fun (acc : Bool × Bytes) kv => (acc.1 && decide (acc.2 < kv.1), kv.1)) (true, x.1)).1

def mkCodec (tbl : List (Nat × Bytes)) : FloatCodec :=
  { fmt := fun b => (tbl.lookup b).getD [],
    parse := fun s => (tbl.find? (fun e => e.2 == s)).map (·.1) }

def multOf (prec : String) : Int :=
  if prec == "u" then 1000 else if prec == "ms" then 1000000 else if prec == "s" then 1000000000
  else if prec == "m" then 60000000000 else if prec == "h" then 3600000000000 else 1

def parseStatus (t : String) : Option Status :=
  if t == "ok" then some .ok else if t == "err" then some .err else if t == "panic" then some .panic else none

structure St where
  mode : String := ""
  recTime : Bool := false
  zero : Int := 0
  prec : String := "n"
  pts : List SPoint := []                              -- reversed
  pgroups : List (Bytes × Bool × List Bytes) := []     -- reversed
  bs : List Batch := []                                -- reversed
  bgroups : List (Bytes × List Bytes) := []            -- reversed
  srcsDone : List (List Batch × List (Bytes × List Bytes)) := []   -- completed batch sources (reversed, each reversed)
  oracle : List (Nat × Bytes) := []
  nonUTC : Bool := false
  file : Bool := false                                 -- recorded into / replayed from a recording file of services/replay
  live : Bool := false                                 -- nothing recorded: the items are fed to Replay*FromChan on a channel
  wire : List (Option Bytes) := []                     -- reversed: the bytes the REAL writer produced for each `pt`
  lbs : List LBatch := []                              -- reversed (live batch mode)
  lsrcsDone : List (List LBatch) := []                 -- completed live sources (reversed, each reversed)
  lpN : Nat := 0                                       -- `lp` lines judged so far in this case
  lpBrs : List String := []
  fault : Option (Nat × Nat) := none                   -- fault mode: the first recording fails after j records + off bytes
  faultBrs : List String := []

def parseDimTok (t : String) : Option (Bool × List Bytes) :=
  match t.splitOn ":" with
  | [b, names] => do pure (b == "1", (← parseNames names))
  | _ => none

/-- stream item `db|rp|name|tags|fields|time|group|dims|until` -/
def parseSItem (t : String) : Option (SPoint × (Bytes × Bool × List Bytes) × Option Int × List (Nat × Bytes) × Bool) :=
  match t.splitOn "|" with
  | [db, rp, name, tags, fields, time, group, dims, u] => do
    let (fs, orc) ← parseFields fields
    let (tm, l) ← parseTime time
    let (bn, dn) ← parseDimTok dims
    let u ← (if u == "-" then some none else (parseTime u).map (fun x => some x.1))
    pure (⟨← bytesTok db, ← bytesTok rp, ← bytesTok name, ← parseTags tags, fs, tm⟩, (← bytesTok group, bn, dn), u, orc, l)
  | _ => none

def parseBPoint (t : String) : Option (BPoint × Bool) :=
  match t.splitOn "!" with
  | [tags, fields, time] => do
    let (fs, _) ← parseFields fields
    let (tm, l) ← parseTime time
    pure (⟨← parseTags tags, fs, tm⟩, l)
  | _ => none

def parseBPoints (t : String) : Option (List BPoint × Bool) :=
  if t == "-" then some ([], false) else do
  let ps ← (t.splitOn ";").mapM parseBPoint
  pure (ps.map (·.1), ps.any (·.2))

/-- batch item `name|byname|tmax|tags|group|dims|points|until|sizehint` -/
def parseBItem (t : String) : Option (Batch × (Bytes × List Bytes) × Option Int × Nat × Bool) :=
  match t.splitOn "|" with
  | [name, bn, tmax, tags, group, dims, pts, u, sh] => do
    let (tm, l1) ← parseTime tmax
    let (ps, l2) ← parseBPoints pts
    let u ← (if u == "-" then some none else (parseTime u).map (fun x => some x.1))
    pure (⟨← bytesTok name, bn == "1", tm, ← parseTags tags, ps⟩, (← bytesTok group, ← parseNames dims), u, ← sh.toNat?, l1 || l2)
  | _ => none

def firstDiff {α} [BEq α] (a b : List α) : Nat :=
  let rec go : List α → List α → Nat → Nat
    | x :: xs, y :: ys, i => if x == y then go xs ys (i + 1) else i
    | _, _, i => i
  go a b 0

def statusStr : Status → String | .ok => "ok" | .err => "err" | .panic => "panic"

def strNeedsEsc (s : Bytes) : Bool := s.any (fun c => c == DQ || c == BS || c == COMMA || c == SP || c == EQ)

def big53 (v : Int) : Bool := v.natAbs > 9007199254740992

def addBr (brs : List String) (b : String) : List String := if brs.contains b then brs else brs ++ [b]

def shiftBr (recTime : Bool) (zero : Int) (first : Option Int) : List String :=
  (if recTime then ["rec-time"] else ["shift-time"]) ++
  (match first with
   | some f => if zero > f then ["offset-pos"] else if zero < f then ["offset-neg"] else ["offset-zero"]
   | none => ["no-items"])

def judgeStream (st : St) (obs : List String) : Verdict := Id.run do
  let recorded := st.pts.reverse
  let recGroups := st.pgroups.reverse
  let some status := obs.head?.bind parseStatus | return .badop s!"status {obs.head?}"
  if obs.head? == some "recerr" then return .badop "recerr"
  let some closes := (obs.getD 1 "").toNat? | return .badop "closes"
  let some closedAt := (obs.getD 2 "").toNat? | return .badop "closedAt"
  let some items := (obs.drop 3).mapM parseSItem | return .badop "stream item"
  let o : SObs := { status := status, closes := closes, closedAt := closedAt, items := items.map (·.1), groups := items.map (·.2.1) }
  let nonUTC := items.any (·.2.2.2.2)
  let F := mkCodec (st.oracle ++ items.flatMap (·.2.2.2.1))
  let mult := multOf st.prec
  -- 1. the property on the observed deliveries (a live replay records nothing: no deviation clause applies)
  let dev := if st.live then none else firstDev recorded 0
  -- precision coarser than ns truncates on purpose: compare against the truncated times
  let recordedP := if mult == 1 then recorded else recorded.map (fun p => { p with time := p.time.tdiv mult * mult })
  let mut known : Option String := none
  match specStream st.recTime recordedP recGroups o with
  | none => pure ()
  | some clause =>
    match dev with
    | none => return .specfail clause s!"status={statusStr status} items={items.length}/{recorded.length} first-diff={firstDiff recordedP o.items}"
    | some (k, key) =>
      match specStreamDev st.recTime recordedP recGroups o k key with
      | some c2 => return .specfail c2 s!"deviation {key} at point {k} does not explain: status={statusStr status} items={items.length}"
      | none => known := some key
  -- 1b. the writer (tie): the bytes the real `WritePointForRecording` produced for every point = the model's frame, byte for byte
  let mut wi := 0
  for (p, w) in recorded.zip st.wire.reverse do
    match w with
    | some w =>
      let mw := (frameOf F mult p).bytes
      if mw != w then
        return .mismatch s!"writer: point {wi}: model frame {mw.length} bytes, real writer {w.length} bytes, first-diff {firstDiff mw w}"
    | none => if !st.live then return .badop s!"point {wi} without the written bytes"
    wi := wi + 1
  -- 2. the tie: model = observed
  let m := if st.live then liveStreamReplay st.zero st.recTime recorded else streamRoundTrip F mult st.zero st.recTime recorded
  let obsItems : List SOut := items.map (fun it => ⟨it.1, it.2.2.1.getD 0⟩)
  let mut brs : List String := ["stream"] ++ st.faultBrs ++ (if st.live then ["live-chan"] else if st.file then ["file-srpl"] else ["io-buffer"]) ++ shiftBr st.recTime st.zero (recorded.head?.map (·.time))
  let exact := m.status == status && m.items == obsItems && m.closes == closes && m.closedAt == closedAt
        && items.all (fun it => it.2.2.1.isSome) && !nonUTC
        && items.all (fun it => it.2.1 == (([] : Bytes), false, ([] : List Bytes)))
  if !exact then
    match dev with
    | some (k, _) =>
      if m.items.take k == obsItems.take k && closes == 1 && closedAt == items.length then brs := addBr brs "dev-prefix-only"
      else return .mismatch s!"deviating input, prefix {k}: model items {m.items.length} observed {items.length} first-diff {firstDiff m.items obsItems}"
    | none =>
      return .mismatch s!"model status={statusStr m.status} items={m.items.length} observed status={statusStr status} items={items.length} first-diff={firstDiff m.items obsItems} nonUTC={nonUTC}"
  else if dev.isSome then brs := addBr brs "dev-exact"
  -- branches of the model that this case went through
  let (fs, okF) := if st.live then (recorded.map (frameOf F mult), true) else readFrames maxTok (record F mult recorded)
  if !okF then brs := addBr brs "frames-error"
  if fs.length != recorded.length then brs := addBr brs "frames-recount"
  if st.live && recorded.any (fun p => p.devKey.isSome) then brs := addBr brs "live-unrecordable-name"
  if recorded.any (fun p => p.tags.isEmpty) then brs := addBr brs "no-tags"
  if recorded.any (fun p => p.tags.length ≥ 2) then brs := addBr brs "many-tags"
  if recorded.any (fun p => strNeedsEsc p.name || p.tags.any (fun kv => strNeedsEsc kv.1 || strNeedsEsc kv.2)) then brs := addBr brs "key-escapes"
  if recorded.any (fun p => p.fields.any (fun kv => strNeedsEsc kv.1)) then brs := addBr brs "fieldkey-escapes"
  for k in [0, 1, 2, 3] do
    if recorded.any (fun p => p.fields.any (fun kv => kv.2.kind == k)) then brs := addBr brs s!"kind{k}"
  if recorded.any (fun p => p.fields.any (fun kv => match kv.2 with | .str s => s.any (fun c => c == DQ || c == BS) | _ => false)) then brs := addBr brs "string-escapes"
  if recorded.any (fun p => p.fields.any (fun kv => match kv.2 with | .int v => big53 v | _ => false)) then brs := addBr brs "int-beyond-2^53"
  if recorded.any (fun p => p.fields.any (fun kv => kv.2.hasNL)) then brs := addBr brs "string-with-line-feed"
  if recorded.any (fun p => p.time < 0) then brs := addBr brs "negative-time"
  if mult != 1 then brs := addBr brs "coarse-precision"
  if mult != 1 && recorded.any (fun p => p.time.tdiv mult * mult != p.time) then brs := addBr brs "precision-truncates"
  if (recorded.zip (recorded.drop 1)).any (fun pq => pq.1.time == pq.2.time) then brs := addBr brs "equal-times"
  if (recorded.zip (recorded.drop 1)).any (fun pq => pq.1.time > pq.2.time) then brs := addBr brs "time-backwards"
  if recorded.any (fun p => endsCR p.db || endsCR p.rp) then brs := addBr brs "cr-dropped"
  if recorded.any (fun p => (lineOf F mult p).length ≥ maxTok) then brs := addBr brs "line-too-long"
  if recorded.any (fun p => (lineOf F mult p).length ≥ maxTokOld) then brs := addBr brs "line-beyond-64KiB"
  if recorded.any (fun p => (lineOf F mult p).length + 1 == maxTokOld) then brs := addBr brs "line-64KiB-minus-1"
  if recorded.any (fun p => p.db.length ≥ maxTokOld) then brs := addBr brs "db-beyond-64KiB"
  if recorded.any (·.hashName) then brs := addBr brs "comment-line"
  match known with
  | some key =>
    let tie := if brs.contains "dev-exact" then "model=observed" else "model=observed-on-the-prefix-only"
    return .known key s!"first affected point {(dev.map (·.1)).getD 0}; status={statusStr status} delivered={items.length}/{recorded.length}; {tie}; frames={fs.length}"
  | none =>
    let nt := (recorded.length ≥ 2 && (brs.contains "key-escapes" || brs.contains "string-escapes" || brs.contains "int-beyond-2^53"))
      || (brs.contains "after-failed-recording" && !brs.contains "fault-never-reached" && recorded.length ≥ 1)
    return .ok nt brs

/-- One parsed batch source of the observation: `S <closes> <closedAt> <n> <item>*`. -/
structure SrcObs where
  closes : Nat
  closedAt : Nat
  items : List (Batch × (Bytes × List Bytes) × Option Int × Nat × Bool)
  untilKnown : Bool

partial def parseSrcs : List String → Option (List SrcObs × List String)
  | "S" :: c :: a :: n :: rest => do
    let c ← c.toNat?; let a ← a.toNat?; let n ← n.toNat?
    if rest.length < n then none
    let toks := rest.take n
    let known := toks.all (fun t => (t.splitOn "|").getD 7 "" != "*")
    let items ← (toks.map (fun t => t.replace "|*|" "|-|")).mapM parseBItem
    let (more, tail) ← parseSrcs (rest.drop n)
    pure (⟨c, a, items, known⟩ :: more, tail)
  | rest => some ([], rest)

def parseUntils (t : String) : Option (List Int) :=
  if !t.startsWith "U:" then none else
  let body := (t.drop 2).toString
  if body == "-" then some [] else (body.splitOn ",").mapM (·.toInt?)

/-- Judge one batch source: the spec (or exactly the recorded deviations) on what its collector received, then the tie. -/
def judgeSrc (recTime : Bool) (zero : Int) (status : Status) (recorded : List Batch) (recGroups : List (Bytes × List Bytes))
    (so : SrcObs) (i : Nat) : Except Verdict (List String × List String × List Int) := do
  let items := so.items
  let o : BObs := { status := status, closes := so.closes, closedAt := so.closedAt, items := items.map (·.1), groups := items.map (·.2.1) }
  let nonUTC := items.any (·.2.2.2.2)
  let (keys, expected) := batchDevs recorded
  let expGroups := if keys.contains "batch-empty-skipped" then devGroups recorded recGroups else recGroups
  match specBatch recTime recorded recGroups o with
  | none => pure ()
  | some clause =>
    if keys.isEmpty then
      throw (.specfail clause s!"source {i}: status={statusStr status} batches={items.length}/{recorded.length} first-diff={firstDiff recorded o.items}")
    match specBatch recTime expected expGroups o with
    | some c2 => throw (.specfail c2 s!"source {i}: deviations {keys} do not explain: status={statusStr status} batches={items.length}/{expected.length} first-diff={firstDiff expected o.items}")
    | none => pure ()
  let m := batchRoundTrip true zero recTime recorded
  let obsItems : List BOut := items.map (fun it => ⟨it.1, it.2.2.1.getD 0⟩)
  let mItems := if so.untilKnown then m.items else m.items.map (fun x => { x with until_ := 0 })
  let metaOK := items.all (fun it =>
    (it.2.2.1.isSome || !so.untilKnown) && it.2.2.2.1 == it.1.points.length &&
    it.2.1 == (groupID it.1.name it.1.byName it.1.tags, it.1.tags.map (·.1)))
  if !(m.status == status && mItems == obsItems && m.closes == so.closes && m.closedAt == so.closedAt && metaOK && !nonUTC) then
    throw (.mismatch s!"source {i}: model batches={m.items.length} observed status={statusStr status} batches={items.length} first-diff={firstDiff mItems obsItems} meta={metaOK} nonUTC={nonUTC}")
  let first := (readBatches recorded).head?.bind (fun b => b.points.head?.map (·.time))
  let mut brs : List String := shiftBr recTime zero first
  if recorded.length ≥ 2 then brs := addBr brs "many-batches"
  if (recorded.map (fun b => b.tags)).eraseDups.length ≥ 2 then brs := addBr brs "many-groups"
  if recorded.any (·.byName) then brs := addBr brs "by-name"
  if recorded.any (fun b => b.tags.isEmpty) then brs := addBr brs "no-tags"
  if recorded.any (fun b => b.points.any (fun p => p.tags != b.tags && !p.tags.isEmpty)) then brs := addBr brs "point-extra-tags"
  if recorded.any (fun b => b.points.any (fun p => b.tags.any (fun kv => match p.tags.lookup kv.1 with | some v => v != kv.2 | none => false))) then brs := addBr brs "point-group-tag-differs"
  if recorded.any (fun b => b.points.any (fun p => p.time % 1000000000 == 0)) then brs := addBr brs "whole-second-times"
  if recorded.any (fun b => b.points.any (fun p => p.time % 1000 != 0)) then brs := addBr brs "sub-microsecond-times"
  if recorded.any (fun b => !b.wfTmax) then brs := addBr brs "tmax-before-last-point"
  if recorded.any (fun b => b.points.any (fun p => p.time == b.tmax)) then brs := addBr brs "tmax-equals-last"
  for k in [0, 1, 2, 3] do
    if recorded.any (fun b => b.points.any (fun p => p.fields.any (fun kv => kv.2.kind == k))) then brs := addBr brs s!"kind{k}"
  if recorded.any (fun b => b.points.any (fun p => p.fields.any (fun kv => match kv.2 with | .int v => big53 v | _ => false))) then brs := addBr brs "int-beyond-2^53"
  let strict := (specBatch recTime recorded recGroups o).isNone
  pure (if strict then [] else keys, brs, m.items.map (·.until_))

def sortInts (l : List Int) : List Int := l.mergeSort (fun a b => decide (a ≤ b))

def judgeBatch (st : St) (obs : List String) : Verdict := Id.run do
  let sources : List (List Batch × List (Bytes × List Bytes)) :=
    (st.srcsDone.reverse ++ [(st.bs, st.bgroups)]).map (fun sg => (sg.1.reverse, sg.2.reverse))
  let some status := obs.head?.bind parseStatus | return .badop s!"status {obs.head?}"
  let some nsrc := (obs.getD 1 "").toNat? | return .badop "nsrc"
  let some (srcObs, tail) := parseSrcs (obs.drop 2) | return .badop "batch sources"
  let some untils := (tail.head?.bind parseUntils) | return .badop "untils"
  -- the archive must give back as many sources as were recorded (the task's batch collectors are matched to them by
  -- position; `ReplayBatchFromIO` refuses any other number and nothing is replayed)
  if nsrc != sources.length || srcObs.length != sources.length then
    if sources.any (fun sg => !sg.1.isEmpty) then
      return .specfail "same-number-of-sources" s!"the recording was written with {sources.length} batch sources ({sources.map (fun sg => sg.1.length)} batches), the replay found {nsrc}: recorded batches are not delivered to their source"
    return .mismatch s!"sources: recorded {sources.length} (all without batches), replay found {nsrc}"
  let mut keys : List String := []
  let mut brs : List String := ["batch"] ++ (if st.file then ["file-brpl"] else ["io-buffer"])
  let mut mUntils : List Int := []
  let mut i := 0
  for (sg, so) in sources.zip srcObs do
    match judgeSrc st.recTime st.zero status sg.1 sg.2 so i with
    | .error v => return v
    | .ok (k, b, u) =>
      for x in k do keys := addBr keys x
      for x in b do brs := addBr brs x
      mUntils := mUntils ++ u
    i := i + 1
  if sortInts mUntils != sortInts untils then
    return .mismatch s!"clock waits: model {sortInts mUntils} observed {sortInts untils}"
  if sources.length ≥ 2 then brs := addBr brs "many-sources"
  if sources.any (fun sg => sg.1.isEmpty) then brs := addBr brs "source-without-batches"
  for k in keys do brs := addBr brs s!"dev:{k}"
  match keys with
  | key :: _ => return .known key s!"deviations {keys}; sources={sources.length}"
  | [] =>
    let nt := sources.any (fun sg => sg.1.any (fun b => b.points.length ≥ 2))
    return .ok nt brs


/-! ### Live batch replays (`ReplayBatchFromChan` fed from channels) -/

/-- `Z` (zero `time.Time`) in the batch-time position of an item token: replaced by 0, reported as `hasT = false`. -/
def splitZ (t : String) : String × Bool :=
  let parts := t.splitOn "|"
  if parts.getD 2 "" == "Z" then ("|".intercalate (parts.take 2 ++ ["0"] ++ parts.drop 3), false) else (t, true)

structure LSrcObs where
  closes : Nat
  closedAt : Nat
  items : List ((Batch × (Bytes × List Bytes) × Option Int × Nat × Bool) × Bool)
  untilKnown : Bool

partial def parseLSrcs : List String → Option (List LSrcObs × List String)
  | "S" :: c :: a :: n :: rest => do
    let c ← c.toNat?; let a ← a.toNat?; let n ← n.toNat?
    if rest.length < n then none
    let toks := rest.take n
    let known := toks.all (fun t => (t.splitOn "|").getD 7 "" != "*")
    let items ← (toks.map (fun t => t.replace "|*|" "|-|")).mapM (fun t => do
      let (t', hasT) := splitZ t
      pure ((← parseBItem t'), hasT))
    let (more, tail) ← parseLSrcs (rest.drop n)
    pure (⟨c, a, items, known⟩ :: more, tail)
  | rest => some ([], rest)

/-- Judge one source of a live batch replay: the spec on what its collector received (no deviation clause: nothing
was recorded), then the tie. -/
def judgeLiveSrc (recTime : Bool) (zero : Int) (status : Status) (recorded : List LBatch) (recGroups : List (Bytes × List Bytes))
    (so : LSrcObs) (i : Nat) : Except Verdict (List String × List Int) := do
  let items := so.items
  let o : LObs := { status := status, closes := so.closes, closedAt := so.closedAt,
                    items := items.map (fun it => (it.1.1, it.2)), groups := items.map (·.1.2.1) }
  let nonUTC := items.any (·.1.2.2.2.2)
  match specBatchLive recTime recorded recGroups o with
  | none => pure ()
  | some clause =>
    throw (.specfail clause s!"live source {i}: status={statusStr status} batches={items.length}/{recorded.length} first-diff={firstDiff (recorded.map (·.b)) (o.items.map (·.1))}")
  let m := liveBatchReplay true zero recTime recorded
  let obsItems : List LOut := items.map (fun it => ⟨it.1.1, it.2, it.1.2.2.1⟩)
  let mItems := if so.untilKnown then m.items else m.items.map (fun x => { x with until_ := none })
  let metaOK := items.all (fun it =>
    it.1.2.2.2.1 == it.1.1.points.length &&
    it.1.2.1 == (groupID it.1.1.name it.1.1.byName it.1.1.tags, it.1.1.tags.map (·.1)))
  if !(m.status == status && mItems == obsItems && m.closes == so.closes && m.closedAt == so.closedAt && metaOK && !nonUTC) then
    throw (.mismatch s!"live source {i}: model batches={m.items.length} observed status={statusStr status} batches={items.length} first-diff={firstDiff mItems obsItems} meta={metaOK} nonUTC={nonUTC}")
  let firstT := (recorded.find? (fun lb => !lb.b.points.isEmpty || lb.hasT)).map (fun lb => if lb.b.points.isEmpty then lb.b.tmax else lb.b.firstTime)
  let mut brs : List String := shiftBr recTime zero firstT
  let isE := fun (lb : LBatch) => lb.b.points.isEmpty
  if recorded.length ≥ 2 then brs := addBr brs "many-batches"
  if recorded.any (fun lb => isE lb && lb.hasT) then brs := addBr brs "live-empty-batch-with-time"
  if recorded.any (fun lb => isE lb && !lb.hasT) then brs := addBr brs "live-empty-batch-zero-time"
  if recorded.any (fun lb => !isE lb && !lb.hasT) then brs := addBr brs "live-batch-zero-time"
  match recorded with
  | lb :: _ =>
    if isE lb && lb.hasT then brs := addBr brs "live-first-is-empty-with-time"
    if isE lb && !lb.hasT then brs := addBr brs "live-first-is-empty-zero-time"
  | [] => pure ()
  if (recorded.zip (recorded.drop 1)).any (fun ab => !isE ab.1 && isE ab.2 && ab.2.hasT) then brs := addBr brs "live-empty-after-points"
  if (recorded.zip (recorded.drop 1)).any (fun ab => !isE ab.1 && isE ab.2 && !ab.2.hasT) then brs := addBr brs "live-empty-inherits-batch-time"
  if recorded.any (fun lb => !lb.b.wfTmax) then brs := addBr brs "tmax-before-last-point"
  if recorded.any (fun lb => lb.b.byName) then brs := addBr brs "by-name"
  if (recorded.map (fun lb => lb.b.tags)).eraseDups.length ≥ 2 then brs := addBr brs "many-groups"
  if recorded.any (fun lb => lb.b.points.any (fun p => p.tags.isEmpty) && !lb.b.tags.isEmpty) then brs := addBr brs "live-tagless-point-kept"
  for k in [0, 1, 2, 3] do
    if recorded.any (fun lb => lb.b.points.any (fun p => p.fields.any (fun kv => kv.2.kind == k))) then brs := addBr brs s!"kind{k}"
  if recorded.any (fun lb => lb.b.points.any (fun p => p.fields.any (fun kv => match kv.2 with | .int v => big53 v | _ => false))) then brs := addBr brs "int-beyond-2^53"
  pure (brs, m.items.filterMap (·.until_))

def judgeLiveBatch (st : St) (srcs : List (List LBatch × List (Bytes × List Bytes))) (obs : List String) : Verdict := Id.run do
  let some status := obs.head?.bind parseStatus | return .badop s!"status {obs.head?}"
  let some nsrc := (obs.getD 1 "").toNat? | return .badop "nsrc"
  let some (srcObs, tail) := parseLSrcs (obs.drop 2) | return .badop "live batch sources"
  let some untils := (tail.head?.bind parseUntils) | return .badop "untils"
  if nsrc != srcs.length || srcObs.length != srcs.length then return .mismatch s!"live sources: fed {srcs.length}, observed {nsrc}"
  let mut brs : List String := ["batch", "live-chan"]
  let mut mUntils : List Int := []
  let mut i := 0
  for (sg, so) in srcs.zip srcObs do
    match judgeLiveSrc st.recTime st.zero status sg.1 sg.2 so i with
    | .error v => return v
    | .ok (b, u) =>
      for x in b do brs := addBr brs x
      mUntils := mUntils ++ u
    i := i + 1
  if sortInts mUntils != sortInts untils then
    return .mismatch s!"clock waits: model {sortInts mUntils} observed {sortInts untils}"
  if srcs.length ≥ 2 then brs := addBr brs "many-sources"
  if srcs.any (fun sg => sg.1.isEmpty) then brs := addBr brs "source-without-batches"
  let nt := srcs.any (fun sg => sg.1.length ≥ 2 && sg.1.any (fun lb => lb.b.points.isEmpty))
  return .ok nt brs

/-! ### The line-protocol parser: real `models.ParsePointsWithPrecision` = the model's `parseLine` on a given line -/

def parseOracle (t : String) : Option (List (Nat × Bytes)) :=
  if t == "-" then some [] else
  (t.splitOn ",").mapM (fun e => match e.splitOn "~" with
    | [bits, txt] => do pure ((← hexNat bits), (← bytesTok txt))
    | _ => none)

def lineResultStr : LineResult → String
  | .point n t f tm => s!"point name={escBytes n} tags={t.length} fields={f.length} time={tm}"
  | .nopoint => "nopoint"
  | .error => "error"

/-- One `lp <precision> <line> <float oracle> => point <name> <tags> <fields> <time> | nopoint | error | multi`. -/
def judgeLP (prec line orc : String) (obs : List String) : Except Verdict (List String) := do
  let some l := bytesTok line | throw (.badop "lp line")
  let some tbl := parseOracle orc | throw (.badop "lp oracle")
  let F := mkCodec tbl
  let m := parseLine F (multOf prec) l
  let some o := (match obs with
    | ["point", name, tags, fields, time] => do
      let (fs, _) ← parseFields fields
      pure (LineResult.point (← bytesTok name) (← parseTags tags) fs (← time.toInt?))
    | ["nopoint"] => some .nopoint
    | ["error"] => some .error
    | _ => none) | throw (.badop s!"lp observation {obs}")
  if m != o then throw (.mismatch s!"line-protocol parser: line {line}: model {lineResultStr m} real {lineResultStr o}")
  let mut brs : List String := []
  match m with
  | .point n t f _ =>
    brs := ["lp-point"]
    if strNeedsEsc n then brs := addBr brs "lp-name-escapes"
    if n.head? == some COMMA || n.head? == some SP then brs := addBr brs "lp-name-escape-first"
    if n.getLast? == some COMMA || n.getLast? == some SP then brs := addBr brs "lp-name-escape-last"
    if t.any (fun kv => strNeedsEsc kv.1) then brs := addBr brs "lp-tagkey-escapes"
    if t.any (fun kv => strNeedsEsc kv.2) then brs := addBr brs "lp-tagval-escapes"
    if t.any (fun kv => kv.2.getLast? == some EQ || kv.2.getLast? == some COMMA || kv.2.getLast? == some SP) then brs := addBr brs "lp-tagval-escape-last"
    if f.any (fun kv => strNeedsEsc kv.1) then brs := addBr brs "lp-fieldkey-escapes"
    if f.any (fun kv => kv.1.getLast? == some DQ || kv.1.head? == some DQ) then brs := addBr brs "lp-fieldkey-quote-edge"
    for k in [0, 1, 2, 3] do
      if f.any (fun kv => kv.2.kind == k) then brs := addBr brs s!"lp-kind{k}"
    if f.any (fun kv => match kv.2 with | .str s => s.any (fun c => c == DQ || c == BS) | _ => false) then brs := addBr brs "lp-string-escapes"
    if f.any (fun kv => match kv.2 with | .str s => s.getLast? == some BS | _ => false) then brs := addBr brs "lp-string-ends-in-backslash"
    if f.any (fun kv => kv.2.hasNL) then brs := addBr brs "lp-string-with-line-feed"
    if f.length ≥ 2 then brs := addBr brs "lp-many-fields"
    if t.length ≥ 2 then brs := addBr brs "lp-many-tags"
  | .nopoint => brs := ["lp-nopoint"]
  | .error => brs := ["lp-error"]
  pure brs

def judge (_id : String) (lines : Array String) : Verdict := Id.run do
  let mut st : St := {}
  for l in lines do
    let (opT, obs) := splitObs (tokens l)
    match opT with
    | ["stream", r, z, p] =>
      let some z := z.toInt? | return .badop l
      st := { st with mode := "stream", recTime := r == "1", zero := z, prec := p }
    | ["batch", r, z] =>
      let some z := z.toInt? | return .badop l
      st := { st with mode := "batch", recTime := r == "1", zero := z }
    | ["stream", r, z, p, "live"] =>
      let some z := z.toInt? | return .badop l
      if p != "n" then return .badop s!"a live replay has no precision: {l}"
      st := { st with mode := "stream", recTime := r == "1", zero := z, prec := p, live := true }
    | ["batch", r, z, "live"] =>
      let some z := z.toInt? | return .badop l
      st := { st with mode := "batch", recTime := r == "1", zero := z, live := true }
    | ["lp", prec, line, orc] =>
      match judgeLP prec line orc obs with
      | .error v => return v
      | .ok b =>
        let mut bb := st.lpBrs
        for x in b do bb := addBr bb x
        st := { st with mode := "lp", lpN := st.lpN + 1, lpBrs := bb }
    | ["lpend"] =>
      return .ok (st.lpN ≥ 2 && st.lpBrs.contains "lp-point") (["lp-parser"] ++ st.lpBrs)
    | ["stream", r, z, p, "fault", j, off] =>
      let some z := z.toInt? | return .badop l
      let some j := j.toNat? | return .badop l
      let some off := off.toNat? | return .badop l
      if p != "n" then return .badop s!"fault cases are recorded with precision n: {l}"
      st := { st with mode := "stream", recTime := r == "1", zero := z, prec := p, fault := some (j, off) }
    | ["cut"] =>
      -- end of the FAILED first recording: what its sink took must be a prefix of what was recorded into it (spec), and
      -- exactly what the model's writer leaves in a sink with that much room (tie)
      let some (j, off) := st.fault | return .badop "cut outside a fault case"
      let some acc := obs.head?.bind bytesTok | return .badop s!"cut observation {l}"
      let F := mkCodec st.oracle
      let fsA := st.pts.reverse.map (frameOf F 1)
      let whole := writeFrames fsA
      if !(acc.isPrefixOf whole) then
        return .specfail "failed-recording-holds-a-prefix" s!"the failed recording holds {acc.length} bytes that are not a prefix of the {whole.length} bytes recorded into it, first-diff {firstDiff acc whole}"
      let k := (writeFrames (fsA.take j)).length + off
      let m := (recordInto ⟨[], some k⟩ fsA).out
      if m != acc then return .mismatch s!"failing writer: model sink holds {m.length} bytes, real sink {acc.length} (room {k})"
      let bounds := (List.range (fsA.length + 1)).map (fun i => (writeFrames (fsA.take i)).length)
      let hdr := (List.range fsA.length).any (fun i => match fsA[i]? with
        | some f => (writeFrames (fsA.take i)).length < k && k < (writeFrames (fsA.take i)).length + f.db.length + f.rp.length + 2
        | none => false)
      let cls := if k == 0 then "fault-before-first-record" else if k ≥ whole.length then "fault-never-reached"
        else if bounds.contains k then "fault-between-records" else if bounds.contains (k + 1) then "fault-before-last-LF"
        else if hdr then "fault-inside-db-rp" else "fault-inside-line"
      let piled := fsA.length - (bounds.filter (fun b => b ≤ k)).length + 1
      st := { st with pts := [], pgroups := [], wire := [], fault := none,
                      faultBrs := ["after-failed-recording", cls] ++ (if k < whole.length && piled ≥ 2 then ["records-piled-up-behind-fault"] else []) }
    | ["stream", r, z, p, "file"] =>
      let some z := z.toInt? | return .badop l
      if p != "n" then return .badop s!"recording files are written with precision n: {l}"
      st := { st with mode := "stream", recTime := r == "1", zero := z, prec := p, file := true }
    | ["batch", r, z, "file"] =>
      let some z := z.toInt? | return .badop l
      st := { st with mode := "batch", recTime := r == "1", zero := z, file := true }
    | ["pt", db, rp, name, tags, fields, time] =>
      let some p := (do
        let (fs, orc) ← parseFields fields
        let (tm, _) ← parseTime time
        let pt : SPoint := ⟨← bytesTok db, ← bytesTok rp, ← bytesTok name, ← parseTags tags, fs, tm⟩
        pure (pt, orc)) | return .badop l
      if !(sortedKeys p.1.tags && sortedKeys p.1.fields) then return .badop s!"unsorted or duplicate keys: {l}"
      let some (g, w) := (match obs with
        | [g, d] => do let (bn, dn) ← parseDimTok d; pure (((← bytesTok g), bn, dn), none)
        | [g, d, w] => do let (bn, dn) ← parseDimTok d; pure (((← bytesTok g), bn, dn), some (← bytesTok w))
        | _ => none) | return .badop s!"pt observation {l}"
      st := { st with pts := p.1 :: st.pts, pgroups := g :: st.pgroups, oracle := st.oracle ++ p.2, wire := w :: st.wire }
    | ["b", name, bn, tmax, tags, pts] =>
      let hasT := tmax != "Z"
      if !hasT && !st.live then return .badop s!"a zero batch time is generated for live replays only: {l}"
      let some b := (do
        let (tm, _) ← parseTime (if hasT then tmax else "0")
        let (ps, _) ← parseBPoints pts
        let b : Batch := ⟨← bytesTok name, bn == "1", tm, ← parseTags tags, ps⟩
        pure b) | return .badop l
      if !(sortedKeys b.tags && b.points.all (fun p => sortedKeys p.tags && sortedKeys p.fields)) then return .badop s!"unsorted or duplicate keys: {l}"
      let some g := (match obs with
        | [g, d] => do pure ((← bytesTok g), (← parseNames d))
        | _ => none) | return .badop s!"b observation {l}"
      st := { st with bs := b :: st.bs, bgroups := g :: st.bgroups, lbs := ⟨b, hasT⟩ :: st.lbs }
    | ["src"] =>
      st := { st with srcsDone := (st.bs, st.bgroups) :: st.srcsDone, bs := [], bgroups := [],
                      lsrcsDone := st.lbs :: st.lsrcsDone, lbs := [] }
    | ["replay"] =>
      if obs.head? == some "recerr" then return .badop s!"the recorder reported an error: {l}"
      if obs.head? == some "fileerr" then return .specfail "replay-succeeds" "the recording file could not be written or opened by the service's writers/readers"
      if obs.head? == some "hang" then return .specfail "ends-after-last" "the replay did not finish (hang)"
      if obs.head? == some "panic" then return .specfail "replay-succeeds" "the replay panicked"
      if st.fault.isSome then return .badop "fault case without cut"
      if st.mode == "batch" && st.live then
        let ls := (st.lsrcsDone.reverse ++ [st.lbs]).map (·.reverse)
        let gs := (st.srcsDone.reverse ++ [(st.bs, st.bgroups)]).map (·.2.reverse)
        return judgeLiveBatch st (ls.zip gs) obs
      return (if st.mode == "stream" then judgeStream st obs else judgeBatch st obs)
    | _ => return .badop l
  return .badop "case without replay"

end Kap.C18.Drv

def main : IO Unit := Kap.driverMain Kap.C18.Drv.judge
