/-
Driver for C19: reads the cases produced by the Go harness (which ran the REAL agent.WriteMessage/ReadMessage and
a REAL udf.Server against an echoing agent.Agent), replays each on the model, and judges
  * the spec (Kap/Spec/C19.lean) on the OBSERVED output — SPECFAIL, checked first;
  * observed = model — MISMATCH.
Token formats: see harness/c19/tokens.go.
-/
import Kap.Spec.C19
open Kap Kap.C19

namespace Kap.C19.Drv

/-! ### parsing -/

def hexNib (c : Char) : Option Nat := hexVal c

def parseHexChars : List Char → List Nat → Option (List Nat)
  | [], acc => some acc.reverse
  | a :: b :: rest, acc =>
    match hexNib a, hexNib b with
    | some x, some y => parseHexChars rest ((x * 16 + y) :: acc)
    | _, _ => none
  | _, _ => none

def parseHex (s : String) : Option (List Nat) := if s == "!" then some [] else parseHexChars s.toList []

def parseHexNat (s : String) : Option Nat :=
  s.toList.foldl (fun acc c => match acc, hexNib c with | some a, some x => some (a * 16 + x) | _, _ => none) (some 0)

def splitList (s sep : String) : List String := if s == "!" then [] else s.splitOn sep

/-- token → the bytes of the Go string it denotes -/
def unescB (tok : String) : Option Str := (unescRaw tok).map (fun bs => bs.map (·.toNat))
/-- bytes → token (same alphabet as `kit.Esc`) -/
def escB (s : Str) : String := if s.isEmpty then "%" else s.foldl (fun acc b => acc ++ escByte (UInt8.ofNat b)) ""

def parseBool (s : String) : Option Bool := if s == "1" then some true else if s == "0" then some false else none

def parseKV {α : Type} (val : String → Option α) (e : String) : Option (Str × α) :=
  match e.splitOn "=" with
  | [k, v] => do pure (← unescB k, ← val v)
  | _ => none

def parseMap {α : Type} (val : String → Option α) (s : String) : Option (GoMap α) := (splitList s ",").mapM (parseKV val)

def parseTags (s : String) : Option Tags := parseMap unescB s
def parseDims (s : String) : Option (List Str) := (splitList s ",").mapM unescB

def parseFV (s : String) : Option FV :=
  let rest := (s.drop 1).toString
  match s.front with
  | 's' => (unescB rest).map .str
  | 'f' => (parseHexNat rest).map .float
  | 'i' => rest.toInt?.map .int
  | 'b' => (parseBool rest).map .bool
  | _ => none

def parseFields (s : String) : Option Fields := parseMap parseFV s

def parseBP (s : String) : Option BP :=
  match s.splitOn ";" with
  | [t, f, tm] => do pure { tags := ← parseTags t, fields := ← parseFields f, time := ← tm.toInt? }
  | _ => none

def parseBPs (s : String) : Option (List BP) := (splitList s "~").mapM parseBP

/-- input point `P|name|db|rp|dims|byName|tags|fields|time`, built by `edge.NewPointMessage`. -/
def parseInPoint (tok : String) : Option Point :=
  match tok.splitOn "|" with
  | ["P", n, d, r, dims, bn, tags, fields, tm] => do
    pure (newPoint (← unescB n) (← unescB d) (← unescB r) (← parseBool bn) (← parseDims dims) (← parseFields fields)
      (← parseTags tags) (← tm.toInt?))
  | _ => none

/-- input batch `B|name|byName|tags|tmax|sizehint|pts|setdims`. -/
def parseInBatch (tok : String) : Option (Begin × List BP × Bool) :=
  match tok.splitOn "|" with
  | ["B", n, bn, tags, tmax, sh, pts, sd] => do
    let tags ← parseTags tags
    let bn ← parseBool bn
    let b := newBegin (← unescB n) tags bn (← tmax.toInt?) (← sh.toInt?)
    let pts ← parseBPs pts
    if sd == "*" then pure (b, pts, false)
    else pure (b.setTagsAndDimensions tags bn (← parseDims sd), pts, true)
  | _ => none

/-- observed output message. -/
def parseOut (tok : String) : Option (Data × Int) :=
  match tok.splitOn "|" with
  | ["P", n, d, r, g, dims, bn, tags, fields, tm] => do
    pure (.point { name := ← unescB n, db := ← unescB d, rp := ← unescB r, group := ← unescB g, dims := ← parseDims dims,
                   byName := ← parseBool bn, tags := ← parseTags tags, fields := ← parseFields fields, time := ← tm.toInt? }, 0)
  | ["B", n, g, dims, bn, tags, tmax, sh, pts] => do
    let sh ← sh.toInt?
    pure (.batch { name := ← unescB n, group := ← unescB g, dims := ← parseDims dims, byName := ← parseBool bn,
                   tags := ← parseTags tags, tmax := ← tmax.toInt?, sizeHint := sh } (← parseBPs pts), sh)
  | _ => none

def renderDims (d : List Str) : String := if d.isEmpty then "!" else ",".intercalate (d.map escB)

/-! ### the harness's chunking (harness/c19/c19.go splitChunks) -/

def parsePattern (s : String) : Option (List Nat) := do
  let p ← (splitList s ",").mapM (·.toNat?)
  pure (if p.isEmpty then [2 ^ 30] else p)

/-- `(data.take k, data.drop k)` in one pass. -/
def splitAtRev : Nat → List Nat → List Nat → List Nat × List Nat
  | 0, data, acc => (acc.reverse, data)
  | _ + 1, [], acc => (acc.reverse, [])
  | k + 1, b :: data, acc => splitAtRev k data (b :: acc)

def splitChunksGo (pat : Array Nat) : (fuel : Nat) → Nat → List Nat → List (List Nat) → Chunks
  | 0, _, _, acc => acc.reverse
  | fuel + 1, i, data, acc =>
    if data.isEmpty then acc.reverse else
    let (c, rest) := splitAtRev (pat[i % pat.size]!) data []
    splitChunksGo pat fuel (i + 1) rest (c :: acc)

def splitChunks (data : List Nat) (pat : List Nat) : Chunks :=
  let pat := if pat.all (· == 0) then pat ++ [1] else pat
  splitChunksGo pat.toArray (data.length * (pat.length + 1) + 1) 0 data []

/-! ### state -/

structure St where
  -- frame cases
  written : Array String := #[]                 -- descriptions of the messages written
  frames : Array (List Nat × List Nat) := #[]   -- observed (varint, payload) of each WriteMessage
  -- echo cases
  sess : Session := {}
  sent : Array Data := #[]                      -- data messages sent while the model session was not aborted
  modelOut : Array EdgeMsg := #[]
  chunked : Bool := false
  taskBefore : Option (List Data) := none   -- task cases: what the sink in front of the UDF recorded
  branches : List String := []
  nontrivial : Bool := false
  structural : Option String := none   -- model ≠ implementation in a way the spec does not care about (reported last)

def addBr (st : St) (b : String) : St := if st.branches.contains b then st else { st with branches := b :: st.branches }
def addBrs (st : St) (bs : List String) : St := bs.foldl addBr st

/-- split `a:b:rest` at the first two colons. -/
def split3 (s : String) : Option (String × String × String) :=
  match s.splitOn ":" with
  | a :: b :: rest => some (a, b, ":".intercalate rest)
  | _ => none

def fieldBranches (f : Fields) : List String :=
  (if f.isEmpty then ["fields-empty"] else []) ++
  (if (strsOf f).isEmpty then [] else ["typed-string"]) ++ (if (floatsOf f).isEmpty then [] else ["typed-float"]) ++
  (if (intsOf f).isEmpty then [] else ["typed-int"]) ++ (if (boolsOf f).isEmpty then [] else ["typed-bool"])

def groupBranch (byName : Bool) (dims : List Str) : String :=
  if dims.isEmpty then (if byName then "group-name-only" else "group-nil") else (if byName then "group-name+dims" else "group-dims")

def typesIn (f : Fields) : Nat :=
  [(strsOf f).isEmpty, (floatsOf f).isEmpty, (intsOf f).isEmpty, (boolsOf f).isEmpty].count false

/-! ### frame cases -/

def errKind : RdErr → String
  | .eof => "eof"
  | _ => "err"

/-- Every piece of a wire token (split at the separators) that is a string field is `%`-escaped; the other pieces
(numbers, hex) are ASCII. So "all string fields are valid UTF-8" = "all pieces are". -/
def wireStringsValid (tok : String) : Bool :=
  let pieces := (tok.splitOn "|").flatMap (fun a => (a.splitOn ",").flatMap (fun b => b.splitOn "="))
  pieces.all (fun pc => match unescB pc with | some b => validUTF8 b | none => true)

/-- `WriteMessage` used another number of `Write` calls than the model's two: what the property cares about is the
byte stream - re-frame the bytes with the model's reader, go on judging (the read-back clauses decide whether the
stream is still right) and report the difference in call structure as model ≠ implementation at the end. -/
def judgeWriteOther (st : St) (tok w h : String) (valid : Bool) (l : String) : Except Verdict St :=
    if !valid then .error (.mismatch "proto.Marshal accepted a message the model's validUTF8 rejects") else
    match parseHex h with
    | some bytes =>
      match readUvarint [bytes] with
      | .ok (size, rest) =>
        let p := rest.flatten
        let v := bytes.take (bytes.length - p.length)
        if p.length != size then
          .error (.specfail "framing-roundtrip" s!"WriteMessage wrote {bytes.length} bytes that are not one frame: length prefix {size}, {p.length} bytes follow")
        else
          .ok { st with written := st.written.push tok, frames := st.frames.push (v, p),
                        structural := some s!"WriteMessage: model makes 2 Write calls (varint, payload), observed {w}" }
      | .error _ => .error (.specfail "framing-roundtrip" s!"WriteMessage wrote bytes that do not start with a length prefix: {h}")
    | none => .error (.badop l)

def judgeWrite (st : St) (tok : String) (obs : List String) (l : String) : Except Verdict St :=
  let valid := wireStringsValid tok
  match obs with
  | [v, p] =>
    if v.startsWith "writes:" then judgeWriteOther st tok v p valid l else
    if !valid then .error (.mismatch "proto.Marshal accepted a message the model's validUTF8 rejects") else
    match parseHex v, parseHex p with
    | some v, some p =>
      match writeMessage p with
      | some bytes =>
        if bytes != v ++ p then .error (.mismatch s!"WriteMessage: model writes varint {putUvarint p.length}, observed {v}")
        else
          let st := addBr st s!"varint-{v.length}"
          let st := if p.isEmpty then addBr st "payload-empty" else st
          .ok { st with written := st.written.push tok, frames := st.frames.push (v, p) }
      | none => .error (.mismatch "WriteMessage: model panics (length needs more than 5 varint bytes)")
    | _, _ => .error (.badop l)
  | _ =>
    -- WriteMessage failed: the model says so exactly when a string field is not valid UTF-8 (finding invalid-utf8;
    -- nothing was written, the stream stays well-formed)
    if !valid then .ok (addBr st "marshal-rejects-invalid-utf8")
    else .error (.specfail "framing-roundtrip" s!"WriteMessage of a well-formed message failed: {obs}")

def judgeRead (st : St) (pat ewd cut : String) (obs : List String) (l : String) : Except Verdict St := do
  let some pat := parsePattern pat | .error (.badop l)
  let ewd := ewd == "1"
  let full := st.frames.toList.flatMap (fun f => f.1 ++ f.2)
  let cutN : Option Nat := if cut == "-" then none else cut.toNat?
  let stream := match cutN with | some c => full.take c | none => full
  let isCut := stream.length < full.length
  -- observed
  let mut oks : List (Nat × String) := []
  let mut final : Option (String × Nat) := none
  for o in obs do
    match split3 o with
    | some ("ok", c, d) => match c.toNat? with | some c => oks := oks ++ [(c, d)] | none => .error (.badop l)
    | _ =>
      match o.splitOn ":" with
      | [k, c] => match c.toNat? with | some c => final := some (k, c) | none => .error (.badop l)
      | _ => if o == "panic" then .error (.specfail "no-panic" s!"ReadMessage panicked: {l}") else .error (.badop l)
  let cleanEnd := match final with | some ("eof", _) => true | _ => false
  let readDescs := oks.map (·.2)
  -- the property on the observed output
  if !isCut then
    if !framingIdentity st.written.toList readDescs cleanEnd then
      .error (.specfail "framing-roundtrip"
        s!"{st.written.size} messages written, {readDescs.length} read back{if readDescs == st.written.toList then "" else " (or not the same)"}, end={final.map (·.1)} under reads {pat} eofWithData={ewd}")
  else
    let lens := st.frames.toList.map (fun f => f.1.length + f.2.length)
    if !framingTruncated st.written.toList readDescs lens stream.length cleanEnd then
      .error (.specfail "framing-truncated"
        s!"stream cut at {stream.length} of {full.length}: read {readDescs.length} messages, end={final.map (·.1)}; whole frames {(wholeFrames lens stream.length).1}")
  -- the model
  let chunks := splitChunks stream pat
  let (ms, e) := readAllWith srcDataFirst ewd (totalBytes chunks + 1) chunks
  let total := stream.length
  let mConsumed := ms.map (fun m => total - totalBytes m.2)
  if mConsumed != oks.map (·.1) then
    .error (.mismatch s!"ReadMessage consumed-after-each-message: model {mConsumed} observed {oks.map (·.1)} (reads {pat}, eofWithData={ewd}, cut={cut})")
  if (ms.map (·.1)) != (st.frames.toList.take ms.length).map (·.2) then
    .error (.mismatch "model payloads differ from the written payloads")
  match final with
  | some (k, _) => if k != errKind e then .error (.mismatch s!"end of stream: model {errKind e} observed {k} (reads {pat}, eofWithData={ewd}, cut={cut})")
  | none => .error (.mismatch s!"end of stream: model {errKind e}, the implementation kept reading")
  -- branches
  let mut st := st
  st := addBr st (match e with | .eof => "end-clean" | .unexpectedEOF => "end-in-varint" | .overflow => "end-overflow" | .bodyEOF => "end-in-body" | .fuel => "end-fuel")
  if ewd then st := addBr st "eof-with-data"
  if chunks.any (·.isEmpty) then st := addBr st "empty-read"
  -- where do chunk boundaries fall?
  let bounds := (chunks.foldl (fun (acc : List Nat × Nat) c => (if c.isEmpty then acc.1 else (acc.2 + c.length) :: acc.1, acc.2 + c.length)) ([], 0)).1
  let mut off := 0
  let mut inside := false
  for f in st.frames do
    let v := f.1.length
    let p := f.2.length
    if bounds.any (fun b => off < b && b < off + v) then st := addBr st "split-in-varint"
    if bounds.any (fun b => off + v < b && b < off + v + p) then st := addBr st "split-in-body"; inside := true
    if bounds.any (fun b => b == off + v) && p > 0 then st := addBr st "split-varint|body"
    off := off + v + p
  if chunks.length == 1 then st := addBr st "one-read"
  if isCut then st := addBr st "truncated"
  if st.frames.size ≥ 2 && (inside || st.branches.contains "split-in-varint") then st := { st with nontrivial := true }
  return st

/-! ### echo cases -/

def edgeToData : EdgeMsg → Option Data
  | .point p => some (.point p)
  | .buffered b pts => some (.batch b pts)
  | _ => none

def runModel (st : St) (msgs : List EdgeMsg) : Except Verdict St := do
  let mut st := st
  for m in msgs do
    match st.sess.send m with
    | none => .error (.mismatch "model: nil dereference in serverWrite/handleResponse")
    | some (s', outs) =>
      st := { st with sess := s', modelOut := st.modelOut ++ (dataOuts outs).toArray }
  return st

def ctlRequest (st : St) (r : Request) : Except Verdict (St × List Out) :=
  match st.sess.requests [r] with
  | none => .error (.mismatch "model: nil dereference")
  | some (s', outs) => .ok ({ st with sess := s', modelOut := st.modelOut ++ (dataOuts outs).toArray }, outs)

def judgeOut (st : St) (obs : List String) (l : String) : Except Verdict St := do
  match obs with
  | status :: ka :: diag :: toks =>
    let toks := if toks == ["!"] then [] else toks
    let some recvd := toks.mapM parseOut | .error (.badop l)
    let rd := recvd.map (·.1)
    let sent := st.sent.toList
    if st.sess.aborted then
      -- recorded deviation invalid-utf8: the server aborted; a prefix of what was sent before came back
      if status == "ok" then
        .error (.specfail "session-clean" "a message with a string that is not valid UTF-8 was sent and the session reports ok (deviation invalid-utf8 no longer matches)")
      if rd.length ≤ sent.length && echoIdentityUpToDims (sent.take rd.length) rd then
        .error (.known "invalid-utf8" s!"server aborted; {rd.length} of the {sent.length} messages sent before the offending one came back")
      .error (.specfail "echo-identity" "invalid UTF-8 input: what came back is not the echo of a prefix of what was sent before it")
    if status != "ok" || diag != "diag=0" then
      .error (.specfail "session-clean" s!"a well-behaved session ended with {status} {diag}")
    let dimsDev := sent.any devDims
    if !echoIdentity sent rd then
      if !(dimsDev && echoIdentityUpToDims sent rd) then
        let i := firstDiff sent rd
        .error (.specfail "echo-identity" s!"sent {sent.length} data messages, received {recvd.length}; first difference at index {i}: received {toks.getD i "nothing"}")
    -- model = observed
    let some mdl := st.modelOut.toList.mapM edgeToData | .error (.mismatch "model emitted a non-data message")
    if !echoIdentity mdl rd then
      .error (.mismatch s!"model output differs from the observed output at index {firstDiff mdl rd}")
    let mdlHints := st.modelOut.toList.map (fun m => match m with | .buffered b _ => b.sizeHint | _ => 0)
    if mdlHints != recvd.map (·.2) then .error (.mismatch s!"size hints: model {mdlHints} observed {recvd.map (·.2)}")
    let mut st := st
    -- a hand-made header whose dimension list is not the sorted list of its tag keys (no in-tree producer since fix
    -- 6ba92e9; outside `Item.WF`): judged by the characterisation echoIdentityUpToDims above, not a deviation
    if !echoIdentity sent rd then st := addBr st "synthetic-header-dims-rederived"
    if ka == "ka=1" then st := addBr st "keepalive-crossed"
    if sent.isEmpty then st := addBr st "session-empty"
    return st
  | _ => .error (.badop l)

/-! ### task cases: a real task `…@sink()@echo()@sink()`; input = what the first sink recorded -/

def dataToMsg : Data → EdgeMsg
  | .point p => .point p
  | .batch b pts => .buffered b pts

def judgeTaskAfter (st : St) (before : List Data) (toks : List String) (l : String) : Except Verdict St := do
  let toks := if toks == ["!"] then [] else toks
  let some recvd := toks.mapM parseOut | .error (.badop l)
  let rd := recvd.map (·.1)
  -- whatever a real task feeds the UDF node must come back unchanged: no allowance for re-derived dimensions (since fix
  -- 6ba92e9 no node builds a batch header whose dimension list is not the sorted list of its tag keys)
  if !echoIdentity before rd then
    let i := firstDiff before rd
    .error (.specfail "echo-identity" s!"task: {before.length} data messages entered the UDF node, {rd.length} left it; first difference at index {i}: {toks.getD i "nothing"}")
  -- the model, fed with what entered the UDF node
  let st ← runModel st (before.map dataToMsg)
  let some mdl := st.modelOut.toList.mapM edgeToData | .error (.mismatch "model emitted a non-data message")
  if !echoIdentity mdl rd then
    .error (.mismatch s!"task: model output differs from what left the UDF node at index {firstDiff mdl rd}")
  let mut st := st
  for d in before do
    match d with
    | .point p => st := addBrs st (["task-point", "task-" ++ groupBranch p.byName p.dims] ++ fieldBranches p.fields)
    | .batch b pts => st := addBrs st (["task-batch", "task-batch-" ++ groupBranch b.byName b.dims] ++ pts.flatMap (fun p => fieldBranches p.fields))
  if before.length ≥ 2 then st := { st with nontrivial := true }
  return st

def judgeLine (st : St) (l : String) : Except Verdict St := do
  let (opT, obs) := splitObs (tokens l)
  if obs == ["panic"] then .error (.specfail "no-panic" l)
  -- once the model session has aborted (recorded deviation invalid-utf8) nothing but the final `out` is judged:
  -- what the implementation does with later sends / snapshot calls depends on when it notices the abort
  if st.sess.aborted && opT.head? != some "out" then return st
  match opT with
  | ["w", tok] => judgeWrite st tok obs l
  | ["rd", pat, ewd, cut] => judgeRead st pat ewd cut obs l
  | ["cfg", reqPat, respPat, bufio, ka] =>
    if obs != ["ok:0:0"] then .error (.specfail "session-clean" s!"info/init against the echo agent: {obs}")
    let st := if reqPat != "!" || respPat != "!" then { st with chunked := true } else st
    let st := if reqPat == "1" || respPat == "1" then addBr st "one-byte-reads" else st
    let st := addBr st (if bufio == "1" then "server-reads-via-bufio" else "server-reads-direct")
    return (if ka != "0" then addBr st "keepalive-on" else st)
  | ["pt", tok] =>
    let some p := parseInPoint tok | .error (.badop l)
    let bad := devUtf8 (.point p)
    match obs with
    | g :: rest =>
      if g != escB p.group then .error (.mismatch s!"ToGroupID: model {escB p.group} observed {g}")
      if !bad && !rest.isEmpty then .error (.specfail "session-clean" s!"server aborted while a point was sent: {obs}")
    | _ => .error (.badop l)
    if bad then return (← runModel (addBr st "invalid-utf8-input") [.point p])
    let inBatch := st.sess.rstate.points.isSome
    let mut st := addBrs st (["point", groupBranch p.byName p.dims] ++ fieldBranches p.fields ++ (if p.tags.isEmpty then ["tags-empty"] else []))
    if inBatch then st := addBr st "point-while-batch-open"
    if typesIn p.fields ≥ 2 && st.chunked then st := { st with nontrivial := true }
    st := { st with sent := st.sent.push (.point p) }
    runModel st [.point p]
  | [kind, tok] =>
    if kind == "bb" || kind == "ub" then
      let some (b, pts, wasSet) := parseInBatch tok | .error (.badop l)
      let bad := devUtf8 (.batch b pts)
      let msgs : List EdgeMsg := if kind == "bb" then [.buffered b pts] else [.begin b] ++ pts.map .bp ++ [.endB]
      match obs with
      | g :: d :: t :: rest =>
        if g != escB b.group then .error (.mismatch s!"batch ToGroupID: model {escB b.group} observed {g}")
        if d != renderDims b.dims then .error (.mismatch s!"batch dimensions: model {renderDims b.dims} observed {d}")
        match parseTags t with
        | some t => if !sameMap t b.tags then .error (.mismatch s!"batch tags after SetTagsAndDimensions: observed {t}")
        | none => .error (.badop l)
        if !bad && !rest.isEmpty then .error (.specfail "session-clean" s!"server aborted while a batch was sent: {obs}")
      | _ => .error (.badop l)
      if bad then return (← runModel (addBr st "invalid-utf8-input") msgs)
      let mut st := addBrs st ([if kind == "bb" then "batch-buffered" else "batch-unbuffered", "batch-" ++ groupBranch b.byName b.dims,
        if pts.isEmpty then "batch-empty" else if pts.length == 1 then "batch-1" else "batch-n"] ++ pts.flatMap (fun p => fieldBranches p.fields))
      if b.sizeHint != pts.length then st := addBr st "sizehint-wrong"
      if wasSet then st := addBr st "batch-dims-set"
      if devDims (.batch b pts) then st := addBr st "batch-dims-not-sorted-keys"
      if pts.any (fun p => !sameMap p.tags b.tags) then st := addBr st "bp-own-tags"
      if st.sent.any (fun d => match d with | .batch _ _ => true | _ => false) then st := addBr st "batch-after-batch"
      if !pts.isEmpty && st.chunked then st := { st with nontrivial := true }
      st := { st with sent := st.sent.push (.batch b pts) }
      runModel st msgs
    else if kind == "snap" || kind == "snapc" then
      let some bytes := parseHex tok | .error (.badop l)
      let some got := (match obs with | [h] => parseHex h | _ => none) |
        .error (.specfail "snapshot-bytes" s!"Snapshot() failed: {obs}")
      if !snapshotIdentity bytes got then
        .error (.specfail "snapshot-bytes" s!"the UDF supplied {bytes.length} bytes, Snapshot() returned {got.length} bytes (or different ones)")
      let st := { st with sess := { st.sess with peer := { st.sess.peer with snap := bytes } } }
      let (st, outs) ← ctlRequest st .snapshot
      if outs != [.snapshot got] then .error (.mismatch s!"snapshot: model outputs {outs.length} control messages / other bytes")
      let st := addBr st (if kind == "snap" then "snapshot" else "snapshot-concurrent")
      let st := if st.sess.rstate.points.isSome then addBr st "snapshot-inside-batch" else st
      return (if bytes.isEmpty then addBr st "snapshot-empty" else st)
    else if kind == "restore" then
      let some bytes := parseHex tok | .error (.badop l)
      match obs with
      | [h, ok] =>
        let some got := parseHex h | .error (.badop l)
        if ok != "ok" || !snapshotIdentity bytes got then
          .error (.specfail "restore-bytes" s!"Restore() passed {bytes.length} bytes, the UDF received {got.length} (or different ones), status {ok}")
        let (st, outs) ← ctlRequest st (.restore bytes)
        if outs != [.restore true] || st.sess.peer.restored != got then .error (.mismatch "restore: model differs")
        return addBr st "restore"
      | _ => .error (.badop l)
    else if kind == "sleep" then return st
    else if kind == "stall" then return (addBr st "write-stalled-while-keepalive-due")
    else .error (.badop l)
  | ["ubs", tok, k, hex] =>
    -- unbuffered batch with a snapshot request after k points
    let some (b, pts, _) := parseInBatch tok | .error (.badop l)
    let some k := k.toNat? | .error (.badop l)
    let some bytes := parseHex hex | .error (.badop l)
    if devUtf8 (.batch b pts) then return (← runModel (addBr st "invalid-utf8-input") ([.begin b] ++ pts.map .bp ++ [.endB]))
    match obs with
    | [g, d, _, h] =>
      if g != escB b.group then .error (.mismatch s!"batch ToGroupID: model {escB b.group} observed {g}")
      if d != renderDims b.dims then .error (.mismatch s!"batch dimensions: model {renderDims b.dims} observed {d}")
      let some got := parseHex h | .error (.specfail "snapshot-bytes" s!"Snapshot() inside a batch failed: {h}")
      if !snapshotIdentity bytes got then
        .error (.specfail "snapshot-bytes" s!"inside a batch: the UDF supplied {bytes.length} bytes, Snapshot() returned {got.length} bytes (or different ones)")
    | _ => .error (.specfail "session-clean" s!"server aborted while a batch was sent: {obs}")
    let k := min k pts.length
    let st := addBrs st ["batch-unbuffered", "snapshot-inside-batch", if pts.isEmpty then "batch-empty" else "batch-n"]
    let st := { st with sent := st.sent.push (.batch b pts), nontrivial := st.nontrivial || st.chunked }
    let st ← runModel st ([.begin b] ++ (pts.take k).map .bp)
    let st := { st with sess := { st.sess with peer := { st.sess.peer with snap := bytes } } }
    let (st, outs) ← ctlRequest st .snapshot
    if outs != [.snapshot bytes] then .error (.mismatch "snapshot inside a batch: model differs")
    runModel st ((pts.drop k).map .bp ++ [.endB])
  | ["join"] => return st
  | ["proc", reqPat, respPat, n, k, stall] =>
    -- the real UDFProcess, closed cleanly while the consumer of Out() stalls after k messages: n points
    -- P|cpu|db|rp|!|0|host=a|v=i<i>|<i> were fed; everything the echoing process wrote back must come out
    let some n := n.toNat? | .error (.badop l)
    let mut st := st
    if reqPat != "!" || respPat != "!" then st := { st with chunked := true }
    for i in List.range n do
      let some p := parseInPoint s!"P|cpu|db|rp|!|0|host=a|v=i{i + 1}|{i + 1}" | .error (.badop l)
      st := { st with sent := st.sent.push (.point p) }
      st ← runModel st [.point p]
    st := addBr st "process-closed-while-consumer-stalled"
    if (k.toNat?.getD 0) < n && (stall.toNat?.getD 0) ≥ 1000 then st := addBr st "process-exit-before-output-consumed"
    if n ≥ 2 then st := { st with nontrivial := true }
    judgeOut st obs l
  | "task" :: kind :: _ => return addBr st ("task-" ++ kind)
  | "wp" :: _ => return st
  | ["run"] =>
    match obs with
    | status :: _ => if status != "ok" then .error (.specfail "session-clean" s!"the task with an echoing UDF node ended with {obs}") else return st
    | _ => .error (.badop l)
  | ["before"] =>
    let toks := if obs == ["!"] then [] else obs
    let some b := toks.mapM parseOut | .error (.badop l)
    return { st with taskBefore := some (b.map (·.1)) }
  | ["after"] =>
    match st.taskBefore with
    | some before => judgeTaskAfter st before obs l
    | none => .error (.badop l)
  | ["out"] => judgeOut st obs l
  | _ => .error (.badop l)

def judge (_id : String) (lines : Array String) : Verdict :=
  match lines.toList.foldlM judgeLine {} with
  | .ok st =>
    match st.structural with
    | some d => .mismatch d
    | none => .ok st.nontrivial st.branches.reverse
  | .error v => v

end Kap.C19.Drv

def main : IO Unit := Kap.driverMain Kap.C19.Drv.judge
