/-
Driver for C20: reads the cases the Go harness produced by running the REAL auth / httpd code, and for every op
  1. evaluates the SPEC (Kap/Spec/C20.lean) on the OBSERVED output — a failure is `SPECFAIL <clause>` (or `KNOWN
     db-collision` when the recorded deviation clause `Spec.Dev_db_collision` explains exactly this failure),
  2. compares the observed output with the MODEL (Kap/Model/C20.lean) — a difference is `MISMATCH`.
A case gets the worst verdict of its lines (SPECFAIL > MISMATCH > KNOWN > ok).
Write requests with a full query string (op httpq): the clause `write-checks-api-and-database` is evaluated on the
database the points were OBSERVED to be written to — the spec knows nothing of `rp`, `precision`, `consistency`.

Strings are BYTE strings: every token is unescaped to bytes and read as Latin-1 (byte b = the character with code
b, `B.emb`), never UTF-8-decoded, so paths that are not valid UTF-8 are judged like any other; on every path op the
BYTE instance of the model (`B.clean`, `B.dir`, `B.apiResource`, `B.databaseResource`, `B.authorizeAction` over
`B.newUser`, Kap/Model/C20Bytes.lean) is run on the raw bytes as well and must give the observed bytes.
-/
import Kap.Spec.C20
import Kap.Model.C20Bytes
open Kap Kap.C20

namespace Kap.C20.Drv

def str (l : List Char) : String := String.ofList l
/-- Token → bytes → Latin-1 reading (total on byte strings; no UTF-8 decoding anywhere). -/
def unescL (tok : String) : Option (List Char) := (unescRaw tok).map B.embL
/-- Back from the Latin-1 reading to bytes (inverse of `B.embL` on its image). -/
def toB (l : List Char) : B.Bytes := l.map (fun c => c.toNat.toUInt8)
def escL (l : List Char) : String := if l.isEmpty then "%" else String.join ((toB l).map escByte)
/-- The token does not denote valid UTF-8 (such strings were outside the tie before the byte instance). -/
def notUtf8 (tok : String) : Bool := (unesc tok).isNone

def parsePrivs (s : String) : Option (List Nat) :=
  if s.isEmpty then some [] else (s.splitOn "+").mapM String.toNat?

def parseGrants (tok : String) : Option (List (Path × List Nat)) :=
  if tok == "-" then some [] else
  (tok.splitOn ",").mapM fun e =>
    match e.splitOn "=" with
    | [r, ps] => do pure ((← unescL r), (← parsePrivs ps))
    | _ => none

structure St where
  users : List (List Char × List Char × Account) := []
  subs : List (List Char × Account) := []
  branches : List String := []
  nontrivial : Bool := false
  specfail : Option (String × String) := none
  mismatch : Option String := none
  known : Option (String × String) := none

def St.br (st : St) (b : String) : St := if st.branches.contains b then st else { st with branches := b :: st.branches }
def St.brs (st : St) (bs : List String) : St := bs.foldl St.br st
def St.sf (st : St) (clause detail : String) : St := if st.specfail.isSome then st else { st with specfail := some (clause, detail) }
def St.mm (st : St) (detail : String) : St := if st.mismatch.isSome then st else { st with mismatch := some detail }
def St.kn (st : St) (key detail : String) : St := if st.known.isSome then st else { st with known := some (key, detail) }

def St.account (st : St) (name : List Char) : Account :=
  match st.users.find? (fun e => e.1 = name) with
  | some (_, _, a) => a
  | none => {}          -- the harness uses the zero auth.User for an unknown name

def setUser (l : List (List Char × List Char × Account)) (n pw : List Char) (a : Account) :=
  (n, pw, a) :: l.filter (fun e => e.1 ≠ n)

def letter : Decision → Char
  | .allow => 'A' | .deny => 'D' | .invalid => 'I' | .diverge => 'L'

def fivePrivs : List Nat := [1, 2, 4, 8, 16]

/-- The canonical spelling of a node. -/
def canonical (n : Spec.Node) : Path := '/' :: join n

/-- Branches of `clean` a path exercises. -/
def cleanBranches (p : Path) : List String :=
  if p = [] then ["clean-empty"] else
  let rooted := isAbs p
  let segs := split p
  let (_, bs) := segs.foldl (fun (acc : CS × List String) s =>
    let (st, bs) := acc
    let b :=
      if s = [] then "seg-empty" else if s = dot then "seg-dot"
      else if s = dotdot then
        (match st.stack with
         | _ :: _ => "dotdot-pop"
         | [] => if rooted then "dotdot-at-root" else "dotdot-kept")
      else "seg-name"
    (cleanStep rooted st s, b :: bs)) (({} : CS), [])
  (if rooted then "rooted" else "relative") :: bs.eraseDups

/-- Branches of `AuthorizeAction` one query exercises (read off the spec side, so that the histogram also
shows which situations of the STATEMENT were seen). -/
def azBranches (a : Account) (res : Path) (want : Nat) : List String :=
  if want = noPriv then ["early-noprivileges"]
  else if a.admin then ["early-admin"]
  else if !isAbs res then ["invalid-relative"]
  else if a.user.privs.isEmpty then ["no-privileges-at-all"]
  else
    let dirty := if clean res ≠ res then ["resource-cleaned"] else []
    match Spec.nodeOf res with
    | none => []
    | some n =>
      match Spec.nearestGrant a.grants n with
      | none => "walk-to-root-no-grant" :: dirty
      | some (anc, ps) =>
        let mask := orMask ps
        let ok := authorized mask want
        let wher := if anc.length = n.length then "grant-on-self" else if anc.isEmpty then "grant-on-root" else "grant-on-ancestor"
        let how :=
          if ok then (if mask &&& want ≠ 0 then "allow-by-bit" else if mask = allPriv then "allow-by-all" else "allow-by-all-plus-other-bits")
          else "deny"
        -- would a farther grant have decided otherwise?
        let farther := (Spec.ancestors anc).drop 1 |>.filterMap (fun x => Spec.grantAt a.grants x)
        let shadow :=
          if !ok && farther.any (fun q => authorized (orMask q) want) then ["nearer-denies-farther-allows"]
          else if ok && farther.any (fun q => !authorized (orMask q) want) then ["nearer-allows-farther-denies"]
          else []
        wher :: how :: (shadow ++ dirty)

def checkAz (st : St) (line : String) (a : Account) (res : Path) (wants : List Nat) (obs : String) (specToo : Bool) : St := Id.run do
  let mut st := st
  let model := String.ofList (wants.map (fun w => letter (authorizeAction a.user res w)))
  if specToo then
    if !Spec.wfGrants a.grants then return st.mm s!"ill-formed table in generated case: {line}"
    for (w, c) in wants.zip obs.toList do
      if c = 'P' then st := st.sf "no-panic" line
      else match Spec.judgeDecision a res w (c = 'A') with
        | some clause => st := st.sf clause s!"{line} privilege {w} observed {c}"
        | none => pure ()
  if obs != model then st := st.mm s!"{line}: model {model} observed {obs}"
  -- the byte instance, on the raw bytes of the table and of the resource
  let ub := B.newUser a.admin (a.grants.map (fun g => (toB g.1, g.2)))
  let modelB := String.ofList (wants.map (fun w => letter (B.authorizeAction ub (toB res) w)))
  if obs != modelB then st := st.mm s!"{line}: byte model {modelB} observed {obs}"
  for w in wants do
    let bs := azBranches a res w
    st := st.brs bs
    if bs.contains "grant-on-ancestor" || bs.contains "nearer-denies-farther-allows" then st := { st with nontrivial := true }
  return st

def parseAuth (tok : String) : Option ReqAuth :=
  match tok.splitOn "," with
  | [kind, f1, f2, f3, qu, qp] => do
    let qu ← unescL qu; let qp ← unescL qp
    match kind with
    | "absent" => pure { header := .absent, qu, qp }
    | "other" => pure { header := .other, qu, qp }
    | "basic" => pure { header := .basic (← unescL f1) (← unescL f2), qu, qp }
    | "bearer" =>
      let exp : Option Int := if f2 == "n" then none else f2.toInt?
      if f2 != "n" && exp.isNone then none
      let un : Option (List Char) ← (if f3 == "!none" then pure none else (unescL f3).map some)
      pure { header := .bearer { sigOK := f1 == "1", exp, username := un }, qu, qp }
    | _ => none
  | _ => none

/-- Routes the harness adds through `Handler.AddRoutes` (which prepends BasePath). -/
def harnessRoutes : List Route :=
  allowedMethods.flatMap fun m =>
    [{ method := m, pattern := base ++ "/tasks".toList, kind := .recorder },
     { method := m, pattern := base ++ "/tasks/".toList, kind := .recorder }]

def httpBranches (cfg : Cfg) (req : Req) (out : HttpOut) : List String :=
  let b1 :=
    if !allowedMethods.contains req.method then ["http-unknown-method-404"]
    else if muxCleanPath req.path ≠ req.path then ["http-unclean-path-301"]
    else if req.method = "OPTIONS".toList then ["http-options-cors"]
    else match authenticate (match muxMatch (builtinRoutes ++ cfg.extra) req.method req.path with
                             | some r => routeRequiresAuth cfg r | none => cfg.requireAuth) cfg.svc req.auth with
      | .rejected => ["http-401-" ++ (match parseCredentials req.auth with
          | none => "no-credentials"
          | some c => match c.method with | .user => "user" | .bearer => "bearer" | .subscription => "subscription" | .other => "other")]
      | .inner u _ =>
        let m := match parseCredentials req.auth with
          | none => "none"
          | some c => match c.method with | .user => "user" | .bearer => "bearer" | .subscription => "subscription" | .other => "other"
        let bypassed := cfg.requireAuth && (match muxMatch (builtinRoutes ++ cfg.extra) req.method req.path with
                             | some r => !routeRequiresAuth cfg r | none => false)
        let how := if bypassed then ["http-bypass-auth-pprof"] else if cfg.requireAuth then ["http-authenticated-" ++ m] else ["http-auth-disabled-admin"]
        if !authorizeRequest req.method req.path u then "http-403" :: how else how
  let b2 := (if out.served then ["http-served"] else []) ++ (if out.wrote then ["http-wrote"] else []) ++
    (if out.status = 400 then ["http-write-no-db-400"] else []) ++
    (if out.status = 404 ∧ out.user.isSome then ["http-404-after-auth"] else []) ++
    (if out.status = 401 ∧ out.user.isSome then ["http-write-db-refused-401"] else []) ++
    (if preview.isPrefixOf req.path ∧ out.user.isSome then ["http-preview-rewrite"] else []) ++
    (match muxMatch (builtinRoutes ++ cfg.extra) req.method req.path with
     | some r => if r.kind = .other ∧ out.served then ["http-builtin-other-served"] else []
     | none => [])
  b1 ++ b2

def mkCfg (st : St) (ra : String) : Cfg :=
  { requireAuth := ra == "1" || ra == "3", exposePprof := ra == "2" || ra == "3",
    svc := { users := st.users, subs := st.subs }, extra := harnessRoutes }

/-- Judge one observed HTTP exchange (URL path as the handler received it). -/
def judgeHttp (st : St) (l : String) (cfg : Cfg) (req : Req) (code sv wr : String)
    (wobs : Option (Option (List Char × List Char)) := none) : St := Id.run do
  let mut st := st
  let p := req.path
  let out := serveHTTP cfg 2 req
  let served := sv == "1"; let wrote := wr == "1"
  if served && !Spec.servedOK cfg.requireAuth cfg.exposePprof cfg.svc req then
    st := st.sf "served-only-authenticated-and-authorised" l
  -- the TARGET database: where the points were observed to go (op httpq), else the db parameter of the request
  let target : List Char := match wobs with | some (some (wdb, _)) => wdb | _ => req.db
  if wrote && !Spec.wroteTargetOK databaseResource cfg.requireAuth cfg.svc req target then
    st := st.sf "write-checks-api-and-database" s!"{l} (points written to database {escL target})"
  match wobs with
  | some w =>
    if wrote != w.isSome then st := st.mm s!"{l}: written flag and observed write target disagree"
    if let some t := w then
      if t ≠ writeTarget req then st := st.mm s!"{l}: model writes to {escL (writeTarget req).1} {escL (writeTarget req).2}"
  | none => pure ()
  if (served || wrote) && muxCleanPath p ≠ p then
    st := st.sf "path-trick-never-served" l
  -- whatever is served was authorised as a resource below /api (never /database/…, never the root)
  if (served || wrote) && (Spec.nodeOf (Spec.apiNodeOf p)).map (·.head?) ≠ some (some "api".toList) then
    st := st.sf "served-resource-below-api" l
  -- the byte instance agrees on what the mux and the authorisation see of the path
  if toB (muxCleanPath p) ≠ B.muxCleanPath (toB p) ∨ toB (apiResource (trimPrefix p Gen.basePath)) ≠ B.apiResource (B.trimBase (toB p)) then
    st := st.mm s!"{l}: byte model of cleanPath/APIResource differs"
  let model := s!"{out.status} {boolTok out.served} {boolTok out.wrote}"
  if s!"{code} {sv} {wr}" != model then st := st.mm s!"{l}: model {model}"
  st := st.brs (httpBranches cfg req out)
  if (Spec.nodeOf (Spec.apiNodeOf p)).map (·.head?) ≠ some (some "api".toList) ∧ muxCleanPath p = p then
    st := st.br "http-clean-url-resource-outside-api"
  if cfg.requireAuth && (served || wrote) then st := { st with nontrivial := true }
  return st

/-- `-` | `k=v&k=v…` (keys and values escaped, order kept). -/
def parseQuery (tok : String) : Option Query :=
  if tok == "-" then some [] else
  (tok.splitOn "&").mapM fun e =>
    match e.splitOn "=" with
    | [k, v] => do pure ((← unescL k), (← unescL v))
    | _ => none

/-- The account the chain let through would have passed a check against `res` (what a check against some OTHER
resource than the target database would have answered). -/
def wouldAllow (u : Option Account) (res : Path) : Bool :=
  match u with
  | some a => authorizeAction a.user res writePriv = .allow
  | none => false

/-- What the URL parameters of a write request exercise (op httpq). The `write-refused-…` branches are the inputs on
which a check against anything but the target database would answer differently: read off the model's refusal (401
after authentication and API authorisation) and the grant table of the account. -/
def writeBranches (q : Query) (req : Req) (out : HttpOut) : List String :=
  let hasRp := q.any (fun e => e.1 = "rp".toList)
  let segs := split req.rp
  let rpShape :=
    if !hasRp then ["rp-absent"]
    else if req.rp = [] then ["rp-empty"]
    else (if segs.contains dotdot then ["rp-dotdot"] else []) ++
         (if isAbs req.rp then ["rp-absolute"] else []) ++
         (if req.rp.contains '/' then ["rp-with-slash"] else []) ++
         (if req.rp.contains '%' then ["rp-percent-literal"] else []) ++
         (if !req.rp.contains '/' ∧ !segs.contains dotdot ∧ !req.rp.contains '%' then ["rp-plain"] else [])
  let dup := if (q.filter (fun e => e.1 = "db".toList)).length > 1 then ["db-given-twice"] else []
  let dupRp := if (q.filter (fun e => e.1 = "rp".toList)).length > 1 then ["rp-given-twice"] else []
  let others := (req.params.map (fun e => "param-" ++ (escL e.1).replace "%" "~")).eraseDups
  let refused := out.status = 401 ∧ out.user.isSome
  let acct := out.user.getD {}
  let dbNode := Spec.nodeOf (databaseResource req.db)
  let decisive :=
    if !refused then (if out.wrote ∧ req.rp ≠ [] ∧ !wouldAllow out.user (pathJoin2 (databaseResource req.db) req.rp) then ["write-allowed-though-rp-resource-refused"] else [])
    else
      (if wouldAllow out.user (pathJoin2 (databaseResource req.db) req.rp) then ["write-refused-though-rp-resource-granted"] else []) ++
      (if wouldAllow out.user Gen.databaseRootResource then ["write-refused-none-on-target-below-database-grant"] else []) ++
      (if acct.grants.any (fun g => match Spec.nodeOf g.1, dbNode with
            | some n, some d => n.length = 2 ∧ n.head? = some "database".toList ∧ n ≠ d ∧ Spec.listed g.2 Spec.pWrite
            | _, _ => false) then ["write-refused-other-database-granted"] else []) ++
      (if !acct.grants.any (fun g => (Spec.nodeOf g.1).map (·.head?) = some (some "database".toList)) then ["write-refused-api-write-only"] else [])
  (rpShape ++ dup ++ dupRp ++ others ++ decisive).map ("wq-" ++ ·)

/-- What the extra headers / URL parameters of a request exercise (op httph). -/
def headerBranches (hs : Query) (wire : List Char) (ran : List (List Char × Path)) : List String :=
  let lower (s : List Char) : String := String.ofList (s.map Char.toLower)
  let names := (hs.map (fun e => "hdr-" ++ (lower e.1).replace "?" "urlparam-")).eraseDups
  let ov := hs.filterMap fun e =>
    if (lower e.1 == "x-http-method-override" || lower e.1 == "?_method" || lower e.1 == "x-method-override"
        || lower e.1 == "x-http-method" || lower e.1 == "x-forwarded-method") && e.2.map Char.toUpper ≠ wire.map Char.toUpper
    then some ("hdr-names-other-method-on-" ++ String.ofList (wire.map Char.toUpper)) else none
  let ovRan := if !ov.isEmpty ∧ !ran.isEmpty then ["hdr-names-other-method-wire-handler-ran"] else []
  let ovNot := if !ov.isEmpty ∧ ran.isEmpty then ["hdr-names-other-method-nothing-ran"] else []
  (if hs.isEmpty then ["hdr-none"] else []) ++ names ++ ov.eraseDups ++ ovRan ++ ovNot ++
  (if ran.isEmpty then [] else ["ran-handler-identified"])

def hasSub (s : List Char) (sub : String) : Bool := ((String.ofList s).splitOn sub).length > 1

/-- What a raw request target exercises. -/
def rawBranches (t p : List Char) (code : String) (servedOrWrote : Bool) : List String :=
  let tl := t.map Char.toLower
  (if hasSub tl "%2f" then ["raw-encoded-slash"] else []) ++
  (if hasSub tl "%2e" then ["raw-encoded-dot"] else []) ++
  (if hasSub tl "%25" then ["raw-double-encoded"] else []) ++
  (if t.any (fun c => c.toNat ≥ 128) then ["raw-high-byte"] else []) ++
  (if p.any (fun c => c.toNat ≥ 128) ∧ !t.any (fun c => c.toNat ≥ 128) then ["raw-encoded-high-byte"] else []) ++
  (if (String.fromUTF8? (ByteArray.mk (toB p).toArray)).isNone then ["url-path-not-utf8"] else []) ++
  (if p ≠ t ∧ code == "301" then ["raw-decoded-then-redirected"] else []) ++
  (if p ≠ t ∧ servedOrWrote then ["raw-decoded-then-served"] else []) ++
  (if p = t then ["raw-nothing-to-decode"] else [])

def judge (_id : String) (lines : Array String) : Verdict := Id.run do
  let mut st : St := {}
  for l in lines do
    let (opT, obs) := splitObs (tokens l)
    match opT with
    | ["user", n, pw, adm, g] =>
      let some n := unescL n | return .badop l
      let some pw := unescL pw | return .badop l
      let some g := parseGrants g | return .badop l
      if !Spec.wfGrants g then st := st.mm s!"ill-formed table (a privilege outside the five): {l}"
      st := { st with users := setUser st.users n pw { admin := adm == "1", grants := g } }
    | ["sub", tok, adm, g] =>
      let some tok := unescL tok | return .badop l
      let some g := parseGrants g | return .badop l
      if !Spec.wfGrants g then st := st.mm s!"ill-formed table (a privilege outside the five): {l}"
      st := { st with subs := (tok, { admin := adm == "1", grants := g }) :: st.subs.filter (fun e => e.1 ≠ tok) }
    | ["az", n, rTok] =>
      let some n := unescL n | return .badop l
      let some r := unescL rTok | return .badop l
      let [o] := obs | return .badop l
      st := checkAz st l (st.account n) r fivePrivs o true
      if notUtf8 rTok then st := st.br "bytes-not-utf8-resource"
    | ["azn", n, r] =>
      let some n := unescL n | return .badop l
      let some r := unescL r | return .badop l
      let [o] := obs | return .badop l
      match o.splitOn "|" with
      | [one] => st := (checkAz st l (st.account n) r fivePrivs one true).br "same-node-entries-united"
      | _ => st := st.sf "decision-deterministic" s!"{l}: the same table gave different answers"
    | ["azp", n, r, p] =>
      let some n := unescL n | return .badop l
      let some r := unescL r | return .badop l
      let some p := p.toNat? | return .badop l
      let [o] := obs | return .badop l
      st := checkAz st l (st.account n) r [p] o (Spec.validPriv p)
    | ["clean", pTok] =>
      let some p := unescL pTok | return .badop l
      let [o] := obs | return .badop l
      let some o := unescL o | return .badop l
      -- spec: the cleaned path is the canonical spelling of the node the path denotes
      match Spec.nodeOf p with
      | some n => if o ≠ canonical n then st := st.sf "clean-is-canonical-spelling" s!"{l}: canonical {escL (canonical n)}"
      | none => if isAbs o then st := st.sf "relative-stays-relative" l
      if o ≠ clean p then st := st.mm s!"{l}: model {escL (clean p)}"
      if toB o ≠ B.clean (toB p) then st := st.mm s!"{l}: byte model {escL (B.embL (B.clean (toB p)))}"
      st := st.brs (cleanBranches p)
      if notUtf8 pTok then st := (st.br "bytes-not-utf8-clean")
    | ["dir", p] =>
      let some p := unescL p | return .badop l
      let [o] := obs | return .badop l
      let some o := unescL o | return .badop l
      if o ≠ dir p then st := st.mm s!"{l}: model {escL (dir p)}"
      if toB o ≠ B.dir (toB p) then st := st.mm s!"{l}: byte model {escL (B.embL (B.dir (toB p)))}"
      st := st.br "dir"
    | ["api", p] =>
      let some p := unescL p | return .badop l
      let [o] := obs | return .badop l
      let some o := unescL o | return .badop l
      match Spec.nodeOf ("/api/".toList ++ p) with
      | some n => if o ≠ canonical n then st := st.sf "api-resource-canonical" s!"{l}: canonical {escL (canonical n)}"
      | none => pure ()
      if o ≠ apiResource p then st := st.mm s!"{l}: model {escL (apiResource p)}"
      if toB o ≠ B.apiResource (toB p) then st := st.mm s!"{l}: byte model {escL (B.embL (B.apiResource (toB p)))}"
      st := st.br (if (Spec.nodeOf ("/api/".toList ++ p)).map (·.head?) = some (some "api".toList) then "api-below-root" else "api-escaped-root")
    | ["dbres", d] =>
      let some d := unescL d | return .badop l
      let [o] := obs | return .badop l
      let some o := unescL o | return .badop l
      -- spec: a database is ONE path element below /database, whatever its name contains
      match Spec.nodeOf o with
      | some n =>
        let want := if d = [] then 1 else 2
        if n.length ≠ want ∨ n.head? ≠ some "database".toList ∨ o ≠ canonical n then
          st := st.sf "database-is-one-element" l
      | none => st := st.sf "database-is-one-element" l
      if o ≠ databaseResource d then st := st.mm s!"{l}: model {escL (databaseResource d)}"
      if toB o ≠ B.databaseResource (toB d) then st := st.mm s!"{l}: byte model {escL (B.embL (B.databaseResource (toB d)))}"
      st := st.br (if d = [] then "db-empty" else if d.contains '/' then "db-dirty" else "db-clean")
    | ["dbpair", a, b] =>
      let some a := unescL a | return .badop l
      let some b := unescL b | return .badop l
      let [oa, ob] := obs | return .badop l
      let some oa := unescL oa | return .badop l
      let some ob := unescL ob | return .badop l
      if a ≠ b ∧ oa = ob then
        if Spec.Dev_db_collision a b then
          st := (st.kn "db-collision" l).br "db-collision"
          st := { st with nontrivial := true }
        else st := st.sf "database-names-injective" l
      else st := st.br "db-pair-distinct"
      if oa ≠ databaseResource a ∨ ob ≠ databaseResource b then
        st := st.mm s!"{l}: model {escL (databaseResource a)} {escL (databaseResource b)}"
    | ["http", ra, m, p, cred, db] =>
      let some m := unescL m | return .badop l
      let some p := unescL p | return .badop l
      let some db := unescL db | return .badop l
      let some au := parseAuth cred | return .badop l
      let req : Req := { method := m, path := p, auth := au, db := db }
      match obs with
      | [code, sv, wr] => st := judgeHttp st l (mkCfg st ra) req code sv wr
      | _ => st := st.mm s!"{l}: unexpected observation"
    | ["httpq", ra, m, p, cred, qTok] =>
      let some m := unescL m | return .badop l
      let some p := unescL p | return .badop l
      let some q := parseQuery qTok | return .badop l
      let some au := parseAuth cred | return .badop l
      let req : Req := ({ method := m, path := p, auth := au } : Req).withQuery q
      match obs with
      | [code, sv, wr, wdb, wrp] =>
        let w : Option (Option (List Char × List Char)) :=
          if wdb == "!" then some none else
          match unescL wdb, unescL wrp with
          | some a, some b => some (some (a, b))
          | _, _ => none
        if w.isNone then return .badop l
        let cfg := mkCfg st ra
        st := judgeHttp st l cfg req code sv wr w
        let bs := writeBranches q req (serveHTTP cfg 2 req)
        st := st.brs bs
        if bs.any (fun b => b.startsWith "wq-write-refused-though") then st := { st with nontrivial := true }
      | _ => st := st.mm s!"{l}: unexpected observation"
    | ["httph", ra, m, p, cred, hTok] =>
      let some m := unescL m | return .badop l
      let some p := unescL p | return .badop l
      let some hs := parseQuery hTok | return .badop l
      let some au := parseAuth cred | return .badop l
      -- keys beginning with '?' are URL parameters (none of them is db/rp/u/p), the others request headers
      let req : Req := { method := m, path := p, auth := au, params := hs.filter (fun e => e.1.head? = some '?') }
      let hdrs : Headers := hs.filter (fun e => e.1.head? ≠ some '?')
      match obs with
      | [code, sv, wr, ranTok] =>
        let cfg := mkCfg st ra
        let ran? : Option (List (List Char × Path)) :=
          if ranTok == "-" then some [] else
          (ranTok.splitOn "+").mapM fun e =>
            match e.splitOn "," with
            | [hm, hp] => do pure (hm.toList, (← unescL hp))
            | _ => none
        let some ran := ran? | return .badop l
        -- the property, on the handler that was OBSERVED to run
        for (hm, hp) in ran do
          if !Spec.ranOK cfg.requireAuth cfg.exposePprof cfg.svc req hm hp then
            st := st.sf "handler-that-ran-was-authorised"
              s!"{l}: the {String.ofList hm} handler of {escL hp} ran; no valid account of the request holds the privilege {String.ofList hm} requires on the resource"
        st := judgeHttp st l cfg req code sv wr
        let model : List (List Char × Path) :=
          match ranRoute wireMethod cfg hdrs 2 req with
          | some r => if r.kind = .recorder then [(r.method, r.pattern)] else []
          | none => []
        if ran ≠ model then
          st := st.mm s!"{l}: model: handlers run = {model.map (fun e => String.ofList e.1 ++ "," ++ escL e.2)}"
        st := st.brs (headerBranches hs m ran)
        if cfg.requireAuth && !ran.isEmpty && !hs.isEmpty then st := { st with nontrivial := true }
      | _ => st := st.mm s!"{l}: unexpected observation"
    | ["httpraw", ra, m, t, cred, db] =>
      let some m := unescL m | return .badop l
      let some t := unescL t | return .badop l
      let some db := unescL db | return .badop l
      let some au := parseAuth cred | return .badop l
      match obs with
      | [pth, code, sv, wr] =>
        match parseTarget t with
        | none =>
          -- net/http refuses the request line: it answers 400 itself, no handler of kapacitor runs
          if pth != "badurl" then st := st.mm s!"{l}: model: net/http refuses this target"
          else if s!"{code} {sv} {wr}" != "400 0 0" then st := st.sf "refused-target-never-served" l
          st := st.br "raw-refused-by-net-http"
        | some p =>
          if pth == "badurl" then st := st.mm s!"{l}: model: URL path {escL p}"
          else
            let some o := unescL pth | return .badop l
            if o ≠ p then st := st.mm s!"{l}: model: URL path {escL p}"
            -- the property is judged on the path the handler RECEIVED
            let req : Req := { method := m, path := o, auth := au, db := db }
            st := judgeHttp st l (mkCfg st ra) req code sv wr
            st := st.brs (rawBranches t o code (sv == "1" || wr == "1"))
            if o ≠ t.takeWhile (· ≠ '?') && (sv == "1" || wr == "1") then st := { st with nontrivial := true }
      | _ => st := st.mm s!"{l}: unexpected observation"
    | ["addroute", pv, pat] =>
      let some pat := unescL pat | return .badop l
      let [o] := obs | return .badop l
      let model := if (addRoutePattern (if pv == "1" then preview else base) pat).isSome then "ok" else "err"
      if o != model then st := st.mm s!"{l}: model {model}"
      -- spec: a pattern that does not begin with '/' is never registered (hypothesis of served_resource_below_api)
      if o == "ok" && pat ≠ [] && pat.head? ≠ some '/' then st := st.sf "route-pattern-begins-with-slash" l
      if o == "ok" && !viaAddRoute ((if pv == "1" then preview else base) ++ pat) then st := st.sf "route-pattern-begins-with-slash" l
      st := st.br (if o == "ok" then "addroute-ok" else "addroute-refused")
    | _ => return .badop l
  match st.specfail, st.mismatch, st.known with
  | some (c, d), _, _ => return .specfail c d
  | none, some d, _ => return .mismatch d
  | none, none, some (k, d) => return .known k d
  | none, none, none => return .ok st.nontrivial st.branches.reverse

end Kap.C20.Drv

def main : IO Unit := Kap.driverMain Kap.C20.Drv.judge
