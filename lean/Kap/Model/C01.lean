/-
C01 — model of the alert state machine of `/repo/alert.go` (AlertNode / alertState).

Transcribed 1:1 (same branches, same order of side effects):
* `alertState.findFirstMatchLevel`, `alertState.determineLevel`          → `findFirstMatchLevel`, `determineLevel`
* `alertState.addEvent`, `updateFlapping`, `updateExpired`, `triggered`,
  `duration`, `currentLevel`                                              → same names
  (`addEvent` as repaired by the `fix:` commit of findings/C01.txt; the previous body is `addEventOld`)
* `alertState.Point` (stream form)                                        → `pointStep`
* `alertState.BufferedBatch` (batch form, incl. `all()`)                  → `batchStep`
* `AlertNode.restoreEventState` / `newAlertState`                         → `restoreEventState`, `newAlertState`
* `newAlertNode`: `History < 2 ⇒ 2`; a reset expression is installed only inside `if n.Info != nil {…}`
  (resp. Warn, Crit), i.e. a reset without its level expression does not exist      → `effHistory`, `resetExpr`
* `alertState.percentChange` (float64 loop over the ring)                 → `percentChange` / `goFlap`

Abstracted:
* a level / reset lambda is represented by the OUTCOME of its evaluation on the point: `some b`, or `none` when
  `EvalPredicate` returned an error (the harness makes the predicates plain boolean field references, so the outcome
  is an input). Stateful lambdas are out of scope (C06).
* times are `Int` nanoseconds; `time.Time{}` (the zero time of a fresh `alertState`) is `none`; `Time.Sub` against
  the zero time saturates at `maxDuration` (true for every time after the year 293); otherwise no int64 overflow
  is modelled (assumption: |t − t'| < 2^63 ns).
* the flapping decision is a PARAMETER `flap : FlapFn` of every function (new flag from old flag, ring and idx);
  the emission theorems hold for every `flap`. The code's `flap` is `ringFlap off dec`: which ring slots are compared
  (`ringDiffs`, index arithmetic transcribed, start offset extracted) and a decision `dec` on the comparison outcomes
  (weights + hysteresis); the flag theorems hold for every `dec`; the driver executes `floatDecide`
  (Lean `Float` = IEEE binary64 = Go `float64`; same operations in the same order).
* message / details templates, inhibitors, statistics, tags/fields augmentation are not modelled (the harness
  observes level / id / duration fields of the forwarded data and compares them with the event).

REGENERATED PARTS: every boolean guard of `Point`, `BufferedBatch`, `addEvent`, `updateExpired`, `triggered`,
`updateFlapping` and the constants (default history, the `History < 2` clamp, the two float64 constants of
`percentChange`) are NOT written here: they are `Kap.C01.Gen.*`, translated from the Go source by
`/verif/extract/c01` on every run (fail closed: an unrecognised guard is an opaque constant). What is hand-written
is the control structure around the guards (order of calls, what each branch does) and the two level searches.
Core Lean only (the compiled driver imports this file).
-/
import Kap.Basic
import Kap.Gen.C01
namespace Kap.C01

/-! ### Configuration, inputs -/

/-- The part of `pipeline.AlertNodeData` the state machine reads. Levels are `OK=0 < Info=1 < Warning=2 < Critical=3`. -/
structure Cfg where
  info : Bool := false          -- `n.Info != nil`
  warn : Bool := false
  crit : Bool := false
  infoReset : Bool := false     -- `n.InfoReset != nil`
  warnReset : Bool := false
  critReset : Bool := false
  sco : Bool := false           -- IsStateChangesOnly
  scoDur : Int := 0             -- StateChangesOnlyDuration (ns)
  noRec : Bool := false         -- NoRecoveriesFlag
  all : Bool := false           -- AllFlag
  useFlap : Bool := false       -- UseFlapping
  history : Nat := 21           -- `n.History` as `newAlertState` sees it (after the clamp, see `effHistory`)
deriving DecidableEq, Repr, Inhabited

/-- `n.History` as `newAlertState` sees it: `none` = `.history()` not used = pipeline default
(`History: defaultFlapHistory`); then `if n.History < 2 { n.History = 2 }` (newAlertNode). Constants extracted;
an unrecognised source gives 0 (no ring at all: every theorem that needs `2 ≤ history` stops applying). -/
def effHistory (h : Option Int) : Nat :=
  match Gen.defaultHistory, Gen.historyClamp with
  | some d, some (below, to) =>
    let h : Int := match h with
      | none => d
      | some h => h
    if h < below then to.toNat else h.toNat
  | _, _ => 0

/-- One data point as the alert node sees it: its time and the outcome of every predicate on it
(`none` = `EvalPredicate` returned an error). -/
structure Pt where
  t : Int
  i : Option Bool := none
  w : Option Bool := none
  c : Option Bool := none
  ri : Option Bool := none
  rw : Option Bool := none
  rc : Option Bool := none
deriving DecidableEq, Repr, Inhabited

/-- `n.levels[l] != nil` -/
def levelExpr (c : Cfg) : Nat → Bool
  | 1 => c.info
  | 2 => c.warn
  | 3 => c.crit
  | _ => false

/-- `n.levelResets[l] != nil`: assigned only inside the `if n.Info != nil` (Warn, Crit) block. -/
def resetExpr (c : Cfg) : Nat → Bool
  | 1 => c.info && c.infoReset
  | 2 => c.warn && c.warnReset
  | 3 => c.crit && c.critReset
  | _ => false

/-- outcome of `EvalPredicate(n.levels[l], …, p)` -/
def Pt.lv (p : Pt) : Nat → Option Bool
  | 1 => p.i
  | 2 => p.w
  | 3 => p.c
  | _ => none

/-- outcome of `EvalPredicate(n.levelResets[l], …, p)` -/
def Pt.rs (p : Pt) : Nat → Option Bool
  | 1 => p.ri
  | 2 => p.rw
  | 3 => p.rc
  | _ => none

def critical : Nat := 3

/-! ### determineLevel -/

/-- `findFirstMatchLevel(start, stop, p)`: `for l := start; l > stop; l-- { nil ⇒ continue; err ⇒ continue; pass ⇒ return l }`
(recursion on `start`; the caller has already clamped `stop` to `≥ OK`). -/
def findFirstMatchLevel (c : Cfg) (p : Pt) (stop : Nat) : Nat → Option Nat
  | 0 => none
  | l + 1 =>
    if l + 1 > stop then
      if levelExpr c (l + 1) && (p.lv (l + 1) == some true) then some (l + 1)
      else findFirstMatchLevel c p stop l
    else none

/-- `determineLevel(p, currentLevel)`. `currentLevel-1` with the clamp `if stop < OK { stop = OK }` is the
truncated subtraction on `Nat`. -/
def determineLevel (c : Cfg) (p : Pt) (cur : Nat) : Nat :=
  -- the two searches are hand-transcribed: valid only while the extractor finds exactly the transcribed source
  if !Gen.levelSearchRecognised then critical + 1 else
  match findFirstMatchLevel c p (cur - 1) critical with
  | some l => l
  | none =>
    -- `if rse != nil { if pass, err := …; err != nil { log } else if !pass { return currentLevel } }`
    if resetExpr c cur && (p.rs cur == some false) then cur
    else
      match findFirstMatchLevel c p 0 cur with
      | some l => l
      | none => 0

/-! ### alertState -/

structure St where
  history : List Nat            -- `[]alert.Level` of length `n.a.History`
  idx : Nat := 0
  flapping : Bool := false
  changed : Bool := false
  expired : Bool := false
  firstTriggered : Option Int := none   -- `none` = zero `time.Time`
  lastTriggered : Option Int := none
  inhibiting : Bool := false            -- the value last `Set` on the state's `inhibitors` (all get the same value)
deriving DecidableEq, Repr, Inhabited

/-- New flapping flag from (old flag, ring, idx). -/
abbrev FlapFn := Bool → List Nat → Nat → Bool

/-- `math.MaxInt64`: what `Time.Sub` saturates to. -/
def maxDuration : Int := 9223372036854775807
def minDuration : Int := -9223372036854775808

/-- `t.Sub(u)` where `u` may be the zero time. -/
def subTime (t : Int) : Option Int → Int
  | some u => t - u
  | none => maxDuration

def newAlertState (c : Cfg) : St := { history := List.replicate c.history 0 }

def currentLevel (s : St) : Nat := s.history.getD s.idx 0

def updateFlapping (c : Cfg) (flap : FlapFn) (s : St) : St :=
  if !c.useFlap then s else { s with flapping := flap s.flapping s.history s.idx }

def updateExpired (c : Cfg) (s : St) (t : Int) : St :=
  { s with expired := Gen.expiredRule { changed := s.changed, scoDur := c.scoDur, elapsed := subTime t s.lastTriggered } }

/-- `addEvent(t, level)` -/
def addEvent (c : Cfg) (flap : FlapFn) (s : St) (t : Int) (l : Nat) : St :=
  let changed := Gen.changedRule { cur := s.history.getD s.idx 0, l := l }
  let first := if Gen.leftOKRule { changed := changed, cur := s.history.getD s.idx 0 } then some t else s.firstTriggered
  let idx := (s.idx + 1) % s.history.length
  let s := { s with changed := changed, firstTriggered := first, idx := idx, history := s.history.set idx l }
  let s := updateFlapping c flap s
  updateExpired c s t

/-- `triggered(t)` -/
def triggered (s : St) (t : Int) : St :=
  let p := if s.idx = 0 then s.history.length - 1 else s.idx - 1
  { s with lastTriggered := some t,
           firstTriggered := if Gen.firstTriggeredRule { prev := s.history.getD p 0 } then some t else s.firstTriggered,
           -- `inhibited := a.history[a.idx] != alert.OK; for _, in := range a.inhibitors { in.Set(inhibited) }`
           inhibiting := Gen.inhibitRule { cur := s.history.getD s.idx 0 } }

/-- `duration()` = `lastTriggered.Sub(firstTriggered)` -/
def duration (s : St) : Int :=
  match s.lastTriggered, s.firstTriggered with
  | some l, some f => l - f
  | some _, none => maxDuration
  | none, some _ => minDuration
  | none, none => 0

/-- What a handler sees of an event (the ID is the group's, kept by the caller). -/
structure Ev where
  level : Nat
  time : Int
  dur : Int
deriving DecidableEq, Repr, Inhabited

/-- The atoms of the emission guards, read off the configuration, the state and the level variable `l`. -/
def guards (c : Cfg) (s : St) (l : Nat) : Gen.G :=
  { useFlap := c.useFlap, flapping := s.flapping, sco := c.sco, changed := s.changed, expired := s.expired,
    noRec := c.noRec, all := c.all, l := l }

/-- `alertState.Point` -/
def pointStep (c : Cfg) (flap : FlapFn) (s : St) (p : Pt) : St × Option Ev :=
  let l := determineLevel c p (currentLevel s)
  let s := addEvent c flap s p.t l
  if Gen.pointSuppress (guards c s l) then (s, none)
  else if Gen.pointSend (guards c s l) then
    let s := triggered s p.t
    if Gen.pointWithhold (guards c s l) then (s, none)
    else (s, some { level := l, time := p.t, dur := duration s })
  else (s, none)

structure Batch where
  tmax : Int
  pts : List Pt
deriving DecidableEq, Repr, Inhabited

/-- loop state of `BufferedBatch`: lowestLevel, highestLevel, highestPoint -/
structure Scan where
  lowest : Nat := critical
  highest : Nat := 0
  highestPoint : Option Pt := none
deriving Repr, Inhabited

def scanStep (c : Cfg) (cur : Nat) (sc : Scan) (bp : Pt) : Scan :=
  let l := determineLevel c bp cur
  let lowest := if Gen.scanLower { l := l, lowest := sc.lowest } then l else sc.lowest
  if Gen.scanHigher { l := l, highest := sc.highest, noHighestPoint := sc.highestPoint.isNone } then
    { lowest := lowest, highest := l, highestPoint := some bp }
  else { sc with lowest := lowest }

/-- `alertState.BufferedBatch` -/
def batchStep (c : Cfg) (flap : FlapFn) (s : St) (b : Batch) : St × Option Ev :=
  match b.pts with
  | [] =>
    -- `if len(b.Points()) == 0 { return nil, nil }`; without it the code would dereference the nil highestPoint
    if Gen.batchEmptyReturns then (s, none) else ({ s with history := [] }, none)
  | _ :: _ =>
    let cur := currentLevel s
    let sc := b.pts.foldl (scanStep c cur) {}
    let l := if Gen.batchUseHighest { all := c.all } then sc.highest else sc.lowest
    let t := match sc.highestPoint with
      | some hp => if Gen.batchUseBatchTime { all := c.all, l := l } then b.tmax else hp.t
      | none => b.tmax   -- unreachable: the batch is not empty
    let s := addEvent c flap s t l
    if Gen.batchSilent (guards c s l) then (s, none)
    else
      let s := triggered s t
      if Gen.batchWithhold (guards c s l) then (s, none)
      else (s, some { level := l, time := t, dur := duration s })

/-! #### The code as it was before the repair recorded in findings/C01.txt (kept for the counterexample theorems):
`addEvent` did not touch `firstTriggered`; only `triggered` did, which a suppressed event never reaches. -/

def addEventOld (c : Cfg) (flap : FlapFn) (s : St) (t : Int) (l : Nat) : St :=
  let changed := s.history.getD s.idx 0 != l
  let idx := (s.idx + 1) % s.history.length
  let s := { s with changed := changed, idx := idx, history := s.history.set idx l }
  let s := updateFlapping c flap s
  updateExpired c s t

def pointStepOld (c : Cfg) (flap : FlapFn) (s : St) (p : Pt) : St × Option Ev :=
  let l := determineLevel c p (currentLevel s)
  let s := addEventOld c flap s p.t l
  if Gen.pointSuppress (guards c s l) then (s, none)
  else if Gen.pointSend (guards c s l) then
    let s := triggered s p.t
    if Gen.pointWithhold (guards c s l) then (s, none)
    else (s, some { level := l, time := p.t, dur := duration s })
  else (s, none)

/-- `restoreEventState(id, t, tags)`: `t` = time of the group's first message; `(level, stored, dur)` = level, time and
duration of the event state `restoreEvent` found in the topic (as repaired by the second `fix:` commit of
findings/C01.txt: the alert left OK `dur` before the stored event). -/
def restoreEventState (c : Cfg) (flap : FlapFn) (t : Int) (level : Nat) (stored dur : Int) : St :=
  let s := newAlertState c
  if level != 0 then
    let s := triggered (addEvent c flap s t level) stored
    { s with firstTriggered := some (stored - dur) }
  else s

/-- … and as it was before: the duration restarted at the stored event's time. -/
def restoreEventStateOld (c : Cfg) (flap : FlapFn) (t : Int) (level : Nat) (stored : Int) : St :=
  let s := newAlertState c
  if level != 0 then triggered (addEvent c flap s t level) stored else s

/-! ### Inhibition (`.inhibit(category, tags…)`, `.category(c)`; alert/inhibit.go, `AlertNode.handleEvent`)

`newAlertState` creates, per group of an alert node and per `inhibit` declaration, an `Inhibitor(category, {tag ↦ the
group's value of that tag})` and registers it with the alert service; `triggered()` is the only place that sets them
(`St.inhibiting`). `handleEvent` of ANY alert node first asks `IsInhibited(event category, event tags)`: some
registered inhibitor of that category is set and every tag of its tag set has the same value in the event's tags
(a tag the event lacks reads as ""); then the event is counted as `alerts_inhibited` and NOT collected (it reaches no
handler); the data is forwarded downstream all the same. -/

/-- `Inhibitor.IsInhibited` + `isMatch` for one inhibitor: its flag, its category, its tag set against the event. -/
def inhibitorHits (flag : Bool) (category : String) (tagset : List (String × String))
    (evCategory : String) (evTags : List (String × String)) : Bool :=
  flag && category == evCategory &&
  tagset.all (fun kv => ((evTags.find? (fun e => e.1 == kv.1)).map (·.2)).getD "" == kv.2)

/-- `handleEvent`: is the event dropped? `inhibitors` = every registered inhibitor (flag, category, tag set). -/
def eventInhibited (inhibitors : List (Bool × String × List (String × String)))
    (evCategory : String) (evTags : List (String × String)) : Bool :=
  Gen.inhibitionRecognised && inhibitors.any (fun i => inhibitorHits i.1 i.2.1 i.2.2 evCategory evTags)

/-- The two-ID world the theorems are about: inhibiting alert A (configuration `ca`, one ID) declared
`.inhibit(cat, tags…)` with `hit` = its inhibitor matches B's events (category and tags); alert B (`cb`, one ID). -/
structure World where
  a : St
  b : St
deriving Repr, Inhabited

inductive WOp where
  | pa (p : Pt)      -- a point of A's ID
  | pb (p : Pt)      -- a point of B's ID
deriving Repr, Inhabited

/-- One point: returns A's event, B's event as DELIVERED to B's handlers (A is not inhibited by anybody here). -/
def worldStep (ca cb : Cfg) (fa fb : FlapFn) (hit : Bool) (w : World) : WOp → World × Option Ev × Option Ev
  | .pa p => let r := pointStep ca fa w.a p; ({ w with a := r.1 }, r.2, none)
  | .pb p =>
    let r := pointStep cb fb w.b p
    ({ w with b := r.1 }, none, if Gen.inhibitionRecognised && (w.a.inhibiting && hit) then none else r.2)

def runWorld (ca cb : Cfg) (fa fb : FlapFn) (hit : Bool) (w : World) : List WOp → List (Option Ev × Option Ev)
  | [] => []
  | op :: ops => let r := worldStep ca cb fa fb hit w op; r.2 :: runWorld ca cb fa fb hit r.1 ops

/-! ### Flap detection: `percentChange` / `updateFlapping`

Split in two so that the flapping flag is INSIDE the theorems:
* `ringDiffs` — WHICH slots of the ring `percentChange` compares, in loop order (index arithmetic only; the start
  offset of the loop is extracted from the source: `Gen.flapStartOffset`);
* a decision `FlapDecide` on that list of comparison outcomes — the weighting arithmetic and the low/high
  hysteresis. Every theorem holds for EVERY decision; two instances are given: `floatDecide` (IEEE doubles, the same
  operations in the same order as the Go code; used by the driver) and `exactDecide` (exact integer arithmetic of the
  same formula with rational thresholds; used in decided examples). -/

/-- `percentChange`'s comparisons: `for i := 0; i < l-1; i++ { c := (i + idx + off) % l; p := c-1 (wrapping);
history[c] != history[p] }`. -/
def ringDiffs (off : Nat) (history : List Nat) (idx : Nat) : List Bool :=
  (List.range (history.length - 1)).map (fun i =>
    let c := (i + idx + off) % history.length
    let p := if c = 0 then history.length - 1 else c - 1
    history.getD c 0 != history.getD p 0)

/-- (old flag, outcomes of the comparisons in loop order) ↦ new flag -/
abbrev FlapDecide := Bool → List Bool → Bool

/-- `updateFlapping` after the `UseFlapping` test, for a given decision. -/
def ringFlap (off : Nat) (dec : FlapDecide) : FlapFn := fun flapping history idx => dec flapping (ringDiffs off history idx)

/-- the `if … else if …` of `updateFlapping` (guards extracted) -/
def hysteresis (flapping belowLow aboveHigh : Bool) : Bool :=
  let g : Gen.G := { flapping := flapping, pBelowLow := belowLow, pAboveHigh := aboveHigh }
  if Gen.flapOff g then false
  else if Gen.flapOn g then true
  else flapping

/-- Constants of `percentChange`, as Go evaluates them: `weight0 = maxWeight / weightDiff` is an untyped constant
expression (exact, then rounded once), `maxWeight` is rounded to float64 where it meets a float64 variable. -/
structure FlapConsts where
  weight0 : Float
  maxWeight : Float

/-- `percentChange()` over float64, on the comparison outcomes: `changes += weight` where they differ,
`weight += step` every time, `changes / float64(l-1)`. -/
def weighF (k : FlapConsts) (diffs : List Bool) : Float :=
  let m := diffs.length.toFloat      -- float64(l-1)
  let step := (k.maxWeight - k.weight0) / m
  let r := diffs.foldl (fun (acc : Float × Float) d => (if d then acc.1 + acc.2 else acc.1, acc.2 + step)) (0.0, k.weight0)
  r.1 / m

def floatDecide (k : FlapConsts) (low high : Float) : FlapDecide := fun flapping diffs =>
  let p := weighF k diffs
  hysteresis flapping (p < low) (p > high)

/-- The same formula exactly: with `m = l-1` comparisons, weight of the i-th is `4/5 + i·(2/5)/m`, so
`percentChange = (Σ_{i differs} (4m + 2i)) / (5 m²)`. Thresholds are rationals `num/den`. -/
def weighNum (diffs : List Bool) : Nat :=
  let m := diffs.length
  ((List.range m).zip diffs).foldl (fun acc (id : Nat × Bool) => if id.2 then acc + (4 * m + 2 * id.1) else acc) 0

def exactDecide (lowNum lowDen highNum highDen : Nat) : FlapDecide := fun flapping diffs =>
  let m := diffs.length
  let pNum := weighNum diffs       -- percentChange = pNum / (5 m²)
  hysteresis flapping (decide (pNum * lowDen < lowNum * (5 * m * m))) (decide (pNum * highDen > highNum * (5 * m * m)))

/-- The constants as extracted (`none`: the source was not recognised). -/
def flapConsts? : Option FlapConsts :=
  match Gen.weight0Bits, Gen.maxWeightBits with
  | some a, some b => some { weight0 := Float.ofBits a, maxWeight := Float.ofBits b }
  | _, _ => none

/-- `updateFlapping` of the code for a decision `dec`: the loop start offset is the extracted one (an unrecognised
loop gives offset 0 AND breaks `flap_loop_recognised`; the driver refuses to run then). -/
def codeFlap (dec : FlapDecide) : FlapFn := ringFlap (Gen.flapStartOffset.getD 0) dec

/-- `updateFlapping` as the driver executes it (float64). -/
def goFlap (k : FlapConsts) (low high : Float) : FlapFn := codeFlap (floatDecide k low high)

/-! ### Runs -/

def runStream (c : Cfg) (flap : FlapFn) (s : St) : List Pt → St × List Ev
  | [] => (s, [])
  | p :: ps =>
    let (s', e) := pointStep c flap s p
    let (s'', es) := runStream c flap s' ps
    (s'', e.toList ++ es)

def runBatches (c : Cfg) (flap : FlapFn) (s : St) : List Batch → St × List Ev
  | [] => (s, [])
  | b :: bs =>
    let (s', e) := batchStep c flap s b
    let (s'', es) := runBatches c flap s' bs
    (s'', e.toList ++ es)

end Kap.C01
