/-
C02 — model of the stream routing of `task_master.go` / `task.go` / `stream.go`.

Transcribed (snapshot ef0888e + the `fix:` commit recorded in findings/C02.txt):
* `TaskMaster.forks : map[forkKey]map[string]edge.Edge`  ↦ `TM.forks : Key → List (String × Edge)` (outer map total with
  default "no entry"; inner map = association list without a meaningful order: Go iterates it in random order),
  `taskToForkKeys` ↦ `TM.forkKeysOf`, `tasks` ↦ `TM.tasks`.
* `Task.Measurements()` = the `Measurement` of EVERY from-node (possibly "", duplicates kept); `forkKeys` = dbrps × measurements.
* `StartTask`: refuses a task without dbrps and (since the third/fourth fix) an id that is LIVE (in `tm.tasks` with fork keys); `newFork` makes ONE edge and registers it under every key (appending the key to
  `taskToForkKeys[id]`, overwriting `forks[key][id]`); the edge becomes the input of the task's stream node (`et.start(ins)`),
  which is what `Edge.task` records; `tm.tasks[id] = et`.
* `StartTask` can still fail after `newFork` (`TaskStore.LoadSnapshot` error): op `startfail`; the repaired code removes the fork again
  (`startTaskFail`), the snapshot's did not (`startTaskFailOld`).
* `StopTask`/`DeleteTask` → `stopTask`: nothing when the id is not executing; else `delete(tm.tasks,id)` and `delFork`, which walks
  `taskToForkKeys[id]`, closes the first edge it finds (once) and deletes the id from `forks[key]`; then forgets the key list.
* `Drain`: `delFork` for every id that has fork keys; `tm.tasks` keeps the (ended) executions, which may then be started again.
* `WritePoints`: empty retention policy ⇒ `DefaultRetentionPolicy`; every point becomes a PointMessage carrying (db, rp) and goes
  through `forkPoint` in call order (`runForking` is one goroutine reading a FIFO edge).
* `forkPoint`: Collect on every edge of `forks[(db,rp,name)]`, then on every edge of `forks[(db,rp,"")]` — since the fix, skipping a
  task already served under the exact key (both entries are the SAME edge). `forkPointOld` is the snapshot's version.
* inside a task: `StreamNode.runSourceStream` copies every message of the input edge to every child (the top-level from-nodes), `FromNode.Point`
  forwards iff `matches` (to its sink and to from-nodes chained below it: `chainGets`) (db / rp / measurement equal when set, then the where-predicate; an evaluation error = no match), the
  `@sink()` under from-node #i records. Edges are FIFO and loss-free, so what sink #i records is the input edge's sequence filtered
  by `matches`: that composition is `TM.delivered` (the asynchrony of the pipeline is not modelled; the harness quiesces).

* the from() OPTIONS (`FromNode.Point`, group_by.go `determineTagNames` / `computeTagNames`): a from-node that matches makes a
  `ShallowCopy` of the message it received, sets the copy's time to `Truncate(truncate)` then `Round(round)` (each only when the
  option is not 0; Go's `time.Truncate/Round` count from the year-1 epoch: `Kap.C16.goTruncate/goRound`, reused), and sets its
  dimensions to `{ByName: groupByMeasurement, TagNames: groupBy(*) ? sorted tag keys of the point : sort.Strings(listed names)}`
  (listed names are NOT intersected with the point's tags; duplicates stay). Name, database, retention policy, tags and fields are
  never touched. The message it RECEIVED is the very pointer its sibling from-nodes and — `forkPoint` collects one pointer on every
  edge — every other subscribed task get: `From.point` returns it too (unchanged, thanks to the copy; `From.pointInPlace` = the
  same node without the copy, for the counterexample theorem). `chainEmits` = what from-node #i forwards (`@sink()` records it).

Abstracted: the where-lambda's outcome is an oracle column of the point (`pass` = indices of the predicates that evaluate to true);
lock atomicity (`forkPoint` under RLock, table updates under Lock) makes a history a sequence; a Collect on a closed edge (Go: panic
`send on closed channel`) is recorded in `sentOnClosed`. Core Lean only (the compiled driver imports this file).
-/
import Kap.Basic
import Kap.Model.C16
import Kap.Model.C06
namespace Kap.C02

/-- `forkKey{Database, RetentionPolicy, Measurement}` -/
abbrev Key := String × String × String

/-- The OPTIONS of `pipeline.FromNode`: `Dimensions` (string dimensions in call order, `*`), `GroupByMeasurementFlag`, `Truncate`,
`Round` (ns; 0 = not set). `validateDimensions` refuses `*` together with names and an empty name; the transcription of the run-time
code below does not depend on that. -/
structure FromOpts where
  dims : List String := []
  star : Bool := false
  byName : Bool := false
  truncate : Int := 0
  round : Int := 0
deriving DecidableEq, Repr, Inhabited

/-- `pipeline.KapacitorLoopbackNode` (a child of a from-node: `from()…|kapacitorLoopback().database(db).retentionPolicy(rp)
.measurement(name).tag(k, v)…`): where its points are written back to (`name` `""` = property not set: the point keeps its name) and
the static tags it sets (a Go map: keys distinct). What the node does is transcribed in Kap/Model/C02Loop.lean. -/
structure Loop where
  db : String := ""
  rp : String := ""
  name : String := ""
  tags : List (String × String) := []
deriving DecidableEq, Repr, Inhabited

/-- `pipeline.FromNode`: its selection (`""` = property not set; `wh` = index of the where-lambda) and its options. -/
structure From where
  db : String := ""
  rp : String := ""
  name : String := ""
  wh : Option Nat := none
  /-- `none`: child of the stream node (`stream|from()`); `some j`: child of from-node #`j` (`fromJ|from()`), `j` earlier in pipeline order -/
  parent : Option Nat := none
  opts : FromOpts := {}
  /-- the `kapacitorLoopback()` nodes hanging below this from-node, in pipeline order (routing of the task itself never looks at them) -/
  loops : List Loop := []
deriving DecidableEq, Repr, Inhabited

/-- `kapacitor.Task`: id, declared dbrps, the from-nodes in pipeline order. -/
structure TaskDef where
  id : String
  dbrps : List (String × String)
  froms : List From
deriving DecidableEq, Repr, Inhabited

/-- The part of a point the routing never looks at: time (Unix ns), tags (a Go map: keys distinct, no order), fields. -/
structure Payload where
  time : Int := 0
  tags : List (String × String) := []
  fields : List (String × Int) := []
deriving DecidableEq, Repr, Inhabited

/-- A point as handed to `WritePoints` (the harness gives every point a unique `id` field). -/
structure RawPoint where
  id : Nat
  name : String
  pass : List Nat
  pl : Payload := {}
deriving DecidableEq, Repr, Inhabited

/-- `edge.PointMessage` as created by `WritePoints` (its dimensions are `models.Dimensions{}`). -/
structure Point where
  id : Nat
  db : String
  rp : String
  name : String
  pass : List Nat
  pl : Payload := {}
deriving DecidableEq, Repr, Inhabited

/-- The input edge made by `newFork` for one `ExecutingTask`; `task` = the task whose stream node reads it. -/
structure Edge where
  eid : Nat
  task : TaskDef
deriving DecidableEq, Repr, Inhabited

/-- `FromNode.matches`. -/
def From.matches (f : From) (p : Point) : Bool :=
  if f.db != "" && p.db != f.db then false
  else if f.rp != "" && p.rp != f.rp then false
  else if f.name != "" && p.name != f.name then false
  else match f.wh with
    | some k => p.pass.contains k
    | none => true

/-- `Task.Measurements()`. -/
def TaskDef.measurements (d : TaskDef) : List String := d.froms.map (·.name)

/-- `forkKeys(dbrps, measurements)`. -/
def forkKeys (dbrps : List (String × String)) (ms : List String) : List Key :=
  dbrps.flatMap (fun d => ms.map (fun m => (d.1, d.2, m)))

def TaskDef.keys (d : TaskDef) : List Key := forkKeys d.dbrps d.measurements

/-- Go map assignment `m[a] = b` on a total function. -/
def upd {α β} [DecidableEq α] (f : α → β) (a : α) (b : β) : α → β := fun x => if x = a then b else f x

/-- `tasksMap[taskName] = e` on the inner map. -/
def insertTask (l : List (String × Edge)) (id : String) (e : Edge) : List (String × Edge) :=
  l.filter (fun x => x.1 != id) ++ [(id, e)]

/-- `delete(tm.forks[key], id)` on the inner map. -/
def eraseTask (l : List (String × Edge)) (id : String) : List (String × Edge) :=
  l.filter (fun x => x.1 != id)

structure TM where
  defaultRP : String := ""
  forks : Key → List (String × Edge) := fun _ => []
  forkKeysOf : String → List Key := fun _ => []          -- taskToForkKeys
  tasks : String → Option Edge := fun _ => none           -- tm.tasks (the ExecutingTask = its definition + input edge)
  nextEdge : Nat := 0
  /-- every id `newFork` was ever called for: a superset of the key set of the Go map `taskToForkKeys` (ids that are in the list
  but have no fork keys any more are skipped by `delFork` anyway) -/
  everForked : List String := []
  closed : List Edge := []
  /-- every `Edge.Collect` performed by `forkPoint`, in order -/
  log : List (Edge × Point) := []
  /-- a Collect hit a closed edge (Go would panic) -/
  sentOnClosed : Bool := false
deriving Inhabited

/-- The table part of `newFork`: register `e` under every key. -/
def registerKeys (id : String) (e : Edge) (keys : List Key)
    (st : (Key → List (String × Edge)) × (String → List Key)) : (Key → List (String × Edge)) × (String → List Key) :=
  keys.foldl (fun st key => (upd st.1 key (insertTask (st.1 key) id e), upd st.2 id (st.2 id ++ [key]))) st

/-- `newFork`. -/
def newFork (s : TM) (d : TaskDef) : TM × Edge :=
  let e : Edge := { eid := s.nextEdge, task := d }
  let st := registerKeys d.id e d.keys (s.forks, s.forkKeysOf)
  ({ s with nextEdge := s.nextEdge + 1, forks := st.1, forkKeysOf := st.2, everForked := s.everForked ++ [d.id] }, e)

/-- `StartTask` as it was at the snapshot: no look at `tm.tasks` — starting an id that is executing overwrote `tm.tasks[id]` and
the entries of the NEW keys, leaving the old edge registered under the old keys (kept for the counterexample theorem). -/
def startTaskOld (s : TM) (d : TaskDef) : TM :=
  if d.dbrps.isEmpty then s                 -- "task does contain any dbrps"
  else
    let (s', e) := newFork s d
    { s' with tasks := upd s'.tasks d.id (some e) }

/-- Is the id LIVE: in `tm.tasks` and still holding fork keys (`len(tm.taskToForkKeys[id]) > 0`)? After `Drain` (or when it has no
from-node at all) an id can sit in `tm.tasks` without being live. -/
def TM.isLive (s : TM) (id : String) : Bool := (s.tasks id).isSome && !(s.forkKeysOf id).isEmpty

/-- `StartTask` (since the third and fourth `fix:` commits it refuses an id that is LIVE; an id whose execution has ended — its forks
are gone — may be started again, as at the snapshot). -/
def startTask (s : TM) (d : TaskDef) : TM :=
  if d.dbrps.isEmpty then s                 -- "task does contain any dbrps"
  else if s.isLive d.id then s              -- "task is already executing"
  else
    let (s', e) := newFork s d
    { s' with tasks := upd s'.tasks d.id (some e) }

/-- The loop of `delFork`: state = (forks, closed edges, isEdgeClosed). -/
def delForkLoop (id : String) (keys : List Key)
    (st : (Key → List (String × Edge)) × List Edge × Bool) : (Key → List (String × Edge)) × List Edge × Bool :=
  keys.foldl (fun st key =>
    match (st.1 key).find? (fun x => x.1 == id) with
    | some x => (upd st.1 key (eraseTask (st.1 key) id), (if st.2.2 then st.2.1 else st.2.1 ++ [x.2]), true)
    | none => st) st

/-- `delFork`. -/
def delFork (s : TM) (id : String) : TM :=
  let st := delForkLoop id (s.forkKeysOf id) (s.forks, s.closed, false)
  { s with forks := st.1, closed := st.2.1, forkKeysOf := upd s.forkKeysOf id [] }

/-- `StartTask` when `TaskStore.LoadSnapshot` fails: that happens AFTER `newFork`; since the second `fix:` commit the fork is removed
again before the error is returned. -/
def startTaskFail (s : TM) (d : TaskDef) : TM :=
  if d.dbrps.isEmpty then s else if s.isLive d.id then s else delFork (newFork s d).1 d.id

/-- … as it was at the snapshot: the error return left the edge registered (nobody ever reads it). -/
def startTaskFailOld (s : TM) (d : TaskDef) : TM :=
  if d.dbrps.isEmpty then s else (newFork s d).1

/-- `stopTask` (shared by `StopTask` and `DeleteTask`; the delete hooks of `DeleteTask` do not touch the routing). -/
def stopTask (s : TM) (id : String) : TM :=
  match s.tasks id with
  | some _ => delFork { s with tasks := upd s.tasks id none } id
  | none => s

/-- `Drain`: `for id := range tm.taskToForkKeys { tm.delFork(id) }` (after the forking goroutines have finished). `tm.tasks` is not
touched. `Drain` also closes `WritePoints` for good (`ErrTaskMasterClosed`); points can still be fed through `tm.Stream(name)`,
which is what the op `write` stands for after a drain (the driver knows which API the harness used). -/
def drain (s : TM) : TM := s.everForked.foldl delFork s

/-- `edge.Collect(p)`. -/
def collect (s : TM) (e : Edge) (p : Point) : TM :=
  { s with log := s.log ++ [(e, p)], sentOnClosed := s.sentOnClosed || s.closed.contains e }

/-- `forkPoint` as it is in the source today. -/
def forkPoint (s : TM) (p : Point) : TM :=
  let exact := s.forks (p.db, p.rp, p.name)
  let s₁ := exact.foldl (fun s x => collect s x.2 p) s
  (s.forks (p.db, p.rp, "")).foldl
    (fun s x => if exact.any (fun y => y.1 == x.1) then s else collect s x.2 p) s₁

/-- `forkPoint` as it was at snapshot ef0888e (kept for the counterexample theorem). -/
def forkPointOld (s : TM) (p : Point) : TM :=
  let s₁ := (s.forks (p.db, p.rp, p.name)).foldl (fun s x => collect s x.2 p) s
  (s.forks (p.db, p.rp, "")).foldl (fun s x => collect s x.2 p) s₁

def mkPoint (db rp : String) (r : RawPoint) : Point :=
  { id := r.id, db := db, rp := rp, name := r.name, pass := r.pass, pl := r.pl }

/-- `WritePoints` followed by `runForking`. -/
def writePointsWith (fp : TM → Point → TM) (s : TM) (db rp : String) (pts : List RawPoint) : TM :=
  let rp' := if rp == "" then s.defaultRP else rp
  pts.foldl (fun s r => fp s (mkPoint db rp' r)) s

inductive Op where
  | start (d : TaskDef)
  | startfail (d : TaskDef)        -- StartTask whose snapshot cannot be loaded: returns an error
  | stop (id : String)
  | delete (id : String)
  | drain                          -- TaskMaster.Drain: every fork is deleted (the executions end), tm.tasks keeps its entries
  | write (db rp : String) (pts : List RawPoint)
deriving Repr, Inhabited

/-- How the body of a `/write` request arrives (`httpd.Handler.serveWrite`). -/
inductive BodyEnc where
  | plain            -- no `Content-Encoding: gzip` header
  | gzip             -- the header, and a well-formed gzip stream: the handler reads the decompressed bytes
  | gzipBadHeader    -- the header, but the body is no gzip stream: `gzip.NewReader` fails ⇒ 400
  | gzipTruncated    -- the header, a gzip stream cut short: `io.ReadAll` fails ⇒ 400
deriving DecidableEq, Repr, Inhabited

/-- One line of a line-protocol body. -/
inductive Line where
  | point (r : RawPoint) (ts : Int)   -- well-formed; `ts` = its integer time stamp, in the request's precision (`r.pl.time` is not used)
  | bad                                -- does not parse
  | skip                               -- blank line or `#` comment: no point, no error
deriving Repr, Inhabited

/-- `models.GetPrecisionMultiplier`: an unknown precision counts as nanoseconds. -/
def precisionMult (precision : String) : Int :=
  if precision == "u" then 1000
  else if precision == "ms" then 1000000
  else if precision == "s" then 1000000000
  else if precision == "m" then 60000000000
  else if precision == "h" then 3600000000000
  else 1

def minNanoTime : Int := -9223372036854775808 + 2
def maxNanoTime : Int := 9223372036854775807 - 1

/-- `models.SafeCalcTime` (`safeSignedMult` + `CheckTime`): `none` = "time outside range", the line fails. -/
def safeCalcTime (ts : Int) (precision : String) : Option Int :=
  let t := ts * precisionMult precision
  if t < minNanoTime || t > maxNanoTime then none else some t

/-- `models.ParsePointsWithPrecision` on one line: `none` = no point; `some none` = the line fails. -/
def parseLine (precision : String) : Line → Option (Option RawPoint)
  | .skip => none
  | .bad => some none
  | .point r ts => some ((safeCalcTime ts precision).map (fun t => { r with pl := { r.pl with time := t } }))

/-- `httpd.Handler.serveWrite` + `serveWriteLine`: one request ↦ (HTTP status, the `WritePoints` call it makes, if any). A body that
cannot be un-gzipped: 400. A line that fails (does not parse, or its time stamp × precision leaves the int64 ns range) makes
`models.ParsePointsWithPrecision` return an error: 400 and NOTHING of the body is written; a missing `db` parameter: 400 (checked
after parsing); a missing `rp` parameter is passed on as "" (⇒ default retention policy). `precision` "" counts as "n". The
`consistency` parameter is never read (not an argument here): `WritePoints` always gets `ConsistencyLevelAll` and ignores it.
`closed`: the TaskMaster has been drained / closed (`writesClosed`): `WritePoints` answers `ErrTaskMasterClosed`, which is no client
error (`influxdb.IsClientError`), so the handler answers 500 — after the body was parsed and the `db` parameter checked. -/
def serveWrite (enc : BodyEnc) (db rp precision : String) (lines : List Line) (closed : Bool := false) : Nat × Option Op :=
  match enc with
  | .gzipBadHeader => (400, none)
  | .gzipTruncated => (400, none)
  | _ =>
    let precision := if precision == "" then "n" else precision
    let parsed := lines.filterMap (parseLine precision)
    if parsed.any (·.isNone) then (400, none)
    else if db == "" then (400, none)
    else if closed then (500, none)
    else (204, some (.write db rp (parsed.filterMap id)))

def stepWith (fp : TM → Point → TM) (s : TM) : Op → TM
  | .start d => startTask s d
  | .startfail d => startTaskFail s d
  | .stop id => stopTask s id
  | .delete id => stopTask s id
  | .drain => drain s
  | .write db rp pts => writePointsWith fp s db rp pts

def step (s : TM) (op : Op) : TM := stepWith forkPoint s op

def init (defaultRP : String) : TM := { defaultRP := defaultRP }

def runWith (fp : TM → Point → TM) (defaultRP : String) (ops : List Op) : TM := ops.foldl (stepWith fp) (init defaultRP)
def run (defaultRP : String) (ops : List Op) : TM := ops.foldl step (init defaultRP)

/-- Does from-node #`i` emit `p`? `runSourceStream` hands every message of the input edge to the children of the stream node; a
from-node forwards what it receives iff `matches` (`FromNode.Point`), to its sink and to the from-nodes chained below it. `fuel`
bounds the walk up the parents (a parent precedes its child in pipeline order, so `i+1` suffices). -/
def chainGets (froms : List From) : Nat → Nat → Point → Bool
  | 0, _, _ => false
  | fuel + 1, i, p =>
    match froms[i]? with
    | none => false
    | some f =>
      f.matches p &&
      (match f.parent with
       | none => true
       | some j => chainGets froms fuel j p)

/-- Does the sink under from-node #`i` of the task reading the edge record `p`? -/
def sinkGets (d : TaskDef) (i : Nat) (p : Point) : Bool := chainGets d.froms (i + 1) i p

/-- What the sink under from-node #`i` of task `t` has recorded, seen through `g` (task definition, from-node index, point). -/
def TM.deliveredWith {β : Type} (g : TaskDef → Nat → Point → β) (s : TM) (t : String) (i : Nat) : List β :=
  s.log.filterMap (fun ep => if ep.1.task.id == t && sinkGets ep.1.task i ep.2 then some (g ep.1.task i ep.2) else none)

/-- What the sink under from-node #`i` of task `t` has recorded: ids, in order. -/
def TM.delivered (s : TM) (t : String) (i : Nat) : List Nat := s.deliveredWith (fun _ _ p => p.id) t i

/-! ### The from() options: what a forwarded point looks like -/

/-- The fields of `edge.pointMessage` a from-node writes: `time` and `dimensions` (`models.Dimensions{ByName, TagNames}`). -/
structure Msg where
  time : Int
  byName : Bool := false
  tagNames : List String := []
deriving DecidableEq, Repr, Inhabited

/-- `sort.Strings` (bytewise order = code point order of UTF-8): insertion sort; the result is THE sorted permutation
(theorem `sortStrings_sorted_perm`), which is all the Go code relies on. -/
def insertSorted (a : String) : List String → List String
  | [] => [a]
  | b :: l => if a ≤ b then a :: b :: l else b :: insertSorted a l

def sortStrings : List String → List String
  | [] => []
  | a :: l => insertSorted a (sortStrings l)

/-- `determineTagNames(n.Dimensions, nil)`: (allDimensions, the string dimensions sorted, a repeated name kept once —
`uniqueSorted`, group_by.go, since `fix:` 6ba92e9; transcribed in Kap/Model/C06.lean). -/
def FromOpts.determineTagNames (o : FromOpts) : Bool × List String := (o.star, C06.uniqueSorted (sortStrings o.dims))

/-- `determineTagNames` before `fix:` 6ba92e9: repetitions kept (counterexample theorem only). -/
def FromOpts.determineTagNamesOld (o : FromOpts) : Bool × List String := (o.star, sortStrings o.dims)

/-- `computeTagNames(p.Tags(), allDimensions, tagNames, nil)`; `models.SortedKeys(tags)` = the keys, sorted. -/
def computeTagNames (tags : List (String × String)) (allDimensions : Bool) (tagNames : List String) : List String :=
  if allDimensions then sortStrings (tags.map (·.1)) else tagNames

/-- The body of `FromNode.Point` after `ShallowCopy`: re-stamp the copy `c`. -/
def From.stamp (f : From) (p : Point) (c : Msg) : Msg :=
  let c := if f.opts.truncate != 0 then { c with time := C16.goTruncate c.time f.opts.truncate } else c
  let c := if f.opts.round != 0 then { c with time := C16.goRound c.time f.opts.round } else c
  { c with byName := f.opts.byName,
           tagNames := computeTagNames p.pl.tags f.opts.determineTagNames.1 f.opts.determineTagNames.2 }

/-- `FromNode.Point` on the received message `m` (of point `p`): (what is forwarded, the RECEIVED message afterwards). The received
message is shared — the stream node (or the parent from-node) hands the same pointer to every child, `forkPoint` to every task. -/
def From.point (f : From) (p : Point) (m : Msg) : Option Msg × Msg :=
  if f.matches p then (some (f.stamp p m), m)     -- `p = p.ShallowCopy()`: the setters hit the copy
  else (none, m)

/-- The same node WITHOUT the `ShallowCopy` (not the code; kept for the counterexample theorem): the setters hit the shared message. -/
def From.pointInPlace (f : From) (p : Point) (m : Msg) : Option Msg × Msg :=
  if f.matches p then (some (f.stamp p m), f.stamp p m) else (none, m)

/-- `for _, child := range n.outs { child.Collect(m) }`: the children receive the same message one after the other (the order is
the scheduler's); returns what each child forwards and the shared message at the end. -/
def fanOutWith (pt : From → Point → Msg → Option Msg × Msg) (children : List From) (p : Point) (m : Msg) :
    List (Option Msg) × Msg :=
  children.foldl (fun acc f => ((acc.1 ++ [(pt f p acc.2).1]), (pt f p acc.2).2)) ([], m)

/-- The message `WritePoints` made for the point: its time, `models.Dimensions{}`. -/
def Point.msg (p : Point) : Msg := { time := p.pl.time }

/-- What from-node #`i` forwards for `p` (`none`: nothing): the stream node hands it `p.msg`, a parent from-node what it forwards. -/
def chainEmits (froms : List From) : Nat → Nat → Point → Option Msg
  | 0, _, _ => none
  | fuel + 1, i, p =>
    match froms[i]? with
    | none => none
    | some f =>
      match f.parent with
      | none => (f.point p p.msg).1
      | some j =>
        match chainEmits froms fuel j p with
        | none => none
        | some m => (f.point p m).1

/-- What the `@sink()` under a from-node records of a point: everything a `PointMessage` has. -/
structure Rec where
  id : Nat
  name : String
  db : String
  rp : String
  tags : List (String × String)
  fields : List (String × Int)
  time : Int
  byName : Bool
  tagNames : List String
deriving DecidableEq, Repr, Inhabited

/-- point `p` as forwarded with the re-stamped part `m` -/
def mkRec (p : Point) (m : Msg) : Rec :=
  { id := p.id, name := p.name, db := p.db, rp := p.rp, tags := p.pl.tags, fields := p.pl.fields,
    time := m.time, byName := m.byName, tagNames := m.tagNames }

/-- What the sink under from-node #`i` of task `t` has recorded: the whole points, in order. -/
def TM.deliveredPts (s : TM) (t : String) (i : Nat) : List Rec :=
  s.log.filterMap (fun ep =>
    if ep.1.task.id == t then (chainEmits ep.1.task.froms (i + 1) i ep.2).map (mkRec ep.2) else none)

end Kap.C02
