/-
C02 — the routing model with BOUNDED edges (what `edge.NewChannelEdge(t, defaultEdgeBufferSize)` really is: a Go channel of that
capacity), layered over Kap/Model/C02.lean.

* An edge has a READER iff an ExecutingTask is running on it (`tm.tasks[id]` is the task whose stream node was given this edge by
  `et.start(ins)`); the reader keeps taking messages until the edge is closed, so a Collect on such an edge returns (assumed: Go
  scheduler fairness and liveness of the pipeline inside the task — the subject of C07).
* An edge WITHOUT a reader is never drained: the Collect that finds `cap` messages in it blocks for ever. `forkPoint` runs in the single
  forking goroutine under `tm.mu.RLock`, so from then on no point is forked any more (to any task) and every `StartTask` /
  `StopTask` / `DeleteTask` / `Close` waits for the write lock for ever: `blocked`.
The capacity is read from the source on every run (Kap/Gen/C02Cap.lean, extractor extract/c02cap). Core Lean only.
-/
import Kap.Model.C02
namespace Kap.C02

structure TMB where
  tm : TM := {}
  /-- the forking goroutine sits in a Collect that will never return -/
  blocked : Bool := false
deriving Inhabited

/-- Is an ExecutingTask reading this edge? -/
def hasReader (s : TM) (e : Edge) : Bool := s.tasks e.task.id == some e

/-- Messages sitting in an edge nobody reads = everything ever collected on it. -/
def occupancy (s : TM) (e : Edge) : Nat := (s.log.filter (fun ep => ep.1 == e)).length

/-- `edge.Collect(p)` on a channel of capacity `cap`. -/
def collectB (cap : Nat) (b : TMB) (e : Edge) (p : Point) : TMB :=
  if b.blocked then b
  else if !hasReader b.tm e && decide (cap ≤ occupancy b.tm e) then { b with blocked := true }
  else { b with tm := collect b.tm e p }

/-- `forkPoint` over bounded edges. -/
def forkPointB (cap : Nat) (b : TMB) (p : Point) : TMB :=
  let exact := b.tm.forks (p.db, p.rp, p.name)
  let b₁ := exact.foldl (fun b x => collectB cap b x.2 p) b
  (b.tm.forks (p.db, p.rp, "")).foldl
    (fun b x => if exact.any (fun y => y.1 == x.1) then b else collectB cap b x.2 p) b₁

/-- One operation; `start` / `startFail` are parameters so that the snapshot's versions can be plugged in. -/
def stepBWith (start startFail : TM → TaskDef → TM) (cap : Nat) (b : TMB) (op : Op) : TMB :=
  if b.blocked then b      -- nothing gets the lock / nothing is forked any more
  else match op with
    | .start d => { b with tm := start b.tm d }
    | .startfail d => { b with tm := startFail b.tm d }
    | .stop id => { b with tm := stopTask b.tm id }
    | .delete id => { b with tm := stopTask b.tm id }
    | .drain => { b with tm := drain b.tm }
    | .write db rp pts =>
      let rp' := if rp == "" then b.tm.defaultRP else rp
      pts.foldl (fun b r => forkPointB cap b (mkPoint db rp' r)) b

def stepB (cap : Nat) (b : TMB) (op : Op) : TMB := stepBWith startTask startTaskFail cap b op

def runB (cap : Nat) (defaultRP : String) (ops : List Op) : TMB := ops.foldl (stepB cap) { tm := init defaultRP }

end Kap.C02
