/-
C02 — interleaving model of `TaskMaster.forkPoint` racing with `delFork` / `newFork` (task_master.go).

Transcribed:
* `forkPoint`:  `tm.mu.RLock(); for each edge subscribed in tm.forks[key] { edge.Collect(p) }; tm.mu.RUnlock()`.
* `delFork`  :  under `tm.mu.Lock()`: `edge.Close()` and `delete(tm.forks[key], id)`.
* `newFork`  :  under `tm.mu.Lock()`: a FRESH edge is registered for the id.
* `edge/channelEdge.Collect` = a send on the edge's channel, which PANICS on a closed channel (the panic is not recovered on the
  forking goroutine: the process dies).

Abstracted: one fork key; a task = its id (`Nat`) = its one edge; ids are never reused (`add t` of an id whose edge was closed, or
that is subscribed, is a no-op); edges are unbounded (blocking is Kap/Model/C02Bounded.lean); the forking goroutine handles the
points `0 .. n-1` one after the other. What is modelled is the GRANULARITY of the atomic steps:
* `Variant.locked` (the code): the whole loop of `forkPoint` is ONE atomic step, because it runs under the read lock and
  `delFork`/`newFork` need the write lock.
* `Variant.snapshot` (the regression "collect after releasing tm.mu"): one atomic step copies the fork table into a local
  slice (under the lock), then ONE SEPARATE step per entry of the copy, in order, not under the lock.
A schedule is a list of events: `.fork` = the forking goroutine makes its next atomic step, `.del t` / `.add t` = a whole
`delFork` / `newFork` (atomic: write lock). Once `panicked`, every later event is a no-op (the process is dead).
Core Lean only.
-/
namespace Kap.C02.Lock

inductive Variant where
  | locked
  | snapshot
deriving DecidableEq, Repr

inductive Ev where
  | fork
  | del (t : Nat)
  | add (t : Nat)
deriving DecidableEq, Repr

structure State where
  /-- the fork table: subscribed task ids (each has one open edge) -/
  subs : List Nat
  /-- edges closed by `delFork` -/
  closed : List Nat := []
  /-- deliveries (task, point id) in order -/
  log : List (Nat × Nat) := []
  /-- a Collect hit a closed channel: the process died -/
  panicked : Bool := false
  /-- program counter of the forking goroutine: index of the point being forked -/
  pc : Nat := 0
  /-- snapshot variant: the entries of the local copy still to be served for point `pc` (`none` = no copy taken yet) -/
  snap : Option (List Nat) := none
deriving DecidableEq, Repr

/-- `edge.Collect(p)` on the edge of task `t`. -/
def collect (t p : Nat) (s : State) : State :=
  if s.panicked then s
  else if t ∈ s.closed then { s with panicked := true }
  else { s with log := s.log ++ [(t, p)] }

/-- `forkPoint` as written: the loop under the read lock is one atomic step. -/
def forkLocked (s : State) : State :=
  let s' := s.subs.foldl (fun a t => collect t s.pc a) s
  { s' with pc := s.pc + 1 }

/-- the local copy is exhausted: `forkPoint` returns, next point. -/
def finish (s : State) : State :=
  match s.snap with
  | some [] => { s with snap := none, pc := s.pc + 1 }
  | _ => s

/-- one atomic step of the snapshot variant: take the copy, or serve its next entry. -/
def forkSnapshot (s : State) : State :=
  match s.snap with
  | none => finish { s with snap := some s.subs }
  | some [] => finish s
  | some (t :: rest) => finish (collect t s.pc { s with snap := some rest })

def step (v : Variant) (n : Nat) (s : State) (e : Ev) : State :=
  if s.panicked then s else
  match e with
  | .fork =>
    if s.pc < n then
      match v with
      | .locked => forkLocked s
      | .snapshot => forkSnapshot s
    else s
  | .del t =>
    if t ∈ s.subs then { s with closed := t :: s.closed, subs := s.subs.erase t } else s
  | .add t =>
    if t ∈ s.subs ∨ t ∈ s.closed then s else { s with subs := s.subs ++ [t] }

def run (v : Variant) (n : Nat) (subs : List Nat) (sched : List Ev) : State :=
  sched.foldl (step v n) { subs := subs }

/-- the point ids delivered to task `t`, in order -/
def deliveredTo (s : State) (t : Nat) : List Nat :=
  (s.log.filter (fun e => e.1 == t)).map (·.2)

/-- number of `.fork` events of a schedule -/
def forks : List Ev → Nat
  | [] => 0
  | .fork :: r => forks r + 1
  | _ :: r => forks r

end Kap.C02.Lock
