/-
C02 — second layer of the model: the ingestion paths that do not come from an external writer.

Transcribed (kapacitor_loopback.go, task_master.go `WriteKapacitorPoint`, task.go / task_master.go `StartTask`):
* `KapacitorLoopbackNode.Point` (stream edge; the node is a child of a from-node and receives what that from-node FORWARDS, i.e. the
  re-stamped copy `chainEmits`): `ShallowCopy`, `SetDatabase(n.Database)` / `SetRetentionPolicy(n.RetentionPolicy)` /
  `SetName(n.Measurement)` each only when the property is not "", then `tags = p.Tags().Copy(); tags[k] = v` for every static tag
  (`setTag`: tags are kept as a list sorted by key), then `tm.WriteKapacitorPoint(p)`; an error of that call is logged and the point
  is DROPPED (`Loop.point`, `lstep … .loop`).
* `KapacitorLoopbackNode.BatchPoint` (the node below a BATCH task's pipeline): a NEW point message with name = the node's
  `measurement` property, or the batch's name (`n.begin.Name()`) when it is "" (since the `fix:` commit recorded in
  findings/C02.txt; at the snapshot the property was not read on this path: `Loop.batchPointOld`), `n.Database`,
  `n.RetentionPolicy`, the batch point's fields / time and its tags + the static tags (`Loop.batchPoint`). A batch task has no fork: it never receives what is written
  to the TaskMaster; for the routing it is just one more writer (op `.batch`).
* `pipeline.KapacitorLoopbackNode.validate`: database and retention policy must be given — a definition with such a node is refused
  at task creation, long before `StartTask`; the model treats an invalid loop as absent (`Loop.valid`).
* `newKapacitorLoopbackNode` (called from `NewExecutingTask`, i.e. by `StartTask` after the "no dbrps" and "already executing"
  tests and BEFORE `newFork`): "loop detected" when the node's (database, retention policy) is one of the task's own dbrps —
  `StartTask` returns the error and nothing has been touched (`TaskDef.selfLoop`, `lstep … .ext (.start d)`).
* `WriteKapacitorPoint`: refused (`ErrTaskMasterClosed`) once `Drain` has set `writesClosed` (`LTM.closed`); otherwise
  `ShallowCopy`, `SetDimensions(models.Dimensions{})` and Collect on the SAME `write_points` edge `WritePoints` uses: the point is
  forked by the same `forkPoint`, in FIFO order of that edge, WITHOUT default-retention-policy substitution.

Scheduling. The loopback node is a goroutine of its own: between the moment the from-node above it forwards a point and the
moment `forkPoint` handles the written-back point, anything may happen (further external writes, starts and stops). A history of
this layer therefore says WHEN the looped points are forked — op `.loop t i k n`: the next `n` points that loopback node #`k`
below from-node #`i` of task `t` has been handed and has not yet written are now forked, in hand-over order (the node is
sequential and `write_points` is FIFO) — and the model derives WHAT they are: `TM.loopFeed` = everything the node was ever handed
(a function of the Collect log), `LTM.done` = how many of them it has dealt with. Stopping task `t` does not empty its loopback
node: `StopTask` closes the input edge and waits for every node to drain (`et.stop`: the loopback node has no stop function),
so the backlog is still written into `write_points` (when that edge is full this is the deadlock recorded as C07 finding
loopback-stop-deadlock — capacities are not modelled in this layer) and forked after the stop: `.loop` steps stay possible.

Core Lean only (the compiled driver imports this file).
-/
import Kap.Model.C02
namespace Kap.C02

/-- `tags[k] = v` on a tag list kept sorted by key (for ANY list: the first entry found under `k` afterwards is `v`, every other key
finds what it found before — theorem `setTag_lookup`). -/
def setTag (k v : String) : List (String × String) → List (String × String)
  | [] => [(k, v)]
  | (a, b) :: l =>
    if k = a then (k, v) :: l
    else if k < a then (k, v) :: (a, b) :: l
    else (a, b) :: setTag k v l

/-- `tags := p.Tags().Copy(); for k, v := range n.k.Tags { tags[k] = v }` (the static tags are a Go map: distinct keys, so the
iteration order does not matter). -/
def Loop.setTags (L : Loop) (tags : List (String × String)) : List (String × String) :=
  L.tags.foldl (fun acc kv => setTag kv.1 kv.2 acc) tags

/-- `KapacitorLoopbackNode.validate`. -/
def Loop.valid (L : Loop) : Bool := L.db != "" && L.rp != ""

/-- `KapacitorLoopbackNode.Point` + `WriteKapacitorPoint` on the message `m` of point `p` that the from-node above forwarded: the
point that enters `write_points` (its dimensions are `models.Dimensions{}` again, as for every `Point` of this model). The oracle
column `pass` is carried over: the where-lambdas of the harness read fields and the tag `host`, which no generated loopback sets. -/
def Loop.point (L : Loop) (p : Point) (m : Msg) : Point :=
  { id := p.id,
    db := if L.db != "" then L.db else p.db,
    rp := if L.rp != "" then L.rp else p.rp,
    name := if L.name != "" then L.name else p.name,
    pass := p.pass,
    pl := { time := m.time, tags := L.setTags p.pl.tags, fields := p.pl.fields } }

/-- `KapacitorLoopbackNode.BatchPoint` + `WriteKapacitorPoint` for one point of a batch called `bname`. -/
def Loop.batchPoint (L : Loop) (bname : String) (r : RawPoint) : Point :=
  { id := r.id, db := L.db, rp := L.rp, name := if L.name != "" then L.name else bname, pass := r.pass,
    pl := { time := r.pl.time, tags := L.setTags r.pl.tags, fields := r.pl.fields } }

/-- … as it was at the snapshot: the `measurement` property was ignored on batch edges (kept for the counterexample theorem). -/
def Loop.batchPointOld (L : Loop) (bname : String) (r : RawPoint) : Point :=
  { id := r.id, db := L.db, rp := L.rp, name := bname, pass := r.pass,
    pl := { time := r.pl.time, tags := L.setTags r.pl.tags, fields := r.pl.fields } }

/-- loopback node #`k` below from-node #`i` -/
def TaskDef.loopAt (d : TaskDef) (i k : Nat) : Option Loop := (d.froms[i]?).bind (·.loops[k]?)

/-- What loopback node #`k` below from-node #`i` of a task defined by `d` writes back when `p` arrives on the task's input edge. -/
def loopOut (d : TaskDef) (i k : Nat) (p : Point) : Option Point :=
  match d.loopAt i k with
  | none => none
  | some L => if L.valid then (chainEmits d.froms (i + 1) i p).map (L.point p) else none

/-- Everything loopback node (`t`, `i`, `k`) has ever been handed, as the points it writes back, in hand-over order. -/
def TM.loopFeed (s : TM) (t : String) (i k : Nat) : List Point :=
  s.log.filterMap (fun ep => if ep.1.task.id == t then loopOut ep.1.task i k ep.2 else none)

/-- `newKapacitorLoopbackNode`: "loop detected on dbrp". -/
def TaskDef.selfLoop (d : TaskDef) : Bool :=
  d.froms.any (fun f => f.loops.any (fun L => d.dbrps.any (fun x => x.1 == L.db && x.2 == L.rp)))

/-- a loopback node: task id, from-node index, index below that from-node -/
abbrev Src := String × Nat × Nat

inductive LOp where
  /-- an operation of the first layer (external writers, start / stop / delete / drain) -/
  | ext (op : Op)
  /-- loopback node (`t`, `i`, `k`) of a STREAM task: its next `n` outstanding points are forked -/
  | loop (t : String) (i k n : Nat)
  /-- the loopback node `L` of BATCH task `t` writes the points of one batch called `bname`, and they are forked -/
  | batch (t : String) (L : Loop) (bname : String) (pts : List RawPoint)
deriving Repr, Inhabited

structure LTM where
  tm : TM := {}
  /-- per loopback node: how many of the points it was handed it has dealt with (written back, or dropped after `Drain`) -/
  done : Src → Nat := fun _ => 0
  /-- `tm.writesClosed` -/
  closed : Bool := false
deriving Inhabited

/-- `runForking` on points that are already `PointMessage`s (no default-rp substitution). -/
def forkAll (s : TM) (pts : List Point) : TM := pts.foldl forkPoint s

def lstep (s : LTM) : LOp → LTM
  | .ext (.start d) => if d.selfLoop then s else { s with tm := step s.tm (.start d) }          -- "loop detected": before newFork
  | .ext (.startfail d) => if d.selfLoop then s else { s with tm := step s.tm (.startfail d) }
  | .ext .drain => { s with tm := step s.tm .drain, closed := true }
  | .ext op => { s with tm := step s.tm op }
  | .loop t i k n =>
    let pend := ((s.tm.loopFeed t i k).drop (s.done (t, i, k))).take n
    { s with tm := if s.closed then s.tm else forkAll s.tm pend,         -- after Drain: ErrTaskMasterClosed, logged, dropped
             done := upd s.done (t, i, k) (s.done (t, i, k) + pend.length) }
  | .batch _ L bname pts =>
    if s.closed || !L.valid then s else { s with tm := forkAll s.tm (pts.map (L.batchPoint bname)) }

def linit (defaultRP : String) : LTM := { tm := init defaultRP }

def lrun (defaultRP : String) (h : List LOp) : LTM := h.foldl lstep (linit defaultRP)

/-- The points loopback node `src` has been handed and not yet dealt with. -/
def LTM.outstanding (s : LTM) (src : Src) : List Point := (s.tm.loopFeed src.1 src.2.1 src.2.2).drop (s.done src)

end Kap.C02
