/-
C02, third layer — the ingestion entry point `services/udp/service.go` in front of `TaskMaster.WritePoints`
(bytes of one datagram → parsed points → one `WritePoints` call).

Transcribed:

  serve():            buf := make([]byte, UDPPacketSize)            -- ONE receive buffer for the life of the service
                      for { n := conn.ReadFromUDP(buf)              -- every datagram OVERWRITES it
                            p := make([]byte, n); copy(p, buf[:n])  -- a right-sized private copy
                            s.packets <- p }                        -- FIFO channel to processPackets
  processPackets():   for p := range s.packets {
                            points, err := models.ParsePoints(p)    -- step `parse`
                            if err != nil { points_parse_fail++; continue }      -- a packet with ONE failing line is dropped whole
                            s.PointsWriter.WritePoints(db, rp, All, points) }    -- step `write`

`models.ParsePoints` of the influxdb library is ZERO-COPY: the returned points are slices into the bytes of `p`; measurement, tags and
fields are only turned into strings inside `TaskMaster.WritePoints` (`mp.Name()`, `mp.Tags()`, `mp.Fields()`), point by point, and
`WritePoints` may take arbitrarily long (it blocks on `tm.writesMu` and on a full write_points edge: back-pressure). What the
TaskMaster is handed is therefore the content of the packet's memory AT THE TIME `WritePoints` READS IT, not at the time the
datagram arrived. The model keeps that memory explicit: `mem` maps an address to the bytes stored there (as the list of lines they
spell), address 0 is serve()'s receive buffer, a queued packet is an ADDRESS, and the two goroutines are interleaved by an arbitrary
schedule of `recv` / `parse` / `write` steps (serve may read any number of later datagrams between the `parse` and the `write` of
a packet).

`Policy.copy` is the code as it is. `Policy.share` is the same service handing `buf[:n]` itself to processPackets (no private copy) —
kept for the counterexample theorem `shared_receive_buffer_would_replace_pending_packet`.

Abstracted: bytes are the lines they spell (`Line` of the HTTP model: well-formed point with its integer ns time stamp / malformed /
comment or blank); the capacity of `s.packets` (1000; a full channel only delays `recv`, every bounded run is one of the runs
quantified over here); datagrams the kernel drops never reach `recv` (`received` is by definition what serve() read); the
statistics other than `points_parse_fail`. Core Lean only.
-/
import Kap.Model.C02
namespace Kap.C02.Udp
open Kap.C02

/-- the bytes of one datagram, as the lines they spell -/
abbrev Datagram := List Line

/-- `models.ParsePoints(p)` (= `ParsePointsWithPrecision(p, now, "n")`) on the bytes `dg`: `none` = an error is returned (a line does
not parse, or its time stamp is outside the int64 ns range); otherwise the points of its point lines, in order. -/
def writeOf (dg : Datagram) : Option (List RawPoint) :=
  let parsed := dg.filterMap (parseLine "n")
  if parsed.any (·.isNone) then none else some (parsed.filterMap id)

/-- what `WritePoints` converts when it reads the packet's memory (`mp.Name()` … of every point) -/
def pointsOf (dg : Datagram) : List RawPoint := (dg.filterMap (parseLine "n")).filterMap id

inductive Policy where
  | copy     -- `p := make([]byte, n); copy(p, buf[:n])` (the source)
  | share    -- `s.packets <- buf[:n]`: the receive buffer itself is handed on
deriving DecidableEq, Repr

inductive Step where
  | recv (dg : Datagram)   -- serve(): one ReadFromUDP and the hand-over to s.packets
  | parse                  -- processPackets(): takes the next packet off s.packets, models.ParsePoints
  | write                  -- the WritePoints call of the parsed packet reads the packet's memory and hands the points on
deriving Repr, Inhabited

structure Svc where
  mem : Nat → Datagram := fun _ => []
  next : Nat := 1                       -- the next fresh address (`make`)
  packets : List Nat := []              -- s.packets: addresses, FIFO
  cur : Option Nat := none              -- the packet processPackets has parsed and is calling WritePoints for
  calls : List (List RawPoint) := []    -- the point lists the PointsWriter was handed so far, in call order
  parseFail : Nat := 0                  -- statistic points_parse_fail
deriving Inhabited

def step (pol : Policy) (s : Svc) : Step → Svc
  | .recv dg =>
    let mem := upd s.mem 0 dg                                        -- ReadFromUDP(buf)
    match pol with
    | .copy => { s with mem := upd mem s.next dg, next := s.next + 1, packets := s.packets ++ [s.next] }
    | .share => { s with mem := mem, packets := s.packets ++ [0] }
  | .parse =>
    match s.cur, s.packets with
    | none, a :: rest =>
      match writeOf (s.mem a) with
      | none => { s with packets := rest, parseFail := s.parseFail + 1 }
      | some _ => { s with packets := rest, cur := some a }
    | _, _ => s                                                      -- still inside WritePoints, or nothing queued
  | .write =>
    match s.cur with
    | some a => { s with cur := none, calls := s.calls ++ [pointsOf (s.mem a)] }
    | none => s

def runFrom (pol : Policy) (s : Svc) (steps : List Step) : Svc := steps.foldl (step pol) s
def run (pol : Policy) (steps : List Step) : Svc := runFrom pol {} steps

/-- the datagrams serve() read, in order -/
def received : List Step → List Datagram
  | [] => []
  | .recv dg :: rest => dg :: received rest
  | _ :: rest => received rest

/-- nothing queued, nothing in flight -/
def Svc.quiet (s : Svc) : Bool := s.cur.isNone && s.packets.isEmpty

/-- Two schedules the harness forces: `flow` = every datagram is parsed and written before the next one is read; `held` = the
first `WritePoints` call is held back (back-pressure) until serve() has read ALL datagrams, then everything is processed. -/
def flowSchedule (dgs : List Datagram) : List Step := dgs.flatMap (fun dg => [.recv dg, .parse, .write])

def heldSchedule : List Datagram → List Step
  | [] => []
  | dg :: rest => [.recv dg, .parse] ++ rest.map .recv ++ (dg :: rest).flatMap (fun _ => [Step.write, .parse]) ++ [.write]

end Kap.C02.Udp
