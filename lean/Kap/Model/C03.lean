/-
C03 — model of `window.go`: `windowTimeBuffer` (insert / purge / points), `windowByTime`
(newWindowByTime / Point / Barrier / batch) and `windowByCount` (newWindowByCount / Point / batch / points).

Transcription rules
* The Go slice `window []edge.PointMessage` is `window : List Pt` (its `len` elements) plus the explicit
  capacity `cap`; `append` within capacity is `++ [p]`, `window[i] = p` is `List.set`, `copy(dst[off:], src)`
  is `goCopy` (copies `min` of the two lengths and reports the count, like Go).
* `make([]T, size+1, c)` yields nil slots; the model fills them with the placeholder `nilPt`. The only nil
  slot ever created (index `size` of a freshly grown slice) is overwritten by the same `insert`; theorem
  `Kap.Props.C03.insert_nil_irrelevant` shows the result does not depend on the placeholder.
* The two explicit `panic("did not copy all the data …")` sites set `panicked`; the invariant shows they are
  unreachable. Implicit run-time panics (index out of range, `append` beyond capacity with Go's growth
  policy) are NOT modelled: indexes are read with a default and the invariant `Inv` (indexes in range,
  `len < cap` at `append`) shows the default is never used on a reachable buffer.
* `insert` is the code AFTER the repair recorded in findings/C03.txt (`start` wraps together with `stop` when
  the ring had drained at the end of the slice); `insertOld` is the function as it was at snapshot ef0888e,
  kept for the counterexample theorems.
* Times are `Int` nanoseconds since the Unix epoch. `time.Time.Truncate(d)` works on the absolute time since
  the year 1 (`goEpochOffset` ns before the Unix epoch) and is the identity for `d ≤ 0`; `Add`, `Before`,
  `After` are integer arithmetic (no `int64` overflow — an assumption of the check).
* A point is its time and an identity (`id`, carried in a field by the harness); name, tags and fields of
  the batch header are not part of the property.
Core Lean only (the compiled driver imports this file).
-/
import Kap.Basic
namespace Kap.C03

structure Pt where
  t : Int
  id : Nat
deriving DecidableEq, Repr, Inhabited

/-- stands for a nil `edge.PointMessage` slot -/
def nilPt : Pt := ⟨0, 0⟩

/-- An emitted `edge.BufferedBatchMessage`: `begin.Time()` and the points. -/
structure Batch where
  tmax : Int
  pts : List Pt
deriving DecidableEq, Repr, Inhabited

/-! ### windowTimeBuffer -/

structure Buf where
  window : List Pt := []
  cap : Nat := 0
  start : Nat := 0
  stop : Nat := 0
  size : Nat := 0
  panicked : Bool := false
deriving DecidableEq, Repr, Inhabited

/-- Go `s[lo:hi]` (total: out-of-range bounds are clipped instead of panicking). -/
def slice (w : List Pt) (lo hi : Nat) : List Pt := (w.take hi).drop lo

/-- Go `n := copy(dst[off:], src)`. -/
def goCopy (dst : List Pt) (off : Nat) (src : List Pt) : List Pt × Nat :=
  let n := min (dst.length - off) src.length
  (dst.take off ++ src.take n ++ dst.drop (off + n), n)

/-- The growth step of `insert` (`if b.size == cap(b.window) { … }`), with `nil` in the fresh slots. -/
def Buf.growWith (nil : Pt) (b : Buf) : Buf :=
  let c := 2 * (b.size + 1)
  let w := List.replicate (b.size + 1) nil
  if b.size == 0 then
    { b with window := w, cap := c, start := 0, stop := b.size }
  else if b.stop > b.start then
    let (w, n) := goCopy w 0 (slice b.window b.start b.stop)
    { b with window := w, cap := c, start := 0, stop := b.size, panicked := b.panicked || n != b.size }
  else
    let (w, n1) := goCopy w 0 (slice b.window b.start b.window.length)
    let (w, n2) := goCopy w (b.size - b.start) (slice b.window 0 b.stop)
    { b with window := w, cap := c, start := 0, stop := b.size, panicked := b.panicked || n1 + n2 != b.size }

/-- The wrap-around step of `insert` as of snapshot ef0888e:
`if len(b.window) == cap(b.window) && b.stop == len(b.window) { b.stop = 0 }`. -/
def Buf.wrapOld (b : Buf) : Buf :=
  if b.window.length == b.cap && b.stop == b.window.length then { b with stop := 0 } else b

/-- The wrap-around step today (after the repair recorded in findings/C03.txt): when the ring was purged
completely with `stop` at the end of the slice (`start == len`), `start` wraps too. -/
def Buf.wrap (b : Buf) : Buf :=
  if b.window.length == b.cap && b.stop == b.window.length then
    let b := { b with stop := 0 }
    if b.start == b.window.length then { b with start := 0 } else b
  else b

/-- The rest of `insert` after the growth step: wrap-around check, then store the point. -/
def Buf.put (wrapF : Buf → Buf) (b : Buf) (p : Pt) : Buf :=
  -- Check if we need to wrap around
  let b := wrapF b
  -- Insert point
  let b := if b.stop == b.window.length then { b with window := b.window ++ [p] }
           else { b with window := b.window.set b.stop p }
  { b with size := b.size + 1, stop := b.stop + 1 }

/-- `windowTimeBuffer.insert`, with the wrap-around step as a parameter (old / current). -/
def Buf.insertCore (wrapF : Buf → Buf) (nil : Pt) (b : Buf) (p : Pt) : Buf :=
  Buf.put wrapF (if b.size == b.cap then b.growWith nil else b) p

def Buf.insertWith (nil : Pt) (b : Buf) (p : Pt) : Buf := Buf.insertCore Buf.wrap nil b p
def Buf.insert (b : Buf) (p : Pt) : Buf := b.insertWith nilPt p
/-- `insert` as of snapshot ef0888e (kept for the counterexample theorems). -/
def Buf.insertOld (b : Buf) (p : Pt) : Buf := Buf.insertCore Buf.wrapOld nilPt b p

/-- the closure `include` of `purge` -/
def includes (oldest : Int) (inclusive : Bool) (t : Int) : Bool :=
  if inclusive then !decide (t < oldest) else decide (t > oldest)

/-- The loop `for ; i < hi; i++ { if include(window[i].Time()) { break } }` with `n = hi - i` iterations
left; returns the final `i`. -/
def scanAux (w : List Pt) (inc : Int → Bool) : Nat → Nat → Nat
  | 0, i => i
  | n + 1, i => if inc (w.getD i nilPt).t then i else scanAux w inc n (i + 1)

def scan (w : List Pt) (inc : Int → Bool) (i hi : Nat) : Nat := scanAux w inc (hi - i) i

/-- `windowTimeBuffer.purge` (three branches). -/
def Buf.purge (b : Buf) (oldest : Int) (inclusive : Bool) : Buf :=
  let inc := includes oldest inclusive
  let l := b.window.length
  if l == 0 then b
  else if b.start < b.stop then
    let s := scan b.window inc b.start b.stop
    { b with start := s, size := b.stop - s }
  else if inc (b.window.getD (l - 1) nilPt).t then
    let s := scan b.window inc b.start l
    { b with start := s, size := l - s + b.stop }
  else
    let s := scan b.window inc 0 b.stop
    { b with start := s, size := b.stop - s }

/-- `windowTimeBuffer.points` (the two-segment copy). -/
def Buf.points (b : Buf) : List Pt :=
  if b.size == 0 then []
  else if b.stop > b.start then slice b.window b.start b.stop
  else slice b.window b.start b.window.length ++ slice b.window 0 b.stop

/-! ### windowByTime -/

/-- nanoseconds from 0001-01-01T00:00:00Z (Go's zero time) to the Unix epoch -/
def goEpochOffset : Int := 62135596800 * 1000000000

/-- `time.Time.Truncate(d)` on Unix nanoseconds. -/
def truncate (t d : Int) : Int :=
  if d ≤ 0 then t else t - (t + goEpochOffset) % d

structure TCfg where
  period : Int
  every : Int
  align : Bool
  fill : Bool
deriving DecidableEq, Repr, Inhabited

structure TW where
  cfg : TCfg
  nextEmit : Int
  buf : Buf := {}
deriving DecidableEq, Repr, Inhabited

/-- `newWindowByTime(name, t, group, period, every, align, fillPeriod, d)`. -/
def TW.init (c : TCfg) (t : Int) : TW :=
  let nextEmit :=
    if c.fill then
      let nextEmit := t + c.period
      if c.align then
        let firstPeriod := nextEmit
        let nextEmit := truncate nextEmit c.every
        if !decide (nextEmit > firstPeriod) then nextEmit + c.every else nextEmit
      else nextEmit
    else
      let nextEmit := t + c.every
      if c.align then truncate nextEmit c.every else nextEmit
  { cfg := c, nextEmit := nextEmit }

/-- `windowByTime.batch(tmax)`. -/
def TW.batch (w : TW) (tmax : Int) : Batch := { tmax := tmax, pts := w.buf.points }

/-- `windowByTime.Point`, with the buffer's insert function as a parameter (old / current). -/
def TW.pointWith (ins : Buf → Pt → Buf) (w : TW) (p : Pt) : TW × Option Batch :=
  if w.cfg.every == 0 then
    -- Insert point before.
    let w := { w with buf := ins w.buf p }
    if !decide (p.t < w.nextEmit) then
      let oldest := p.t + -1 * w.cfg.period
      let w := { w with buf := w.buf.purge oldest false }
      let msg := w.batch p.t
      ({ w with nextEmit := p.t }, some msg)
    else (w, none)
  else
    if !decide (p.t < w.nextEmit) then
      let oldest := w.nextEmit + -1 * w.cfg.period
      let w := { w with buf := w.buf.purge oldest true }
      let msg := w.batch w.nextEmit
      let ne := p.t + w.cfg.every
      let ne := if w.cfg.align then truncate ne w.cfg.every else ne
      let w := { w with nextEmit := ne }
      -- Insert point after.
      ({ w with buf := ins w.buf p }, some msg)
    else
      ({ w with buf := ins w.buf p }, none)

/-- `windowByTime.Barrier`. -/
def TW.barrierWith (_ins : Buf → Pt → Buf) (w : TW) (t : Int) : TW × Option Batch :=
  if w.cfg.every == 0 then
    if !decide (t < w.nextEmit) then
      let oldest := t + -1 * w.cfg.period
      let w := { w with buf := w.buf.purge oldest false }
      let msg := w.batch t
      ({ w with nextEmit := t }, some msg)
    else (w, none)
  else
    if !decide (t < w.nextEmit) then
      let oldest := w.nextEmit + -1 * w.cfg.period
      let w := { w with buf := w.buf.purge oldest true }
      let msg := w.batch w.nextEmit
      let ne := t + w.cfg.every
      let ne := if w.cfg.align then truncate ne w.cfg.every else ne
      ({ w with nextEmit := ne }, some msg)
    else (w, none)

def TW.point (w : TW) (p : Pt) : TW × Option Batch := w.pointWith Buf.insert p
def TW.barrier (w : TW) (t : Int) : TW × Option Batch := w.barrierWith Buf.insert t

/-- A message delivered to one group's window receiver. -/
inductive Msg where
  | point (p : Pt)
  | barrier (t : Int)
deriving DecidableEq, Repr, Inhabited

def Msg.t : Msg → Int
  | .point p => p.t
  | .barrier t => t

def TW.stepWith (ins : Buf → Pt → Buf) (w : TW) : Msg → TW × Option Batch
  | .point p => w.pointWith ins p
  | .barrier t => w.barrierWith ins t

def TW.step (w : TW) (m : Msg) : TW × Option Batch := w.stepWith Buf.insert m

/-- Run a window over the messages of its group; the window is created by the first message
(`WindowNode.NewGroup(group, first)` → `newWindowByTime(…, first.Time(), …)`). Result: what each message
emitted, in order. -/
def TW.runFrom (ins : Buf → Pt → Buf) (w : TW) : List Msg → List (Option Batch)
  | [] => []
  | m :: ms => let (w', o) := w.stepWith ins m; o :: TW.runFrom ins w' ms

def runTimeWith (ins : Buf → Pt → Buf) (c : TCfg) : List Msg → List (Option Batch)
  | [] => []
  | m :: ms => TW.runFrom ins (TW.init c m.t) (m :: ms)

def runTime (c : TCfg) (ms : List Msg) : List (Option Batch) := runTimeWith Buf.insert c ms

/-! ### windowByCount -/

structure CW where
  buf : List Pt
  start : Nat := 0
  stop : Nat := 0
  period : Nat
  every : Nat
  nextEmit : Nat
  size : Nat := 0
  count : Nat := 0
deriving DecidableEq, Repr, Inhabited

/-- `newWindowByCount(name, group, period, every, fillPeriod, d)`. -/
def CW.init (period every : Nat) (fill : Bool) : CW :=
  { buf := List.replicate period nilPt, period := period, every := every,
    nextEmit := if fill then period else every }

/-- `windowByCount.points`. -/
def CW.points (w : CW) : List Pt :=
  if w.size == 0 then []
  else if w.stop > w.start then slice w.buf w.start w.stop
  else slice w.buf w.start w.buf.length ++ slice w.buf 0 w.stop

/-- `windowByCount.batch`: `tmax` is the time of the last point. -/
def CW.batch (w : CW) : Batch :=
  let pts := w.points
  { tmax := (pts.getLast?.getD nilPt).t, pts := pts }

/-- `windowByCount.Point`. -/
def CW.point (w : CW) (p : Pt) : CW × Option Batch :=
  let w := { w with buf := w.buf.set w.stop p }
  let w := { w with stop := (w.stop + 1) % w.period }
  let w := if w.size == w.period then { w with start := (w.start + 1) % w.period }
           else { w with size := w.size + 1 }
  let w := { w with count := w.count + 1 }
  if w.count == w.nextEmit then
    let w := { w with nextEmit := w.nextEmit + w.every }
    (w, some w.batch)
  else (w, none)

def CW.runFrom (w : CW) : List Pt → List (Option Batch)
  | [] => []
  | p :: ps => let (w', o) := w.point p; o :: CW.runFrom w' ps

def runCount (period every : Nat) (fill : Bool) (ps : List Pt) : List (Option Batch) :=
  CW.runFrom (CW.init period every fill) ps

end Kap.C03
