/-
C03 — the statement skeletons of window.go that the model Kap/Model/C03.lean was transcribed from.

`extract/c03` regenerates the same skeletons from the Go SOURCE into Kap/Gen/C03.lean on every run of `bin/check`;
Kap/Props/C03Src.lean proves `Kap.Gen.C03.f = Kap.C03.Src.f` for each function (by `decide`) and that the extractor
classified every statement. So any edit of these functions other than comments/formatting — a changed condition,
a swapped branch, a moved statement, a new statement shape — breaks a proof obligation before any case is run;
the correspondence run then decides whether the behaviour changed. The doc comment of each skeleton says which
model definition transcribes which statement. (A node is (nesting depth, kind, normalised source text).)
Core Lean only.
-/
namespace Kap.C03.Src

structure Node where
  depth : Nat
  kind : String
  text : String
deriving DecidableEq, Repr

/-- `windowTimeBuffer.insert` ↦ `Buf.insertCore` = `Buf.growWith` (the `if b.size == cap(b.window)` block: `make` ↦
`List.replicate (size+1) nil`, the two `copy` shapes ↦ `goCopy`, the two `panic`s ↦ `panicked`), then `Buf.wrap` (the
wrap-around `if` with the nested `if b.start == len(b.window)` of the repair eba8482), then `Buf.put`'s
`if b.stop == len(b.window)` append / else overwrite, then `size+1`, `stop+1`. -/
def insert : List Node := [
  ⟨0, "func", "func(p edge.PointMessage)"⟩,
  ⟨1, "if", "b.size == cap(b.window)"⟩,
  ⟨2, "assign", "c := 2 * (b.size + 1)"⟩,
  ⟨2, "assign", "w := make([]edge.PointMessage, b.size+1, c)"⟩,
  ⟨2, "if", "b.size == 0"⟩,
  ⟨2, "else", ""⟩,
  ⟨3, "if", "b.stop > b.start"⟩,
  ⟨4, "assign", "n := copy(w, b.window[b.start:b.stop])"⟩,
  ⟨4, "if", "n != b.size"⟩,
  ⟨5, "panic", ""⟩,
  ⟨3, "else", ""⟩,
  ⟨4, "assign", "n := 0"⟩,
  ⟨4, "assign", "n += copy(w, b.window[b.start:])"⟩,
  ⟨4, "assign", "n += copy(w[b.size-b.start:], b.window[:b.stop])"⟩,
  ⟨4, "if", "n != b.size"⟩,
  ⟨5, "panic", ""⟩,
  ⟨2, "assign", "b.window = w"⟩,
  ⟨2, "assign", "b.start = 0"⟩,
  ⟨2, "assign", "b.stop = b.size"⟩,
  ⟨1, "if", "len(b.window) == cap(b.window) && b.stop == len(b.window)"⟩,
  ⟨2, "assign", "b.stop = 0"⟩,
  ⟨2, "if", "b.start == len(b.window)"⟩,
  ⟨3, "assign", "b.start = 0"⟩,
  ⟨1, "if", "b.stop == len(b.window)"⟩,
  ⟨2, "assign", "b.window = append(b.window, p)"⟩,
  ⟨1, "else", ""⟩,
  ⟨2, "assign", "b.window[b.stop] = p"⟩,
  ⟨1, "incdec", "b.size++"⟩,
  ⟨1, "incdec", "b.stop++"⟩
]

/-- `windowTimeBuffer.purge` ↦ `Buf.purge`: the closure `include` ↦ `includes oldest inclusive`; `if l == 0 return`;
`if b.start < b.stop` loop ↦ `scan … b.start b.stop`; else `if include(b.window[l-1])` loop ↦ `scan … b.start l`, size
`l - start + stop`; else loop from 0 ↦ `scan … 0 b.stop`. Each `for … { if include(…) { break } }` ↦ `scan`. -/
def purge : List Node := [
  ⟨0, "func", "func(oldest time.Time, inclusive bool)"⟩,
  ⟨1, "closure", "include := func(t time.Time) bool"⟩,
  ⟨2, "if", "inclusive"⟩,
  ⟨3, "return", "!t.Before(oldest)"⟩,
  ⟨2, "return", "t.After(oldest)"⟩,
  ⟨1, "assign", "l := len(b.window)"⟩,
  ⟨1, "if", "l == 0"⟩,
  ⟨2, "return", ""⟩,
  ⟨1, "if", "b.start < b.stop"⟩,
  ⟨2, "for", "; b.start < b.stop; b.start++"⟩,
  ⟨3, "if", "include(b.window[b.start].Time())"⟩,
  ⟨4, "break", ""⟩,
  ⟨2, "assign", "b.size = b.stop - b.start"⟩,
  ⟨1, "else", ""⟩,
  ⟨2, "if", "include(b.window[l-1].Time())"⟩,
  ⟨3, "for", "; b.start < l; b.start++"⟩,
  ⟨4, "if", "include(b.window[b.start].Time())"⟩,
  ⟨5, "break", ""⟩,
  ⟨3, "assign", "b.size = l - b.start + b.stop"⟩,
  ⟨2, "else", ""⟩,
  ⟨3, "for", "b.start = 0; b.start < b.stop; b.start++"⟩,
  ⟨4, "if", "include(b.window[b.start].Time())"⟩,
  ⟨5, "break", ""⟩,
  ⟨3, "assign", "b.size = b.stop - b.start"⟩
]

/-- `windowTimeBuffer.points` ↦ `Buf.points`: `size == 0` ↦ `[]`; `stop > start` ↦ one slice; else the two index loops ↦
`slice window start len ++ slice window 0 stop`. -/
def points : List Node := [
  ⟨0, "func", "func() []edge.BatchPointMessage"⟩,
  ⟨1, "if", "b.size == 0"⟩,
  ⟨2, "return", "nil"⟩,
  ⟨1, "assign", "points := make([]edge.BatchPointMessage, b.size)"⟩,
  ⟨1, "if", "b.stop > b.start"⟩,
  ⟨2, "range", "i, p := range b.window[b.start:b.stop]"⟩,
  ⟨3, "assign", "points[i] = edge.BatchPointFromPoint(p)"⟩,
  ⟨1, "else", ""⟩,
  ⟨2, "assign", "j := 0"⟩,
  ⟨2, "assign", "l := len(b.window)"⟩,
  ⟨2, "for", "i := b.start; i < l; i++"⟩,
  ⟨3, "assign", "p := b.window[i]"⟩,
  ⟨3, "assign", "points[j] = edge.BatchPointFromPoint(p)"⟩,
  ⟨3, "incdec", "j++"⟩,
  ⟨2, "for", "i := 0; i < b.stop; i++"⟩,
  ⟨3, "assign", "p := b.window[i]"⟩,
  ⟨3, "assign", "points[j] = edge.BatchPointFromPoint(p)"⟩,
  ⟨3, "incdec", "j++"⟩,
  ⟨1, "return", "points"⟩
]

/-- `newWindowByTime` ↦ `TW.init`: fillPeriod/align cases, `Truncate` ↦ `truncate`, `!nextEmit.After(firstPeriod)`. -/
def newWindowByTime : List Node := [
  ⟨0, "func", "func(name string, t time.Time, group edge.GroupInfo, period, every time.Duration, align, fillPeriod bool, d NodeDiagnostic) *windowByTime"⟩,
  ⟨1, "decl", "var nextEmit time.Time"⟩,
  ⟨1, "if", "fillPeriod"⟩,
  ⟨2, "assign", "nextEmit = t.Add(period)"⟩,
  ⟨2, "if", "align"⟩,
  ⟨3, "assign", "firstPeriod := nextEmit"⟩,
  ⟨3, "assign", "nextEmit = nextEmit.Truncate(every)"⟩,
  ⟨3, "if", "!nextEmit.After(firstPeriod)"⟩,
  ⟨4, "assign", "nextEmit = nextEmit.Add(every)"⟩,
  ⟨1, "else", ""⟩,
  ⟨2, "assign", "nextEmit = t.Add(every)"⟩,
  ⟨2, "if", "align"⟩,
  ⟨3, "assign", "nextEmit = nextEmit.Truncate(every)"⟩,
  ⟨1, "return", "&windowByTime{ name: name, group: group, nextEmit: nextEmit, buf: &windowTimeBuffer{diag: d}, align: align, fillPeriod: fillPeriod, period: period, every: every, diag: d, }"⟩
]

/-- `windowByTime.Point` ↦ `TW.pointWith`: `every == 0`: insert first, emit test `!p.Time().Before(w.nextEmit)`, exclusive
purge at `p.Time() - period`, batch at `p.Time()`, `nextEmit = p.Time()`; else: emit test, inclusive purge at
`nextEmit - period`, batch at `nextEmit`, `nextEmit = p.Time() + every` (truncated under align), insert after. -/
def timePoint : List Node := [
  ⟨0, "func", "func(p edge.PointMessage) (msg edge.Message, err error)"⟩,
  ⟨1, "if", "w.every == 0"⟩,
  ⟨2, "call", "w.buf.insert(p)"⟩,
  ⟨2, "if", "!p.Time().Before(w.nextEmit)"⟩,
  ⟨3, "assign", "oldest := p.Time().Add(-1 * w.period)"⟩,
  ⟨3, "call", "w.buf.purge(oldest, false)"⟩,
  ⟨3, "assign", "msg = w.batch(p.Time())"⟩,
  ⟨3, "assign", "w.nextEmit = p.Time()"⟩,
  ⟨1, "else", ""⟩,
  ⟨2, "if", "!p.Time().Before(w.nextEmit)"⟩,
  ⟨3, "assign", "oldest := w.nextEmit.Add(-1 * w.period)"⟩,
  ⟨3, "call", "w.buf.purge(oldest, true)"⟩,
  ⟨3, "assign", "msg = w.batch(w.nextEmit)"⟩,
  ⟨3, "assign", "w.nextEmit = p.Time().Add(w.every)"⟩,
  ⟨3, "if", "w.align"⟩,
  ⟨4, "assign", "w.nextEmit = w.nextEmit.Truncate(w.every)"⟩,
  ⟨2, "call", "w.buf.insert(p)"⟩,
  ⟨1, "return", ""⟩
]

/-- `windowByTime.Barrier` ↦ `TW.barrierWith`: as `Point` without the inserts. -/
def timeBarrier : List Node := [
  ⟨0, "func", "func(b edge.BarrierMessage) (msg edge.Message, err error)"⟩,
  ⟨1, "if", "w.every == 0"⟩,
  ⟨2, "if", "!b.Time().Before(w.nextEmit)"⟩,
  ⟨3, "assign", "oldest := b.Time().Add(-1 * w.period)"⟩,
  ⟨3, "call", "w.buf.purge(oldest, false)"⟩,
  ⟨3, "assign", "msg = w.batch(b.Time())"⟩,
  ⟨3, "assign", "w.nextEmit = b.Time()"⟩,
  ⟨1, "else", ""⟩,
  ⟨2, "if", "!b.Time().Before(w.nextEmit)"⟩,
  ⟨3, "assign", "oldest := w.nextEmit.Add(-1 * w.period)"⟩,
  ⟨3, "call", "w.buf.purge(oldest, true)"⟩,
  ⟨3, "assign", "msg = w.batch(w.nextEmit)"⟩,
  ⟨3, "assign", "w.nextEmit = b.Time().Add(w.every)"⟩,
  ⟨3, "if", "w.align"⟩,
  ⟨4, "assign", "w.nextEmit = w.nextEmit.Truncate(w.every)"⟩,
  ⟨1, "return", ""⟩
]

/-- `windowByTime.batch` ↦ `TW.batch`: `tmax` and `w.buf.points()`. -/
def timeBatch : List Node := [
  ⟨0, "func", "func(tmax time.Time) edge.BufferedBatchMessage"⟩,
  ⟨1, "assign", "points := w.buf.points()"⟩,
  ⟨1, "return", "edge.NewBufferedBatchMessage(edge.NewBeginBatchMessage(w.name, w.group.Tags, w.group.Dimensions.ByName, tmax, len(points)), points, edge.NewEndBatchMessage())"⟩
]

/-- `newWindowByCount` ↦ `CW.init`: `nextEmit := every; if fillPeriod { nextEmit = period }`, `make(…, period)`. -/
def newWindowByCount : List Node := [
  ⟨0, "func", "func(name string, group edge.GroupInfo, period, every int, fillPeriod bool, d NodeDiagnostic) *windowByCount"⟩,
  ⟨1, "assign", "nextEmit := every"⟩,
  ⟨1, "if", "fillPeriod"⟩,
  ⟨2, "assign", "nextEmit = period"⟩,
  ⟨1, "return", "&windowByCount{ name: name, group: group, buf: make([]edge.BatchPointMessage, period), period: period, every: every, nextEmit: nextEmit, diag: d, }"⟩
]

/-- `windowByCount.Point` ↦ `CW.point`: store at `stop`, advance `stop` mod period, full ⇒ advance `start` else `size++`,
`count++`, `count == nextEmit` ⇒ `nextEmit += every`, emit. -/
def countPoint : List Node := [
  ⟨0, "func", "func(p edge.PointMessage) (msg edge.Message, err error)"⟩,
  ⟨1, "assign", "w.buf[w.stop] = edge.BatchPointFromPoint(p)"⟩,
  ⟨1, "assign", "w.stop = (w.stop + 1) % w.period"⟩,
  ⟨1, "if", "w.size == w.period"⟩,
  ⟨2, "assign", "w.start = (w.start + 1) % w.period"⟩,
  ⟨1, "else", ""⟩,
  ⟨2, "incdec", "w.size++"⟩,
  ⟨1, "incdec", "w.count++"⟩,
  ⟨1, "if", "w.count == w.nextEmit"⟩,
  ⟨2, "assign", "w.nextEmit += w.every"⟩,
  ⟨2, "assign", "msg = w.batch()"⟩,
  ⟨1, "return", ""⟩
]

/-- `windowByCount.Barrier`: forwards the barrier, no state change (the driver's count model ignores barriers). -/
def countBarrier : List Node := [
  ⟨0, "func", "func(b edge.BarrierMessage) (edge.Message, error)"⟩,
  ⟨1, "return", "b, nil"⟩
]

/-- `windowByCount.batch` ↦ `CW.batch`: time of the last point. -/
def countBatch : List Node := [
  ⟨0, "func", "func() edge.BufferedBatchMessage"⟩,
  ⟨1, "assign", "points := w.points()"⟩,
  ⟨1, "return", "edge.NewBufferedBatchMessage(edge.NewBeginBatchMessage(w.name, w.group.Tags, w.group.Dimensions.ByName, points[len(points)-1].Time(), len(points)), points, edge.NewEndBatchMessage())"⟩
]

/-- `windowByCount.points` ↦ `CW.points`. -/
def countPoints : List Node := [
  ⟨0, "func", "func() []edge.BatchPointMessage"⟩,
  ⟨1, "if", "w.size == 0"⟩,
  ⟨2, "return", "nil"⟩,
  ⟨1, "assign", "points := make([]edge.BatchPointMessage, w.size)"⟩,
  ⟨1, "if", "w.stop > w.start"⟩,
  ⟨2, "call", "copy(points, w.buf[w.start:w.stop])"⟩,
  ⟨1, "else", ""⟩,
  ⟨2, "assign", "j := 0"⟩,
  ⟨2, "assign", "l := len(w.buf)"⟩,
  ⟨2, "for", "i := w.start; i < l; i++"⟩,
  ⟨3, "assign", "points[j] = w.buf[i]"⟩,
  ⟨3, "incdec", "j++"⟩,
  ⟨2, "for", "i := 0; i < w.stop; i++"⟩,
  ⟨3, "assign", "points[j] = w.buf[i]"⟩,
  ⟨3, "incdec", "j++"⟩,
  ⟨1, "return", "points"⟩
]

/-- `WindowNode.newWindow`: `Period != 0` ⇒ time window created with `first.Time()` (↦ `runTimeWith`: `TW.init c m.t`),
`PeriodCount != 0` ⇒ count window (↦ `runCount`). -/
def newWindow : List Node := [
  ⟨0, "func", "func(group edge.GroupInfo, first edge.PointMeta) (edge.ForwardReceiver, error)"⟩,
  ⟨1, "switch", ""⟩,
  ⟨2, "case", "n.w.Period != 0"⟩,
  ⟨3, "return", "newWindowByTime(first.Name(), first.Time(), group, n.w.Period, n.w.Every, n.w.AlignFlag, n.w.FillPeriodFlag, n.diag), nil"⟩,
  ⟨2, "case", "n.w.PeriodCount != 0"⟩,
  ⟨3, "return", "newWindowByCount(first.Name(), group, int(n.w.PeriodCount), int(n.w.EveryCount), n.w.FillPeriodFlag, n.diag), nil"⟩,
  ⟨2, "default", ""⟩,
  ⟨3, "return", "nil, errors.New(\"unreachable code, window node should have a non-zero period or period count\")"⟩
]

end Kap.C03.Src
