/-
C04 — executable model of the lambda evaluator `tick/stateful` (snapshot ef0888e + the `fix:` commits listed in
findings/C04.txt; the snapshot's own binary-node evaluation is kept in `Kap/Model/C04Legacy.lean` for the
counterexample theorems).

Transcribed (same branches, same order of side effects):
* `getConstantNodeType` (`constType`), `IsDynamic` (`isDyn`), the construction-time checks of
  `NewEvalBinaryNode` (`compileOk`, `compileCache`);
* `Type()` of every node kind: result `typeP` (it never reads the cache) and cache writes `typeW`
  (`leftType/rightType` of dynamic math nodes); `EvalFunctionNode.Type` = signature look-up over the argument
  types, more than `maxArgs` arguments is a signature error;
* `EvalX()` of every node kind as ONE function `evalC want` (the eight Go methods of a node differ only in
  the requested type): literals, `EvalReferenceNode`, `EvalUnaryNode` (`Type` first, `-1 * result`, `!` only
  for booleans), `EvalBinaryNode.eval` (a node with a dynamic operand specialises from the operand types on
  every evaluation — `evaluateDynamicNode` writes `leftType/rightType/evaluationFn` and then runs that
  function; a node with constant operands runs the function chosen at construction, READ FROM THE CACHE),
  the table entry itself (`Entry` from the regenerated table: which `EvalX` per side, AND/OR short circuit,
  zero guard, result expression), `EvalFunctionNode.callFunction` (arguments by `eval` = `Type` then `EvalX`,
  a missing reference is passed as a value, then `Funcs[name].Call`);
* stateful builtins `count`, `sigma`, `spread` with per-expression state (`FnState`); `if`, `isPresent`; the
  deterministic stateless builtins (string functions on bytes, conversions, `abs/min/max`) by their documented
  meaning (`Lib.builtin`, `Kap/Model/C04Lib.lean`); only the builtins listed in `Lib.oracleFns` are external calls
  `ctx.call` (the harness supplies the library's answers), as is regex matching; any other name is an error;
* the entry paths `Expression.Eval` (`evalTop`: `Type`, `EvalX` by type, `recover`), `EvalPredicate`'s
  `Type`-then-`EvalBool` (`evalPred`), direct `EvalX` (`evalDirect`), `CopyReset` (`World`, end of this file), and `kapacitor.EvalPredicate` of the root
  package (`evalPoint`: `fillScope` over `FindReferenceVariables`, then `evalPred`).
* `EvalLambdaNode` (`Expr.lam`): constant type / `IsDynamic` / `Type` of the body, every `EvalX` = `Type`, type test, then
  the body's `EvalX` with the state the NODE owns (created in `NewEvalLambdaNode` / `copyReset`), not the state passed
  in; the states of the lambda nodes travel in `FnState.lams`, and `World` (end of this file) says who shares what since
  `fix:` 8ed14ac: `CopyReset` = `copyResetNodeEvaluator` gives every copy its own `Funcs`, its own lambda nodes (fresh
  state each) and its own copies of the node evaluators above a lambda node; every other node evaluator, with its
  specialisation cache, is shared by all copies. `OldWorld` is the sharing before the fix (lambda-node states shared).
Abstracted: error values are one class (no decision of the repaired evaluator depends on the error);
dynamic functions registered on a scope, `rand`, `now`, `Expression.Reset` are not modelled; the cache is a tree parallel to the expression.
Core Lean only.
-/
import Kap.Model.C04Lib
namespace Kap.C04

inductive Expr (F : Type) where
  | lit (v : Value F)
  | ref (name : String)
  | un (op : UOp) (e : Expr F)
  | bin (op : BOp) (l r : Expr F)
  | call0 (fn : String)
  | call1 (fn : String) (a : Expr F)
  | call2 (fn : String) (a b : Expr F)
  | call3 (fn : String) (a b c : Expr F)
  | call4 (fn : String) (a b c d : Expr F)   -- `maxArgs` arguments (`strReplace`)
  | callMany (fn : String)          -- a call with more than `maxArgs` (= 4) arguments
  /-- a lambda node INSIDE an expression (`var w = lambda: count() > 1` used in `|where(lambda: w AND …)`):
  `EvalLambdaNode`. `id` names the node: `NewEvalLambdaNode` creates ONE `ExecutionState` per node, at construction.
  A compiled expression numbers its lambda nodes with pairwise different ids (the driver numbers them in preorder);
  no theorem depends on that. -/
  | lam (id : Nat) (e : Expr F)
deriving Repr, Inhabited

abbrev Scope (F : Type) := List (String × Value F)

def Scope.get {F} (σ : Scope F) (n : String) : Option (Value F) :=
  match σ.find? (fun p => p.1 == n) with
  | some p => some p.2
  | none => none

/-- Everything the evaluator takes from outside: float operations, the operator table, the builtin
signatures, and the two external-call oracles. -/
structure Ctx (F : Type) where
  ops : FOps F
  tbl : List Entry
  sigs : List Sig
  reMatch : Bytes → Bytes → Option Bool
  call : String → List (Value F) → Option (ORes F)

/-- the stateful builtins of ONE `ExecutionState` (`ExecutionState.Funcs`: one instance each of count, sigma, spread). -/
structure FnBase (F : Type) where
  count : Int
  sMean : F
  sVar : F
  sM2 : F
  sN : F
  spMin : F
  spMax : F

def FnBase.init {F} (ops : FOps F) : FnBase F :=
  { count := 0, sMean := ops.ofInt 0, sVar := ops.ofInt 0, sM2 := ops.ofInt 0, sN := ops.ofInt 0,
    spMin := ops.posInf, spMax := ops.negInf }

/-- Everything stateful an evaluation can touch: the `ExecutionState` it was handed (the fields inherited from
`FnBase`: the state of the expression instance = of the group) and the `ExecutionState`s owned by the lambda NODES
(`EvalLambdaNode.state`), by node id. The latter belong to the node evaluators (`World` below says which copy sees
which node) — the evaluator itself only ever sees this pair. -/
structure FnState (F : Type) extends FnBase F where
  lams : Nat → FnBase F

def FnState.init {F} (ops : FOps F) : FnState F :=
  { toFnBase := FnBase.init ops, lams := fun _ => FnBase.init ops }

/-- the state the body of lambda node `i` runs with: the node's own `ExecutionState` (`n.state`), whatever state was
passed in; the other lambda nodes keep theirs. -/
def FnState.enter {F} (st : FnState F) (i : Nat) : FnState F := { toFnBase := st.lams i, lams := st.lams }

/-- back from the body of lambda node `i`: the caller's own functions are untouched, node `i` keeps what its body
left, the lambda nodes nested in the body keep what they left. -/
def FnState.leave {F} (st inner : FnState F) (i : Nat) : FnState F :=
  { toFnBase := st.toFnBase, lams := fun j => if j = i then inner.toFnBase else inner.lams j }

/-- the specialisation cache: one record per node, children in `k1 k2 k3`. Only binary nodes use the
record (`leftType`, `rightType`, `evaluationFn` — `none` is Go's nil function). -/
inductive Cache where
  | leaf
  | node (lt rt : Ty) (fn : Option Entry) (k1 k2 k3 : Cache)
deriving Repr, Inhabited

namespace Cache
def lt : Cache → Ty | .node a _ _ _ _ _ => a | .leaf => .invalid
def rt : Cache → Ty | .node _ a _ _ _ _ => a | .leaf => .invalid
def fn : Cache → Option Entry | .node _ _ a _ _ _ => a | .leaf => none
def k1 : Cache → Cache | .node _ _ _ a _ _ => a | .leaf => .leaf
def k2 : Cache → Cache | .node _ _ _ _ a _ => a | .leaf => .leaf
def k3 : Cache → Cache | .node _ _ _ _ _ a => a | .leaf => .leaf
def setK1 (c k : Cache) : Cache := .node c.lt c.rt c.fn k c.k2 c.k3
def setK2 (c k : Cache) : Cache := .node c.lt c.rt c.fn c.k1 k c.k3
def setK3 (c k : Cache) : Cache := .node c.lt c.rt c.fn c.k1 c.k2 k
/-- a call with four arguments keeps the caches of its third and fourth argument under `k3`. -/
def k3a (c : Cache) : Cache := c.k3.k1
def k3b (c : Cache) : Cache := c.k3.k2
def setK3a (c k : Cache) : Cache := c.setK3 (c.k3.setK1 k)
def setK3b (c k : Cache) : Cache := c.setK3 (c.k3.setK2 k)
end Cache

section
variable {F : Type} (ctx : Ctx F)

/-- `getConstantNodeType`. -/
def constType : Expr F → Ty
  | .lit v => v.ty
  | .un .not _ => .bool
  | .un .neg e => constType e
  | .bin op l r =>
    if op.isComp || op.isLogical then .bool else
    match lookup ctx.tbl op (constType l) (constType r) with
    | some ent => ent.ret
    | none => .invalid
  | .lam _ e => constType e
  | _ => .invalid

/-- `IsDynamic()`. -/
def isDyn : Expr F → Bool
  | .lit _ => false
  | .ref _ => true
  | .un op e => if constType ctx (.un op e) ≠ .invalid then false else isDyn e
  | .bin op l r => if constType ctx (.bin op l r) ≠ .invalid then false else (isDyn l || isDyn r)
  | .lam _ e => isDyn e
  | _ => true

/-- `NewExpression` succeeds: a binary node whose operands are both non-dynamic must find its function. -/
def compileOk : Expr F → Bool
  | .un _ e => compileOk e
  | .bin op l r =>
    compileOk l && compileOk r &&
    (isDyn ctx l || isDyn ctx r || (lookup ctx.tbl op (constType ctx l) (constType ctx r)).isSome)
  | .call1 _ a => compileOk a
  | .call2 _ a b => compileOk a && compileOk b
  | .call3 _ a b c => compileOk a && compileOk b && compileOk c
  | .call4 _ a b c d => compileOk a && compileOk b && compileOk c && compileOk d
  | .lam _ e => compileOk e
  | _ => true

/-- the cache right after `NewExpression`. -/
def compileCache : Expr F → Cache
  | .un _ e => .node .invalid .invalid none (compileCache e) .leaf .leaf
  | .bin op l r =>
    if isDyn ctx l || isDyn ctx r then .node .invalid .invalid none (compileCache l) (compileCache r) .leaf
    else .node (constType ctx l) (constType ctx r) (lookup ctx.tbl op (constType ctx l) (constType ctx r))
           (compileCache l) (compileCache r) .leaf
  | .call1 _ a => .node .invalid .invalid none (compileCache a) .leaf .leaf
  | .call2 _ a b => .node .invalid .invalid none (compileCache a) (compileCache b) .leaf
  | .call3 _ a b c => .node .invalid .invalid none (compileCache a) (compileCache b) (compileCache c)
  | .call4 _ a b c d =>
    .node .invalid .invalid none (compileCache a) (compileCache b)
      (.node .invalid .invalid none (compileCache c) (compileCache d) .leaf)
  | .lam _ e => .node .invalid .invalid none (compileCache e) .leaf .leaf
  | _ => .leaf

/-- `Signature()[domain]` for a builtin; `none` = undefined function or no such signature. -/
def sigType (fn : String) (tys : List Ty) : Option Ty :=
  match ctx.sigs.find? (fun s => s.name == fn && s.dom == tys) with
  | some s => some s.ret
  | none => none

variable (σ : Scope F)

/-- `Type(scope)`: the result (`none` = error). It never reads the cache. -/
def typeP : Expr F → Option Ty
  | .lit v => some v.ty
  | .ref n => match σ.get n with | some v => some v.ty | none => none
  | .un op e => if constType ctx (.un op e) ≠ .invalid then some (constType ctx (.un op e)) else typeP e
  | .bin op l r =>
    if constType ctx (.bin op l r) ≠ .invalid then some (constType ctx (.bin op l r)) else
    match typeP l with
    | none => none
    | some tl =>
      match typeP r with
      | none => none
      | some tr =>
        match lookup ctx.tbl op tl tr with
        | some ent => if ent.ret = .invalid then none else some ent.ret
        | none => none
  | .call0 fn => sigType ctx fn []
  | .call1 fn a =>
    match typeP a with
    | some ta => sigType ctx fn [ta]
    | none => none
  | .call2 fn a b =>
    match typeP a with
    | some ta => (match typeP b with | some tb => sigType ctx fn [ta, tb] | none => none)
    | none => none
  | .call3 fn a b c =>
    match typeP a with
    | some ta =>
      (match typeP b with
       | some tb => (match typeP c with | some tc => sigType ctx fn [ta, tb, tc] | none => none)
       | none => none)
    | none => none
  | .call4 fn a b c d =>
    match typeP a with
    | some ta =>
      (match typeP b with
       | some tb =>
         (match typeP c with
          | some tc => (match typeP d with | some td => sigType ctx fn [ta, tb, tc, td] | none => none)
          | none => none)
       | none => none)
    | none => none
  | .callMany _ => none
  | .lam i e => if constType ctx (.lam i e) ≠ .invalid then some (constType ctx (.lam i e)) else typeP e

/-- `Type(scope)`: its writes to the cache (`n.leftType, err = …; n.rightType, err = …` on dynamic math nodes). -/
def typeW : Expr F → Cache → Cache
  | .un op e, c => if constType ctx (.un op e) ≠ .invalid then c else c.setK1 (typeW e c.k1)
  | .bin op l r, c =>
    if constType ctx (.bin op l r) ≠ .invalid then c else
    let k1 := typeW l c.k1
    match typeP ctx σ l with
    | none => .node .invalid c.rt c.fn k1 c.k2 c.k3
    | some tl =>
      let k2 := typeW r c.k2
      .node tl ((typeP ctx σ r).getD .invalid) c.fn k1 k2 c.k3
  | .call1 _ a, c => c.setK1 (typeW a c.k1)
  | .call2 _ a b, c =>
    let c1 := c.setK1 (typeW a c.k1)
    if (typeP ctx σ a).isSome then c1.setK2 (typeW b c.k2) else c1
  | .call3 _ a b d, c =>
    let c1 := c.setK1 (typeW a c.k1)
    if (typeP ctx σ a).isSome then
      let c2 := c1.setK2 (typeW b c.k2)
      if (typeP ctx σ b).isSome then c2.setK3 (typeW d c.k3) else c2
    else c1
  | .call4 _ a b d e, c =>
    let c1 := c.setK1 (typeW a c.k1)
    if (typeP ctx σ a).isSome then
      let c2 := c1.setK2 (typeW b c.k2)
      if (typeP ctx σ b).isSome then
        let c3 := c2.setK3a (typeW d c.k3a)
        if (typeP ctx σ d).isSome then c3.setK3b (typeW e c.k3b) else c3
      else c2
    else c1
  | .lam i e, c => if constType ctx (.lam i e) ≠ .invalid then c else c.setK1 (typeW e c.k1)
  | _, c => c

/-- the type guard at the end of every `EvalX`. -/
def chk (w : Ty) : Outcome (Value F) → Outcome (Value F)
  | .ok v => if v.ty = w then .ok v else .err
  | o => o

/-- `-1 * result` / `!result`. -/
def negate (ops : FOps F) : Value F → Outcome (Value F)
  | .bool b => .ok (.bool (!b))
  | .int i => .ok (.int (wrap (-1 * i)))
  | .dur d => .ok (.dur (wrap (-1 * d)))
  | .float f => .ok (.float (ops.mul (ops.ofInt (-1)) f))
  | _ => .err

/-- `Funcs[name].Call(args...)`. -/
def callFn (fn : String) (args : List (Value F)) (st : FnState F) : Outcome (Value F) × FnState F :=
  let ops := ctx.ops
  if fn = "count" then
    let n := wrap (st.count + 1)
    (.ok (.int n), { st with count := n })
  else if fn = "sigma" then
    match args with
    | [.float x] =>
      let n := ops.add st.sN (ops.ofInt 1)
      let delta := ops.sub x st.sMean
      let mean := ops.add st.sMean (ops.div delta n)
      let m2 := ops.add st.sM2 (ops.mul delta (ops.sub x mean))
      let var := ops.div m2 (ops.sub n (ops.ofInt 1))
      let st' := { st with sN := n, sMean := mean, sM2 := m2, sVar := var }
      let res := if ops.lt n (ops.ofInt 2) || ops.eq var (ops.ofInt 0) then ops.ofInt 0
        else ops.div (ops.abs (ops.sub x mean)) (ops.sqrt var)
      (.ok (.float res), st')
    | _ => (.err, st)
  else if fn = "spread" then
    match args with
    | [.float x] =>
      let mn := if ops.lt x st.spMin then x else st.spMin
      let mx := if ops.gt x st.spMax then x else st.spMax
      (.ok (.float (ops.sub mx mn)), { st with spMin := mn, spMax := mx })
    | _ => (.err, st)
  else if fn = "if" then
    match args with
    | [.bool c, a, b] => if a.ty = b.ty then (.ok (if c then a else b), st) else (.err, st)
    | _ => (.err, st)
  else if fn = "isPresent" then
    match args with
    | [v] => (.ok (.bool (decide (v.ty ≠ .missing))), st)
    | _ => (.err, st)
  else
    match Lib.builtin ops fn args with
    | some (some v) => (.ok v, st)
    | some none => (.err, st)
    | none =>
      -- not defined by the model for this name / these argument types: an external library call, but only for the
      -- builtins listed as such; anything else (undefined function, unclassified builtin) is an error
      if Lib.oracleFns.contains fn then
        match ctx.call fn args with
        | some (.ok v) => (.ok v, st)
        | _ => (.err, st)
      else (.err, st)

/-- is `EvalMissing` of this node answered with an error whose text contains "missing value" (which the
argument evaluation of a function call swallows)? -/
def missOk : Expr F → Bool
  | .ref _ => true
  | .un _ (.ref _) => true
  | .lam _ e => missOk e      -- `EvalLambdaNode.EvalMissing` hands the body's answer (value and error) through
  | _ => false

/-- generic `eval(n, scope, state)` used for function arguments: `Type` first, then the `EvalX` of that type. -/
def argEval (tp : Option Ty) (mOk : Bool) (k : Cache) (st : FnState F)
    (rec : Ty → Outcome (Value F) × Cache × FnState F) : Outcome (Value F) × Cache × FnState F :=
  match tp with
  | none => (.err, k, st)
  | some .missing => if mOk then (.ok .missing, k, st) else (.err, k, st)
  | some .invalid => (.err, k, st)
  | some t => rec t

/-- The first half of `EvalBinaryNode.eval`: which function will run. A node with a dynamic operand goes
through `evaluateDynamicNode` (operand `Type()`s — an error there is the result —, then the cache is
overwritten with the types and the looked-up function); a node with constant operands runs the function it
holds in the cache. Result: (type error?, function, cache afterwards). -/
def specC (op : BOp) (l r : Expr F) (c : Cache) : Bool × Option Entry × Cache :=
  if isDyn ctx l || isDyn ctx r then
    let k1 := typeW ctx σ l c.k1
    match typeP ctx σ l with
    | none => (true, none, c.setK1 k1)
    | some tl =>
      let k2 := typeW ctx σ r c.k2
      match typeP ctx σ r with
      | none => (true, none, (c.setK1 k1).setK2 k2)
      | some tr => (false, lookup ctx.tbl op tl tr, .node tl tr (lookup ctx.tbl op tl tr) k1 k2 c.k3)
  else (false, c.fn, c)

/-- `specC` with the cache erased: the function always comes from the table. -/
def specN (op : BOp) (l r : Expr F) : Bool × Option Entry :=
  if isDyn ctx l || isDyn ctx r then
    match typeP ctx σ l with
    | none => (true, none)
    | some tl =>
      match typeP ctx σ r with
      | none => (true, none)
      | some tr => (false, lookup ctx.tbl op tl tr)
  else (false, lookup ctx.tbl op (constType ctx l) (constType ctx r))

/-- `argEval` without the cache. -/
def argEvalN (tp : Option Ty) (mOk : Bool) (st : FnState F)
    (rec : Ty → Outcome (Value F) × FnState F) : Outcome (Value F) × FnState F :=
  match tp with
  | none => (.err, st)
  | some .missing => if mOk then (.ok .missing, st) else (.err, st)
  | some .invalid => (.err, st)
  | some t => rec t

/-- `EvalX(scope, state)` with `X = w`, for every node kind. Returns outcome, cache, function state. -/
def evalC (w : Ty) : Expr F → Cache → FnState F → Outcome (Value F) × Cache × FnState F
  | .lit v, c, st => (chk w (.ok v), c, st)
  | .ref n, c, st =>
    match σ.get n with
    | some v => (chk w (.ok v), c, st)
    | none => (.err, c, st)
  | .un op e, c, st =>
    if w = .bool ∨ w = .int ∨ w = .float ∨ w = .duration then
      let c1 := typeW ctx σ (.un op e) c
      match typeP ctx σ (.un op e) with
      | none => (.err, c1, st)
      | some typ =>
        if typ = w then
          if w = .bool ∧ op ≠ .not then (.err, c1, st) else
          let (r, k, st') := evalC w e c1.k1 st
          ((match r with | .ok v => negate ctx.ops v | o => o), c1.setK1 k, st')
        else (.err, c1, st)
    else (.err, c, st)
  | .bin op l r, c, st =>
    if w = .bool ∨ w = .int ∨ w = .float ∨ w = .string ∨ w = .duration then
      -- eval(): a dynamic operand ⇒ evaluateDynamicNode (types, cache write, look-up)
      let spec := specC ctx σ op l r c
      if spec.1 then (.err, spec.2.2, st) else
      let cS := spec.2.2
      -- evalSpecialized()
      match spec.2.1 with
      | none => (.err, cS, st)       -- determineError
      | some ent =>
        let (rl, k1', st1) := evalC ent.lm l cS.k1 st
        match rl with
        | .ok vl =>
          let short : Option Bool :=
            match ent.shape, vl with
            | .andSC, .bool false => some false
            | .orSC, .bool true => some true
            | _, _ => none
          (match short with
           | some b => (chk w (.ok (.bool b)), cS.setK1 k1', st1)
           | none =>
             if ent.shape = .unknown then (.err, cS.setK1 k1', st1) else
             let (rr, k2', st2) := evalC ent.rm r cS.k2 st1
             match rr with
             | .ok vr => (chk w (ent.compute ctx.ops ctx.reMatch vl vr), (cS.setK1 k1').setK2 k2', st2)
             | o => (o, (cS.setK1 k1').setK2 k2', st2))
        | o => (o, cS.setK1 k1', st1)
    else (.err, c, st)
  | .call0 fn, c, st =>
    let (res, st') := callFn ctx fn [] st
    (chk w res, c, st')
  | .call1 fn a, c, st =>
    let ka := typeW ctx σ a c.k1
    let (r1, k1, s1) := argEval (typeP ctx σ a) (missOk a) ka st (fun t => evalC t a ka st)
    match r1 with
    | .ok v1 =>
      let (res, st') := callFn ctx fn [v1] s1
      (chk w res, c.setK1 k1, st')
    | o => (o, c.setK1 k1, s1)
  | .call2 fn a b, c, st =>
    let ka := typeW ctx σ a c.k1
    let (r1, k1, s1) := argEval (typeP ctx σ a) (missOk a) ka st (fun t => evalC t a ka st)
    match r1 with
    | .ok v1 =>
      let kb := typeW ctx σ b c.k2
      let (r2, k2, s2) := argEval (typeP ctx σ b) (missOk b) kb s1 (fun t => evalC t b kb s1)
      (match r2 with
       | .ok v2 =>
         let (res, st') := callFn ctx fn [v1, v2] s2
         (chk w res, (c.setK1 k1).setK2 k2, st')
       | o => (o, (c.setK1 k1).setK2 k2, s2))
    | o => (o, c.setK1 k1, s1)
  | .call3 fn a b d, c, st =>
    let ka := typeW ctx σ a c.k1
    let (r1, k1, s1) := argEval (typeP ctx σ a) (missOk a) ka st (fun t => evalC t a ka st)
    match r1 with
    | .ok v1 =>
      let kb := typeW ctx σ b c.k2
      let (r2, k2, s2) := argEval (typeP ctx σ b) (missOk b) kb s1 (fun t => evalC t b kb s1)
      (match r2 with
       | .ok v2 =>
         let kd := typeW ctx σ d c.k3
         let (r3, k3, s3) := argEval (typeP ctx σ d) (missOk d) kd s2 (fun t => evalC t d kd s2)
         (match r3 with
          | .ok v3 =>
            let (res, st') := callFn ctx fn [v1, v2, v3] s3
            (chk w res, ((c.setK1 k1).setK2 k2).setK3 k3, st')
          | o => (o, ((c.setK1 k1).setK2 k2).setK3 k3, s3))
       | o => (o, (c.setK1 k1).setK2 k2, s2))
    | o => (o, c.setK1 k1, s1)
  | .call4 fn a b d e, c, st =>
    let ka := typeW ctx σ a c.k1
    let (r1, k1, s1) := argEval (typeP ctx σ a) (missOk a) ka st (fun t => evalC t a ka st)
    match r1 with
    | .ok v1 =>
      let kb := typeW ctx σ b c.k2
      let (r2, k2, s2) := argEval (typeP ctx σ b) (missOk b) kb s1 (fun t => evalC t b kb s1)
      (match r2 with
       | .ok v2 =>
         let kd := typeW ctx σ d c.k3a
         let (r3, k3, s3) := argEval (typeP ctx σ d) (missOk d) kd s2 (fun t => evalC t d kd s2)
         (match r3 with
          | .ok v3 =>
            let ke := typeW ctx σ e c.k3b
            let (r4, k4, s4) := argEval (typeP ctx σ e) (missOk e) ke s3 (fun t => evalC t e ke s3)
            (match r4 with
             | .ok v4 =>
               let (res, st') := callFn ctx fn [v1, v2, v3, v4] s4
               (chk w res, (((c.setK1 k1).setK2 k2).setK3a k3).setK3b k4, st')
             | o => (o, (((c.setK1 k1).setK2 k2).setK3a k3).setK3b k4, s4))
          | o => (o, ((c.setK1 k1).setK2 k2).setK3a k3, s3))
       | o => (o, (c.setK1 k1).setK2 k2, s2))
    | o => (o, c.setK1 k1, s1)
  | .callMany fn, c, st =>
    -- callFunction evaluates the (literal) arguments and calls: every builtin rejects > 4 arguments, count ignores them
    let (res, st') := callFn ctx fn [.missing, .missing, .missing, .missing, .missing] st
    (chk w res, c, st')
  | .lam i e, c, st =>
    -- every `EvalX` of the node: `Type` first (with its cache writes); then, when the type is X, the body's `EvalX` with
    -- the NODE's state `n.state` — the state passed in is ignored; `EvalTime` always refuses
    let c1 := typeW ctx σ (.lam i e) c
    match typeP ctx σ (.lam i e) with
    | none => (.err, c1, st)
    | some typ =>
      if typ = w ∧ w ≠ .time then
        let (r, k, inner) := evalC w e c1.k1 (st.enter i)
        (r, c1.setK1 k, st.leave inner i)
      else (.err, c1, st)

/-- The same evaluator with the cache ERASED: every binary node takes its function from the table for the
operand types it has now (the constant types when both operands are non-dynamic). It is what a freshly
compiled expression does; `Kap.Props.C04.cache_transparent` proves that `evalC` computes exactly this for
every cache the evaluator can be in. -/
def evalN (w : Ty) : Expr F → FnState F → Outcome (Value F) × FnState F
  | .lit v, st => (chk w (.ok v), st)
  | .ref n, st =>
    match σ.get n with
    | some v => (chk w (.ok v), st)
    | none => (.err, st)
  | .un op e, st =>
    if w = .bool ∨ w = .int ∨ w = .float ∨ w = .duration then
      match typeP ctx σ (.un op e) with
      | none => (.err, st)
      | some typ =>
        if typ = w then
          if w = .bool ∧ op ≠ .not then (.err, st) else
          let (r, st') := evalN w e st
          ((match r with | .ok v => negate ctx.ops v | o => o), st')
        else (.err, st)
    else (.err, st)
  | .bin op l r, st =>
    if w = .bool ∨ w = .int ∨ w = .float ∨ w = .string ∨ w = .duration then
      let spec := specN ctx σ op l r
      if spec.1 then (.err, st) else
      match spec.2 with
      | none => (.err, st)
      | some ent =>
        let (rl, st1) := evalN ent.lm l st
        match rl with
        | .ok vl =>
          let short : Option Bool :=
            match ent.shape, vl with
            | .andSC, .bool false => some false
            | .orSC, .bool true => some true
            | _, _ => none
          (match short with
           | some b => (chk w (.ok (.bool b)), st1)
           | none =>
             if ent.shape = .unknown then (.err, st1) else
             let (rr, st2) := evalN ent.rm r st1
             match rr with
             | .ok vr => (chk w (ent.compute ctx.ops ctx.reMatch vl vr), st2)
             | o => (o, st2))
        | o => (o, st1)
    else (.err, st)
  | .call0 fn, st =>
    let (res, st') := callFn ctx fn [] st
    (chk w res, st')
  | .call1 fn a, st =>
    let (r1, s1) := argEvalN (typeP ctx σ a) (missOk a) st (fun t => evalN t a st)
    match r1 with
    | .ok v1 =>
      let (res, st') := callFn ctx fn [v1] s1
      (chk w res, st')
    | o => (o, s1)
  | .call2 fn a b, st =>
    let (r1, s1) := argEvalN (typeP ctx σ a) (missOk a) st (fun t => evalN t a st)
    match r1 with
    | .ok v1 =>
      let (r2, s2) := argEvalN (typeP ctx σ b) (missOk b) s1 (fun t => evalN t b s1)
      (match r2 with
       | .ok v2 =>
         let (res, st') := callFn ctx fn [v1, v2] s2
         (chk w res, st')
       | o => (o, s2))
    | o => (o, s1)
  | .call3 fn a b d, st =>
    let (r1, s1) := argEvalN (typeP ctx σ a) (missOk a) st (fun t => evalN t a st)
    match r1 with
    | .ok v1 =>
      let (r2, s2) := argEvalN (typeP ctx σ b) (missOk b) s1 (fun t => evalN t b s1)
      (match r2 with
       | .ok v2 =>
         let (r3, s3) := argEvalN (typeP ctx σ d) (missOk d) s2 (fun t => evalN t d s2)
         (match r3 with
          | .ok v3 =>
            let (res, st') := callFn ctx fn [v1, v2, v3] s3
            (chk w res, st')
          | o => (o, s3))
       | o => (o, s2))
    | o => (o, s1)
  | .call4 fn a b d e, st =>
    let (r1, s1) := argEvalN (typeP ctx σ a) (missOk a) st (fun t => evalN t a st)
    match r1 with
    | .ok v1 =>
      let (r2, s2) := argEvalN (typeP ctx σ b) (missOk b) s1 (fun t => evalN t b s1)
      (match r2 with
       | .ok v2 =>
         let (r3, s3) := argEvalN (typeP ctx σ d) (missOk d) s2 (fun t => evalN t d s2)
         (match r3 with
          | .ok v3 =>
            let (r4, s4) := argEvalN (typeP ctx σ e) (missOk e) s3 (fun t => evalN t e s3)
            (match r4 with
             | .ok v4 =>
               let (res, st') := callFn ctx fn [v1, v2, v3, v4] s4
               (chk w res, st')
             | o => (o, s4))
          | o => (o, s3))
       | o => (o, s2))
    | o => (o, s1)
  | .callMany fn, st =>
    let (res, st') := callFn ctx fn [.missing, .missing, .missing, .missing, .missing] st
    (chk w res, st')
  | .lam i e, st =>
    match typeP ctx σ (.lam i e) with
    | none => (.err, st)
    | some typ =>
      if typ = w ∧ w ≠ .time then
        let (r, inner) := evalN w e (st.enter i)
        (r, st.leave inner i)
      else (.err, st)

/-- `Expression.Eval`: `Type`, then the `EvalX` of that type; a panic is recovered into an error. -/
def evalTop (e : Expr F) (c : Cache) (st : FnState F) : Outcome (Value F) × Cache × FnState F :=
  let c1 := typeW ctx σ e c
  match typeP ctx σ e with
  | none => (.err, c1, st)
  | some t =>
    if t = .int ∨ t = .float ∨ t = .string ∨ t = .bool ∨ t = .duration then
      let (r, c2, st') := evalC ctx σ t e c1 st
      ((match r with | .trap => .err | o => o), c2, st')
    else (.err, c1, st)

/-- `EvalPredicate` after `fillScope`: `Type` (for the signature check), then `EvalBool`; no recover. -/
def evalPred (e : Expr F) (c : Cache) (st : FnState F) : Outcome (Value F) × Cache × FnState F :=
  let c1 := typeW ctx σ e c
  match typeP ctx σ e with
  | none => (.err, c1, st)
  | some _ => evalC ctx σ .bool e c1 st

/-- direct `EvalInt/EvalFloat/EvalString/EvalBool/EvalDuration` (no `Type` first; `autoscale.go`). -/
def evalDirect (w : Ty) (e : Expr F) (c : Cache) (st : FnState F) : Outcome (Value F) × Cache × FnState F :=
  evalC ctx σ w e c st

/-- the four ways an expression is asked (`type` = `Type(scope)` only; its answer is `typeP`). -/
inductive Path where
  | eval | pred | direct (w : Ty) | type
deriving DecidableEq, Repr, Inhabited

def runPath (p : Path) (e : Expr F) (c : Cache) (st : FnState F) : Outcome (Value F) × Cache × FnState F :=
  match p with
  | .eval => evalTop ctx σ e c st
  | .pred => evalPred ctx σ e c st
  | .direct w => evalDirect ctx σ w e c st
  | .type => ((match typeP ctx σ e with | some _ => .ok .missing | none => .err), typeW ctx σ e c, st)

/-- the entry paths with the cache erased. -/
def evalTopN (e : Expr F) (st : FnState F) : Outcome (Value F) × FnState F :=
  match typeP ctx σ e with
  | none => (.err, st)
  | some t =>
    if t = .int ∨ t = .float ∨ t = .string ∨ t = .bool ∨ t = .duration then
      let (r, st') := evalN ctx σ t e st
      ((match r with | .trap => .err | o => o), st')
    else (.err, st)

def evalPredN (e : Expr F) (st : FnState F) : Outcome (Value F) × FnState F :=
  match typeP ctx σ e with
  | none => (.err, st)
  | some _ => evalN ctx σ .bool e st

def runPathN (p : Path) (e : Expr F) (st : FnState F) : Outcome (Value F) × FnState F :=
  match p with
  | .eval => evalTopN ctx σ e st
  | .pred => evalPredN ctx σ e st
  | .direct w => evalN ctx σ w e st
  | .type => ((match typeP ctx σ e with | some _ => .ok .missing | none => .err), st)

end

/-! ### `EvalPredicate` of the root package: the scope is filled from a point -/

/-- what `EvalPredicate` reads of a point: its time, its fields (int, float, string, bool values) and tags. -/
structure Point (F : Type) where
  time : Int
  fields : List (String × Value F)
  tags : List (String × Bytes)

/-- `ast.FindReferenceVariables` (as a list; `fillScope` does not depend on order or repetitions). -/
def refsOf {F : Type} : Expr F → List String
  | .ref n => [n]
  | .un _ e => refsOf e
  | .bin _ l r => refsOf l ++ refsOf r
  | .call1 _ a => refsOf a
  | .call2 _ a b => refsOf a ++ refsOf b
  | .call3 _ a b c => refsOf a ++ refsOf b ++ refsOf c
  | .call4 _ a b c d => refsOf a ++ refsOf b ++ refsOf c ++ refsOf d
  | .lam _ e => refsOf e      -- `ast.Walk` descends into lambda nodes
  | _ => []

def assoc {α : Type} (l : List (String × α)) (n : String) : Option α :=
  match l.find? (fun p => p.1 == n) with
  | some p => some p.2
  | none => none

/-- `fillScope`: for every reference variable — `time` is the point's time; a field of that name, else a tag
of that name; both ⇒ the whole call is an error (`none`); neither ⇒ the missing value. -/
def fillScope {F : Type} : List String → Point F → Option (Scope F)
  | [], _ => some []
  | n :: rest, p =>
    if n = "time" then (fillScope rest p).map (fun σ => ("time", .time p.time) :: σ)
    else
      match assoc p.fields n, assoc p.tags n with
      | some _, some _ => none
      | some v, none => (fillScope rest p).map (fun σ => (n, v) :: σ)
      | none, some s => (fillScope rest p).map (fun σ => (n, .str s) :: σ)
      | none, none => (fillScope rest p).map (fun σ => (n, .missing) :: σ)

/-- `kapacitor.EvalPredicate(se, scopePool, point)`. -/
def evalPoint {F : Type} (ctx : Ctx F) (e : Expr F) (p : Point F) (c : Cache) (st : FnState F) :
    Outcome (Value F) × Cache × FnState F :=
  match fillScope (refsOf e) p with
  | none => (.err, c, st)
  | some σ => evalPred ctx σ e c st

/-- The cache of a compiled expression after ANY earlier evaluations: each one through any entry path, against
any scope, with the function state of any group (`CopyReset` copies share every node evaluator that has no lambda
node below it; what ONE copy sees is `mixCache` of two such caches, see `World`). -/
def reach {F : Type} (ctx : Ctx F) (e : Expr F) (pre : List (Path × Scope F × FnState F)) : Cache :=
  pre.foldl (fun c x => (runPath ctx x.2.1 x.1 e c x.2.2).2.1) (compileCache ctx e)

/-! ### one compiled expression and its `CopyReset` copies (one per group) -/

/-- does the node evaluator of `e` hold a lambda node, or have one below it? `copyReset()` (node_evaluator.go and the
four node kinds with children) returns the receiver itself when it does not, a copy of the node otherwise. -/
def hasLam {F : Type} : Expr F → Bool
  | .lam _ _ => true
  | .un _ e => hasLam e
  | .bin _ l r => hasLam l || hasLam r
  | .call1 _ a => hasLam a
  | .call2 _ a b => hasLam a || hasLam b
  | .call3 _ a b c => hasLam a || hasLam b || hasLam c
  | .call4 _ a b c d => hasLam a || hasLam b || hasLam c || hasLam d
  | _ => false

/-- the cache ONE copy evaluates with: the records of the nodes `CopyReset` copied (`hasLam`) are the copy's `own`,
everything else is the `shared` node evaluator's. Both arguments are whole cache trees; only the `hasLam` positions
of `own` and the other positions of `shared` are read. -/
def mixCache {F : Type} : Expr F → Cache → Cache → Cache
  | .un op e, own, sh =>
    if hasLam (.un op e) then .node own.lt own.rt own.fn (mixCache e own.k1 sh.k1) own.k2 own.k3 else sh
  | .bin op l r, own, sh =>
    if hasLam (.bin op l r) then .node own.lt own.rt own.fn (mixCache l own.k1 sh.k1) (mixCache r own.k2 sh.k2) own.k3 else sh
  | .call1 fn a, own, sh =>
    if hasLam (.call1 fn a) then .node own.lt own.rt own.fn (mixCache a own.k1 sh.k1) own.k2 own.k3 else sh
  | .call2 fn a b, own, sh =>
    if hasLam (.call2 fn a b) then .node own.lt own.rt own.fn (mixCache a own.k1 sh.k1) (mixCache b own.k2 sh.k2) own.k3 else sh
  | .call3 fn a b c, own, sh =>
    if hasLam (.call3 fn a b c) then
      .node own.lt own.rt own.fn (mixCache a own.k1 sh.k1) (mixCache b own.k2 sh.k2) (mixCache c own.k3 sh.k3)
    else sh
  | .call4 fn a b c d, own, sh =>
    if hasLam (.call4 fn a b c d) then
      .node own.lt own.rt own.fn (mixCache a own.k1 sh.k1) (mixCache b own.k2 sh.k2)
        (.node own.k3.lt own.k3.rt own.k3.fn (mixCache c own.k3a sh.k3a) (mixCache d own.k3b sh.k3b) own.k3.k3)
    else sh
  | .lam _ e, own, sh => .node own.lt own.rt own.fn (mixCache e own.k1 sh.k1) own.k2 own.k3
  | _, _, sh => sh

/-- What exists at run time for ONE compiled expression used by several groups (`fix:` 8ed14ac): `CopyReset` gives
every copy an `ExecutionState` of its own AND its own lambda nodes, each with a fresh state — the node evaluators on the
path from the root to a lambda node are copied with them (`own`: the copy's records of those nodes; a copy starts with
what the original holds at that moment), all other node evaluators, with their specialisation cache, exist once and are
shared by all copies (`shared`). Copy 0 is the compiled expression itself. -/
structure World (F : Type) where
  shared : Cache
  own : Nat → Cache
  lams : Nat → Nat → FnBase F
  groups : Nat → FnBase F

/-- right after `NewExpression`, with the copies made before anything is evaluated (every node of the root package
copies its never-evaluated node-level expression in `NewGroup`): every copy starts with fresh functions, inside nested
lambdas too, and with the compile-time records. -/
def World.init {F : Type} (ctx : Ctx F) (e : Expr F) : World F :=
  { shared := compileCache ctx e, own := fun _ => compileCache ctx e,
    lams := fun _ _ => FnBase.init ctx.ops, groups := fun _ => FnBase.init ctx.ops }

/-- the cache copy `g` evaluates with. -/
def World.cacheOf {F : Type} (e : Expr F) (w : World F) (g : Nat) : Cache := mixCache e (w.own g) w.shared

/-- `CopyReset` of the compiled expression (copy 0) into slot `k`, at any time: fresh functions, fresh lambda-node
states, the copied nodes start with the records the original holds now. -/
def World.copy {F : Type} (ctx : Ctx F) (w : World F) (k : Nat) : World F :=
  { shared := w.shared, own := fun j => if j = k then w.own 0 else w.own j,
    lams := fun j => if j = k then fun _ => FnBase.init ctx.ops else w.lams j,
    groups := fun j => if j = k then FnBase.init ctx.ops else w.groups j }

/-- the copy of group `g` is asked through path `p` against scope `σ`: its own functions and lambda-node states; the
cache records it wrote land in its own nodes (`own g`) and in the shared ones (`shared`) — both are kept as whole trees,
`mixCache` reads each at its positions only. -/
def World.step {F : Type} (ctx : Ctx F) (e : Expr F) (w : World F) (g : Nat) (p : Path) (σ : Scope F) :
    Outcome (Value F) × World F :=
  let r := runPath ctx σ p e (w.cacheOf e g) { toFnBase := w.groups g, lams := w.lams g }
  (r.1, { shared := r.2.1, own := fun j => if j = g then r.2.1 else w.own j,
          lams := fun j => if j = g then r.2.2.lams else w.lams j,
          groups := fun j => if j = g then r.2.2.toFnBase else w.groups j })

/-- the answers to a sequence of questions (group, path, scope). -/
def World.run {F : Type} (ctx : Ctx F) (e : Expr F) : World F → List (Nat × Path × Scope F) → List (Outcome (Value F))
  | _, [] => []
  | w, q :: rest => (w.step ctx e q.1 q.2.1 q.2.2).1 :: World.run ctx e (w.step ctx e q.1 q.2.1 q.2.2).2 rest

/-- what can happen to a compiled expression and its copies: a copy is asked, or `CopyReset` (re)makes copy `k` from the
compiled expression. -/
inductive WOp (F : Type) where
  | ask (q : Nat × Path × Scope F)
  | copy (k : Nat)

/-- the answers to a sequence of questions and `CopyReset`s. -/
def World.runOps {F : Type} (ctx : Ctx F) (e : Expr F) : World F → List (WOp F) → List (Outcome (Value F))
  | _, [] => []
  | w, .ask q :: rest => (w.step ctx e q.1 q.2.1 q.2.2).1 :: World.runOps ctx e (w.step ctx e q.1 q.2.1 q.2.2).2 rest
  | w, .copy k :: rest => World.runOps ctx e (w.copy ctx k) rest

/-! ### the world before `fix:` 8ed14ac (kept for the counterexample theorem) -/

/-- As the code was: `CopyReset` copied the `nodeEvaluator` POINTER, so the node evaluators — with their specialisation
cache AND the `ExecutionState` of every lambda node — existed once and were shared by all copies; each copy owned only
the `ExecutionState` it hands to the root node. -/
structure OldWorld (F : Type) where
  cache : Cache
  lams : Nat → FnBase F
  groups : Nat → FnBase F

def OldWorld.init {F : Type} (ctx : Ctx F) (e : Expr F) : OldWorld F :=
  { cache := compileCache ctx e, lams := fun _ => FnBase.init ctx.ops, groups := fun _ => FnBase.init ctx.ops }

def OldWorld.step {F : Type} (ctx : Ctx F) (e : Expr F) (w : OldWorld F) (g : Nat) (p : Path) (σ : Scope F) :
    Outcome (Value F) × OldWorld F :=
  let r := runPath ctx σ p e w.cache { toFnBase := w.groups g, lams := w.lams }
  (r.1, { cache := r.2.1, lams := r.2.2.lams, groups := fun j => if j = g then r.2.2.toFnBase else w.groups j })

def OldWorld.run {F : Type} (ctx : Ctx F) (e : Expr F) : OldWorld F → List (Nat × Path × Scope F) → List (Outcome (Value F))
  | _, [] => []
  | w, q :: rest => (w.step ctx e q.1 q.2.1 q.2.2).1 :: OldWorld.run ctx e (w.step ctx e q.1 q.2.1 q.2.2).2 rest

end Kap.C04
