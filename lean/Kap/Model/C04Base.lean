/-
C04 — base vocabulary shared by the generated table (`Kap/Gen/C04.lean`), the model, the spec and the driver:
value types, operators, values, the float interface, outcomes, and the SHAPE of one entry of the
operator × type × type table of `tick/stateful/evaluation_funcs.go` as the extractor
(`/verif/extract/evaltable`) reads it from the Go source, together with the generic interpreter of such an
entry.

Floats: Lean's `Float` is opaque to proofs, so everything is parametric in a type `F` with an operation record
`FOps F`; the driver instantiates `F := Float` (bit patterns on the wire), the `decide`d witnesses use a toy
instance. No theorem assumes anything about the float operations.
Integers: `int64` and `time.Duration` are `Int` kept in range by `wrap` (two's complement, as Go).
Core Lean only.
-/
import Kap.Basic
namespace Kap.C04

/-- `ast.ValueType` (the members an expression can produce). -/
inductive Ty where
  | invalid | float | int | string | bool | regex | time | duration | missing
deriving DecidableEq, Repr, Inhabited

/-- binary operators (`ast.TokenAnd` …). -/
inductive BOp where
  | and | or | eq | ne | lt | le | gt | ge | reEq | reNe | plus | minus | mult | div | mod
deriving DecidableEq, Repr, Inhabited

inductive UOp where
  | not | neg
deriving DecidableEq, Repr, Inhabited

def BOp.isComp : BOp → Bool
  | .eq | .ne | .lt | .le | .gt | .ge | .reEq | .reNe => true
  | _ => false
def BOp.isLogical : BOp → Bool
  | .and | .or => true
  | _ => false

/-- Go strings are byte sequences (not necessarily valid UTF-8); comparison is byte-wise lexicographic. -/
abbrev Bytes := List UInt8

/-- Values. Strings are byte lists as in Go, regexes are their pattern text, times are Unix nanoseconds. -/
inductive Value (F : Type) where
  | bool (b : Bool)
  | int (i : Int)
  | float (f : F)
  | str (s : Bytes)
  | dur (d : Int)
  | regex (pat : Bytes)
  | time (ns : Int)
  | missing
deriving Repr, Inhabited, DecidableEq

def Value.ty {F} : Value F → Ty
  | .bool _ => .bool | .int _ => .int | .float _ => .float | .str _ => .string
  | .dur _ => .duration | .regex _ => .regex | .time _ => .time | .missing => .missing

/-- two's complement wrap into the `int64` range. -/
def wrap (x : Int) : Int := (x + 9223372036854775808) % 18446744073709551616 - 9223372036854775808

/-- What the model needs from `float64`. -/
structure FOps (F : Type) where
  add : F → F → F
  sub : F → F → F
  mul : F → F → F
  div : F → F → F
  lt : F → F → Bool
  le : F → F → Bool
  gt : F → F → Bool
  ge : F → F → Bool
  eq : F → F → Bool
  ne : F → F → Bool
  ofInt : Int → F        -- `float64(i)`
  toI64 : F → Int        -- `int64(f)` / `time.Duration(f)` (implementation-defined outside the range)
  abs : F → F
  min : F → F → F        -- `math.Min` / `math.Max` (their NaN, ±Inf and ±0 rules live in the instance)
  max : F → F → F
  sqrt : F → F
  posInf : F
  negInf : F

/-- outcome of running code: a value, a Go `error` (in the repaired evaluator no decision depends on which
error it is, so errors are one class), or a run-time panic. -/
inductive Outcome (α : Type) where
  | ok (a : α)
  | err
  | trap
deriving Repr, Inhabited, DecidableEq

def Outcome.isErr {α} : Outcome α → Bool
  | .err => true
  | _ => false

/-- result of an external (library) call carried in the op line. -/
inductive ORes (F : Type) where
  | ok (v : Value F)
  | err
deriving Repr, Inhabited

/-! ### one entry of `evaluationFuncs`, as the extractor reads it -/

/-- Go binary operators that occur in the result expressions. -/
inductive GoOp where
  | add | sub | mul | quo | rem | lt | le | gt | ge | eq | ne | land | lor
deriving DecidableEq, Repr, Inhabited

inductive Conv where
  | toFloat   -- `float64(x)`
  | toInt     -- `int64(x)`
  | toDur     -- `time.Duration(x)`
deriving DecidableEq, Repr, Inhabited

/-- the result expression of an entry. -/
inductive RExp where
  | left | right
  | bin (op : GoOp) (a b : RExp)
  | conv (c : Conv) (a : RExp)
  | not (a : RExp)
  | matchRL                       -- `right.MatchString(left)`
  | unknown (src : String)        -- a shape the extractor does not know: no lemma covers it
deriving DecidableEq, Repr, Inhabited

/-- control shape of the function body. -/
inductive Shape where
  | plain       -- evaluate left, evaluate right, compute
  | andSC       -- `if !left { return false }` between the two evaluations
  | orSC        -- `if left { return true }` between the two evaluations
  | unknown
deriving DecidableEq, Repr, Inhabited

structure Entry where
  op : BOp
  lt : Ty
  rt : Ty
  /-- the `EvalX` method applied to the left / right operand, named by the type it yields -/
  lm : Ty
  rm : Ty
  shape : Shape
  /-- `if right == 0 { return …, error }` precedes the computation -/
  zeroGuard : Bool
  /-- the `resultContainer` field that is filled (`BoolValue` ↦ bool, …) -/
  res : Ty
  rexp : RExp
  /-- the declared `returnType` -/
  ret : Ty
deriving DecidableEq, Repr, Inhabited

def lookup (tbl : List Entry) (op : BOp) (lt rt : Ty) : Option Entry :=
  tbl.find? (fun e => e.op == op && e.lt == lt && e.rt == rt)

/-- A builtin function signature as `Signature()` returns it: argument types (≤ 4) ↦ return type. -/
structure Sig where
  name : String
  dom : List Ty
  ret : Ty
deriving DecidableEq, Repr, Inhabited

/-! ### generic interpreter of a result expression over two operand values -/

section
variable {F : Type} (ops : FOps F) (reMatch : Bytes → Bytes → Option Bool)

/-- Go integer `/`: panics on zero, truncates, wraps (`MinInt64 / -1 = MinInt64`). -/
def goQuo (a b : Int) : Outcome Int := if b = 0 then .trap else .ok (wrap (Int.tdiv a b))
def goRem (a b : Int) : Outcome Int := if b = 0 then .trap else .ok (wrap (Int.tmod a b))

def goBin (op : GoOp) : Value F → Value F → Outcome (Value F)
  | .int a, .int b =>
    match op with
    | .add => .ok (.int (wrap (a + b))) | .sub => .ok (.int (wrap (a - b))) | .mul => .ok (.int (wrap (a * b)))
    | .quo => match goQuo a b with | .ok v => .ok (.int v) | .err => .err | .trap => .trap
    | .rem => match goRem a b with | .ok v => .ok (.int v) | .err => .err | .trap => .trap
    | .lt => .ok (.bool (decide (a < b))) | .le => .ok (.bool (decide (a ≤ b)))
    | .gt => .ok (.bool (decide (a > b))) | .ge => .ok (.bool (decide (a ≥ b)))
    | .eq => .ok (.bool (decide (a = b))) | .ne => .ok (.bool (decide (a ≠ b)))
    | _ => .err
  | .dur a, .dur b =>
    match op with
    | .add => .ok (.dur (wrap (a + b))) | .sub => .ok (.dur (wrap (a - b))) | .mul => .ok (.dur (wrap (a * b)))
    | .quo => match goQuo a b with | .ok v => .ok (.dur v) | .err => .err | .trap => .trap
    | .lt => .ok (.bool (decide (a < b))) | .le => .ok (.bool (decide (a ≤ b)))
    | .gt => .ok (.bool (decide (a > b))) | .ge => .ok (.bool (decide (a ≥ b)))
    | .eq => .ok (.bool (decide (a = b))) | .ne => .ok (.bool (decide (a ≠ b)))
    | _ => .err
  | .float a, .float b =>
    match op with
    | .add => .ok (.float (ops.add a b)) | .sub => .ok (.float (ops.sub a b))
    | .mul => .ok (.float (ops.mul a b)) | .quo => .ok (.float (ops.div a b))
    | .lt => .ok (.bool (ops.lt a b)) | .le => .ok (.bool (ops.le a b))
    | .gt => .ok (.bool (ops.gt a b)) | .ge => .ok (.bool (ops.ge a b))
    | .eq => .ok (.bool (ops.eq a b)) | .ne => .ok (.bool (ops.ne a b))
    | _ => .err
  | .str a, .str b =>
    match op with
    | .add => .ok (.str (a ++ b))
    | .lt => .ok (.bool (decide (a < b))) | .le => .ok (.bool (decide (a ≤ b)))
    | .gt => .ok (.bool (decide (a > b))) | .ge => .ok (.bool (decide (a ≥ b)))
    | .eq => .ok (.bool (decide (a = b))) | .ne => .ok (.bool (decide (a ≠ b)))
    | _ => .err
  | .bool a, .bool b =>
    match op with
    | .land => .ok (.bool (a && b)) | .lor => .ok (.bool (a || b))
    | .eq => .ok (.bool (a == b)) | .ne => .ok (.bool (a != b))
    | _ => .err
  | _, _ => .err      -- Go would not compile it

def goConv (c : Conv) : Value F → Outcome (Value F)
  | .int a => match c with
    | .toFloat => .ok (.float (ops.ofInt a)) | .toInt => .ok (.int a) | .toDur => .ok (.dur a)
  | .dur a => match c with
    | .toFloat => .ok (.float (ops.ofInt a)) | .toInt => .ok (.int a) | .toDur => .ok (.dur a)
  | .float a => match c with
    | .toFloat => .ok (.float a) | .toInt => .ok (.int (ops.toI64 a)) | .toDur => .ok (.dur (ops.toI64 a))
  | _ => .err

/-- evaluate a result expression with `left := vl`, `right := vr`. -/
def RExp.eval (vl vr : Value F) : RExp → Outcome (Value F)
  | .left => .ok vl
  | .right => .ok vr
  | .bin op a b =>
    match a.eval vl vr with
    | .ok x => (match b.eval vl vr with
      | .ok y => goBin ops op x y
      | o => o)
    | o => o
  | .conv c a =>
    match a.eval vl vr with
    | .ok x => goConv ops c x
    | o => o
  | .not a =>
    match a.eval vl vr with
    | .ok (.bool x) => .ok (.bool (!x))
    | .ok _ => .err
    | o => o
  | .matchRL =>
    match vl, vr with
    | .str s, .regex p => (match reMatch p s with | some b => .ok (.bool b) | none => .err)
    | _, _ => .err
  | .unknown _ => .err

/-- `right == 0` for an integer or duration operand. -/
def isZeroV : Value F → Bool
  | .int b => b == 0
  | .dur b => b == 0
  | _ => false

/-- The computation part of an entry once both operands have been evaluated (zero guard, result expression,
result field). -/
def Entry.compute (e : Entry) (vl vr : Value F) : Outcome (Value F) :=
  if e.zeroGuard && isZeroV vr then .err else
  match e.rexp.eval ops reMatch vl vr with
  | .ok v => if v.ty = e.res then .ok v else .err
  | o => o

end
end Kap.C04
