/-
C04 — `EvalLambdaNode` (a lambda node INSIDE an expression: `var w = lambda: count() > 1` used in
`|where(lambda: w AND …)`), restricted to what the recorded finding `nested-lambda-state-shared` needs.

`NewEvalLambdaNode` creates ONE `ExecutionState` for the node ("an independent state for this expression") and
every `EvalX` of the node evaluates its body with that state, ignoring the state passed in. `CopyReset` copies
of the enclosing expression (one per group) share the node evaluators, hence this state: stateful functions
inside a nested lambda run over the points of ALL groups. The pinned test
`TestEvalLambdaNode_EvalBool_SeparateState` passes a fresh `ExecutionState` on every call and expects the node's
own state to persist, so the state cannot move into the passed-in (per-group) state without editing that test:
recorded as a finding, not repaired.

Model: the expression `(lambda: count()) > k` asked by a sequence of instance ids (one evaluation each).
-/
import Kap.Basic
namespace Kap.C04.Lam

/-- the code: one counter in the node, whoever asks. -/
def runShared (k : Int) : List Nat → Int → List Bool
  | [], _ => []
  | _ :: rest, n => decide (n + 1 > k) :: runShared k rest (n + 1)

def count (cnts : List (Nat × Int)) (i : Nat) : Int :=
  match cnts.find? (fun p => p.1 == i) with
  | some p => p.2
  | none => 0

/-- the property: `count()` counts the earlier points of the SAME group (instance). -/
def runPerGroup (k : Int) : List Nat → List (Nat × Int) → List Bool
  | [], _ => []
  | i :: rest, cnts => decide (count cnts i + 1 > k) :: runPerGroup k rest ((i, count cnts i + 1) :: cnts)

/-- deviation clause of the finding: more than one instance asks. -/
def severalGroups : List Nat → Bool
  | [] => false
  | i :: rest => rest.any (fun j => j != i)

end Kap.C04.Lam
