/-
C04 — the binary-node evaluation of SNAPSHOT ef0888e (before the `fix:` commits 043a5af and 325c5ee), kept as an
executable model for the counterexample theorems in `Kap/Props/C04.lean`: ONE `EvalBinaryNode` over leaf
operands, with its cache `(leftType, rightType, evaluationFn)`, `evaluateDynamicNode`, and the type-guard
retry of `eval()` that patches the cached type from the error and evaluates again.
Operands are the leaves that matter for the witnesses: a reference, a literal, `count()`, `!"ref"` (constant
type bool, fails its guard when the field is not a boolean) and `-literal` (constant type = the literal's,
`EvalX` fails with ActualType = that same type). Go's unbounded recursion is given fuel; running out of fuel
is the stack overflow. Floats are not involved (toy `FOps Int`).
-/
import Kap.Model.C04
namespace Kap.C04.Legacy

inductive Leaf where
  | ref (n : String) | lit (v : Value Int) | count | notRef (n : String) | negLit (v : Value Int)

inductive Slot where
  | nil | dyn | spec (e : Entry)

structure NCache where
  lt : Ty
  rt : Ty
  fn : Slot

/-- result of `EvalX` on a leaf: a value, an `ErrTypeGuardFailed` with its ActualType, or another error. -/
inductive LRes where
  | ok (v : Value Int) | guard (act : Ty) | other

def toyOps : FOps Int :=
  { add := (· + ·), sub := (· - ·), mul := (· * ·), div := fun a b => Int.tdiv a b,
    lt := fun a b => decide (a < b), le := fun a b => decide (a ≤ b), gt := fun a b => decide (a > b),
    ge := fun a b => decide (a ≥ b), eq := fun a b => decide (a = b), ne := fun a b => decide (a ≠ b),
    ofInt := id, toI64 := id, abs := fun a => a.natAbs, min := fun a b => if a ≤ b then a else b,
    max := fun a b => if a ≥ b then a else b, sqrt := id, posInf := 1, negInf := -1 }

def isDynLeaf : Leaf → Bool
  | .ref _ | .count => true
  | _ => false

def typeLeaf (σ : Scope Int) : Leaf → Option Ty
  | .ref n => (σ.get n).map Value.ty
  | .lit v => some v.ty
  | .count => some .int
  | .notRef _ => some .bool
  | .negLit v => some v.ty

/-- `EvalX` with X = w; the counter of `count()` is threaded. -/
def evalLeaf (σ : Scope Int) (w : Ty) (cnt : Int) : Leaf → LRes × Int
  | .ref n =>
    match σ.get n with
    | some v => (if v.ty = w then .ok v else if v.ty = .missing then .other else .guard v.ty, cnt)
    | none => (.other, cnt)
  | .lit v => (if v.ty = w then .ok v else .guard v.ty, cnt)
  | .count => (if w = .int then .ok (.int (cnt + 1)) else .guard .int, cnt + 1)
  | .notRef n =>
    if w = .bool then
      match σ.get n with
      | some (.bool b) => (.ok (.bool (!b)), cnt)
      | some v => (if v.ty = .missing then .other else .guard v.ty, cnt)
      | none => (.other, cnt)
    else (.guard .bool, cnt)
  | .negLit v =>
    match v, w with
    | .int i, .int => (.ok (.int (-i)), cnt)
    | .dur d, .duration => (.ok (.dur (-d)), cnt)
    | .bool b, .bool => (.ok (.bool (!b)), cnt)      -- the snapshot's EvalBool ignored the operator
    | _, _ => (.guard v.ty, cnt)                      -- ActualType = constReturnType = the literal's type

def slotOf : Option Entry → Slot
  | some e => .spec e
  | none => .nil

/-- `eval()` of the snapshot. -/
def evalL (tbl : List Entry) (σ : Scope Int) (op : BOp) (l r : Leaf) : Nat → NCache → Int → Outcome (Value Int) × NCache × Int
  | 0, c, cnt => (.trap, c, cnt)                      -- stack overflow
  | fuel + 1, c, cnt =>
    match c.fn with
    | .nil => (.err, c, cnt)                          -- determineError
    | .dyn =>                                         -- evaluateDynamicNode
      match typeLeaf σ l, typeLeaf σ r with
      | some tl, some tr => evalL tbl σ op l r fuel { lt := tl, rt := tr, fn := slotOf (lookup tbl op tl tr) } cnt
      | _, _ => (.err, c, cnt)
    | .spec ent =>
      match evalLeaf σ ent.lm cnt l with
      | (.ok vl, cnt1) =>
        (match evalLeaf σ ent.rm cnt1 r with
         | (.ok vr, cnt2) => (ent.compute toyOps (fun _ _ => none) vl vr, c, cnt2)
         | (.guard act, cnt2) =>
           (match lookup tbl op c.lt act with
            | none => (.err, { c with rt := act, fn := .nil }, cnt2)
            | some ent' => evalL tbl σ op l r fuel { c with rt := act, fn := .spec ent' } cnt2)
         | (.other, cnt2) => (.err, c, cnt2))
      | (.guard act, cnt1) =>
        (match lookup tbl op act c.rt with
         | none => (.err, { c with lt := act, fn := .nil }, cnt1)
         | some ent' => evalL tbl σ op l r fuel { c with lt := act, fn := .spec ent' } cnt1)
      | (.other, cnt1) => (.err, c, cnt1)

/-- the cache after `NewEvalBinaryNode`. -/
def initCache (tbl : List Entry) (op : BOp) (l r : Leaf) : NCache :=
  if isDynLeaf l || isDynLeaf r then { lt := .invalid, rt := .invalid, fn := .dyn }
  else
    let tl := (typeLeaf [] l).getD .invalid
    let tr := (typeLeaf [] r).getD .invalid
    { lt := tl, rt := tr, fn := slotOf (lookup tbl op tl tr) }

/-- direct `EvalInt/…` (and what `EvalBool` does on a node without dynamic operands): `eval()`. -/
def direct (tbl : List Entry) (σ : Scope Int) (op : BOp) (l r : Leaf) (c : NCache) (cnt : Int) :=
  evalL tbl σ op l r 40 c cnt

/-- `Expression.Eval` on a dynamic MATH node: `Type()` refreshes the cached types (not the function), then `eval()`. -/
def viaType (tbl : List Entry) (σ : Scope Int) (op : BOp) (l r : Leaf) (c : NCache) (cnt : Int) :
    Outcome (Value Int) × NCache × Int :=
  match typeLeaf σ l, typeLeaf σ r with
  | some tl, some tr =>
    (match lookup tbl op tl tr with
     | some _ => evalL tbl σ op l r 40 { c with lt := tl, rt := tr } cnt
     | none => (.err, { c with lt := tl, rt := tr }, cnt))
  | _, _ => (.err, c, cnt)

def out (x : Outcome (Value Int) × NCache × Int) : Option (Option (Value Int)) :=
  match x.1 with
  | .ok v => some (some v)
  | .err => some none
  | .trap => none

end Kap.C04.Legacy
