/-
C04 — the documented meaning of the deterministic, non-transcendental builtins of `tick/stateful/functions.go`
and of the Go library functions they wrap, on byte strings and 64-bit integers:
`strings.Index/LastIndex/Count/Contains/HasPrefix/HasSuffix/TrimPrefix/TrimSuffix/Replace`, `len`, the byte slice
`s[start:stop]`, `utf8` rune widths (for `Count(s, "")` and `Replace(s, "", …)`), `strconv.ParseBool/ParseInt/
FormatInt/FormatBool`, `influxql.FormatDuration`, the conversion switches of `bool() int() float() string()
duration()`, `abs/min/max`.
Used by BOTH the model (`callFn`: the builtin's `Call` method is a thin wrapper around the library function)
and the reference semantics (`refCall`); the correspondence run ties it to the real code and library.
the rune-SET functions `strings.Trim/TrimLeft/TrimRight/ContainsAny/IndexAny/LastIndexAny` (the string and the
cutset are decoded into runes as `for range` / `utf8.DecodeRune` do — an invalid or truncated encoding is one byte
wide and IS the rune U+FFFD —, then: first / last rune that is a member, leading / trailing members removed).
NOT defined here (answered by the library oracle of the harness): transcendental and rounding math, regex,
time-zone functions, `humanBytes`, Unicode case mapping and white space (`strToUpper/ToLower/TrimSpace`: Unicode
tables), decimal↔float conversion (`float(string)`, `string(float)`), duration parsing (`duration(string)`).
Core Lean only.
-/
import Kap.Model.C04Base
namespace Kap.C04.Lib

def inR (b lo hi : UInt8) : Bool := lo ≤ b && b ≤ hi
def cont (b : UInt8) : Bool := inR b 0x80 0xBF

/-- width in bytes of the first rune as `utf8.DecodeRune` sees it (an invalid or truncated encoding is one byte wide). -/
def runeWidth : Bytes → Nat
  | [] => 0
  | b0 :: rest =>
    if b0 < 0x80 then 1
    else if inR b0 0xC2 0xDF then (match rest with | b1 :: _ => if cont b1 then 2 else 1 | _ => 1)
    else if inR b0 0xE0 0xEF then
      (match rest with
       | b1 :: b2 :: _ =>
         let ok1 := if b0 == 0xE0 then inR b1 0xA0 0xBF else if b0 == 0xED then inR b1 0x80 0x9F else cont b1
         if ok1 && cont b2 then 3 else 1
       | _ => 1)
    else if inR b0 0xF0 0xF4 then
      (match rest with
       | b1 :: b2 :: b3 :: _ =>
         let ok1 := if b0 == 0xF0 then inR b1 0x90 0xBF else if b0 == 0xF4 then inR b1 0x80 0x8F else cont b1
         if ok1 && cont b2 && cont b3 then 4 else 1
       | _ => 1)
    else 1

def runeCountAux : Nat → Bytes → Nat
  | 0, _ => 0
  | _ + 1, [] => 0
  | fuel + 1, s => 1 + runeCountAux fuel (s.drop (runeWidth s))

/-- `utf8.RuneCountInString`. -/
def runeCount (s : Bytes) : Nat := runeCountAux s.length s

/-- The first rune as a KEY that identifies its code point: the bytes of its encoding when that is valid (UTF-8 is
injective on the encodings `runeWidth` accepts), and the encoding of U+FFFD (`utf8.RuneError`) for an invalid or
truncated encoding (one byte wide) — in Go an invalid byte and a literal U+FFFD are the same rune. -/
def runeKey (s : Bytes) : Bytes :=
  match s with
  | [] => []
  | b0 :: _ => if runeWidth s == 1 && b0 ≥ 0x80 then [0xEF, 0xBF, 0xBD] else s.take (runeWidth s)

def runesAux : Nat → Bytes → List (Bytes × Nat)
  | 0, _ => []
  | _ + 1, [] => []
  | fuel + 1, s => (runeKey s, runeWidth s) :: runesAux fuel (s.drop (runeWidth s))

/-- the runes of a string, each with its width in bytes, as `for range s` decodes them (`DecodeLastRuneInString`,
used by the right-to-left scans, cuts any byte string into the same pieces). -/
def runes (s : Bytes) : List (Bytes × Nat) := runesAux s.length s

/-- is the rune (key) one of the runes of `chars`? (`strings.ContainsRune(chars, r)`) -/
def inSet (chars : Bytes) (k : Bytes) : Bool := (runes chars).any (fun r => r.1 == k)

/-- byte offset of the first rune satisfying `p`, scanning from offset `i`. -/
def firstAt (p : Bytes → Bool) : List (Bytes × Nat) → Nat → Option Nat
  | [], _ => none
  | r :: rs, i => if p r.1 then some i else firstAt p rs (i + r.2)

/-- byte offset of the last rune satisfying `p`. -/
def lastAt (p : Bytes → Bool) : List (Bytes × Nat) → Nat → Option Nat → Option Nat
  | [], _, acc => acc
  | r :: rs, i, acc => lastAt p rs (i + r.2) (if p r.1 then some i else acc)

/-- `strings.IndexAny`: byte offset of the first rune of `s` that is a rune of `chars`, −1 if none. -/
def indexAny (s chars : Bytes) : Int :=
  match firstAt (inSet chars) (runes s) 0 with
  | some i => i
  | none => -1

/-- `strings.LastIndexAny`. -/
def lastIndexAny (s chars : Bytes) : Int :=
  match lastAt (inSet chars) (runes s) 0 none with
  | some i => i
  | none => -1

/-- `strings.ContainsAny`. -/
def containsAny (s chars : Bytes) : Bool := (firstAt (inSet chars) (runes s) 0).isSome

/-- total width of the leading runes that are members. -/
def leadWidth (p : Bytes → Bool) : List (Bytes × Nat) → Nat
  | [] => 0
  | r :: rs => if p r.1 then r.2 + leadWidth p rs else 0

/-- `strings.TrimLeft(s, cutset)`: `s` without its leading runes that are runes of `cutset`. -/
def trimLeft (s cutset : Bytes) : Bytes := s.drop (leadWidth (inSet cutset) (runes s))

/-- `strings.TrimRight(s, cutset)`. -/
def trimRight (s cutset : Bytes) : Bytes := s.take (s.length - leadWidth (inSet cutset) (runes s).reverse)

/-- `strings.Trim(s, cutset)` (the library trims the right end first). -/
def trim (s cutset : Bytes) : Bytes := trimLeft (trimRight s cutset) cutset

/-- `strings.Index`: the first byte offset at which `sub` occurs, −1 if none (0 for the empty `sub`). -/
def indexFrom (sub : Bytes) : Bytes → Nat → Option Nat
  | [], i => if sub.isEmpty then some i else none
  | c :: cs, i => if sub.isPrefixOf (c :: cs) then some i else indexFrom sub cs (i + 1)

def index (s sub : Bytes) : Int :=
  match indexFrom sub s 0 with
  | some i => i
  | none => -1

/-- `strings.LastIndex`: the last such offset (`len(s)` for the empty `sub`). -/
def lastIndexFrom (sub : Bytes) : Bytes → Nat → Option Nat → Option Nat
  | [], i, acc => if sub.isEmpty then some i else acc
  | c :: cs, i, acc => lastIndexFrom sub cs (i + 1) (if sub.isPrefixOf (c :: cs) then some i else acc)

def lastIndex (s sub : Bytes) : Int :=
  match lastIndexFrom sub s 0 none with
  | some i => i
  | none => -1

/-- non-overlapping occurrences of a NON-EMPTY `sub`, scanning left to right (`skip` = bytes of the current match still to pass). -/
def countNE (sub : Bytes) : Bytes → Nat → Nat
  | [], _ => 0
  | _ :: cs, k + 1 => countNE sub cs k
  | c :: cs, 0 => if sub.isPrefixOf (c :: cs) then 1 + countNE sub cs (sub.length - 1) else countNE sub cs 0

/-- `strings.Count`: for the empty `sub`, 1 + the number of runes. -/
def count (s sub : Bytes) : Nat := if sub.isEmpty then runeCount s + 1 else countNE sub s 0

def hasPrefix (s p : Bytes) : Bool := p.isPrefixOf s
def hasSuffix (s p : Bytes) : Bool := p.reverse.isPrefixOf s.reverse
def contains (s sub : Bytes) : Bool := (indexFrom sub s 0).isSome
def trimPrefix (s p : Bytes) : Bytes := if hasPrefix s p then s.drop p.length else s
def trimSuffix (s p : Bytes) : Bytes := if hasSuffix s p then s.take (s.length - p.length) else s

/-- replace the first `n` non-overlapping occurrences of a NON-EMPTY `old`. -/
def replNE (old new : Bytes) : Bytes → Nat → Nat → Bytes
  | [], _, _ => []
  | _ :: cs, n, k + 1 => replNE old new cs n k
  | c :: cs, 0, 0 => c :: replNE old new cs 0 0
  | c :: cs, n + 1, 0 =>
    if old.isPrefixOf (c :: cs) then new ++ replNE old new cs n (old.length - 1) else c :: replNE old new cs (n + 1) 0

/-- `old` empty: `new` goes in front of the string and after each rune, `n` times at most. -/
def replEmpty (new : Bytes) : Nat → Bytes → Nat → Bytes
  | _, s, 0 => s
  | 0, s, _ => s
  | _ + 1, [], _ + 1 => new
  | f + 1, s, n + 1 => new ++ s.take (runeWidth s) ++ replEmpty new f (s.drop (runeWidth s)) n

/-- `strings.Replace(s, old, new, n)` (`n < 0`: all). -/
def replace (s old new : Bytes) (n : Int) : Bytes :=
  let lim : Nat := if n < 0 then s.length + 1 else n.toNat
  if old.isEmpty then replEmpty new (s.length + 1) s lim else replNE old new s lim 0

def ascii (str : String) : Bytes := str.toList.map (fun c => c.toNat.toUInt8)

def natDec (n : Nat) : Bytes := (Nat.toDigits 10 n).map (fun c => c.toNat.toUInt8)

/-- `strconv.FormatInt(i, 10)`. -/
def intDec (i : Int) : Bytes := if i < 0 then 45 :: natDec i.natAbs else natDec i.natAbs

def digitsVal : Bytes → Nat → Option Nat
  | [], acc => some acc
  | b :: bs, acc => if inR b 48 57 then digitsVal bs (acc * 10 + (b.toNat - 48)) else none

/-- `strconv.ParseInt(s, 10, 64)`: optional sign, at least one decimal digit, nothing else; out of range is an error. -/
def parseInt (s : Bytes) : Option Int :=
  let body (ds : Bytes) (neg : Bool) : Option Int :=
    if ds.isEmpty then none else
    match digitsVal ds 0 with
    | none => none
    | some v =>
      if neg then (if v ≤ 9223372036854775808 then some (-(v : Int)) else none)
      else (if v ≤ 9223372036854775807 then some (v : Int) else none)
  match s with
  | 45 :: ds => body ds true
  | 43 :: ds => body ds false
  | ds => body ds false

/-- `strconv.ParseBool`. -/
def parseBool (s : Bytes) : Option Bool :=
  if s == ascii "1" || s == ascii "t" || s == ascii "T" || s == ascii "TRUE" || s == ascii "true" || s == ascii "True" then some true
  else if s == ascii "0" || s == ascii "f" || s == ascii "F" || s == ascii "FALSE" || s == ascii "false" || s == ascii "False" then some false
  else none

/-- `influxql.FormatDuration`: the largest unit (w d h m s ms u ns) that divides the duration, `0s` for zero. -/
def formatDuration (d : Int) : Bytes :=
  let u (k : Int) (suffix : String) : Option Bytes := if Int.tmod d k = 0 then some (intDec (Int.tdiv d k) ++ ascii suffix) else none
  if d = 0 then ascii "0s" else
  ((u 604800000000000 "w").orElse fun _ => (u 86400000000000 "d").orElse fun _ => (u 3600000000000 "h").orElse fun _ =>
    (u 60000000000 "m").orElse fun _ => (u 1000000000 "s").orElse fun _ => (u 1000000 "ms").orElse fun _ =>
    (u 1000 "u")).getD (intDec d ++ ascii "ns")

section
variable {F : Type} (ops : FOps F)

/-- builtins returning a string. Outer `none`: not defined here for these arguments; inner `none`: the call is rejected. -/
def strFn (fn : String) (args : List (Value F)) : Option (Option Bytes) :=
  if fn = "strSubstring" then
    match args with
    | [.str s, .int start, .int stop] =>
      -- functions.go: negative index, stop beyond len(str), start beyond stop are errors; then str[start:stop]
      if start < 0 then some none
      else if stop < 0 then some none
      else if stop > (s.length : Int) then some none
      else if start > stop then some none
      else some (some ((s.drop start.toNat).take (stop.toNat - start.toNat)))
    | _ => some none
  else if fn = "strTrimPrefix" then
    match args with | [.str s, .str p] => some (some (trimPrefix s p)) | _ => some none
  else if fn = "strTrimSuffix" then
    match args with | [.str s, .str p] => some (some (trimSuffix s p)) | _ => some none
  else if fn = "strReplace" then
    match args with | [.str s, .str o, .str n, .int k] => some (some (replace s o n k)) | _ => some none
  else if fn = "strTrim" then
    match args with | [.str s, .str c] => some (some (trim s c)) | _ => some none
  else if fn = "strTrimLeft" then
    match args with | [.str s, .str c] => some (some (trimLeft s c)) | _ => some none
  else if fn = "strTrimRight" then
    match args with | [.str s, .str c] => some (some (trimRight s c)) | _ => some none
  else if fn = "string" then
    match args with
    | [.int i] => some (some (intDec i))
    | [.bool b] => some (some (ascii (if b then "true" else "false")))
    | [.dur d] => some (some (formatDuration d))
    | [.str s] => some (some s)
    | [.float _] => none
    | _ => some none
  else none

/-- builtins returning an int. -/
def intFn (fn : String) (args : List (Value F)) : Option (Option Int) :=
  if fn = "strLength" then
    match args with | [.str s] => some (some s.length) | _ => some none
  else if fn = "strIndex" then
    match args with | [.str s, .str sub] => some (some (index s sub)) | _ => some none
  else if fn = "strLastIndex" then
    match args with | [.str s, .str sub] => some (some (lastIndex s sub)) | _ => some none
  else if fn = "strCount" then
    match args with | [.str s, .str sub] => some (some (count s sub)) | _ => some none
  else if fn = "strIndexAny" then
    match args with | [.str s, .str c] => some (some (indexAny s c)) | _ => some none
  else if fn = "strLastIndexAny" then
    match args with | [.str s, .str c] => some (some (lastIndexAny s c)) | _ => some none
  else if fn = "int" then
    match args with
    | [.int i] => some (some i)
    | [.float f] => some (some (ops.toI64 f))
    | [.str s] => some (parseInt s)
    | [.bool b] => some (some (if b then 1 else 0))
    | [.dur d] => some (some d)
    | _ => some none
  else none

/-- builtins returning a bool. -/
def boolFn (fn : String) (args : List (Value F)) : Option (Option Bool) :=
  if fn = "strContains" then
    match args with | [.str s, .str sub] => some (some (contains s sub)) | _ => some none
  else if fn = "strHasPrefix" then
    match args with | [.str s, .str p] => some (some (hasPrefix s p)) | _ => some none
  else if fn = "strHasSuffix" then
    match args with | [.str s, .str p] => some (some (hasSuffix s p)) | _ => some none
  else if fn = "strContainsAny" then
    match args with | [.str s, .str c] => some (some (containsAny s c)) | _ => some none
  else if fn = "bool" then
    match args with
    | [.bool b] => some (some b)
    | [.str s] => some (parseBool s)
    | [.int i] => some (if i = 0 then some false else if i = 1 then some true else none)
    | [.float f] => some (if ops.eq f (ops.ofInt 0) then some false else if ops.eq f (ops.ofInt 1) then some true else none)
    | _ => some none
  else none

/-- builtins returning a float. -/
def floatFn (fn : String) (args : List (Value F)) : Option (Option F) :=
  if fn = "abs" then
    match args with | [.float x] => some (some (ops.abs x)) | _ => some none
  else if fn = "min" then
    match args with | [.float x, .float y] => some (some (ops.min x y)) | _ => some none
  else if fn = "max" then
    match args with | [.float x, .float y] => some (some (ops.max x y)) | _ => some none
  else if fn = "float" then
    match args with
    | [.int i] => some (some (ops.ofInt i))
    | [.float f] => some (some f)
    | [.bool b] => some (some (ops.ofInt (if b then 1 else 0)))
    | [.str _] => none
    | _ => some none
  else none

/-- builtins returning a duration. -/
def durFn (fn : String) (args : List (Value F)) : Option (Option Int) :=
  if fn = "duration" then
    match args with
    | [.dur d] => some (some d)
    | [.dur d, _] => some (some d)
    | [.int a, .dur u] => some (some (wrap (a * u)))
    | [.float a, .dur u] => some (some (ops.toI64 (ops.mul a (ops.ofInt u))))
    | [.str _] => none
    | [.str _, _] => none
    | _ => some none
  else none

/-- A deterministic stateless builtin applied to argument values: outer `none` = not defined here (for this name
or these arguments), `some none` = the call is an error, `some (some v)` = its value. -/
def builtin (fn : String) (args : List (Value F)) : Option (Option (Value F)) :=
  match strFn fn args with
  | some r => some (r.map .str)
  | none =>
  match intFn ops fn args with
  | some r => some (r.map .int)
  | none =>
  match boolFn ops fn args with
  | some r => some (r.map .bool)
  | none =>
  match floatFn ops fn args with
  | some r => some (r.map .float)
  | none =>
  match durFn ops fn args with
  | some r => some (r.map .dur)
  | none => none

end

/-- the return type of the builtins defined above. -/
def builtinRet (fn : String) : Option Ty :=
  if ["strSubstring", "strTrimPrefix", "strTrimSuffix", "strReplace", "strTrim", "strTrimLeft", "strTrimRight", "string"].contains fn then some .string
  else if ["strLength", "strIndex", "strLastIndex", "strCount", "strIndexAny", "strLastIndexAny", "int"].contains fn then some .int
  else if ["strContains", "strHasPrefix", "strHasSuffix", "strContainsAny", "bool"].contains fn then some .bool
  else if ["abs", "min", "max", "float"].contains fn then some .float
  else if fn = "duration" then some .duration
  else none

/-- builtins the model and the reference define themselves (completely, or for all but the listed argument types). -/
def nativeFns : List String :=
  ["count", "sigma", "spread", "if", "isPresent",
   "strSubstring", "strTrimPrefix", "strTrimSuffix", "strReplace", "string", "strLength", "strIndex", "strLastIndex",
   "strCount", "int", "strContains", "strHasPrefix", "strHasSuffix", "bool", "abs", "min", "max", "float", "duration",
   "strTrim", "strTrimLeft", "strTrimRight", "strContainsAny", "strIndexAny", "strLastIndexAny"]

/-- builtins whose VALUE is an external library call answered by the harness (for `float`, `string`, `duration`:
only the argument types not defined above — decimal↔float conversion and duration parsing). -/
def oracleFns : List String :=
  ["acos", "acosh", "asin", "asinh", "atan", "atan2", "atanh", "cbrt", "ceil", "cos", "cosh", "erf", "erfc", "exp", "exp2",
   "expm1", "floor", "gamma", "hypot", "j0", "j1", "jn", "log", "log10", "log1p", "log2", "logb", "mod", "pow", "pow10",
   "sin", "sinh", "sqrt", "tan", "tanh", "trunc", "y0", "y1", "yn",
   "strToLower", "strToUpper", "strTrimSpace", "regexReplace", "unixNano", "minute", "hour", "weekday", "day", "month", "year", "humanBytes",
   "float", "string", "duration"]

/-- builtins that are neither (non-deterministic): calls to them are outside the model. -/
def unmodelledFns : List String := ["rand", "now"]

end Kap.C04.Lib
