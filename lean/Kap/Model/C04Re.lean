/-
C04 — a DEFINED fragment of the regex language behind `=~` / `!~` (`regexp.MatchString` of a pattern compiled with
`regexp.Compile`, i.e. RE2 syntax with the Perl flags, no `(?m)`): patterns that are a concatenation of
  * literal ASCII bytes that are not metacharacters (`\ . + * ? ( ) | [ ] { } ^ $`),
  * an escaped ASCII punctuation character (`\.` `\$` `\-` …: "escaped non-word characters are always themselves"),
  * the text anchors `^` / `\A` (beginning of text) and `$` / `\z` (end of text; without `(?m)` Go's `$` is `\z`),
in any order and number (`/web01/`, `/^web01$/`, `/\Aweb01\.example\.com\z/`, `/^eu/`, `/\.org$/`, `//`, `/^$/`,
also the never-matching `/a^b/`). Everything else (classes, groups, repetition, alternation, flags, `.`, non-ASCII
literals - a literal U+FFFD matches invalid bytes of the subject -, `\d \b …`) is NOT defined here and stays an
oracle value of the Go library.

`atoms`  : the pattern text → its atoms (`none` = outside the fragment).
`matchB` : the executable matcher used by model and reference alike for patterns of the fragment: an unanchored
           left-to-right search for a position at which the atoms match one after the other (`matchHere`).
The declarative meaning (`Kap.C04.Re.Matches`, Spec/C04Re.lean) and the proofs that `matchB` decides it and that an
anchored literal means equality / prefix / suffix and an unanchored one substring are in Proofs/C04Re.lean and
Props/C04.lean. ASCII literals only: an ASCII byte is never part of a multi-byte or invalid encoding, so matching
bytes and matching runes (what the library does) coincide. The correspondence run ties the definition to the real
evaluator AND to the library (the harness's `re` oracle lines are compared with `matchB` on every case).
Core Lean only.
-/
import Kap.Model.C04Base
namespace Kap.C04.Re

/-- one atom of a pattern of the fragment. -/
inductive Atom where
  | bol              -- `^` or `\A`: beginning of the text
  | eol              -- `$` or `\z`: end of the text
  | ch (b : UInt8)   -- this byte
  deriving DecidableEq, Repr

/-- the metacharacters of the syntax: `\ . + * ? ( ) | [ ] { } ^ $`. -/
def isMeta (b : UInt8) : Bool :=
  b == 0x5C || b == 0x2E || b == 0x2B || b == 0x2A || b == 0x3F || b == 0x28 || b == 0x29 || b == 0x7C ||
  b == 0x5B || b == 0x5D || b == 0x7B || b == 0x7D || b == 0x5E || b == 0x24

/-- printable ASCII punctuation (what may follow a backslash and then stands for itself). -/
def isPunct (b : UInt8) : Bool :=
  (0x21 ≤ b && b ≤ 0x2F) || (0x3A ≤ b && b ≤ 0x40) || (0x5B ≤ b && b ≤ 0x60) || (0x7B ≤ b && b ≤ 0x7E)

/-- the atoms of a pattern text; `none`: the pattern is outside the defined fragment. `fuel` ≥ length. -/
def atomsAux : Nat → Bytes → Option (List Atom)
  | _, [] => some []
  | 0, _ :: _ => none
  | fuel + 1, c :: rest =>
    if c == 0x5C then
      match rest with
      | [] => none                                                    -- trailing backslash: not a pattern
      | e :: rest' =>
        if e == 0x41 then (atomsAux fuel rest').map (Atom.bol :: ·)    -- \A
        else if e == 0x7A then (atomsAux fuel rest').map (Atom.eol :: ·)  -- \z
        else if isPunct e then (atomsAux fuel rest').map (Atom.ch e :: ·)  -- \. \$ \- …
        else none                                                     -- \d \w \b \Q \x.. …: not defined here
    else if c == 0x5E then (atomsAux fuel rest).map (Atom.bol :: ·)   -- ^
    else if c == 0x24 then (atomsAux fuel rest).map (Atom.eol :: ·)   -- $
    else if c < 0x80 && !isMeta c then (atomsAux fuel rest).map (Atom.ch c :: ·)
    else none

def atoms (p : Bytes) : Option (List Atom) := atomsAux p.length p

/-- do the atoms match one after the other at this position? `atStart`: the position is the beginning of the text;
`r`: the text from the position on. -/
def matchHere : List Atom → Bool → Bytes → Bool
  | [], _, _ => true
  | .bol :: as, atStart, r => atStart && matchHere as atStart r
  | .eol :: as, atStart, r => r.isEmpty && matchHere as atStart r
  | .ch _ :: _, _, [] => false
  | .ch b :: as, _, c :: r => b == c && matchHere as false r

/-- unanchored search: the atoms match at this position or at a later one. -/
def searchFrom (as : List Atom) : Bool → Bytes → Bool
  | atStart, [] => matchHere as atStart []
  | atStart, c :: r => matchHere as atStart (c :: r) || searchFrom as false r

/-- `regexp.MatchString` for the atoms of a pattern of the fragment. -/
def matchB (as : List Atom) (s : Bytes) : Bool := searchFrom as true s

/-- `re.MatchString(s)` where `re = regexp.MustCompile(p)`, for patterns of the fragment (`none`: not defined here). -/
def native (p s : Bytes) : Option Bool := (atoms p).map (fun as => matchB as s)

/-- shape of a pattern of the fragment: `[^] literal [$]` gives (anchored at the start, the literal, anchored at the end). -/
def shape : List Atom → Option (Bool × Bytes × Bool)
  | [] => some (false, [], false)
  | [.eol] => some (false, [], true)
  | .bol :: as =>
    (match shape as with
     | some (false, l, e) => some (true, l, e)
     | _ => none)
  | .ch b :: as =>
    (match shape as with
     | some (false, l, e) => some (false, b :: l, e)
     | _ => none)
  | .eol :: _ :: _ => none

end Kap.C04.Re
