/-
C05 — executable models for "no script, data point or peer message can crash the daemon or kill a task".

A panic of the Go code is an explicit TRAP outcome of every model here, so "never panics" is the
theorem `∀ input, run input ≠ trap`, and "never hangs" is a fuel bound.

Transcribed (snapshot ef0888e + the `fix:` commits listed in findings/C05.txt):

1. `tick/ast/lex.go` — the WHOLE scanner, byte level: `lexer.start/pos/width`, `next` (UTF-8 decode as
   `utf8.DecodeRuneInString`, invalid ⇒ U+FFFD width 1), `backup`, `peek`, `current`, `ignore`, `emit`,
   `errorf`, and every state function (`lexToken`, `lexUnaryOperator`, `tryLexBinaryOperator`,
   `lexIdentOrKeyword`, `lexNumberOrDurationOrDot`, `lexReference`, `lexSingleOrTripleString`,
   `lexRegex`, `lexComment`). Each Go `for { switch l.next() … }` loop is one model state whose `step`
   is one loop iteration (the loop-local variables `count/total/foundDecimal/first` live in the state);
   `ignoreSpace` is a state of its own. A Go slice expression out of range (`l.input[l.pos:]` with a
   negative `pos`, `l.input[l.start:l.pos]`) sets the sticky flag `trapped`. `Ctx.fixed = false`
   gives `peek` as it was at the snapshot (it left the PEEKED rune's width behind), kept for the
   counterexample theorems.
   Abstracted: `unicode.IsLetter/IsDigit/IsSpace` outside ASCII come from an oracle (`Ctx.cls`, computed
   by the harness with Go's tables and carried in the op line); the theorems hold for every oracle.
   The token channel is a list (the goroutine structure is the subject of section 2).

2. Go's defer/recover discipline (`Recover` section) instantiated with SHAPE FACTS extracted from the
   source by extract/c05shapes (Kap/Gen/C05.lean): `node.start`, `parser.recover`, `tick.Evaluate`.

3. `udf/agent/io.go ReadMessage` (uvarint length prefix as `binary.ReadUvarint`, size check, payload
   read) and the `udf/server.go handleResponse` automaton (begin / point / end assembly, dispatch).

4. `tick/ast/json.go getNode`: the `typeOf` switch (tags extracted from the source).

Core Lean only (the compiled driver imports this file).
-/
import Kap.Basic
namespace Kap.C05

/-! ## 1. Lexer -/

abbrev Bytes := List Nat

def eof : Int := -1
def runeError : Nat := 0xFFFD

def isCont (b : Nat) : Bool := 0x80 ≤ b && b ≤ 0xBF

/-- Go's `acceptRanges`: bounds of the SECOND byte for lead byte `b0` (E0: A0..BF, ED: 80..9F — no
surrogates —, F0: 90..BF, F4: 80..8F, otherwise 80..BF). -/
def secondLo (b0 : Nat) : Nat := if b0 = 0xE0 then 0xA0 else if b0 = 0xF0 then 0x90 else 0x80
def secondHi (b0 : Nat) : Nat := if b0 = 0xED then 0x9F else if b0 = 0xF4 then 0x8F else 0xBF

/-- 2-byte sequence after lead byte `b0` ∈ C2..DF. -/
def dec2 (b0 : Nat) : Bytes → Nat × Nat
  | b1 :: _ => if isCont b1 then ((b0 % 0x20) * 0x40 + b1 % 0x40, 2) else (runeError, 1)
  | [] => (runeError, 1)

/-- 3-byte sequence after lead byte `b0` ∈ E0..EF (E0: second byte A0..BF; ED: 80..9F, no surrogates). -/
def dec3 (b0 : Nat) : Bytes → Nat × Nat
  | b1 :: b2 :: _ =>
    if secondLo b0 ≤ b1 && b1 ≤ secondHi b0 && isCont b2 then
      ((b0 % 0x10) * 0x1000 + (b1 % 0x40) * 0x40 + b2 % 0x40, 3)
    else (runeError, 1)
  | _ => (runeError, 1)

/-- 4-byte sequence after lead byte `b0` ∈ F0..F4 (F0: second byte 90..BF; F4: 80..8F). -/
def dec4 (b0 : Nat) : Bytes → Nat × Nat
  | b1 :: b2 :: b3 :: _ =>
    if secondLo b0 ≤ b1 && b1 ≤ secondHi b0 && isCont b2 && isCont b3 then
      ((b0 % 0x08) * 0x40000 + (b1 % 0x40) * 0x1000 + (b2 % 0x40) * 0x40 + b3 % 0x40, 4)
    else (runeError, 1)
  | _ => (runeError, 1)

/-- `utf8.DecodeRuneInString` on a non-empty suffix: (rune, width). Invalid or short encodings give
(U+FFFD, 1) exactly as Go does. -/
def decodeRune : Bytes → Nat × Nat
  | [] => (runeError, 0)     -- Go returns (RuneError, 0); never reached: `next` checks `pos ≥ len` first
  | b0 :: rest =>
    if b0 < 0x80 then (b0, 1)
    else if b0 < 0xC2 then (runeError, 1)
    else if b0 < 0xE0 then dec2 b0 rest
    else if b0 < 0xF0 then dec3 b0 rest
    else if b0 < 0xF5 then dec4 b0 rest
    else (runeError, 1)

/-- Character-class oracle for runes ≥ 0x80 (`unicode.IsLetter`, `IsDigit`, `IsSpace`). -/
structure Cls where
  letter : Nat → Bool
  digit : Nat → Bool
  space : Nat → Bool

def Cls.none : Cls := ⟨fun _ => false, fun _ => false, fun _ => false⟩

structure Ctx where
  inp : Bytes
  cls : Cls
  fixed : Bool := true     -- `peek` restores `width` (repaired code); false = snapshot ef0888e

def Ctx.len (c : Ctx) : Int := c.inp.length

def isDigit (c : Ctx) (r : Int) : Bool :=
  if r < 0 then false else if r < 0x80 then (0x30 ≤ r && r ≤ 0x39) else c.cls.digit r.toNat
def isLetter (c : Ctx) (r : Int) : Bool :=
  if r < 0 then false
  else if r < 0x80 then ((0x41 ≤ r && r ≤ 0x5A) || (0x61 ≤ r && r ≤ 0x7A)) else c.cls.letter r.toNat
def isSpace (c : Ctx) (r : Int) : Bool :=
  if r < 0 then false
  else if r < 0x80 then ((0x09 ≤ r && r ≤ 0x0D) || r == 0x20) else c.cls.space r.toNat
def isValidIdent (c : Ctx) (r : Int) : Bool := isDigit c r || isLetter c r || r == 0x5F
/-- `strings.ContainsRune("uµsmhdw", r)` -/
def isDurUnit (r : Int) : Bool :=
  r == 0x75 || r == 0xB5 || r == 0x73 || r == 0x6D || r == 0x68 || r == 0x64 || r == 0x77
/-- `strings.ContainsRune("-!", r)` -/
def isUnaryChar (r : Int) : Bool := r == 0x2D || r == 0x21

/-! Token types (the `iota` block of lex.go). -/
def tError := 0
def tEOF := 1
def tVar := 2
def tDBRP := 3
def tAsgn := 4
def tDot := 5
def tPipe := 6
def tAt := 7
def tIdent := 8
def tReference := 9
def tLambda := 10
def tNumber := 11
def tString := 12
def tDuration := 13
def tLParen := 14
def tRParen := 15
def tLSBracket := 16
def tRSBracket := 17
def tComma := 18
def tNot := 19
def tTrue := 20
def tFalse := 21
def tRegex := 22
def tComment := 23
def tStar := 24
def tPlus := 27
def tMinus := 28
def tMult := 29
def tDiv := 30
def tMod := 31
def tAnd := 34
def tOr := 35
def tEqual := 38
def tNotEqual := 39
def tLess := 40
def tGreater := 41
def tLessEqual := 42
def tGreaterEqual := 43
def tRegexEqual := 44
def tRegexNotEqual := 45

/-- `strToOperator[s]` (a missing key yields the zero value `TokenError`). -/
def opOf (s : Bytes) : Nat :=
  match s with
  | [0x21] => tNot | [0x2B] => tPlus | [0x2D] => tMinus | [0x2A] => tMult | [0x2F] => tDiv | [0x25] => tMod
  | [0x3D, 0x3D] => tEqual | [0x21, 0x3D] => tNotEqual | [0x3C] => tLess | [0x3E] => tGreater
  | [0x3C, 0x3D] => tLessEqual | [0x3E, 0x3D] => tGreaterEqual
  | [0x3D, 0x7E] => tRegexEqual | [0x21, 0x7E] => tRegexNotEqual
  | [0x41, 0x4E, 0x44] => tAnd | [0x4F, 0x52] => tOr
  | _ => tError

/-- `keywords[s]` (0 when absent). -/
def keywordOf (s : Bytes) : Nat :=
  match s with
  | [0x41, 0x4E, 0x44] => tAnd
  | [0x4F, 0x52] => tOr
  | [0x54, 0x52, 0x55, 0x45] => tTrue
  | [0x46, 0x41, 0x4C, 0x53, 0x45] => tFalse
  | [0x76, 0x61, 0x72] => tVar
  | [0x64, 0x62, 0x72, 0x70] => tDBRP
  | [0x6C, 0x61, 0x6D, 0x62, 0x64, 0x61] => tLambda
  | _ => 0

/-- An emitted token: type, `l.start`, length of `l.current()`; an error token (`errorf`) carries a
formatted message instead of a slice of the input: `len = none`. -/
structure Tok where
  typ : Nat
  pos : Int
  len : Option Int
deriving DecidableEq, Repr, Inhabited

/-- The scanner's mutable state. -/
structure Lx where
  start : Int := 0
  pos : Int := 0
  width : Int := 0
  toks : List Tok := []      -- newest first
  trapped : Bool := false    -- a slice expression went out of range (Go: run-time panic)
deriving Repr, Inhabited

/-- `l.next()` -/
def next (c : Ctx) (l : Lx) : Int × Lx :=
  if l.pos ≥ c.len then (eof, { l with width := 0 })
  else if l.pos < 0 then (eof, { l with trapped := true })      -- `l.input[l.pos:]`, pos < 0
  else
    let d := decodeRune (c.inp.drop l.pos.toNat)
    ((d.1 : Int), { l with pos := l.pos + d.2, width := d.2 })

/-- `l.backup()` -/
def backup (l : Lx) : Lx := { l with pos := l.pos - l.width }

/-- `l.peek()`; the repaired code restores `width`, the snapshot did not. -/
def peek (c : Ctx) (l : Lx) : Int × Lx :=
  let n := next c l
  let l2 := backup n.2
  (n.1, if c.fixed then { l2 with width := l.width } else l2)

def inRange (c : Ctx) (l : Lx) : Bool := 0 ≤ l.start && l.start ≤ l.pos && l.pos ≤ c.len

/-- `l.current()` (bytes); out of range is flagged by `chk`/`emit`. -/
def cur (c : Ctx) (l : Lx) : Bytes := (c.inp.drop l.start.toNat).take (l.pos - l.start).toNat

/-- The bounds check Go performs for `l.input[l.start:l.pos]`. -/
def chk (c : Ctx) (l : Lx) : Lx := if inRange c l then l else { l with trapped := true }

/-- `l.ignore()` -/
def ignore (l : Lx) : Lx := { l with start := l.pos }

/-- `l.emit(t)` -/
def emit (c : Ctx) (l : Lx) (t : Nat) : Lx :=
  if inRange c l then { l with toks := ⟨t, l.start, some (l.pos - l.start)⟩ :: l.toks, start := l.pos }
  else { l with trapped := true }

/-- `l.errorf(…)`: an error token at `l.start`; the state machine stops. -/
def errorf (l : Lx) : Lx := { l with toks := ⟨tError, l.start, none⟩ :: l.toks }

/-- Model states = the Go state functions, split at their inner loops. -/
inductive St where
  | token                       -- lexToken
  | unary                       -- lexUnaryOperator
  | binopSp                     -- tryLexBinaryOperator: the leading ignoreSpace loop
  | binopMain                   -- tryLexBinaryOperator: the switch
  | regexOpSp                   -- ignoreSpace + `if l.peek() == '/'` after `=~`, `!~`, `=`
  | ident                       -- lexIdentOrKeyword
  | number (foundDecimal first : Bool)  -- lexNumberOrDurationOrDot
  | reference                   -- lexReference
  | strOuter (count : Nat)      -- lexSingleOrTripleString, outer loop
  | strInner (count total : Nat)-- lexSingleOrTripleString, inner loop
  | regexStart                  -- lexRegex: the opening '/'
  | regexBody                   -- lexRegex: the loop
  | commentStart                -- lexComment: `l.expect('/')`
  | commentBody                 -- lexComment: the loop
  | commentNL                   -- lexComment: after '\n', skipping blanks
deriving DecidableEq, Repr, Inhabited

inductive Step where
  | cont (l : Lx) (s : St)
  | done (l : Lx)               -- state function returned nil: `close(l.tokens)`

def emitTo (c : Ctx) (l : Lx) (t : Nat) (s : St) : Step := .cont (emit c l t) s

/-- One iteration of the current state function's loop. -/
def step (c : Ctx) (l : Lx) : St → Step
  | .token =>
    let n := next c l
    let r := n.1
    let l1 := n.2
    if isUnaryChar r then .cont (backup l1) .unary
    else if isDigit c r || r == 0x2D || r == 0x2E then .cont (backup l1) (.number false true)
    else if isLetter c r then .cont l1 .ident
    else if r == 0x22 then .cont l1 .reference
    else if r == 0x27 then .cont (backup l1) (.strOuter 0)
    else if isSpace c r then .cont (ignore l1) .token
    else if r == 0x28 then emitTo c l1 tLParen .token
    else if r == 0x29 then emitTo c l1 tRParen .binopSp
    else if r == 0x5B then emitTo c l1 tLSBracket .token
    else if r == 0x5D then emitTo c l1 tRSBracket .token
    else if r == 0x7C then emitTo c l1 tPipe .token
    else if r == 0x40 then emitTo c l1 tAt .token
    else if r == 0x2C then emitTo c l1 tComma .token
    else if r == 0x2A then emitTo c l1 tStar .token
    else if r == 0x2F then
      let p := peek c l1
      if p.1 == 0x2F then .cont (backup p.2) .commentStart
      else .cont (backup p.2) .regexStart
    else if r == eof then .done (emit c l1 tEOF)
    else .done (errorf l1)
  | .unary =>
    let n := next c l
    if n.1 == 0x2D || n.1 == 0x21 then emitTo c n.2 (opOf (cur c n.2)) .token
    else .done (errorf n.2)
  | .binopSp =>
    let n := next c l
    if isSpace c n.1 then .cont (ignore n.2) .binopSp
    else .cont (backup n.2) .binopMain
  | .binopMain =>
    let n := next c l
    let r := n.1
    let l1 := n.2
    if r == 0x2B || r == 0x2D || r == 0x2A || r == 0x25 then emitTo c l1 (opOf (cur c l1)) .token
    else if r == 0x2F then
      let p := peek c l1
      if p.1 == 0x2F then .cont (backup p.2) .commentStart
      else emitTo c p.2 (opOf (cur c p.2)) .token
    else if r == 0x21 then
      let p := peek c l1
      let l3 := if p.1 == 0x3D || p.1 == 0x7E then (next c p.2).2 else p.2
      let op := opOf (cur c l3)
      if op == tRegexNotEqual then emitTo c l3 op .regexOpSp else emitTo c l3 op .token
    else if r == 0x3E || r == 0x3C then
      let p := peek c l1
      let l3 := if p.1 == 0x3D then (next c p.2).2 else p.2
      emitTo c l3 (opOf (cur c l3)) .token
    else if r == 0x3D then
      let p := peek c l1
      if p.1 == 0x7E || p.1 == 0x3D then
        let l3 := (next c p.2).2
        let op := opOf (cur c l3)
        if op == tRegexEqual then emitTo c l3 op .regexOpSp else emitTo c l3 op .token
      else emitTo c p.2 tAsgn .regexOpSp
    else .cont (backup l1) .token
  | .regexOpSp =>
    let n := next c l
    if isSpace c n.1 then .cont (ignore n.2) .regexOpSp
    else
      let p := peek c (backup n.2)
      if p.1 == 0x2F then .cont p.2 .regexStart else .cont p.2 .token
  | .ident =>
    let n := next c l
    if isValidIdent c n.1 then .cont n.2 .ident
    else
      let l2 := chk c (backup n.2)
      let t := keywordOf (cur c l2)
      if t > 0 then
        if t == tLambda then
          let m := next c l2
          if m.1 != 0x3A then emitTo c (backup m.2) tIdent .binopSp
          else emitTo c m.2 t .binopSp
        else emitTo c l2 t .binopSp
      else emitTo c l2 tIdent .binopSp
  | .number fd first =>
    let n := next c l
    let r := n.1
    let l1 := n.2
    if r == 0x2E then
      let p := if first then peek c l1 else (0, l1)
      if first && !isDigit c p.1 then emitTo c p.2 tDot .token
      else if fd then .done (errorf p.2)
      else .cont p.2 (.number true false)
    else if isDigit c r then .cont l1 (.number fd false)
    else if !fd && isDurUnit r then
      let p := if r == 0x6D then peek c l1 else (0, l1)
      let l3 := if r == 0x6D && p.1 == 0x73 then (next c p.2).2 else p.2
      emitTo c l3 tDuration .binopSp
    else emitTo c (backup l1) tNumber .binopSp
  | .reference =>
    let n := next c l
    if n.1 == 0x5C then
      let p := peek c n.2
      .cont (if p.1 == 0x22 then (next c p.2).2 else p.2) .reference
    else if n.1 == 0x22 then emitTo c n.2 tReference .binopSp
    else if n.1 == eof then .done (errorf n.2)
    else .cont n.2 .reference
  | .strOuter count =>
    let n := next c l
    if n.1 == 0x27 then
      let count := count + 1
      let p := if count == 1 then peek c n.2 else (0, n.2)
      if count == 1 && p.1 == 0x27 then
        -- possibly the empty string '' or the opening of '''
        let l2 := (next c p.2).2
        let q := peek c l2
        if q.1 == 0x27 then .cont (next c q.2).2 (.strInner 3 3)
        else emitTo c q.2 tString .binopSp
      else
        -- `(count == 1 && l.peek() != '\'') || count == 3`
        let q := if count == 1 then peek c p.2 else (0, p.2)
        if (count == 1 && q.1 != 0x27) || count == 3 then .cont q.2 (.strInner count count)
        else .cont q.2 (.strOuter count)
    else .done (errorf n.2)
  | .strInner count total =>
    let n := next c l
    if n.1 == 0x5C && count == 1 then
      let p := peek c n.2
      .cont (if p.1 == 0x27 then (next c p.2).2 else p.2) (.strInner count total)
    else if n.1 == 0x27 then
      if count - 1 == 0 then emitTo c n.2 tString .binopSp
      else .cont n.2 (.strInner (count - 1) total)
    else if n.1 == eof then .done (errorf n.2)
    else .cont n.2 (.strInner total total)
  | .regexStart =>
    let n := next c l
    if n.1 != 0x2F then .done (errorf n.2) else .cont n.2 .regexBody
  | .regexBody =>
    let n := next c l
    if n.1 == 0x5C then
      let p := peek c n.2
      .cont (if p.1 == 0x2F then (next c p.2).2 else p.2) .regexBody
    else if n.1 == 0x2F then emitTo c n.2 tRegex .binopSp   -- (commit 0911ce3: an operator may follow a regex)
    else if n.1 == eof then .done (errorf n.2)
    else .cont n.2 .regexBody
  | .commentStart =>
    let p := peek c l
    if p.1 == 0x2F then .cont (next c p.2).2 .commentBody
    else .done (errorf p.2)
  | .commentBody =>
    let n := next c l
    if n.1 == 0x0A then .cont n.2 .commentNL
    else if n.1 == eof then emitTo c n.2 tComment .token
    else .cont n.2 .commentBody
  | .commentNL =>
    let n := next c l
    if n.1 != 0x0A && isSpace c n.1 then .cont n.2 .commentNL
    else if n.1 == 0x2F then .cont n.2 .commentBody
    else emitTo c (backup n.2) tComment .token

/-- Outcome of running the scanner goroutine. -/
inductive LexOut where
  | done (toks : List Tok)      -- channel closed after these tokens (oldest first)
  | trap (toks : List Tok)      -- run-time panic in the lexer goroutine (the process dies)
  | fuel (toks : List Tok)      -- still running when the fuel ran out
deriving DecidableEq, Repr, Inhabited

/-- `lexer.run()`: iterate state functions. A trapped scanner stops at once (Go panics). -/
def runFrom (c : Ctx) : Nat → Lx → St → LexOut
  | 0, l, _ => .fuel l.toks.reverse
  | k + 1, l, s =>
    match step c l s with
    | .cont l' s' => if l'.trapped then .trap l'.toks.reverse else runFrom c k l' s'
    | .done l' => if l'.trapped then .trap l'.toks.reverse else .done l'.toks.reverse

def LexOut.isTrap : LexOut → Bool
  | .trap _ => true
  | _ => false

/-- Enough fuel for every input (theorem `lexer_total`). -/
def lexFuel (c : Ctx) : Nat := 10 * c.inp.length + 10

def lexRun (c : Ctx) : LexOut := runFrom c (lexFuel c) {} .token

/-- Does the token stream end in an error token? -/
def endsInError : List Tok → Bool
  | [] => false
  | [t] => t.typ == tError
  | _ :: ts => endsInError ts


/-! ## 2. Go's defer/recover discipline, and the lexer goroutine -/

/-- What was passed to `panic`. `runtimeErr` = a `runtime.Error` (nil dereference, index out of range,
integer divide by zero, failed type assertion …); `errorVal` = any other value implementing `error`;
`emptyStack` = `tick.ErrEmptyStack`; `other` = a non-error value (a string …). -/
inductive PanicVal where
  | errorVal | runtimeErr | emptyStack | other
deriving DecidableEq, Repr, Inhabited

def PanicVal.isError : PanicVal → Bool
  | .other => false
  | _ => true

/-- How the protected body ended. -/
inductive Body where
  | ret (err : Bool)            -- returned, with or without an error
  | panics (v : PanicVal)
deriving DecidableEq, Repr, Inhabited

/-- What the caller (or, for a goroutine, the process) sees. -/
inductive Outcome where
  | returns (err : Bool)
  | propagates (v : PanicVal)   -- the panic leaves the function; at the top of a goroutine the process dies
deriving DecidableEq, Repr, Inhabited

/-- Under which condition the deferred closure reaches its `recover()` call. -/
inductive Guard where
  | always                      -- `recover()` is evaluated on every path through the closure
  | ifErrNonNil                 -- only under `if err != nil`, `err` being assigned from the body's RETURN value
  | never
  | unknown (src : String)      -- a shape the extractor does not recognise (no lemma covers it)
deriving DecidableEq, Repr, Inhabited

/-- Which recovered values the closure re-panics. -/
inductive Rethrow where
  | nothing
  | runtimeErrors               -- `if _, ok := e.(runtime.Error); ok { panic(e) }`
  | allButEmptyStack            -- `if r == ErrEmptyStack {…} else if r != nil { panic(r) }`
  | unknown (src : String)
deriving DecidableEq, Repr, Inhabited

def Rethrow.applies : Rethrow → PanicVal → Bool
  | .nothing, _ => false
  | .runtimeErrors, v => v == .runtimeErr
  | .allButEmptyStack, v => v != .emptyStack
  | .unknown _, _ => true

/-- Shape of `defer func(){ … recover() … }()` as extracted from the source. -/
structure DeferShape where
  guard : Guard
  rethrow : Rethrow
  assertsError : Bool           -- the recovered value is used as `e.(error)` without the comma-ok form
deriving DecidableEq, Repr, Inhabited

/-- Go semantics: a panic unwinds to the deferred closure; only a `recover()` that is actually evaluated
stops it; the closure may panic again. When the body panicked its error result was never assigned. -/
def runDeferred (sh : DeferShape) : Body → Outcome
  | .ret e => .returns e
  | .panics v =>
    let reached := match sh.guard with
      | .always => true
      | .ifErrNonNil => false     -- err is still nil: the body did not return
      | .never => false
      | .unknown _ => false
    if !reached then .propagates v
    else if sh.rethrow.applies v then .propagates v
    else if sh.assertsError && !v.isError then .propagates .runtimeErr   -- failed type assertion
    else .returns true

/-- The lexer goroutine blocks in `emit` until the parser receives; it runs to `close(l.tokens)` iff every
token it produces is received. `consumed` = tokens the parser received before it stopped (normally or by
an error); `drains` = `stopParse` receives the rest (extracted fact). -/
def lexerGoroutineExits (c : Ctx) (drains : Bool) (consumed : Nat) : Bool :=
  match lexRun c with
  | .done toks => drains || decide (consumed ≥ toks.length)
  | _ => false

/-! ## 3. UDF peer: frame reader and response automaton -/

inductive UvRes where
  | val (x : Nat) (rest : Bytes)
  | eof                         -- io.EOF before the first byte
  | trunc                       -- io.ErrUnexpectedEOF inside the varint
  | over                        -- overflow
deriving DecidableEq, Repr, Inhabited

/-- `binary.ReadUvarint`: at most 10 bytes; the 10th may only be 0 or 1. -/
def uvar (i x s : Nat) : Bytes → UvRes
  | [] => if i ≥ 10 then .over else if i > 0 then .trunc else .eof
  | b :: rest =>
    if i ≥ 10 then .over
    else if b < 0x80 then (if i = 9 ∧ b > 1 then .over else .val (x + b * 2 ^ s) rest)
    else uvar (i + 1) (x + (b % 0x80) * 2 ^ s) (s + 7) rest

/-- Result of one `agent.ReadMessage` call / of the whole read loop. -/
inductive Frame where
  | msg (off : Nat)             -- a complete frame; `off` = bytes consumed so far
  | eof | vtrunc | vover
  | ueof                        -- the stream ended inside the payload
  | big                         -- announced size above the limit (repaired code)
  | trap                        -- run-time panic (`make([]byte, size)` / `buf[:size]` out of range)
deriving DecidableEq, Repr, Inhabited

/-- Largest frame the repaired `ReadMessage` accepts (`math.MaxInt32`). -/
def maxMsg : Nat := 2147483647
/-- Snapshot: `make([]byte, size)` panics above `maxAlloc` = 2^48 (linux/amd64), and for `size ≥ 2^63`
`int(size)` is negative so that `(*buf)[:size]` panics. -/
def oldTrapSize : Nat := 2 ^ 48

/-- `ReadMessage` in a loop (as `readData` does) until the first non-message. `total` = stream length. -/
def readFrames (fixed : Bool) (total : Nat) : Nat → Bytes → List Frame
  | 0, _ => []
  | k + 1, bs =>
    match uvar 0 0 0 bs with
    | .eof => [.eof]
    | .trunc => [.vtrunc]
    | .over => [.vover]
    | .val size rest =>
      if fixed && size > maxMsg then [.big]
      else if !fixed && size > oldTrapSize then [.trap]
      else if rest.length < size then [.ueof]
      else .msg (total - (rest.length - size)) :: readFrames fixed total k (rest.drop size)

def readAll (fixed : Bool) (bs : Bytes) : List Frame := readFrames fixed bs.length (bs.length + 1) bs

/-- One decoded response of the UDF process, as far as `handleResponse` distinguishes them. -/
inductive Resp where
  | keepalive | info | init | snapshot | restore
  | error                       -- Response_Error
  | begin (size : Int)          -- Response_Begin with the peer-chosen `Size`
  | point | endB
  | nilMsg                      -- a Response without any message (e.g. an empty frame)
  | garbage                     -- payload that is not a protobuf message (read error)
  | huge (n : Nat)              -- a bare length prefix announcing n bytes, then end of stream
deriving DecidableEq, Repr, Inhabited

inductive UOut where
  | p                           -- a stream point on Out()
  | b (n : Nat)                 -- a buffered batch with n points
deriving DecidableEq, Repr, Inhabited

inductive UFinal where
  | clean                       -- end of stream, no error
  | err                         -- the server aborted with an error
  | trap                        -- run-time panic in the reader goroutine (the process dies)
deriving DecidableEq, Repr, Inhabited

/-- `make([]edge.BatchPointMessage, 0, size)` panics for a negative size and above maxAlloc/16. -/
def oldBeginTraps (size : Int) : Bool := size < 0 || size > 2 ^ 44

/-- `Server.readData` / `handleResponse`. State: `some n` = a batch is open with n points buffered
(`s.begin`/`s.points` non-nil). Returns the messages put on `Out()` and how the reader ended. -/
def udfRun (fixed : Bool) : Option Nat → List Resp → List UOut × UFinal
  | _, [] => ([], .clean)
  | st, r :: rs =>
    match r with
    | .keepalive | .info | .init | .snapshot | .restore => udfRun fixed st rs
    | .error => ([], .err)
    | .garbage => ([], .err)
    | .huge n =>
      if fixed then ([], .err) else if n > oldTrapSize then ([], .trap) else ([], .err)
    | .nilMsg => if fixed then ([], .err) else ([], .trap)      -- `default: panic("unexpected response …")`
    | .begin size =>
      if fixed then (if size < 0 then ([], .err) else udfRun fixed (some 0) rs)
      else if oldBeginTraps size then ([], .trap) else udfRun fixed (some 0) rs
    | .point =>
      match st with
      | some n => udfRun fixed (some (n + 1)) rs
      | none => let r' := udfRun fixed none rs; (.p :: r'.1, r'.2)
    | .endB =>
      match st with
      | some n => let r' := udfRun fixed none rs; (.b n :: r'.1, r'.2)
      | none => if fixed then ([], .err) else ([], .trap)       -- `s.begin.ByName` with s.begin == nil

/-- Kinds of field values a data point can carry to a UDF node. Only the first four exist in the UDF
protocol; durations come out of `eval`, the rest from Go callers. -/
inductive FKind where
  | int | float | str | bool | dur | nil | time | uint
deriving DecidableEq, Repr, Inhabited

def FKind.supported : FKind → Bool
  | .int | .float | .str | .bool => true
  | _ => false

/-- `Server.writeData` / `writePoint` / `fieldsToTypedMaps` for points with a field `v` of the given kind
next to an integer field `c`: per point written, whether `v` arrived. The snapshot's `default:
panic("unsupported field value type")` is the trap; the repaired code skips the field. -/
def udfWrite (fixed : Bool) : List FKind → List Bool × UFinal
  | [] => ([], .clean)
  | k :: ks =>
    if k.supported then let r := udfWrite fixed ks; (true :: r.1, r.2)
    else if fixed then let r := udfWrite fixed ks; (false :: r.1, r.2)
    else ([], .trap)

/-! ## 3b. Slice expressions in the builtin functions (tick/stateful/functions.go) -/

/-- A slice / index expression in a builtin's body, as classified by the extractor. -/
inductive SliceSite where
  | guardedString (fn src : String)   -- `S[lo:hi]`, S a string argument, behind `lo < 0`, `hi > len(S)`, `lo > hi` returns
  | rangeIndex (fn src : String)      -- `xs[:i]` / `xs[i+1:]` inside `for i := range xs`
  | unknown (src : String)            -- any other shape (e.g. `[]rune(S)[lo:hi]` guarded by `len(S)`): no lemma
deriving DecidableEq, Repr, Inhabited

def SliceSite.recognised : SliceSite → Bool
  | .unknown _ => false
  | _ => true

inductive SliceOut where
  | ok | err | trap
deriving DecidableEq, Repr, Inhabited

/-- The guarded-string shape: the three returning guards, then `S[lo:hi]` on an operand of length
`slen`; `glen` is the length the `hi` guard compares with. Go panics unless `0 ≤ lo ≤ hi ≤ slen`. -/
def guardedSlice (slen glen lo hi : Int) : SliceOut :=
  if lo < 0 then .err else if hi > glen then .err else if lo > hi then .err
  else if 0 ≤ lo ∧ lo ≤ hi ∧ hi ≤ slen then .ok else .trap

/-- The range-index shape: `xs[:i]` and `xs[i+1:]` with `0 ≤ i < len`. -/
def rangeSlice (len i : Int) : SliceOut :=
  if 0 ≤ i ∧ i < len then (if 0 ≤ i ∧ i ≤ len ∧ i + 1 ≤ len then .ok else .trap) else .err

/-! ## 3c. Slice / index expressions of the parser and the node constructors (tick/ast) -/

/-- The REVIEWED inventory of slice / index expressions in tick/ast/parser.go and tick/ast/node.go:
(function, source text, why it cannot go out of range). The extractor lists what the source contains
now; anything not in this list (e.g. a new `comment[len("//"):]` in `newComment`) breaks
`Kap.Props.C05.ast_slice_sites_reviewed`. The reasons are review notes, not proofs; those that rest on the
shape of a token's text are backed by the lexer theorems and the exhaustive structural enumeration. -/
def reviewedAstSites : List (String × String × String) := [
  ("parser.hasNewLine", "p.text[start:end]", "positions of tokens / nodes, start ≤ end (lexer_in_bounds)"),
  ("parser.unexpected", "p.text[tok.pos:stop]", "tok.pos ≤ stop ≤ len(text) by the clamps above"),
  ("parser.unexpected", "p.text[start:tok.pos]", "0 ≤ start ≤ tok.pos by the clamps above"),
  ("parser.unexpected", "p.text[start:stop]", "start ≤ tok.pos ≤ stop"),
  ("parser.unexpected", "expected[i]", "range index"),
  ("parser.unexpected", "expectedStrs[i]", "range index, same length"),
  ("parser.program", "p.comments[1]", "fixed array [2]"),
  ("parser.program", "p.comments[0]", "fixed array [2]"),
  ("parser.precedence", "precedence[look.typ]", "behind IsExprOperator(look.typ): the table covers all operators"),
  ("parser.precedence", "precedence[op.typ]", "op passed IsExprOperator"),
  ("parser.precedence", "p.text[lhsEnd-1]", "loop guard lhsEnd > lhs.Position() ≥ 0, lhsEnd ≤ op.pos < len"),
  ("parser.peek", "p.token[0]", "fixed array [2]"),
  ("parser.peek", "p.token[1]", "fixed array [2]"),
  ("parser.peek", "p.token[p.peekCount-1]", "behind peekCount > 0, peekCount ≤ 2"),
  ("parser.peek", "p.comments[0]", "fixed array [2]"),
  ("parser.peek", "p.comments[1]", "fixed array [2]"),
  ("parser.next", "p.token[p.peekCount]", "peekCount ∈ {0,1} after the decrement / refill"),
  ("parser.next", "p.token[0]", "fixed array [2]"),
  ("parser.next", "p.comments[0]", "fixed array [2]"),
  ("parser.consumeComment", "p.comments[p.peekCount]", "peekCount ∈ {0,1}"),
  ("parser.lfunction", "args[l-1]", "behind l > 0"),
  ("parser.function", "args[l-1]", "behind l > 0"),
  ("binaryOperandNeedsParens", "precedence[op]", "op is the operator of a parsed BinaryNode"),
  ("binaryOperandNeedsParens", "precedence[b.Operator]", "operator of a parsed BinaryNode"),
  ("newString", "txt[0]", "a string token is never empty (it starts with its quote)"),
  ("newString", "txt[0:3]", "behind len(txt) >= 6"),
  ("newString", "txt[3 : len(txt)-3]", "behind len(txt) >= 6"),
  ("newString", "txt[1 : len(txt)-1]", "a string token holds both quotes: len ≥ 2"),
  ("newString", "literal[last:i]", "last ≤ i < len"),
  ("newString", "literal[last:]", "last ≤ len"),
  ("newString", "literal[i]", "loop index"),
  ("newString", "literal[i+1]", "behind i+1 < len(literal)"),
  ("newRegex", "txt[1 : len(txt)-1]", "a regex token holds both slashes: len ≥ 2"),
  ("newRegex", "literal[last:i]", "last ≤ i < len"),
  ("newRegex", "literal[last:]", "last ≤ len"),
  ("newRegex", "literal[i]", "loop index"),
  ("newRegex", "literal[i+1]", "behind i+1 < len(literal)"),
  ("newReference", "txt[1 : len(txt)-1]", "a reference token holds both quotes: len ≥ 2"),
  ("newReference", "literal[last:i]", "last ≤ i < len"),
  ("newReference", "literal[last:]", "last ≤ len"),
  ("newReference", "literal[i]", "loop index"),
  ("newReference", "literal[i+1]", "behind i+1 < len(literal)"),
  ("newNumber", "text[0]", "behind text == \"\" return"),
  ("ProgramNode.Equal", "on.Nodes[i]", "behind the length comparison"),
  ("ProgramNode.Equal", "n.Nodes[i]", "range index"),
  ("ListNode.Equal", "on.Nodes[i]", "behind the length comparison"),
  ("ListNode.Equal", "n.Nodes[i]", "range index"),
  ("FunctionNode.Equal", "on.Args[i]", "behind the length comparison"),
  ("FunctionNode.Equal", "n.Args[i]", "range index")]

def astSiteReviewed (s : String × String) : Bool :=
  reviewedAstSites.any (fun r => r.1 == s.1 && r.2.1 == s.2)

/-! ## 3d. tick.Evaluate: nested recovers, reviewed trap sites -/

/-- Where, during `tick.Evaluate`, a panic is raised. -/
inductive EvalSite where
  | inReflectiveCall   -- inside the function value built by `evalFunc` (method / chain / property-setter calls
                       -- through reflection, global functions, `NewReflectionDescriber`): behind `defer rec(obj, &err)`
  | elsewhere          -- the rest of `eval` (stack operations, declarations, type checks, property READS in evalChain)
deriving DecidableEq, Repr, Inhabited

/-- Two nested deferred recovers: `inner` around the reflective call (when the panic is raised there),
`outer` = the closure of `tick.Evaluate` around everything. An inner recover that turns the panic into an
error makes the call RETURN an error; `eval` propagates errors as errors. -/
def evaluateOutcome (inner outer : DeferShape) (site : EvalSite) (v : PanicVal) : Outcome :=
  match site with
  | .elsewhere => runDeferred outer (.panics v)
  | .inReflectiveCall =>
    match runDeferred inner (.panics v) with
    | .returns e => runDeferred outer (.ret e)
    | .propagates v' => runDeferred outer (.panics v')

/-- The REVIEWED inventory of slice / index / unchecked type-assertion sites of tick/eval.go and
tick/stack.go (function, source, why). Map reads never panic in Go; the others are loop-indexed or
length-guarded; `stack.Pop` is guarded by `panic(ErrEmptyStack)`, the one panic `tick.Evaluate` recovers. -/
def reviewedEvalSites : List (String × String × String) := [
  ("Evaluate", "trace[:n]", "n is what runtime.Stack wrote into trace"),
  ("NewReflectionDescriber", "r.chainMethods[k]", "map write"),
  ("ReflectionDescriber.CallChainMethod", "r.chainMethods[name]", "map read"),
  ("ReflectionDescriber.HasChainMethod", "r.chainMethods[name]", "map read"),
  ("ReflectionDescriber.HasProperty", "r.properties[name]", "map read"),
  ("ReflectionDescriber.HasProperty", "r.propertyMethods[name]", "map read"),
  ("ReflectionDescriber.Property", "r.properties[name]", "map read, comma-ok since 7803d70"),
  ("ReflectionDescriber.SetProperty", "r.properties[name]", "map read"),
  ("ReflectionDescriber.SetProperty", "r.propertyMethods[name]", "map read"),
  ("ReflectionDescriber.SetProperty", "values[0]", "behind len(values) == 1; inside the reflective call"),
  ("callMethodReflection", "rargs[i]", "range index; inside the reflective call"),
  ("callMethodReflection", "ret[0]", "behind switch len(ret); inside the reflective call"),
  ("callMethodReflection", "ret[1]", "behind switch len(ret) case 2; inside the reflective call"),
  ("capitalizeFirst", "s[n:]", "n is the width DecodeRuneInString returned for s (0 for the empty string)"),
  ("convertValueToVar", "list[i]", "range index"),
  ("convertValueToVar", "values[i]", "same length as list"),
  ("convertVarToValue", "list[i]", "range index"),
  ("convertVarToValue", "values[i]", "same length as list"),
  ("eval", "args[i]", "loop index below len(args)"),
  ("eval", "nodes[i]", "loop index below len(nodes)"),
  ("evalDeclaration", "defaultVars[name]", "map access"),
  ("evalDeclaration", "predefinedVars[name]", "map read"),
  ("evalFunc", "args[0]", "behind len(args) == 1"),
  ("evalTypeDeclaration", "defaultVars[name]", "map access"),
  ("evalTypeDeclaration", "predefinedVars[name]", "map read"),
  ("getChainMethods", "chainMethods[k]", "map access"),
  ("getChainMethods", "chainMethods[method.Name]", "map access"),
  ("getChainMethods", "propertyMethods[method.Name]", "map access"),
  ("getProperties", "properties[k]", "map access"),
  ("getProperties", "properties[property.Name]", "map access"),
  ("getProperties", "propertyMethods[k]", "map access"),
  ("getProperties", "propertyMethods[methodName]", "map access"),
  ("resolveIdents", "node.Args[i]", "range index"),
  ("resolveIdents", "node.Nodes[i]", "range index"),
  ("stack.Pop", "s.data[:l]", "behind the empty check (panic(ErrEmptyStack))"),
  ("stack.Pop", "s.data[l]", "behind the empty check (panic(ErrEmptyStack))"),
  ("stack.String", "s.data[i]", "range index")]

def evalSiteReviewed (s : String × String) : Bool :=
  reviewedEvalSites.any (fun r => r.1 == s.1 && r.2.1 == s.2)

/-- `IsExprOperator(typ)`: strictly between `begin_tok_operator` and `end_tok_operator`. -/
def isExprOperator (beginOp endOp typ : Nat) : Bool := beginOp < typ && typ < endOp

/-! ## 4. JSON node factory -/

inductive GetNode where
  | unmarshal                   -- a concrete node was allocated; `n.unmarshal(props)` decides ok / error
  | error                       -- unknown tag reported as an error
  | trap                        -- method call on a nil `Node` interface (SIGSEGV)
deriving DecidableEq, Repr, Inhabited

/-- `JSONNode.getNode`: `tags` = the cases of the `typeOf` switch, `defaultErr` = the switch has a
`default:` that returns an error (both extracted from the source). -/
def getNode (tags : List String) (defaultErr : Bool) (tag : String) : GetNode :=
  if tags.contains tag then .unmarshal else if defaultErr then .error else .trap

/-! ## 5. JSON documents → AST: what a decoded expression must satisfy to be evaluated -/

/-- A JSON value (arrays and objects as cons chains, so that the type is not nested). -/
inductive JV where
  | null | bool (b : Bool) | num | str (s : String)
  | anil | acons (h t : JV)                      -- array
  | onil | ocons (k : String) (v rest : JV)      -- object
deriving DecidableEq, Repr, Inhabited

/-- `JSONNode.Field`: the value of a key, if the value is an object that has it. -/
def getField : JV → String → Option JV
  | .ocons k v rest, f => if k == f then some v else getField rest f
  | _, _ => none

/-- A decoded expression node, as far as evaluation can go wrong on it. -/
inductive ENode where
  | nilNode                                       -- a nil `Node` interface
  | leaf (tag : String)                           -- number, duration, bool, string, reference, identifier, star
  | regex (re : Option String)                    -- `RegexNode.Regex` (nil = none)
  | unary (n : ENode)
  | binary (op : String) (l r : ENode)
  | func (args : ENode)                           -- args as a chain of `acons`
  | list (nodes : ENode)
  | lambda (e : ENode)
  | anil | acons (h t : ENode)
deriving DecidableEq, Repr, Inhabited

def leafTags : List String := ["number", "duration", "bool", "string", "reference", "identifier", "star"]

/-- `JSONNode.NodeList`: null and `[]` give the empty list, every element goes through `getNode`. -/
def decodeList (dec : JV → Option ENode) : Nat → JV → Option ENode
  | _, .null => some .anil
  | _, .anil => some .anil
  | 0, _ => none
  | f + 1, .acons h t =>
    match dec h, decodeList dec f t with
    | some h', some t' => some (.acons h' t')
    | _, _ => none
  | _, _ => none

/-- `JSONNode.Node(field)`: the field must exist and go through `getNode`. -/
def decField (dec : JV → Option ENode) (j : JV) (f : String) : Option ENode :=
  match getField j f with
  | some x => dec x
  | none => none

/-- `JSONNode.NodeList(field)`. -/
def decListField (dec : JV → Option ENode) (k : Nat) (j : JV) (f : String) : Option ENode :=
  match getField j f with
  | some x => decodeList dec k x
  | none => none

/-- `JSONNode.getNode` + the `unmarshal` methods (tick/ast/json.go, node.go), as far as the SHAPE of the
result goes (`none` = an error is returned; literal syntax errors — number formats, `regexp.Compile`,
operator names — are errors too and abstracted as success). `nullRegex` / `nullNode`: the accessors
`Regex` / `Node` answer `(nil, nil)` for a JSON null (extracted; false in the source today).
`NodeList` maps null to the EMPTY list, never to a nil element. -/
def decodeJ (nullRegex nullNode : Bool) : Nat → JV → Option ENode
  | 0, _ => none
  | k + 1, j =>
    match j with
    | .null => if nullNode then some .nilNode else none     -- `nn.(map[string]interface{})` fails on nil
    | _ =>
      let dec := fun x => decodeJ nullRegex nullNode k x
      match getField j "typeOf" with
      | some (.str tag) =>
        if tag == "regex" then
          match getField j "regex" with
          | some (.str s) => some (.regex (some s))
          | some .null => if nullRegex then some (.regex none) else none
          | _ => none
        else if tag == "unary" then
          match decField dec j "node" with
          | some n => some (.unary n)
          | none => none
        else if tag == "binary" then
          match getField j "operator", decField dec j "left", decField dec j "right" with
          | some (.str op), some l, some r => some (.binary op l r)
          | _, _, _ => none
        else if tag == "func" then
          match decListField dec k j "args" with
          | some a => some (.func a)
          | none => none
        else if tag == "list" then
          match decListField dec k j "nodes" with
          | some a => some (.list a)
          | none => none
        else if tag == "lambda" then
          match decField dec j "expression" with
          | some e => some (.lambda e)
          | none => none
        else if leafTags.contains tag then some (.leaf tag) else none
      | _ => none

/-- Well-formed decoded AST: no nil node, no nil regexp anywhere. -/
def ENode.wf : ENode → Bool
  | .nilNode => false
  | .leaf _ => true
  | .regex re => re.isSome
  | .unary n => n.wf
  | .binary _ l r => l.wf && r.wf
  | .func a => a.wf
  | .list a => a.wf
  | .lambda e => e.wf
  | .anil => true
  | .acons h t => h.wf && t.wf

/-- Does evaluating / formatting the node reach a nil dereference: a method call on a nil `Node`
(`nilNode` as an operand, argument or element), or `MatchString` on the nil regexp of a `=~` / `!~`. -/
def ENode.evalTraps : ENode → Bool
  | .nilNode => true
  | .leaf _ => false
  | .regex _ => false
  | .unary n => n.evalTraps
  | .binary op l r =>
    l.evalTraps || r.evalTraps ||
      ((op == "=~" || op == "!~") && (match r with | .regex none => true | _ => false))
  | .func a => a.evalTraps
  | .list a => a.evalTraps
  | .lambda e => e.evalTraps
  | .anil => false
  | .acons h t => h.evalTraps || t.evalTraps

end Kap.C05
