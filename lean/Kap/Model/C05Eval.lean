/-
C05 — executable model of the EVALUATOR `tick.Evaluate` (tick/eval.go, tick/stack.go): the stack machine
that walks the AST `ast.Parse` returned and drives the node API by reflection.

Outcomes: `ok`, `err` (an error value is returned), `empty` (`panic(ErrEmptyStack)`: the one panic the
deferred closure of `Evaluate` turns into an error) and `trap` (any other run-time panic: index / slice out
of range, a panic of a library call that is not protected by a recover — re-panicked by `Evaluate` into
`CreatePipeline` / `TaskMaster.NewTask`). "tick.Evaluate never panics" is `evalTop … ≠ trap`, and over
the extracted shape of the deferred closure `runDeferred Gen.evaluate (body …) = returns _`.

Transcribed (same branches, same order of stack operations and scope accesses):
  * `stack.Push`, `stack.Pop` (`s.data[l]`, `s.data[:l]` behind `Len() > 0`, else `panic(ErrEmptyStack)`);
  * `eval`: every case of the type switch — literal nodes, `UnaryNode` (`evalUnary`), `BinaryNode`
    (`resolveIdents`, then `stateful.NewExpression` and `expr.Eval`), `LambdaNode`, `ListNode` and
    `FunctionNode` (the loops `eval; Pop; resolve identifier / call global func; nodes[i] = a` over
    `make([]interface{}, len)`), `TypeDeclarationNode` (`evalTypeDeclaration`), `DeclarationNode`
    (`evalDeclaration`), `ChainNode` (`evalChain`), `ProgramNode` (the guarded `Pop` of the unused result and
    the call of a left-over global function), `default` (push the node);
  * `evalFunc` (`args[0]` behind `len(args) == 1`; the closure it pushes is CALLED in `evalChain`, in the
    argument loop and in the program loop: `callU`), `convertVarToValue`, `convertValueToVar` (their
    `list[i]` / `values[i]` loops), `resolveIdents` (the `node.Args[i]` / `node.Nodes[i]` range writes);
  * `stateful.Scope` as an association list (`Get` fails for an unknown name, `Set` overrides).
Every slice / index site of the reviewed inventory `reviewedEvalSites` that lies OUTSIDE the reflective
calls is an explicit bounds check here (→ `trap`); the sites inside them (`callMethodReflection`,
`ReflectionDescriber.*`, `getProperties`, `getChainMethods`, `capitalizeFirst`) are behind the ORACLE.

The ORACLE (what is not modelled, answers are inputs of the model; every theorem holds for EVERY oracle):
  * `refl`: what the body of the function value built by `evalFunc` does once it reaches the describer /
    `reflect.Value.Call` — a value, an error, or a PANIC of any value. The closure's own `defer rec(obj,&err)`
    (shape extracted from the source) decides what a panic becomes: `callRefl`.
  * `lib`: the library calls `eval` makes OUTSIDE that closure: `stateful.NewExpression` + `expr.Eval` for a
    `BinaryNode`, and the property READ path of `evalChain` (`NewReflectionDescriber` / `HasProperty` /
    `Property` on the left object). A panic answer here is a `trap`: that these calls do not panic is the
    ASSUMPTION of `evaluate_never_panics` (an explicit, decidable hypothesis on the answers).
Values are abstracted to what the control flow looks at (`Val`): the literal type (`ast.TypeOf`), lists
(length, whether every element is a literal), `*ast.IdentifierNode`, the `unboundFunc` closure (its
`FunctionNode.Type` and name), nil, anything else.

Core Lean only (the compiled driver imports this file).
-/
import Kap.Model.C05
namespace Kap.C05.Ev
open Kap.C05

/-- `ast.ValueType` -/
inductive VT where
  | invalid | bool | int | float | dur | str | regex | lambda | list | star | time | missing
deriving DecidableEq, Repr, Inhabited

/-- `FunctionNode.Type` -/
inductive FT where
  | global | chain | property | dynamic
deriving DecidableEq, Repr, Inhabited

/-- A run-time value, as far as the evaluator's type switches look at it. -/
inductive Val where
  | lit (t : VT)                      -- bool, int64, float64, Duration, string, *Regexp, *LambdaNode, *StarNode, Time, *Missing
  | list (allLit : Bool) (n : Nat)    -- `[]interface{}` of length n; allLit: `ValueToLiteralNode` accepts every element
  | ident (name : String)             -- `*ast.IdentifierNode`
  | ufunc (ft : FT) (name : String)   -- the `unboundFunc` closure built by `evalFunc`
  | nil
  | other                             -- any other node (`default: stck.Push(node)`) or object
deriving DecidableEq, Repr, Inhabited

mutual
/-- The AST, as far as `eval` distinguishes node types. -/
inductive Ast where
  | lit (t : VT)                                  -- Bool / Number / Duration / String / Regex node (pushes its value); Star (pushes itself)
  | unary (op : Nat) (x : Ast)                    -- op = the token type
  | binary (l r : Ast)
  | lambda (x : Ast)
  | list (xs : AstL)
  | typeDecl (name ty : String)                   -- `var name ty`
  | decl (name : String) (right : Ast)            -- `var name = right`
  | chain (l r : Ast)
  | func (ft : FT) (name : String) (args : AstL)
  | program (xs : AstL)
  | ident (name : String)
  | other                                          -- Reference, DBRP, Comment … (`default:` pushes the node)
inductive AstL where
  | nil
  | cons (h : Ast) (t : AstL)
end

def AstL.length : AstL → Nat
  | .nil => 0
  | .cons _ t => t.length + 1

/-- An oracle answer. -/
inductive OAns where
  | val (v : Val)
  | err
  | panic (v : PanicVal)
deriving DecidableEq, Repr, Inhabited

/-- `predefinedVars[name]`: its `Type`, and — when `Value` is a `[]Var` — (every element a literal, length). -/
structure PVar where
  name : String
  ty : VT
  vars : Option (Bool × Nat)
deriving Repr, Inhabited

structure Env where
  refl : List OAns                 -- answers of the reflective calls (inside the closure of `evalFunc`)
  lib : List OAns                  -- answers of the library calls outside it
  pre : List PVar := []            -- `predefinedVars`
  ignoreMissing : Bool := false    -- `ignoreMissingVars`
  defersRec : Bool                 -- the closure starts with `defer rec(obj, &err)` (extracted)
  recShape : DeferShape            -- the shape of `rec` (extracted)

structure St where
  stk : List Val := []                       -- `stck.data` (top = last)
  scope : List (String × Val) := []          -- `scope.variables`
  rc : Nat := 0                              -- oracle cursors
  lc : Nat := 0
deriving Repr, Inhabited

inductive R (α : Type) where
  | ok (a : α) (s : St)
  | err
  | empty                      -- panic(ErrEmptyStack)
  | trap                       -- any other panic
deriving Repr, Inhabited

def R.bind {α β : Type} : R α → (α → St → R β) → R β
  | .ok a s, f => f a s
  | .err, _ => .err
  | .empty, _ => .empty
  | .trap, _ => .trap

/-! ### tick/stack.go -/

/-- `stck.Push(v)` -/
def push (v : Val) (s : St) : R Unit := .ok () { s with stk := s.stk ++ [v] }

/-- `stck.Pop()` -/
def pop (s : St) : R Val :=
  if s.stk.length > 0 then
    let l := s.stk.length - 1
    match s.stk[l]? with                                                  -- s.data[l]
    | none => .trap
    | some v => if l ≤ s.stk.length then .ok v { s with stk := s.stk.take l } else .trap   -- s.data[:l]
  else .empty                                                             -- panic(ErrEmptyStack)

/-! ### scope, type helpers -/

/-- `scope.Get(name)`: `none` = the error "name is undefined". -/
def scopeGet (s : St) (name : String) : Option Val := (s.scope.find? (fun p => p.1 == name)).map (·.2)

/-- `scope.Set(name, v)` -/
def scopeSet (name : String) (v : Val) (s : St) : St := { s with scope := (name, v) :: s.scope }

/-- `ast.TypeOf(v)` -/
def typeOf : Val → VT
  | .lit t => t
  | .list _ _ => .list
  | _ => .invalid

/-- `ast.ValueToLiteralNode(pos, v)` succeeds. -/
def litable : Val → Bool
  | .lit t => t == .bool || t == .int || t == .float || t == .dur || t == .str || t == .regex || t == .lambda || t == .star
  | .list a _ => a
  | _ => false

/-- `ast.ZeroValue(t)` for the types `evalTypeDeclaration` can name. -/
def zeroValue (t : VT) : Val := if t = .list then .list true 0 else .lit t

/-- `if a is *ast.IdentifierNode { a, err = scope.Get(a.Ident) }` -/
def resolveIdent (a : Val) (s : St) : R Val :=
  match a with
  | .ident name => match scopeGet s name with | some v => .ok v s | none => .err
  | v => .ok v s

/-! ### The oracle and the function value built by `evalFunc` -/

/-- A reflective call inside the closure (`defer rec(obj, &err)` is the first statement of the closure): a
panic is what `rec` makes of it. -/
def callRefl (E : Env) (s : St) : R Val :=
  let s' := { s with rc := s.rc + 1 }
  match (E.refl[s.rc]?).getD .err with
  | .val v => .ok v s'
  | .err => .err
  | .panic v =>
    if E.defersRec then
      match runDeferred E.recShape (.panics v) with
      | .returns _ => .err                     -- `*errp = fmt.Errorf(…)`: the closure returns (nil, err)
      | .propagates _ => .trap
    else .trap

/-- A library call outside the closure: nothing recovers a panic. -/
def callLib (E : Env) (s : St) : R Val :=
  let s' := { s with lc := s.lc + 1 }
  match (E.lib[s.lc]?).getD .err with
  | .val v => .ok v s'
  | .err => .err
  | .panic _ => .trap

/-- Calling the `unboundFunc` built by `evalFunc` for a function node of type `ft` named `name` on `obj`. -/
def callU (E : Env) (ft : FT) (name : String) (obj : Val) (s : St) : R Val :=
  if ft = .global then
    if obj ≠ .nil then .err                                -- "calling global function on object"
    else match scopeGet s name with                        -- fnc, _ := scope.Get(f.Func); if fnc == nil
      | none => .err
      | some .nil => .err
      | some _ => callRefl E s                             -- reflect.ValueOf(fnc), callMethodReflection
  else callRefl E s                                        -- describer, Has…/Call…/SetProperty, dynamic method

/-! ### `convertVarToValue`, `convertValueToVar`: `for i := range values { list[i] = …values[i]… }` -/

/-- The copy loop over `list := make(…, len(values))`: `none` = `list[i]` or `values[i]` out of range. -/
def copyLoop (nvalues nlist : Nat) : Nat → Nat → Option Unit
  | 0, _ => some ()
  | k + 1, i => if i < nvalues ∧ i < nlist then copyLoop nvalues nlist k (i + 1) else none

/-- `convertVarToValue(Var{Value: predefinedValue.Value, Type: actualType})` -/
def convertVarToValue (p : PVar) (actual : VT) (dflt : Val) : Option (Option Val) :=   -- outer none = trap, inner none = err
  if actual = .list then
    match p.vars with
    | none => some none                                   -- "var has type list but value is type %T"
    | some (a, n) => (copyLoop n n n 0).map fun _ => some (.list a n)
  else some (some dflt)

/-- `convertValueToVar(value, typ, desc)`: only its loop can go wrong. -/
def convertValueToVar (v : Val) : Option Unit :=
  match v with
  | .list _ n => copyLoop n n n 0
  | _ => some ()

def preLookup (E : Env) (name : String) : Option PVar := E.pre.find? (fun p => p.name == name)

/-- The tail shared by `evalTypeDeclaration` and `evalDeclaration`: the predefined var, if any, replaces `value`. -/
def fromPre (p : PVar) (actual : VT) (dflt : Val) (s : St) : R Val :=
  if p.ty ≠ actual then .err                               -- "invalid type supplied"
  else match convertVarToValue p actual dflt with
    | none => .trap
    | some none => .err
    | some (some v) => .ok v s

def declType (ty : String) : Option VT :=
  if ty == "int" then some .int else if ty == "float" then some .float else if ty == "bool" then some .bool
  else if ty == "string" then some .str else if ty == "regex" then some .regex else if ty == "duration" then some .dur
  else if ty == "lambda" then some .lambda else if ty == "list" then some .list else if ty == "star" then some .star
  else none

/-- `evalTypeDeclaration` -/
def evalTypeDecl (E : Env) (name ty : String) (s : St) : R Unit :=
  match declType ty with
  | none => .err                                           -- "invalid var type"
  | some t =>
    match preLookup E name with
    | some p => (fromPre p t (.lit t) s).bind fun v s => .ok () (scopeSet name v s)
    | none => if E.ignoreMissing then .ok () (scopeSet name (zeroValue t) s) else .err

/-- `evalDeclaration` -/
def evalDecl (E : Env) (name : String) (s : St) : R Unit :=
  match scopeGet s name with
  | some v => if v ≠ .nil then .err else evalDeclGo E name s
  | none => evalDeclGo E name s
where
  evalDeclGo (E : Env) (name : String) (s : St) : R Unit :=
    (pop s).bind fun value s =>
    (resolveIdent value s).bind fun value s =>
    let actual := typeOf value
    match (if actual ≠ .invalid then convertValueToVar value else some ()) with
    | none => .trap
    | some _ =>
      match preLookup E name with
      | some p => (fromPre p actual value s).bind fun v s => .ok () (scopeSet name v s)
      | none => .ok () (scopeSet name value s)

/-- `evalUnary` -/
def evalUnary (op : Nat) (s : St) : R Unit :=
  (pop s).bind fun v s =>
  if op = tMinus then
    (resolveIdent v s).bind fun v s =>
    match v with
    | .lit .float => push (.lit .float) s
    | .lit .int => push (.lit .int) s
    | .lit .dur => push (.lit .dur) s
    | _ => .err
  else if op = tNot then
    (resolveIdent v s).bind fun v s =>
    match v with
    | .lit .bool => push (.lit .bool) s
    | _ => .err
  else .ok () s

/-- `evalChain` -/
def evalChain (E : Env) (s : St) : R Unit :=
  (pop s).bind fun r s =>
  (pop s).bind fun l s =>
  (resolveIdent l s).bind fun l s =>
  match r with
  | .ufunc ft name => (callU E ft name l s).bind fun ret s => push ret s
  | .ident _ =>
    -- NewReflectionDescriber(l) / l.(SelfDescriber), HasProperty, Property: outside the closure
    (callLib E s).bind fun v s => if v = .nil then .err else push v s
  | _ => .err

/-- `evalFunc`: `if len(args) == 1 { if a, ok := args[0].([]interface{}); ok { args = a } }`, then the closure
is pushed (NOT called). -/
def evalFunc (ft : FT) (name : String) (args : List Val) (s : St) : R Unit :=
  if args.length = 1 then
    match args[0]? with                                                -- args[0]
    | none => .trap
    | some _ => push (.ufunc ft name) s
  else push (.ufunc ft name) s

/-- What the argument / list loops do with the popped value. -/
def resolveElem (E : Env) (isArgs : Bool) (a : Val) (s : St) : R Val :=
  match a with
  | .ident name => match scopeGet s name with | some v => .ok v s | none => .err
  | .ufunc ft name => if isArgs then callU E ft name .nil s else .ok a s      -- `case unboundFunc:` only for args
  | v => .ok v s

/-! ### `resolveIdents` -/

inductive RI where
  | ok | err | trap
deriving DecidableEq, Repr, Inhabited

def RI.andThen : RI → RI → RI
  | .ok, r => r
  | .err, _ => .err
  | .trap, _ => .trap

mutual
/-- `resolveIdents(n, scope)` (the rewritten tree is only handed to the oracle: not kept) -/
def resolveIdents (s : St) : Ast → RI
  | .ident name => match scopeGet s name with
    | none => .err
    | some v => if litable v then .ok else .err
  | .unary _ x => resolveIdents s x
  | .binary l r => (resolveIdents s l).andThen (resolveIdents s r)
  | .func _ _ args => resolveIdentsL s args.length 0 args
  | .program xs => resolveIdentsL s xs.length 0 xs
  | _ => .ok
/-- `for i, arg := range nodes { nodes[i], err = resolveIdents(arg, scope) }` -/
def resolveIdentsL (s : St) (n : Nat) : Nat → AstL → RI
  | _, .nil => .ok
  | i, .cons x xs =>
    match resolveIdents s x with
    | .ok => if i < n then resolveIdentsL s n (i + 1) xs else .trap    -- nodes[i] = …
    | r => r
end

/-! ### `eval` -/

/-- Are all the collected values literals (for the `[]interface{}` a `ListNode` pushes)? -/
def allLit (vs : List Val) : Bool := vs.all litable

mutual
/-- `eval(n, scope, stck, predefinedVars, defaultVars, ignoreMissingVars)` -/
def eval (E : Env) : Ast → St → R Unit
  | .lit t, s => push (.lit t) s
  | .unary op x, s => (eval E x s).bind fun _ s => evalUnary op s
  | .binary l r, s =>
    match resolveIdents s (.binary l r) with
    | .err => .err
    | .trap => .trap
    | .ok =>
      (callLib E s).bind fun _ s =>                                   -- stateful.NewExpression(n)
      (callLib E s).bind fun v s => push v s                          -- expr.Eval(stateful.NewScope())
  | .lambda x, s =>
    match resolveIdents s x with
    | .err => .err
    | .trap => .trap
    | .ok => push (.lit .lambda) s
  | .list xs, s =>
    (evalElems E false 0 xs (List.replicate xs.length .nil) s).bind fun nodes s =>
    push (.list (allLit nodes) nodes.length) s
  | .typeDecl name ty, s => evalTypeDecl E name ty s
  | .decl name right, s => (eval E right s).bind fun _ s => evalDecl E name s
  | .chain l r, s =>
    (eval E l s).bind fun _ s => (eval E r s).bind fun _ s => evalChain E s
  | .func ft name args, s =>
    (evalElems E true 0 args (List.replicate args.length .nil) s).bind fun vs s => evalFunc ft name vs s
  | .program xs, s => evalProg E xs s
  | .ident name, s => push (.ident name) s
  | .other, s => push .other s
/-- The loops of the `ListNode` / `FunctionNode` cases: `acc` is `make([]interface{}, len(nodes))`. -/
def evalElems (E : Env) (isArgs : Bool) : Nat → AstL → List Val → St → R (List Val)
  | _, .nil, acc, s => .ok acc s
  | i, .cons x xs, acc, s =>
    (eval E x s).bind fun _ s =>
    (pop s).bind fun a s =>
    (resolveElem E isArgs a s).bind fun a s =>
    if i < acc.length then evalElems E isArgs (i + 1) xs (acc.set i a) s else .trap      -- nodes[i] = a
/-- The loop of the `ProgramNode` case. -/
def evalProg (E : Env) : AstL → St → R Unit
  | .nil, s => .ok () s
  | .cons x xs, s =>
    (eval E x s).bind fun _ s =>
    if s.stk.length > 0 then
      (pop s).bind fun ret s =>
      match ret with
      | .ufunc ft name => (callU E ft name .nil s).bind fun _ s => evalProg E xs s   -- call global function
      | _ => evalProg E xs s
    else evalProg E xs s
end

/-- `eval(root, scope, &stack{}, …)` as `Evaluate` calls it. -/
def evalTop (E : Env) (root : Ast) (scope : List (String × Val)) : R Unit := eval E root { scope := scope }

/-- How the body of `tick.Evaluate` ends, as its deferred closure sees it. -/
def body {α : Type} : R α → Body
  | .ok _ _ => .ret false
  | .err => .ret true
  | .empty => .panics .emptyStack
  | .trap => .panics .runtimeErr

/-! ### The shape of the trees the parser builds (tick/ast/parser.go) -/

mutual
/-- Nodes `parser.expression` / `parameter` / `primaryExpr` / `stringItem` can return: they evaluate to exactly
one pushed value. A `UnaryNode` carries `-` or `!`; the children of chains, lists, function calls and unary
nodes are expressions again (never a declaration or a program). -/
def isExpr : Ast → Bool
  | .lit _ => true
  | .unary op x => (op == tMinus || op == tNot) && isExpr x
  | .binary _ _ => true
  | .lambda _ => true
  | .list xs => allExpr xs
  | .chain l r => isExpr l && isExpr r
  | .func _ _ args => allExpr args
  | .ident _ => true
  | .other => true
  | .typeDecl _ _ => false
  | .decl _ _ => false
  | .program _ => false
def allExpr : AstL → Bool
  | .nil => true
  | .cons x xs => isExpr x && allExpr xs
end

/-- `parser.statement`: a declaration (`var x = expr`), a type declaration, a DBRP node, an expression. -/
def isStmt : Ast → Bool
  | .typeDecl _ _ => true
  | .decl _ right => isExpr right
  | a => isExpr a

def allStmt : AstL → Bool
  | .nil => true
  | .cons x xs => isStmt x && allStmt xs

/-- What `parser.program` returns: a `ProgramNode` of statements. -/
def parserShaped : Ast → Bool
  | .program xs => allStmt xs
  | _ => false

end Kap.C05.Ev
