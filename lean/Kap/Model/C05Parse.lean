/-
C05 — executable model of the recursive-descent PARSER (tick/ast/parser.go) and of the literal
constructors it calls (tick/ast/node.go), over the token stream of the scanner model (Kap/Model/C05.lean).

A run-time panic of the Go code (index / slice out of range, failed type assertion) is the explicit
outcome `trap`; the parser's own `p.errorf` panics (error values, turned into the error result by
`parser.recover`) are the outcome `err`. "ast.Parse never panics" is `parseScript … ≠ .trap`.

Transcribed (same branches, same order of side effects):
  * the two-token lookahead: `next`, `backup`, `peek`, `consumeComment` with the buffer `token[2]`,
    `peekCount` — every `p.token[…]` / `p.comments[p.peekCount]` is an index check `< 2` (→ `trap`);
  * `expect`, `unexpected` (the three `p.text[…]` slices with their clamps; the new-line search only
    moves `start`/`stop` towards `tok.pos` and is left out), `position` (→ `lexer.lineNumber`:
    `l.input[:pos]`), `hasNewLine` (`p.text[start:end]`);
  * the productions `program`, `statement`, `dbrp` (with the two type assertions `.(*ReferenceNode)`),
    `declaration`, `expression`, `chain`, `funcOrIdent` (inlined in `chain`), `identifier`, `function`,
    `parameters`, `stringList`, `stringItem`, `lambda` (inlined in `expression`), `primaryExpr` (inlined),
    `precedence` (outer loop = `precedence`, inner loop = `inner`; `precedence[look.typ]`,
    `precedence[op.typ]` against a 46-entry table, the `lhsEnd` loop with `p.text[lhsEnd-1]`),
    `lfunction`, `lparameters`, `lparameter` (inlined), `primary`, the literal productions;
  * `newString`, `newRegex`, `newReference` (delimiter slices `txt[1:len-1]`, `txt[0:3]`,
    `txt[3:len-3]`, `txt[0]` and the unescape loop with `literal[i]`, `literal[i+1]`, `literal[last:i]`,
    `literal[last:]`), `newNumber`, `newDur`, `newBool`.
  * `Parse` / `ParseLambda`: `parse`, `parseLambda`.

Abstracted: the VALUE of total library calls that decide ok/err only — `strconv.ParseInt/ParseFloat`,
`influxql.ParseDuration`, `regexp.Compile` — is an oracle (`Lit`; the theorems hold for every oracle, the
driver instantiates it); comment CONTENTS (`newComment` has no index site; only `comments[peekCount]` is a
site); comment tokens are filtered out of the stream up front (what `parser.nextToken` does one token at a
time); the AST itself: a node is its `Position()` and whether it is a `*ReferenceNode` (all the control
flow and every trap site depend on nothing else). Constant indexes into the fixed arrays (`p.token[0]`,
`p.comments[1]`) cannot fail and are not sites. Receiving from the closed token channel yields the zero
token (`TokenError`, pos 0, "") as in Go. Recursion depth is bounded by a fuel argument (`fuel` outcome =
not finished within that depth; never a trap).

Core Lean only (the compiled driver imports this file).
-/
import Kap.Model.C05
namespace Kap.C05

/-- A token as the parser sees it: type, `pos`, `len(val)`. -/
structure PTok where
  typ : Nat
  pos : Int
  len : Int
deriving DecidableEq, Repr, Inhabited

/-- What `<-l.tokens` yields once the channel is closed. -/
def zeroTok : PTok := ⟨0, 0, 0⟩

def PTok.ofTok (t : Tok) : PTok := ⟨t.typ, t.pos, t.len.getD 0⟩

/-- The token stream the parser receives: `parser.nextToken` swallows comment tokens. -/
def pstream (ts : List Tok) : List PTok := (ts.filter (fun t => t.typ != tComment)).map PTok.ofTok

/-- Oracles for the total library calls whose result decides between a node and an error. -/
structure Lit where
  numOk : Bytes → Bool      -- `newNumber`: ParseFloat / ParseInt succeed (and the value is not negative)
  durOk : Bytes → Bool      -- `influxql.ParseDuration`
  reOk : Bytes → Bool       -- `regexp.Compile` of the unescaped literal

structure PEnv where
  c : Ctx
  o : Lit

/-- `token.val` (for a token with text). -/
def PTok.text (e : PEnv) (T : PTok) : Bytes := (e.c.inp.drop T.pos.toNat).take T.len.toNat

/-- The parser's mutable state: the channel, `p.token[0]`, `p.token[1]`, `p.peekCount`. -/
structure PS where
  rest : List PTok
  t0 : PTok := zeroTok
  t1 : PTok := zeroTok
  pc : Nat := 0
deriving Repr, Inhabited

inductive PR (α : Type) where
  | ok (a : α) (s : PS)
  | err                        -- `p.errorf` → panic(error) → `parser.recover` → returned error
  | trap                       -- run-time panic (`runtime.Error`): re-panicked by `parser.recover`
  | fuel                       -- recursion deeper than the fuel
deriving Repr, Inhabited

def PR.bind {α β : Type} : PR α → (α → PS → PR β) → PR β
  | .ok a s, f => f a s
  | .err, _ => .err
  | .trap, _ => .trap
  | .fuel, _ => .fuel

inductive NK where
  | ref | bin | other
deriving DecidableEq, Repr, Inhabited

/-- A node: `Position()` and its dynamic type as far as a type assertion looks at it. -/
structure Node where
  pos : Int
  kind : NK
deriving DecidableEq, Repr, Inhabited

/-! ### The lookahead buffer -/

/-- `<-l.tokens` (comments already removed). -/
def recv : List PTok → PTok × List PTok
  | [] => (zeroTok, [])
  | t :: ts => (t, ts)

/-- `p.next()` -/
def pnext (s : PS) : PR PTok :=
  let s1 : PS := if s.pc > 0 then { s with pc := s.pc - 1 }
                 else { s with t0 := (recv s.rest).1, rest := (recv s.rest).2 }
  if s1.pc = 0 then .ok s1.t0 s1 else if s1.pc = 1 then .ok s1.t1 s1 else .trap   -- p.token[p.peekCount]

/-- `p.backup()` -/
def pbackup (s : PS) : PS := { s with pc := s.pc + 1 }

/-- `p.peek()` -/
def ppeek (s : PS) : PR PTok :=
  if s.pc > 0 then
    (if s.pc - 1 = 0 then .ok s.t0 s else if s.pc - 1 = 1 then .ok s.t1 s else .trap)   -- p.token[p.peekCount-1]
  else .ok (recv s.rest).1 { s with pc := 1, t1 := s.t0, t0 := (recv s.rest).1, rest := (recv s.rest).2 }

/-- `p.consumeComment()`: `p.comments[p.peekCount]`. -/
def consumeComment (s : PS) : PR Unit := if s.pc < 2 then .ok () s else .trap

/-- `p.position(pos)` → `p.lex.lineNumber(pos)`: `l.input[:pos]`. -/
def posd (e : PEnv) (p : Int) (s : PS) : PR Unit := if 0 ≤ p ∧ p ≤ e.c.len then .ok () s else .trap

/-- `p.hasNewLine(a, b)`: `p.text[a:b]`. -/
def hasNL (e : PEnv) (a b : Int) (s : PS) : PR Unit := if 0 ≤ a ∧ a ≤ b ∧ b ≤ e.c.len then .ok () s else .trap

/-- `p.unexpected(tok, …)`: always ends in `p.errorf`, after three slices of the script text. -/
def unexpected {α : Type} (e : PEnv) (T : PTok) : PR α :=
  let start := if T.pos - 10 < 0 then 0 else T.pos - 10
  if ¬ (0 ≤ start ∧ start ≤ T.pos ∧ T.pos ≤ e.c.len) then .trap            -- p.text[start:tok.pos]
  else
    let stop := if T.pos + 10 > e.c.len then e.c.len else T.pos + 10
    if ¬ (0 ≤ T.pos ∧ T.pos ≤ stop ∧ stop ≤ e.c.len) then .trap             -- p.text[tok.pos:stop], lineNumber(tok.pos)
    else if ¬ (start ≤ stop) then .trap                                      -- p.text[start:stop]
    else .err

/-- `p.expect(ty)` -/
def expect (e : PEnv) (ty : Nat) (s : PS) : PR PTok :=
  (pnext s).bind fun T s => if T.typ = ty then .ok T s else unexpected e T

/-- A node constructor call `newX(p.position(pos), …)` without a comment argument. -/
def mk (e : PEnv) (pos : Int) (k : NK) (s : PS) : PR Node :=
  (posd e pos s).bind fun _ s => .ok ⟨pos, k⟩ s

/-- `newX(p.position(pos), …, p.consumeComment())`: arguments are evaluated left to right. -/
def mkC (e : PEnv) (pos : Int) (k : NK) (s : PS) : PR Node :=
  (posd e pos s).bind fun _ s => (consumeComment s).bind fun _ s => .ok ⟨pos, k⟩ s

/-! ### Literal constructors (node.go) -/

/-- The unescape loop shared by `newString`, `newRegex`, `newReference`:
`for i := 0; i < len(literal)-1; i++ { if literal[i] == '\\' && literal[i+1] == q { buf.Write(literal[last:i]); i++; last = i } }`
`buf.Write(literal[last:])`. `none` = an index or slice expression out of range. -/
def unescLoop (lit : Bytes) (q : Nat) : Nat → Nat → Nat → Bytes → Option Bytes
  | 0, _, last, acc => if last ≤ lit.length then some (acc ++ lit.drop last) else none
  | k + 1, i, last, acc =>
    if i + 1 < lit.length then
      match lit[i]?, lit[i+1]? with                                   -- literal[i], literal[i+1]
      | some a, some b =>
        if a == 0x5C && b == q then
          if last ≤ i ∧ i ≤ lit.length then                            -- literal[last:i]
            unescLoop lit q k (i + 2) (i + 1) (acc ++ (lit.drop last).take (i - last))
          else none
        else unescLoop lit q k (i + 1) last acc
      | _, _ => none
    else if last ≤ lit.length then some (acc ++ lit.drop last) else none   -- literal[last:]

def unescape (lit : Bytes) (q : Nat) : Option Bytes := unescLoop lit q lit.length 0 0 []

/-- `txt[1 : len(txt)-1]` -/
def inner1 (txt : Bytes) : Option Bytes :=
  if txt.length < 2 then none else some ((txt.drop 1).take (txt.length - 2))

/-- `newString(p, txt, c)`: never an error; `false` = a slice / index out of range. -/
def newStringOk (txt : Bytes) : Bool :=
  if txt.length ≥ 6 && txt.take 3 == [0x27, 0x27, 0x27] then true       -- txt[0:3], txt[3:len-3] behind len ≥ 6
  else match inner1 txt with                                              -- txt[1:len-1]
    | none => false
    | some lit =>
      match txt.head? with                                                -- quote := txt[0]
      | none => false
      | some q => (unescape lit q).isSome

/-- `p.string()` -/
def pstring (e : PEnv) (s : PS) : PR Node :=
  (expect e tString s).bind fun T s => (posd e T.pos s).bind fun _ s => (consumeComment s).bind fun _ s =>
  if newStringOk (T.text e) then .ok ⟨T.pos, .other⟩ s else .trap

/-- `p.reference()` -/
def reference (e : PEnv) (s : PS) : PR Node :=
  (expect e tReference s).bind fun T s => (posd e T.pos s).bind fun _ s => (consumeComment s).bind fun _ s =>
  match inner1 (T.text e) with
  | none => .trap
  | some lit => if (unescape lit 0x22).isSome then .ok ⟨T.pos, .ref⟩ s else .trap

/-- `p.regex()` -/
def regex (e : PEnv) (s : PS) : PR Node :=
  (expect e tRegex s).bind fun T s => (posd e T.pos s).bind fun _ s => (consumeComment s).bind fun _ s =>
  match inner1 (T.text e) with
  | none => .trap
  | some lit =>
    match unescape lit 0x2F with
    | none => .trap
    | some u => if e.o.reOk u then .ok ⟨T.pos, .other⟩ s else .err

/-- `p.number()`: `newNumber` answers an error for the empty text before it looks at `text[0]`. -/
def number (e : PEnv) (s : PS) : PR Node :=
  (expect e tNumber s).bind fun T s => (posd e T.pos s).bind fun _ s => (consumeComment s).bind fun _ s =>
  if (T.text e).isEmpty then .err else if e.o.numOk (T.text e) then .ok ⟨T.pos, .other⟩ s else .err

/-- `p.duration()` -/
def duration (e : PEnv) (s : PS) : PR Node :=
  (expect e tDuration s).bind fun T s => (posd e T.pos s).bind fun _ s => (consumeComment s).bind fun _ s =>
  if e.o.durOk (T.text e) then .ok ⟨T.pos, .other⟩ s else .err

/-- `p.star()` -/
def star (e : PEnv) (s : PS) : PR Node :=
  (expect e tStar s).bind fun T s => mkC e T.pos .other s

/-- `p.boolean()`: `p.next()`, then `strconv.ParseBool` of the keyword text `TRUE` / `FALSE`. -/
def boolean (e : PEnv) (s : PS) : PR Node :=
  (pnext s).bind fun T s => mkC e T.pos .other s

/-- `p.identifier()` -/
def identifier (e : PEnv) (s : PS) : PR Node :=
  (expect e tIdent s).bind fun T s => mkC e T.pos .other s

/-- `p.stringItem()` -/
def stringItem (e : PEnv) (s : PS) : PR Node :=
  (ppeek s).bind fun T s =>
  if T.typ = tIdent then identifier e s
  else if T.typ = tString then pstring e s
  else if T.typ = tStar then star e s
  else unexpected e T

/-- the loop of `p.stringList()` -/
def stringListLoop (e : PEnv) : Nat → PS → PR Unit
  | 0, _ => .fuel
  | k + 1, s =>
    (ppeek s).bind fun T s =>
    if T.typ = tRSBracket then .ok () s
    else
      (stringItem e s).bind fun _ s =>
      (pnext s).bind fun T2 s =>
      if T2.typ ≠ tComma then .ok () (pbackup s) else stringListLoop e k s

/-- `p.stringList()` -/
def stringList (e : PEnv) (k : Nat) (s : PS) : PR Node :=
  (expect e tLSBracket s).bind fun T s => (consumeComment s).bind fun _ s =>
  (stringListLoop e k s).bind fun _ s =>
  (expect e tRSBracket s).bind fun _ s => mk e T.pos .other s

/-! ### Operator precedence -/

/-- The table `precedence = [...]int{TokenOr: 0, …, TokenMod: 5}`: 46 entries (largest key
`TokenRegexNotEqual` = 45), unlisted indexes are 0. -/
def precOf (t : Nat) : Nat :=
  if t = tAnd then 1
  else if t = tEqual ∨ t = tNotEqual ∨ t = tRegexEqual ∨ t = tRegexNotEqual then 2
  else if t = tGreater ∨ t = tGreaterEqual ∨ t = tLess ∨ t = tLessEqual then 3
  else if t = tPlus ∨ t = tMinus then 4
  else if t = tMult ∨ t = tDiv ∨ t = tMod then 5
  else 0

/-- `precedence[t]`: `none` = index out of range. -/
def precAt (t : Nat) : Option Nat := if t < 46 then some (precOf t) else none

/-- `for lhsEnd > lhs.Position() && isSpace(rune(p.text[lhsEnd-1])) { lhsEnd-- }`; `none` = index out of
range. (`rune(b)` of a byte ≥ 0x80 is a Latin-1 code point: the class oracle decides.) -/
def lhsEnd (e : PEnv) (lhsPos : Int) : Nat → Int → Option Int
  | 0, x => some x
  | k + 1, x =>
    if x > lhsPos then
      if 0 ≤ x - 1 ∧ x - 1 < e.c.len then                              -- p.text[lhsEnd-1]
        if isSpace e.c ((e.c.inp.getD (x - 1).toNat 0 : Nat) : Int) then lhsEnd e lhsPos k (x - 1) else some x
      else none
    else some x

def isChainStart (t : Nat) : Bool := t == tDot || t == tPipe || t == tAt || t == tVar || t == tIdent

/-! ### The mutually recursive productions -/

mutual

/-- `p.expression()` (with `p.lambda()` and `p.primaryExpr()` inlined) -/
def expression (e : PEnv) : Nat → PS → PR Node
  | 0, _ => .fuel
  | k + 1, s =>
    (ppeek s).bind fun T s =>
    if T.typ = tIdent then
      (pnext s).bind fun _ s => (ppeek s).bind fun T2 s =>
      if T2.typ = tLParen then
        (function e k (pbackup s)).bind fun term s =>
        (ppeek s).bind fun T3 s =>
        if isChainStart T3.typ then chain e k term s else precedence e k term 0 s
      else if isChainStart T2.typ then
        (identifier e (pbackup s)).bind fun term s => chain e k term s
      else
        (primary e k (pbackup s)).bind fun n s => precedence e k n 0 s
    else if T.typ = tLambda then
      (pnext s).bind fun L s => (consumeComment s).bind fun _ s =>
      (primary e k s).bind fun n s => (precedence e k n 0 s).bind fun _ s => mk e L.pos .other s
    else if T.typ = tLSBracket then stringList e k s
    else (primary e k s).bind fun n s => precedence e k n 0 s

/-- `p.chain(lhs)` (with `p.funcOrIdent(ft)` inlined; `ft == ChainFunc` iff the operator is `|`) -/
def chain (e : PEnv) : Nat → Node → PS → PR Node
  | 0, _, _ => .fuel
  | k + 1, lhs, s =>
    (ppeek s).bind fun T s =>
    if T.typ = tDot ∨ T.typ = tPipe ∨ T.typ = tAt then
      (pnext s).bind fun op s => (consumeComment s).bind fun _ s =>
      (pnext s).bind fun _ s =>
      if op.typ = tPipe then
        (function e k (pbackup s)).bind fun _ s => (mk e op.pos .other s).bind fun n s => chain e k n s
      else
        (ppeek s).bind fun T2 s =>
        if T2.typ = tLParen then
          (function e k (pbackup s)).bind fun _ s => (mk e op.pos .other s).bind fun n s => chain e k n s
        else
          (identifier e (pbackup s)).bind fun _ s => (mk e op.pos .other s).bind fun n s => chain e k n s
    else .ok lhs s

/-- `p.function(ft)` -/
def function (e : PEnv) : Nat → PS → PR Node
  | 0, _ => .fuel
  | k + 1, s =>
    (expect e tIdent s).bind fun I s => (consumeComment s).bind fun _ s =>
    (expect e tLParen s).bind fun _ s =>
    (parameters e k s).bind fun args s =>
    (expect e tRParen s).bind fun _ s =>
    match args.getLast? with                                            -- args[l-1] behind l > 0
    | none => mk e I.pos .other s
    | some q => (hasNL e I.pos q s).bind fun _ s => mk e I.pos .other s

/-- `p.parameters()` (`p.parameter()` = `p.expression()`); the result is the list of `Position()`s. -/
def parameters (e : PEnv) : Nat → PS → PR (List Int)
  | 0, _ => .fuel
  | k + 1, s =>
    (ppeek s).bind fun T s =>
    if T.typ = tRParen then .ok [] s
    else
      (expression e k s).bind fun a s =>
      (pnext s).bind fun T2 s =>
      if T2.typ ≠ tComma then .ok [a.pos] (pbackup s)
      else (parameters e k s).bind fun rest s => .ok (a.pos :: rest) s

/-- `p.precedence(lhs, minP)`: the outer loop (re-entered by recursion; the `look` it re-reads is the one
the last `peek` of the previous iteration left in the buffer). -/
def precedence (e : PEnv) : Nat → Node → Nat → PS → PR Node
  | 0, _, _, _ => .fuel
  | k + 1, lhs, minP, s =>
    (ppeek s).bind fun look s =>
    if isExprOperator 25 47 look.typ then
      match precAt look.typ with                                        -- precedence[look.typ]
      | none => .trap
      | some pl =>
        if pl ≥ minP then
          (pnext s).bind fun op s => (consumeComment s).bind fun _ s =>
          (primary e k s).bind fun rhs s =>
          match precAt op.typ with                                      -- precedence[op.typ]
          | none => .trap
          | some po =>
            (inner e k rhs po s).bind fun rhs s =>
            match lhsEnd e lhs.pos (e.c.inp.length + 1) op.pos with    -- p.text[lhsEnd-1]
            | none => .trap
            | some le =>
              (hasNL e le rhs.pos s).bind fun _ s =>
              (mk e op.pos .bin s).bind fun n s => precedence e k n minP s
        else .ok lhs s
    else .ok lhs s

/-- the inner loop of `p.precedence` -/
def inner (e : PEnv) : Nat → Node → Nat → PS → PR Node
  | 0, _, _, _ => .fuel
  | k + 1, rhs, po, s =>
    (ppeek s).bind fun look s =>
    if isExprOperator 25 47 look.typ then
      match precAt look.typ with                                        -- precedence[look.typ]
      | none => .trap
      | some pl =>
        if pl > po then (precedence e k rhs pl s).bind fun rhs s => inner e k rhs po s
        else .ok rhs s
    else .ok rhs s

/-- `p.lfunction()` -/
def lfunction (e : PEnv) : Nat → PS → PR Node
  | 0, _ => .fuel
  | k + 1, s =>
    (expect e tIdent s).bind fun I s =>
    (expect e tLParen s).bind fun _ s =>
    (lparameters e k s).bind fun args s =>
    (expect e tRParen s).bind fun _ s =>
    match args.getLast? with                                            -- args[l-1] behind l > 0
    | none => mk e I.pos .other s
    | some q => (hasNL e I.pos q s).bind fun _ s => mk e I.pos .other s

/-- `p.lparameters()` (with `p.lparameter()` inlined) -/
def lparameters (e : PEnv) : Nat → PS → PR (List Int)
  | 0, _ => .fuel
  | k + 1, s =>
    (ppeek s).bind fun T s =>
    if T.typ = tRParen then .ok [] s
    else
      (primary e k s).bind fun n s =>
      (ppeek s).bind fun T1 s =>
      (if isExprOperator 25 47 T1.typ then precedence e k n 0 s else .ok n s).bind fun a s =>
      (pnext s).bind fun T2 s =>
      if T2.typ ≠ tComma then .ok [a.pos] (pbackup s)
      else (lparameters e k s).bind fun rest s => .ok (a.pos :: rest) s

/-- `p.primary()` -/
def primary (e : PEnv) : Nat → PS → PR Node
  | 0, _ => .fuel
  | k + 1, s =>
    (ppeek s).bind fun tok s =>
    if tok.typ = tLParen then
      (pnext s).bind fun _ s => (consumeComment s).bind fun _ s =>
      (primary e k s).bind fun n s => (precedence e k n 0 s).bind fun n s =>
      (expect e tRParen s).bind fun _ s => .ok n s
    else if tok.typ = tNumber then number e s
    else if tok.typ = tString then pstring e s
    else if tok.typ = tTrue ∨ tok.typ = tFalse then boolean e s
    else if tok.typ = tDuration then duration e s
    else if tok.typ = tRegex then regex e s
    else if tok.typ = tStar then star e s
    else if tok.typ = tReference then reference e s
    else if tok.typ = tIdent then
      (pnext s).bind fun _ s => (ppeek s).bind fun T2 s =>
      if T2.typ = tLParen then lfunction e k (pbackup s) else identifier e (pbackup s)
    else if tok.typ = tMinus ∨ tok.typ = tNot then
      -- newUnary(p.position(tok.pos), tok.typ, p.primary(), p.consumeComment())
      (pnext s).bind fun _ s => (posd e tok.pos s).bind fun _ s =>
      (primary e k s).bind fun _ s => (consumeComment s).bind fun _ s => .ok ⟨tok.pos, .other⟩ s
    else unexpected e tok

end

/-! ### Statements and the entry points -/

/-- `p.declaration()` -/
def declaration (e : PEnv) (k : Nat) (s : PS) : PR Node :=
  (expect e tVar s).bind fun V s => (consumeComment s).bind fun _ s =>
  (identifier e s).bind fun _ s =>
  (ppeek s).bind fun T s =>
  if T.typ = tAsgn then
    (expect e tAsgn s).bind fun _ s => (expression e k s).bind fun _ s => mk e V.pos .other s
  else (identifier e s).bind fun _ s => mk e V.pos .other s

/-- `p.dbrp()`: `newDBRP(p.position(dbrpTok.pos), db.(*ReferenceNode), rp.(*ReferenceNode), dbrpC)` -/
def dbrp (e : PEnv) (s : PS) : PR Node :=
  (expect e tDBRP s).bind fun D s => (consumeComment s).bind fun _ s =>
  (reference e s).bind fun db s =>
  (expect e tDot s).bind fun _ s =>
  (reference e s).bind fun rp s =>
  (posd e D.pos s).bind fun _ s =>
  if db.kind = .ref ∧ rp.kind = .ref then .ok ⟨D.pos, .other⟩ s else .trap     -- the two type assertions

/-- `p.statement()` -/
def statement (e : PEnv) (k : Nat) (s : PS) : PR Node :=
  (ppeek s).bind fun T s =>
  if T.typ = tVar then declaration e k s
  else if T.typ = tDBRP then dbrp e s
  else expression e k s

/-- `p.program()`: the loop -/
def program (e : PEnv) : Nat → PS → PR Unit
  | 0, _ => .fuel
  | k + 1, s =>
    (ppeek s).bind fun T s =>
    if T.typ = tEOF then .ok () s
    else (statement e k s).bind fun _ s => program e k s

/-- `p.parse(text)` after `lex(text)`: `newProgram(p.position(0))`, the program, `p.expect(TokenEOF)`. -/
def parseToks (e : PEnv) (k : Nat) (toks : List PTok) : PR Unit :=
  (posd e 0 { rest := toks }).bind fun _ s =>
  (program e k s).bind fun _ s =>
  (expect e tEOF s).bind fun _ s => .ok () s

/-- `p.parseLambda(text)`: `p.primaryExpr()`, `newLambda(p.position(0), …)`, `p.expect(TokenEOF)`. -/
def parseLambdaToks (e : PEnv) (k : Nat) (toks : List PTok) : PR Unit :=
  (primary e k { rest := toks }).bind fun n s => (precedence e k n 0 s).bind fun _ s =>
  (posd e 0 s).bind fun _ s =>
  (expect e tEOF s).bind fun _ s => .ok () s

/-- What the caller of `ast.Parse` / `ast.ParseLambda` sees. -/
inductive POut where
  | ok | err | trap | fuel
deriving DecidableEq, Repr, Inhabited

def PR.out {α : Type} : PR α → POut
  | .ok _ _ => .ok
  | .err => .err
  | .trap => .trap
  | .fuel => .fuel

/-- `ast.Parse(text)`: the scanner goroutine's tokens, then the parser. A panic in the scanner goroutine
kills the process (`trap`). -/
def parseScript (e : PEnv) (k : Nat) : POut :=
  match lexRun e.c with
  | .done ts => (parseToks e k (pstream ts)).out
  | .trap _ => .trap
  | .fuel _ => .fuel

/-- `ast.ParseLambda(text)` -/
def parseLambda (e : PEnv) (k : Nat) : POut :=
  match lexRun e.c with
  | .done ts => (parseLambdaToks e k (pstream ts)).out
  | .trap _ => .trap
  | .fuel _ => .fuel

/-- Recursion depth the driver gives the model (every production consumes a token within a bounded
number of calls; a `fuel` outcome is reported as a MISMATCH). -/
def parseDepth (e : PEnv) : Nat := 8 * e.c.inp.length + 16

end Kap.C05
