/-
C05 — the request / response pairing of `udf.Server` (udf/server.go).

Transcribed: `Info()`, `Init()`, `Snapshot()`, `Restore()` (each: `doRequestResponse(req, <its channel>)`
followed by an UNCHECKED type assertion `resp.Message.(*agent.Response_K)` — a run-time panic in the
CALLING goroutine when the response is of another kind; for `Snapshot()` that goroutine is the task's
snapshotter, which has no recover: the process dies), `doRequestResponse` (hand the request to the writer,
then block until the channel yields a response or the server aborts), `doResponse` (NON-blocking put into a
one-slot channel: a response that finds its slot occupied is logged and dropped), the four dispatch cases of
`handleResponse`, and `abort` (every blocked request returns the server's error).

WHICH channel a response kind is put into, which channel a request kind takes from and which type it
asserts are PARAMETERS (`Routing`), instantiated on every run with what extract/c05shapes reads in the Go
source (`Gen.udfRoute` / `Gen.udfReads` / `Gen.udfAsserts`).

A script is what the two sides do, in the order the harness forces with sync points:
  `send j tag`  the peer sends a well-formed response of kind j (tag = its payload), asked for or not
  `keepalive`   a keepalive response
  `bad`         an error response / a frame that does not decode: the reader aborts the server
  `req k`       a goroutine of the daemon calls Info / Init / Snapshot / Restore
  `wait k`      … and the script waits for that call to return
Abstracted: the bytes (Kap.C05.readFrames), data messages (Kap.C05.udfRun), time. The real requester takes
its response from the channel at an unknown moment after it became available; the model delivers eagerly
and marks a script `racy` when the difference could be observed (a response of the same channel arriving,
or the server aborting, between delivery and `wait`): such scripts are judged by the spec only.
-/
namespace Kap.C05.Rr

inductive Kind where
  | info | init | snapshot | restore
deriving DecidableEq, Repr, Inhabited

def Kind.all : List Kind := [.info, .init, .snapshot, .restore]

theorem Kind.mem_all (k : Kind) : k ∈ Kind.all := by cases k <;> simp [Kind.all]

/-- Channels are numbered (position in `Gen.udfChans`). -/
structure Routing where
  route : Kind → Nat            -- handleResponse: `case *agent.Response_J: s.doResponse(response, <chan>)`
  reads : Kind → Nat            -- K(): `s.doRequestResponse(req, <chan>)`
  asserts : Kind → Kind         -- K(): `resp.Message.(*agent.Response_J)`

/-- Every request kind reads a channel that only responses of its own kind are put into, and asserts its
own kind. -/
def Routing.perKind (R : Routing) : Bool :=
  Kind.all.all fun k => R.asserts k == k && Kind.all.all fun j => R.route j != R.reads k || j == k

/-- What a call of Info / Init / Snapshot / Restore came to. -/
inductive Res where
  | got (j : Kind) (tag : Nat)  -- returned with the response (j, tag)
  | trap (j : Kind)             -- the type assertion met a response of kind j: PANIC in the calling goroutine
  | abort                       -- returned the server's error
  | blocked                     -- still waiting (the peer has not answered)
  | none                        -- no such call
deriving DecidableEq, Repr, Inhabited

inductive ReqSt where
  | idle | waiting | done (r : Res)
deriving DecidableEq, Repr, Inhabited

def ReqSt.isDone : ReqSt → Bool
  | .done _ => true
  | _ => false

structure St where
  slots : List (Nat × Kind × Nat) := []     -- parked responses: (channel, kind, tag), at most one per channel
  reqs : Kind → ReqSt := fun _ => .idle
  aborted : Bool := false
  racy : Bool := false
  out : List (Kind × Res) := []             -- results of `wait`, newest first

inductive Step where
  | send (j : Kind) (tag : Nat) | keepalive | bad | req (k : Kind) | wait (k : Kind)
deriving DecidableEq, Repr, Inhabited

/-- The unchecked assertion after `doRequestResponse`. -/
def deliver (R : Routing) (k j : Kind) (tag : Nat) : Res :=
  if R.asserts k = j then .got j tag else .trap j

def setReq (s : St) (k : Kind) (v : ReqSt) : St :=
  { s with reqs := fun k' => if k' = k then v else s.reqs k' }

def step (R : Routing) (s : St) : Step → St
  | .keepalive => s
  | .bad =>
    if s.aborted then s else
    { s with aborted := true,
             racy := s.racy || Kind.all.any (fun k => (s.reqs k).isDone),
             reqs := fun k => match s.reqs k with | .waiting => .done .abort | r => r }
  | .send j tag =>
    if s.aborted then s else
    match Kind.all.filter (fun k => R.reads k == R.route j && s.reqs k == .waiting) with
    | k :: more =>
      -- `doResponse` puts it into the (empty) slot, the blocked requester takes it
      { setReq s k (.done (deliver R k j tag)) with racy := s.racy || !more.isEmpty }
    | [] =>
      let pend := Kind.all.any fun k => R.reads k == R.route j && (s.reqs k).isDone
      if s.slots.any (fun e => e.1 == R.route j) then { s with racy := s.racy || pend }   -- `default:` logged, dropped
      else { s with racy := s.racy || pend, slots := (R.route j, j, tag) :: s.slots }     -- parked
  | .req k =>
    match s.reqs k with
    | .idle =>
      if s.aborted then setReq s k (.done .abort) else
      match s.slots.find? (fun e => e.1 == R.reads k) with
      | some (_, j, tag) =>
        { setReq s k (.done (deliver R k j tag)) with slots := s.slots.filter (fun e => e.1 != R.reads k) }
      | none => setReq s k .waiting
    | _ => { s with racy := true }
  | .wait k =>
    match s.reqs k with
    | .done r => { setReq s k .idle with out := (k, r) :: s.out }
    | .waiting => { s with out := (k, .blocked) :: s.out }
    | .idle => { s with out := (k, .none) :: s.out }

/-- End of the script: the owner aborts the server (`UDFNode.stopUDF`), every call still blocked returns. -/
def finish (s : St) : List (Kind × Res) × Bool :=
  (s.out.reverse ++ Kind.all.filterMap (fun k => match s.reqs k with
      | .waiting => some (k, Res.abort) | .done r => some (k, r) | .idle => none),
   s.racy || Kind.all.any (fun k => (s.reqs k).isDone))

def runFrom (R : Routing) (s : St) (steps : List Step) : St := steps.foldl (step R) s

/-- Results of all calls in the order they were waited for (then the ones never waited for), and whether the
script is racy. -/
def run (R : Routing) (steps : List Step) : List (Kind × Res) × Bool := finish (runFrom R {} steps)

/-! ### Instantiation with the extracted facts -/

def lookupD {α β : Type} [DecidableEq α] (l : List (α × β)) (a : α) (d : β) : β :=
  match l.find? (fun e => e.1 = a) with
  | some e => e.2
  | none => d

def Kind.idx : Kind → Nat
  | .info => 0 | .init => 1 | .snapshot => 2 | .restore => 3

/-- A kind that the source does not route gets a private channel nobody else uses (its request blocks);
`wellFormed` below is false in that case, so no theorem is instantiated on such a default. -/
def Routing.ofLists (route reads : List (Kind × Nat)) (asserts : List (Kind × Kind)) : Routing :=
  { route := fun j => lookupD route j (1000 + j.idx),
    reads := fun k => lookupD reads k (2000 + k.idx),
    asserts := fun k => lookupD asserts k k }

/-- The extraction recognised everything: every kind occurs exactly once in each list, nothing odd was
met, and every response channel is buffered with exactly one slot. -/
def wellFormed (route reads : List (Kind × Nat)) (asserts : List (Kind × Kind))
    (chans : List (String × Option Nat)) (odd : List String) : Bool :=
  odd.isEmpty &&
  Kind.all.all (fun k => (route.filter (fun e => e.1 == k)).length == 1 &&
                         (reads.filter (fun e => e.1 == k)).length == 1 &&
                         (asserts.filter (fun e => e.1 == k)).length == 1) &&
  route.all (fun e => e.2 < chans.length) && reads.all (fun e => e.2 < chans.length) &&
  chans.all (fun c => c.2 == some 1)

/-! ### Before `Open()`: the wrappers `UDFProcess` / `UDFSocket` (udf.go)

They create their `udf.Server` only in `Open()`, which `UDFNode.runUDF` calls on the node goroutine. Two callers
run CONCURRENTLY with that start: the task's snapshotter (`Snapshot()`, no recover on that goroutine) and whoever
stops the task (`UDFNode.stopUDF` → `Abort()`). `Init`/`Restore`/`In`/`Out` are only called by `runUDF` itself after
its `Open()`, `Info` by the UDF service on an object it opened itself. A method called on the missing server is a
nil dereference unless the wrapper checks for it (`guard…` = it does: extracted). -/

inductive Wrapper where
  | processSnapshot | processAbort | socketSnapshot | socketAbort
deriving DecidableEq, Repr, Inhabited

inductive WEv where
  | opened | snapshot | abort
deriving DecidableEq, Repr, Inhabited

inductive WRes where
  | ok | err | trap
deriving DecidableEq, Repr, Inhabited

/-- what each call comes to; the Bool is "Open() has published the server". -/
def wrapper (guardSnapshot guardAbort : Bool) : Bool → List WEv → List WRes
  | _, [] => []
  | _, .opened :: es => .ok :: wrapper guardSnapshot guardAbort true es
  | o, .snapshot :: es =>
    (if o then .ok else if guardSnapshot then .err else .trap) :: wrapper guardSnapshot guardAbort o es
  | o, .abort :: es =>
    (if o || guardAbort then .ok else .trap) :: wrapper guardSnapshot guardAbort o es

def guardOf (gs : List (Wrapper × Bool)) (w : Wrapper) : Bool :=
  (gs.filter (fun e => e.1 == w)).length == 1 && gs.all (fun e => e.1 != w || e.2)

end Kap.C05.Rr
