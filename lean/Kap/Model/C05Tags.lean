/-
C05 — the tag set of a data point as a Go map, and the nodes that write into a copy of it.

Transcribed from /repo: `models.Tags.Copy` (models/point.go: `make(Tags, len(t))` + copy loop, never nil) and the
tag half of `DefaultNode.setDefaults` (default.go: copy-on-first-write, the test `tags[tag] == ""` reads the
INCOMING map). `eval().tags()`, `alert().levelTag()/.idTag()`, `sideload().tag()` and the loopback are the
one-write instance `copy` then `set`.

A Go map value is `nil` or allocated; reading a nil map yields the zero value, ASSIGNING to one panics
("assignment to entry in nil map") — `set` returns `none` for exactly that. Core Lean only.
-/
namespace Kap.C05.Tags

inductive GoMap where
  | nil
  | mk (l : List (String × String))      -- newest binding first, one binding per key
deriving Repr, DecidableEq, Inhabited

def GoMap.entries : GoMap → List (String × String)
  | .nil => []
  | .mk l => l

/-- `m[k]`: the zero value when absent, also on a nil map -/
def GoMap.get (m : GoMap) (k : String) : String := (m.entries.lookup k).getD ""

def GoMap.len (m : GoMap) : Nat := m.entries.length

def GoMap.isNil : GoMap → Bool
  | .nil => true
  | .mk _ => false

/-- `m[k] = v`; `none` = panic: assignment to entry in nil map -/
def GoMap.set : GoMap → String → String → Option GoMap
  | .nil, _, _ => none
  | .mk l, k, v => some (.mk ((k, v) :: l.filter (fun e => e.1 != k)))

/-- `models.Tags.Copy` as in /repo: always an allocated map -/
def copy (m : GoMap) : GoMap := .mk m.entries

/-- the "no allocation for untagged series" variant: nil for an empty tag set -/
def copyLazy (m : GoMap) : GoMap := if m.entries.isEmpty then .nil else .mk m.entries

/-- the tag loop of `DefaultNode.setDefaults` with the copy function as a parameter: `cur` is `newTags`,
`copied` is `tagsCopied`; `none` = the node panicked. -/
def setDefaultTags (cp : GoMap → GoMap) (tags : GoMap) : List (String × String) → GoMap → Bool → Option GoMap
  | [], cur, _ => some cur
  | (t, v) :: ds, cur, copied =>
    if tags.get t == "" then
      match (if copied then cur else cp cur).set t v with
      | none => none
      | some m => setDefaultTags cp tags ds m true
    else setDefaultTags cp tags ds cur copied

/-- `DefaultNode.setDefaults(_, tags)` for the defaults `ds` -/
def defaultTags (cp : GoMap → GoMap) (tags : GoMap) (ds : List (String × String)) : Option GoMap :=
  setDefaultTags cp tags ds tags false

/-- a source map with `n` entries (`n = none`: the nil map), as the harness op `tagscopy` builds it -/
def source : Option Nat → GoMap
  | none => .nil
  | some n => .mk ((List.range n).map (fun i => (s!"k{i}", "v")))

/-- the observation of `tagscopy`: kind and length of the copy, outcome of one assignment, length afterwards -/
def observe (cp : GoMap → GoMap) (src : GoMap) (key : String) : String :=
  let c := cp src
  let kind := if c.isNil then "nil" else "map"
  match c.set key "w" with
  | none => s!"{kind} {c.len} panic {c.len}"
  | some c' => s!"{kind} {c.len} set {c'.len}"

end Kap.C05.Tags
