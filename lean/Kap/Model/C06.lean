/-
C06 — model of group identity and of the per-group demultiplexer.

Transcribed (snapshot ef0888e + the `fix:` commits listed in findings/C06.txt):
* `models.ToGroupID` (models/point.go): no dimensions ⇒ the name (by-name) or the nil group `""`; otherwise
  `[name "\n"] d₁=v₁,d₂=v₂,…` with `vᵢ = tags[dᵢ]` (a missing tag reads as `""`, like a Go map). The loop is
  `encLoop` (`if i != 0 { ',' }; d; '='; v`). It is defined on `List Char` (the theorems are about that);
  `toGroupID` is the `String` wrapper the driver runs.
* `determineTagNames` / `computeTagNames` / `filterExcludedTagNames` (group_by.go): named dimensions are sorted
  (duplicates kept); `*` ⇒ the sorted tag keys of the point minus the excluded ones.
* `edge.groupedConsumer` (edge/grouped.go): `groups map[GroupID]Receiver`, `current`, `getOrCreateGroup`,
  one branch per message type, `DeleteGroup` removes the entry. The receiver is ARBITRARY: a `Node` has a
  node-wide state `Γ` (what lives on the `*XxxNode` struct and is therefore shared by all groups) and a per-group
  state `σ` (what `NewGroup` creates). `current` is modelled as the current group's id (Go keeps the receiver
  pointer; the two differ only on ill-formed streams with a `DeleteGroup` inside an unbuffered batch).
* Concrete receivers used for the correspondence (each transcribed from its `*Group` type):
  sample (`sampleGroup`), stateCount / stateDuration (`stateTrackingGroup` + trackers), changeDetect, derivative,
  windowByCount (list level), alert with threshold levels (`determineLevel` without resets, stateChangesOnly), where / eval with the
  stateful `count()` (per-group `CopyReset`), the alert node restricted to `.crit(lambda: P(count()))`
  (`determineLevel`, `findFirstMatchLevel`, `alertState.Point` without flapping/stateChangesOnly), and the
  stream side of `InfluxQLNode` for `sum` / `count` including the NODE-WIDE `currentKind/createFn` cache
  (`getCreateFn`).
  `alertNodeShared` / `getCreateFnOld` are the code as it was at the snapshot (level expressions shared by all
  groups; `currentKind` updated before a failing `determineReduceContextCreateFn` while the stale `createFn` stayed), kept for the
  counterexample theorems.
* `windowByTime` as a grouped receiver `windowTimeNodeB`: a wrapper around the IMPORTED C03 model (`Kap.C03.TW`), the
  alert node with history ring / `changed` / flapping flag (`alertHistNode`, `addEvent`, `percentChange` comparisons,
  the float64 weighting as `goFlapDecide`), the batch side of alert (`alertThrNodeB`, `alertCountNodeB`:
  `alertState.BufferedBatch`) and eval (`evalCountAddNodeB`), `groupByStream` (`GroupByNode.Point`), and `runPipe`
  (two nodes in a row; the window's batch travels under its batch-edge id, `onBatchEdge`).
`whereNestedNode` / `evalNestedNode`: where / eval whose lambda uses a lambda VAR (nested `EvalLambdaNode`; its
  ExecutionState is per `CopyReset` copy = per group since `fix:` 8ed14ac; `whereNestedNodeShared` /
  `evalNestedNodeShared` = one per node, the code before the fix); `alert().crit(lambda: nl)` with a nested lambda is
  `alertNode` (it was exactly `alertNodeShared`).
* STAGES THAT REBUILD A POINT'S GROUP IDENTITY behind a groupBy, stream side (`Stage`, `Stage.apply`): `DeleteNode.Point`
  (delete.go: `doDeletes` on the tags; `checkForDeletedDimension`; `deleteDimensions` = the surviving tag names with
  `ByName: dims.ByName` carried over; `SetTags` / `SetDimensions` recompute the id from the point's own name / tags /
  dimensions), a further `GroupByNode.Point` with named dimensions (`dims.ByName = dims.ByName || n.byName`),
  `DefaultNode.Point` for one tag (`setDefaults`: only when the tag reads as ""), `EvalNode` with `.tags(t)` (`SetTags`).
  `deleteDimensionsNoFlag` = the same without the carried flag, for the counterexample theorem only.
Abstracted: everything about a message except group id / time / the field `v` / name / tags; errors are
"log and drop"; unbuffered batches inside the concrete receivers (the generic demultiplexer does model them; the
batch-side receivers take whole buffered batches).
Core Lean only.
-/
import Kap.Basic
import Kap.Model.C03
namespace Kap.C06

/-! ## Group identity -/

/-- The loop of `ToGroupID` over the (dimension, value) pairs; the flag is `i != 0`. -/
def encLoop : Bool → List (List Char × List Char) → List Char
  | _, [] => []
  | nz, (d, v) :: rest => (if nz then [','] else []) ++ (d ++ '=' :: (v ++ encLoop true rest))

/-- `models.ToGroupID` on characters: `pairs = [(d, tags[d]) | d ∈ dims.TagNames]`. -/
def toGroupIDChars (byName : Bool) (name : List Char) (pairs : List (List Char × List Char)) : List Char :=
  match pairs with
  | [] => if byName then name else []
  | _ :: _ => (if byName then name ++ ['\n'] else []) ++ encLoop false pairs

/-- Tags of a point: an association list with distinct keys (a Go map). -/
abbrev Tags := List (String × String)

/-- `tags[d]` with Go map semantics: a missing key reads as the empty string. -/
def tagVal (tags : Tags) (d : String) : String :=
  match tags.find? (fun p => p.1 == d) with
  | some p => p.2
  | none => ""

def pairsOf (tags : Tags) (dims : List String) : List (List Char × List Char) :=
  dims.map (fun d => (d.toList, (tagVal tags d).toList))

/-- `models.ToGroupID(name, tags, Dimensions{ByName, TagNames})`. -/
def toGroupID (byName : Bool) (name : String) (tags : Tags) (dims : List String) : String :=
  String.ofList (toGroupIDChars byName name.toList (pairsOf tags dims))

/-! ## groupBy dimension handling -/

/-- insertion into a sorted list (`sort.Strings` result is THE sorted permutation; strings compare bytewise
in Go and by code point in Lean, which agree on UTF-8). -/
def insertSorted (x : String) : List String → List String
  | [] => [x]
  | y :: ys => if x ≤ y then x :: y :: ys else y :: insertSorted x ys

def sortStrings (l : List String) : List String := l.foldr insertSorted []

/-- `filterExcludedTagNames`. -/
def filterExcluded (tagNames excluded : List String) : List String :=
  tagNames.filter (fun t => !excluded.contains t)

/-- the loop of `uniqueSorted` (group_by.go) after its first element: `last` is `unique[len(unique)-1]`. -/
def uniqueAfter (last : String) : List String → List String
  | [] => []
  | s :: rest => if last == s then uniqueAfter last rest else s :: uniqueAfter s rest

/-- `uniqueSorted`: the repeated elements of a sorted list dropped (`fix:` 6ba92e9). -/
def uniqueSorted : List String → List String
  | [] => []
  | s :: rest => s :: uniqueAfter s rest

/-- `determineTagNames` for the named dimensions (the `*` flag is kept separately): sorted, a dimension named twice
kept once, the excluded ones dropped. -/
def determineTagNames (dims excluded : List String) : List String :=
  filterExcluded (uniqueSorted (sortStrings dims)) excluded

/-- `determineTagNames` before `fix:` 6ba92e9: sorted, repetitions kept (counterexample theorem only). -/
def determineTagNamesOld (dims excluded : List String) : List String :=
  filterExcluded (sortStrings dims) excluded

/-- `computeTagNames`. -/
def computeTagNames (tags : Tags) (allDimensions : Bool) (tagNames excluded : List String) : List String :=
  if allDimensions then filterExcluded (sortStrings (tags.map (·.1))) excluded else tagNames

/-! ## Stateless stages behind a groupBy that rebuild a point's group identity (stream side) -/

/-- A point message as grouping sees it: its measurement, its tags, and the grouping it carries
(`models.Dimensions{ByName, TagNames}`). -/
structure GPoint where
  byName : Bool
  name : String
  tags : Tags
  dims : List String
deriving Repr, Inhabited

/-- `DeleteNode.doDeletes` on the tags: `delete(newTags, tag)` for every configured tag. -/
def deleteTags (del : List String) (tags : Tags) : Tags := tags.filter (fun kv => !del.contains kv.1)

/-- `DeleteNode.checkForDeletedDimension`: is one of the group-by dimensions deleted? -/
def checkForDeletedDimension (del dims : List String) : Bool := dims.any (fun d => del.contains d)

/-- `DeleteNode.deleteDimensions`: `Dimensions{TagNames: <the dimensions not deleted>, ByName: dims.ByName}`. -/
def deleteDimensions (del : List String) (byName : Bool) (dims : List String) : Bool × List String :=
  (byName, dims.filter (fun d => !del.contains d))

/-- NOT the code: `deleteDimensions` building `Dimensions{TagNames: …}` without the by-name flag (counterexample only). -/
def deleteDimensionsNoFlag (del : List String) (_byName : Bool) (dims : List String) : Bool × List String :=
  (false, dims.filter (fun d => !del.contains d))

/-- `newTags[k] = v` on a Go map. -/
def setTag (tags : Tags) (k v : String) : Tags :=
  if tags.any (fun kv => kv.1 == k) then tags.map (fun kv => if kv.1 == k then (k, v) else kv) else tags ++ [(k, v)]

/-- The stateless nodes that rewrite what a point's group id is computed from. -/
inductive Stage where
  /-- `|delete().tag(t₁).tag(t₂)…` -/
  | delete (tags : List String)
  /-- a further `|groupBy(named dimensions)[.byMeasurement()]` -/
  | groupBy (byName : Bool) (dims : List String)
  /-- `|default().tag(k, v)` -/
  | defaultTag (k v : String)
  /-- `|eval(lambda: <string v>).as(k).tags(k).keep()` -/
  | evalTag (k v : String)
deriving Repr, Inhabited

/-- `DeleteNode.Point` with the dimension function as a parameter (`deleteDimensions` in the code). -/
def deletePointWith (dd : List String → Bool → List String → Bool × List String) (del : List String) (p : GPoint) : GPoint :=
  let tags := deleteTags del p.tags          -- p.SetTags(tags)
  if checkForDeletedDimension del p.dims then
    let d := dd del p.byName p.dims          -- p.SetDimensions(n.deleteDimensions(dims))
    { p with tags := tags, byName := d.1, dims := d.2 }
  else { p with tags := tags }

/-- What the stage makes of a point (the id it leaves with is `toGroupID` of the result: every setter of
`edge.pointMessage` recomputes `groupID` from the message's own name / tags / dimensions). -/
def Stage.apply : Stage → GPoint → GPoint
  | .delete del, p => deletePointWith deleteDimensions del p
  | .groupBy b dims, p =>
    { p with byName := p.byName || b, dims := computeTagNames p.tags false (determineTagNames dims []) [] }
  | .defaultTag k v, p => if tagVal p.tags k == "" then { p with tags := setTag p.tags k v } else p
  | .evalTag k v, p => { p with tags := setTag p.tags k v }

def applyStages (sts : List Stage) (p : GPoint) : GPoint := sts.foldl (fun q st => st.apply q) p

/-! ## groupedConsumer as a demultiplexer over an arbitrary grouped receiver -/

abbrev GroupID := String

/-- The messages of an edge as `groupedConsumer` sees them (`π` = everything else about the message). -/
inductive Msg (π : Type) where
  | point (g : GroupID) (p : π)
  | barrier (g : GroupID) (p : π)
  | buffered (g : GroupID) (p : π)      -- BufferedBatch, keyed by `batch.Begin().GroupInfo()`
  | begin (g : GroupID) (p : π)         -- BeginBatch
  | batchPoint (p : π)
  | endBatch (p : π)
  | delete (g : GroupID) (p : π)        -- DeleteGroup
deriving Repr

/-- A grouped receiver: `Γ` node-wide state (shared by ALL groups), `σ` per-group state. -/
structure Node (Γ σ π ο : Type) where
  /-- `GroupedReceiver.NewGroup(group, first)` -/
  newGroup : Γ → GroupID → Msg π → Γ × σ
  /-- `Receiver.Point / BeginBatch / BatchPoint / EndBatch / BufferedBatch / Barrier / DeleteGroup` -/
  recv : Γ → σ → Msg π → Γ × (σ × List ο)

structure Demux (Γ σ : Type) where
  shared : Γ
  groups : GroupID → Option σ        -- `groups map[models.GroupID]Receiver`
  current : Option GroupID           -- `current Receiver`

def setGroup {σ : Type} (f : GroupID → Option σ) (g : GroupID) (v : Option σ) : GroupID → Option σ :=
  fun k => if k = g then v else f k

section
variable {Γ σ π ο : Type}

/-- `getOrCreateGroup`. -/
def Demux.getOrCreate (N : Node Γ σ π ο) (c : Demux Γ σ) (g : GroupID) (m : Msg π) : Demux Γ σ × σ :=
  match c.groups g with
  | some s => (c, s)
  | none =>
    let r := N.newGroup c.shared g m
    ({ c with shared := r.1, groups := setGroup c.groups g (some r.2) }, r.2)

/-- deliver `m` to the receiver of group `g` (created on demand) and store the receiver's new state -/
def Demux.deliver (N : Node Γ σ π ο) (c : Demux Γ σ) (g : GroupID) (m : Msg π) : Demux Γ σ × List (GroupID × ο) :=
  let (c1, s) := c.getOrCreate N g m
  let r := N.recv c1.shared s m
  ({ c1 with shared := r.1, groups := setGroup c1.groups g (some r.2.1) }, r.2.2.map (fun o => (g, o)))

/-- deliver to the CURRENT receiver (`BatchPoint`, `EndBatch`) -/
def Demux.deliverCurrent (N : Node Γ σ π ο) (c : Demux Γ σ) (m : Msg π) : Demux Γ σ × List (GroupID × ο) :=
  match c.current with
  | none => (c, [])                      -- "received batch point without batch" (the node fails)
  | some g =>
    match c.groups g with
    | none => (c, [])
    | some s =>
      let r := N.recv c.shared s m
      ({ c with shared := r.1, groups := setGroup c.groups g (some r.2.1) }, r.2.2.map (fun o => (g, o)))

/-- One message through `groupedConsumer`; every output is labelled with the group whose receiver made it. -/
def Demux.step (N : Node Γ σ π ο) (c : Demux Γ σ) (m : Msg π) : Demux Γ σ × List (GroupID × ο) :=
  match m with
  | .point g _ => c.deliver N g m
  | .barrier g _ => c.deliver N g m
  | .buffered g _ => c.deliver N g m
  | .begin g _ =>
    let r := c.deliver N g m
    ({ r.1 with current := some g }, r.2)
  | .batchPoint _ => c.deliverCurrent N m
  | .endBatch _ =>
    let r := c.deliverCurrent N m
    ({ r.1 with current := none }, r.2)
  | .delete g _ =>
    match c.groups g with
    | some s =>
      let r := N.recv c.shared s m
      ({ c with shared := r.1, groups := setGroup c.groups g none }, r.2.2.map (fun o => (g, o)))
    | none => (c, [])

def Demux.steps (N : Node Γ σ π ο) : Demux Γ σ → List (Msg π) → Demux Γ σ × List (GroupID × ο)
  | c, [] => (c, [])
  | c, m :: ms =>
    let r := c.step N m
    let r' := Demux.steps N r.1 ms
    (r'.1, r.2 ++ r'.2)

end

/-- What an edge carries, at the granularity at which groups can interleave: single messages and whole
unbuffered batches (`BeginBatch`, the points, `EndBatch` are written by one goroutine, contiguously). -/
inductive Item (π : Type) where
  | point (g : GroupID) (p : π)
  | barrier (g : GroupID) (p : π)
  | buffered (g : GroupID) (p : π)
  | delete (g : GroupID) (p : π)
  | batch (g : GroupID) (b : π) (pts : List π) (e : π)
deriving Repr

def Item.group {π : Type} : Item π → GroupID
  | .point g _ | .barrier g _ | .buffered g _ | .delete g _ | .batch g _ _ _ => g

def Item.msgs {π : Type} : Item π → List (Msg π)
  | .point g p => [.point g p]
  | .barrier g p => [.barrier g p]
  | .buffered g p => [.buffered g p]
  | .delete g p => [.delete g p]
  | .batch g b pts e => .begin g b :: (pts.map .batchPoint ++ [.endBatch e])

def Demux.init {Γ σ : Type} (γ : Γ) : Demux Γ σ := { shared := γ, groups := fun _ => none, current := none }

/-- The whole node: everything it emits on the stream `items`, labelled by group. -/
def runNode {Γ σ π ο : Type} (N : Node Γ σ π ο) (γ : Γ) (items : List (Item π)) : List (GroupID × ο) :=
  (Demux.steps N (Demux.init γ) (items.flatMap Item.msgs)).2

/-! ## Concrete receivers (stream side) -/

inductive Val where
  | int (i : Int)
  | str (s : String)
  | bool (b : Bool)
  | flt (bits : String)
  | missing
deriving DecidableEq, Repr, Inhabited

/-- A stream point as far as the modelled nodes look at it; `key` is the structured group key of the point
(rendering of by-name/name/dimension values), carried along for the output. -/
structure Pt where
  name : String
  key : String
  v : Val
  time : Int
  /-- id of the group on a BATCH edge behind a window (`NewBeginBatchMessage`: dimensions = the sorted tag keys of the
  group, i.e. duplicates of the stream edge's list collapsed) -/
  bid : String := ""
deriving Repr, Inhabited

/-- An emitted point: group key it carries, its time and the projection (`o` field) the harness prints. -/
structure Out where
  key : String
  time : Int
  proj : String
deriving DecidableEq, Repr, Inhabited

def Msg.pt? {π : Type} : Msg π → Option π
  | .point _ p => some p
  | _ => none

/-- Receivers whose state is created in `NewGroup` only: no node-wide state. -/
def pureNode {σ : Type} (init : σ) (onPoint : σ → Pt → σ × List Out) : Node Unit σ Pt Out :=
  { newGroup := fun _ _ _ => ((), init),
    recv := fun _ s m => ((), match m with
      | .point _ p => onPoint s p
      | _ => (s, [])) }

/-- `sampleGroup.Point` with `shouldKeep(count) = count % N == 0` (no duration). -/
def sampleNode (n : Nat) : Node Unit Nat Pt Out :=
  pureNode 0 (fun cnt p => (cnt + 1, if cnt % n == 0 then [{ key := p.key, time := p.time, proj := "-" }] else []))

/-- 16 lower-case hex digits of a float64 bit pattern (the wire format of floats) -/
def hex16 (n : UInt64) : String :=
  let ds := Nat.toDigits 16 n.toNat
  String.ofList (List.replicate (16 - ds.length) '0' ++ ds)

def parseHex (s : String) : UInt64 :=
  UInt64.ofNat (s.toList.foldl (fun a c => a * 16 + (if c.isDigit then c.toNat - 48 else c.toNat - 87)) 0)

def fbits (f : Float) : String := "f:" ++ hex16 f.toBits

/-- `numToFloat` (derivative.go): int64 and float64 only. Lean `Float` is IEEE double like Go's float64. -/
def Val.num? : Val → Option Float
  | .int i => some (Float.ofInt i)
  | .flt b => some (Float.ofBits (parseHex b))
  | _ => none

/-- `lambda: "v" > T` on the field `v`: int > int and float > int are comparisons, anything else (string, bool,
missing field) is an evaluation error. -/
def evalGt (v : Val) (t : Int) : Option Bool :=
  match v with
  | .int i => some (decide (i > t))
  | .flt b => some (Float.ofBits (parseHex b) > Float.ofInt t)
  | _ => none

/-- `stateTrackingGroup.Point` with `stateCountTracker`: evaluation error ⇒ the point is dropped and the tracker
untouched. -/
def stateCountNode (t : Int) : Node Unit Int Pt Out :=
  pureNode 0 (fun cnt p =>
    match evalGt p.v t with
    | none => (cnt, [])
    | some false => (0, [{ key := p.key, time := p.time, proj := "i:-1" }])
    | some true => (cnt + 1, [{ key := p.key, time := p.time, proj := s!"i:{cnt + 1}" }]))

/-- `whereGroup.doWhere` with `lambda: count() % M == R`: the group's own `count()` (CopyReset per group). -/
def whereCountNode (m r : Nat) : Node Unit Nat Pt Out :=
  pureNode 0 (fun cnt p => (cnt + 1, if (cnt + 1) % m == r then [{ key := p.key, time := p.time, proj := "-" }] else []))

/-- `evalGroup` with `lambda: count()` `.as('o')`. -/
def evalCountNode : Node Unit Nat Pt Out :=
  pureNode 0 (fun cnt p => (cnt + 1, [{ key := p.key, time := p.time, proj := s!"i:{cnt + 1}" }]))

/-- `stateTrackingGroup.Point` with `stateDurationTracker` (unit 1s): `startTime` is per group; the zero `time.Time`
means "not in the state" (no generated point has that time). -/
def stateDurationNode (t : Int) : Node Unit (Option Int) Pt Out :=
  pureNode none (fun start p =>
    match evalGt p.v t with
    | none => (start, [])
    | some false => (none, [{ key := p.key, time := p.time, proj := fbits (-1.0) }])
    | some true =>
      let st := start.getD p.time
      (some st, [{ key := p.key, time := p.time, proj := fbits (Float.ofInt (p.time - st) / 1e9) }]))

/-- `stateCount(lambda: count() % M == 0)`: the lambda's `count()` state (the group's CopyReset copy) and the tracker are
both per group. -/
def stateCountFnNode (m : Nat) : Node Unit (Nat × Int) Pt Out :=
  pureNode (0, 0) (fun s p =>
    if (s.1 + 1) % m == 0 then ((s.1 + 1, s.2 + 1), [{ key := p.key, time := p.time, proj := s!"i:{s.2 + 1}" }])
    else ((s.1 + 1, 0), [{ key := p.key, time := p.time, proj := "i:-1" }]))

/-- `stateDuration(lambda: count() % M != 0)` (unit 1s). -/
def stateDurationFnNode (m : Nat) : Node Unit (Nat × Option Int) Pt Out :=
  pureNode (0, none) (fun s p =>
    if (s.1 + 1) % m != 0 then
      let st := s.2.getD p.time
      ((s.1 + 1, some st), [{ key := p.key, time := p.time, proj := fbits (Float.ofInt (p.time - st) / 1e9) }])
    else ((s.1 + 1, none), [{ key := p.key, time := p.time, proj := fbits (-1.0) }]))

/-- `changeDetectGroup.Point` for one field: a missing field is "no change"; values are compared as Go interfaces
(type and value; NaN and -0.0 are not generated). -/
def changeDetectNode : Node Unit (Option Val) Pt Out :=
  pureNode none (fun prev p =>
    match p.v with
    | .missing => (prev, [])
    | v => if prev == some v then (prev, []) else (some v, [{ key := p.key, time := p.time, proj := "-" }]))

/-- `derivativeGroup.Point` + `DerivativeNode.derivative` (unit 1s, `.as('o')`): the previous point (value, time) is
per group; a non-numeric field drops the point and keeps `previous`; first point / zero elapsed time / negative
difference under `nonNegative` store without emitting. -/
def derivativeNode (nonNeg : Bool) : Node Unit (Option (Float × Int)) Pt Out :=
  pureNode none (fun prev p =>
    match p.v.num? with
    | none => (prev, [])
    | some f1 =>
      match prev with
      | none => (some (f1, p.time), [])
      | some (f0, t0) =>
        let elapsed := Float.ofInt (p.time - t0)
        if elapsed == 0 then (some (f1, p.time), [])
        else
          let diff := f1 - f0
          if nonNeg && diff < 0 then (some (f1, p.time), [])
          else (some (f1, p.time), [{ key := p.key, time := p.time, proj := fbits (diff / (elapsed / 1e9)) }]))

/-- `windowByCount` at list level (the ring buffer itself is C03's subject): the last `period` points, `count`,
`nextEmit`; a batch = the buffered points, stamped with the last point's time and the group of the FIRST point. -/
structure WinC where
  key : String
  buf : List Int := []      -- times of the buffered points, oldest first
  count : Nat := 0
  nextEmit : Nat
deriving Repr, Inhabited

def winBatchProj (times : List Int) : String :=
  s!"n:{times.length}" ++ String.join (times.map (fun t => s!"/{t}"))

def windowCountNode (period every : Nat) (fill : Bool) : Node Unit WinC Pt Out :=
  { newGroup := fun _ _ first => ((), { key := match first with | .point _ p => p.key | _ => "",
                                        nextEmit := if fill then period else every }),
    recv := fun _ w m => ((), match m with
      | .point _ p =>
        let buf := w.buf ++ [p.time]
        let buf := if buf.length > period then buf.drop 1 else buf
        let count := w.count + 1
        if count == w.nextEmit then
          ({ w with buf := buf, count := count, nextEmit := w.nextEmit + every },
           [{ key := w.key, time := p.time, proj := winBatchProj buf }])
        else ({ w with buf := buf, count := count }, [])
      | _ => (w, [])) }

def levelName (l : Nat) : String :=
  match l with
  | 0 => "s:OK" | 1 => "s:INFO" | 2 => "s:WARNING" | _ => "s:CRITICAL"

/-! ### alert node with threshold levels `.info/.warn/.crit(lambda: "v" > T)` (stateless lambdas) -/

/-- `findFirstMatchLevel(start, stop)`: from `start` down to `stop+1`; no expression ⇒ skip, evaluation error ⇒
skip. `thr l` = the threshold of level `l`'s expression. -/
def findFirstMatch (thr : Nat → Option Int) (v : Val) (start stop : Nat) : Option Nat :=
  ((List.range (start - stop)).map (fun i => start - i)).find? (fun l =>
    match thr l with
    | none => false
    | some t => evalGt v t == some true)

/-- `determineLevel` without reset expressions. -/
def determineLevelThr (thr : Nat → Option Int) (v : Val) (cur : Nat) : Nat :=
  match findFirstMatch thr v 3 (cur - 1) with
  | some l => l
  | none =>
    match findFirstMatch thr v cur 0 with
    | some l => l
    | none => 0

/-- `alertState.Point` with optional `.stateChangesOnly()` (no duration): per-group state = current level. -/
def alertThrNode (thr : Nat → Option Int) (sco : Bool) : Node Unit Nat Pt Out :=
  pureNode 0 (fun cur p =>
    let l := determineLevelThr thr p.v cur
    let changed := cur != l
    if sco && !changed then (l, [])
    else if l != 0 || changed then (l, [{ key := p.key, time := p.time, proj := levelName l }])
    else (l, []))

/-! ### alert node restricted to `.crit(lambda: P(count()))` -/

/-- The level predicate over the value `count()` returns. -/
inductive CountPred where
  | gt (k : Nat)      -- count() > K
  | mod (m : Nat)     -- count() % M == 0
deriving Repr, DecidableEq

def CountPred.eval : CountPred → Nat → Bool
  | .gt k, c => decide (c > k)
  | .mod m, c => c % m == 0

/-- `determineLevel` when only the critical expression exists: `findFirstMatchLevel(Critical, cur-1)` evaluates it
once; no reset expression; `findFirstMatchLevel(cur, OK)` evaluates it AGAIN iff `cur = Critical`.
`cnt` is the state of the expression's `count()`; levels: OK = 0, Critical = 3. Returns (new count, level). -/
def alertDetermine (pr : CountPred) (cnt : Nat) (cur : Nat) : Nat × Nat :=
  let c1 := cnt + 1
  if pr.eval c1 then (c1, 3)
  else if cur == 3 then
    let c2 := c1 + 1
    if pr.eval c2 then (c2, 3) else (c2, 0)
  else (c1, 0)

/-- `alertState.Point` without flapping / stateChangesOnly / noRecoveries: forward iff `l ≠ OK ∨ changed`. -/
def alertEmit (cur l : Nat) (p : Pt) : List Out :=
  if l != 0 || cur != l then [{ key := p.key, time := p.time, proj := levelName l }] else []

/-- The alert node AS IT WAS at the snapshot: `AlertNode.levels[...]` (and with it the `count()` state) is one
object evaluated for every group — node-wide state `Γ = Nat`; per group only the current level. -/
def alertNodeShared (pr : CountPred) : Node Nat Nat Pt Out :=
  { newGroup := fun γ _ _ => (γ, 0),
    recv := fun γ cur m =>
      match m with
      | .point _ p =>
        let r := alertDetermine pr γ cur
        (r.1, (r.2, alertEmit cur r.2 p))
      | _ => (γ, (cur, [])) }

/-- The alert node with per-group copies of the level expressions (`CopyReset` in `newAlertState`):
per-group state = (count() state, current level). -/
def alertNode (pr : CountPred) : Node Unit (Nat × Nat) Pt Out :=
  pureNode (0, 0) (fun s p =>
    let r := alertDetermine pr s.1 s.2
    ((r.1, r.2), alertEmit s.2 r.2 p))

/-! ### a lambda var used as a NESTED lambda node (`tick/stateful/eval_lambda_node.go`)

`EvalLambdaNode.state` belongs to the lambda node evaluator. Since `fix:` 8ed14ac `Expression.CopyReset` — called in
every `NewGroup` — copies the lambda nodes of the expression (`copyResetNodeEvaluator`), each copy with a fresh state:
the stateful functions INSIDE the nested lambda and those of the enclosing expression are both per group (`σ` = the two
counters). Before the fix the node evaluator tree, lambda nodes and their state included, was shared by all copies: one
nested state per node (`Γ`) — the `…Shared` receivers, kept for the counterexample theorem (was finding
nested-lambda-state-shared). `alert().crit(lambda: nl)` with `var nl = lambda: count() > K` is `alertNode (.gt K)` now
(it was `alertNodeShared`). -/

/-- `var nl = lambda: count() % M == R` … `|where(lambda: nl AND count() % 2 == 1)`: AND short-circuits, so the
outer `count()` runs only when `nl` held. State = (count() of the group's nested lambda, the group's outer count()). -/
def whereNestedNode (m r : Nat) : Node Unit (Nat × Nat) Pt Out :=
  pureNode (0, 0) (fun s p =>
    if (s.1 + 1) % m == r then
      ((s.1 + 1, s.2 + 1), if (s.2 + 1) % 2 == 1 then [{ key := p.key, time := p.time, proj := "-" }] else [])
    else ((s.1 + 1, s.2), []))

/-- `var nc = lambda: count()` … `|eval(lambda: nc * 1000 + count()).as('o')`. -/
def evalNestedNode : Node Unit (Nat × Nat) Pt Out :=
  pureNode (0, 0) (fun s p =>
    ((s.1 + 1, s.2 + 1), [{ key := p.key, time := p.time, proj := s!"i:{(s.1 + 1) * 1000 + (s.2 + 1)}" }]))

/-- `whereNestedNode` as the code was before 8ed14ac: the nested lambda's counter is node-wide (`Γ = Nat`). -/
def whereNestedNodeShared (m r : Nat) : Node Nat Nat Pt Out :=
  { newGroup := fun γ _ _ => (γ, 0),
    recv := fun γ s msg =>
      match msg with
      | .point _ p =>
        if (γ + 1) % m == r then
          (γ + 1, (s + 1, if (s + 1) % 2 == 1 then [{ key := p.key, time := p.time, proj := "-" }] else []))
        else (γ + 1, (s, []))
      | _ => (γ, (s, [])) }

/-- `evalNestedNode` as the code was before 8ed14ac. -/
def evalNestedNodeShared : Node Nat Nat Pt Out :=
  { newGroup := fun γ _ _ => (γ, 0),
    recv := fun γ s msg =>
      match msg with
      | .point _ p => (γ + 1, (s + 1, [{ key := p.key, time := p.time, proj := s!"i:{(γ + 1) * 1000 + (s + 1)}" }]))
      | _ => (γ, (s, [])) }

/-! ### InfluxQL node, stream side, `sum` / `count`, with the node-wide createFn cache -/

/-- `reflect.Kind` of the field (Invalid = zero value of `currentKind`). -/
inductive Kind where
  | invalid | int | flt | str | bool
deriving DecidableEq, Repr, Inhabited

def Val.kind? : Val → Option Kind
  | .int _ => some .int | .str _ => some .str | .bool _ => some .bool | .flt _ => some .flt | .missing => none

inductive Method where
  | sum | count
deriving DecidableEq, Repr, Inhabited

/-- `determineReduceContextCreateFn(method, kind, rc)`: the createFn for this kind (identified by the kind it
aggregates) or an error. `sum` exists for float and integer fields; `count` for all four. -/
def determine : Method → Kind → Option Kind
  | .sum, .int => some .int
  | .sum, .flt => some .flt
  | .sum, _ => none
  | .count, .invalid => none
  | .count, k => some k

/-- `InfluxQLNode.currentKind`, `InfluxQLNode.createFn` (the latter identified by the kind it was made for). -/
structure Cache where
  cur : Kind := .invalid
  fn : Option Kind := none
deriving DecidableEq, Repr, Inhabited

/-- `getCreateFn` as it was at the snapshot: `currentKind` is overwritten BEFORE `determine…` can fail. -/
def getCreateFnOld (m : Method) (c : Cache) (k : Kind) : Cache × Option Kind :=
  if c.cur == k && c.fn.isSome then (c, c.fn)
  else
    let c1 := { c with cur := k }
    match determine m k with
    | none => (c1, none)
    | some f => ({ c1 with fn := some f }, some f)

/-- `getCreateFn` today (after `fix:` cce1e44): a failing `determine…` drops the cached createFn. -/
def getCreateFn (m : Method) (c : Cache) (k : Kind) : Cache × Option Kind :=
  if c.cur == k && c.fn.isSome then (c, c.fn)
  else
    match determine m k with
    | none => ({ cur := k, fn := none }, none)
    | some f => ({ cur := k, fn := some f }, some f)

/-- a realised reduce context: made by the createFn for `kind`, with the `baseReduceContext` copied at creation -/
structure Ctx where
  kind : Kind
  time : Int
  acc : Int := 0      -- sum of the aggregated integers / number of aggregated points
deriving DecidableEq, Repr, Inhabited

structure IqlSt where
  key : String        -- `bc.groupInfo` = first.GroupInfo()
  time : Int          -- `bc.time`
  rc : Option Ctx
deriving DecidableEq, Repr, Inhabited

/-- `rc.AggregatePoint`: the typed aggregator rejects a field of another type (error is logged). -/
def Ctx.aggregate (m : Method) (c : Ctx) (v : Val) : Ctx :=
  if v.kind? == some c.kind then
    match m, v with
    | .sum, .int i => { c with acc := c.acc + i }
    | .sum, _ => c                      -- float sums are not modelled (the driver skips such cases)
    | .count, _ => { c with acc := c.acc + 1 }
  else c

/-- `influxqlGroup.aggregatePoint` over an arbitrary `getCreateFn`. -/
def iqlAggregate (gcf : Cache → Kind → Cache × Option Kind) (m : Method) (γ : Cache) (st : IqlSt) (p : Pt) : Cache × IqlSt :=
  match st.rc with
  | some c => (γ, { st with rc := some (c.aggregate m p.v) })
  | none =>
    match p.v.kind? with
    | none => (γ, st)                   -- "field missing from point"
    | some k =>
      let r := gcf γ k
      match r.2 with
      | none => (r.1, st)               -- "invalid influxql func … with field …"
      | some f => (r.1, { st with rc := some (({ kind := f, time := st.time } : Ctx).aggregate m p.v) })

/-- `influxqlGroup.Point`. -/
def iqlPoint (gcf : Cache → Kind → Cache × Option Kind) (m : Method) (γ : Cache) (st : IqlSt) (p : Pt) : Cache × (IqlSt × List Out) :=
  if p.time == st.time then
    let r := iqlAggregate gcf m γ st p
    (r.1, (r.2, []))
  else
    let out : List Out := match st.rc with
      | some c => [{ key := st.key, time := c.time, proj := s!"i:{c.acc}" }]
      | none => []
    let r := iqlAggregate gcf m γ { st with time := p.time, rc := none } p
    (r.1, (r.2, out))

def iqlNodeWith (gcf : Cache → Kind → Cache × Option Kind) (m : Method) : Node Cache IqlSt Pt Out :=
  { newGroup := fun γ _ first =>
      (γ, match first with
        | .point _ p => { key := p.key, time := p.time, rc := none }
        | _ => { key := "", time := 0, rc := none }),
    recv := fun γ st msg =>
      match msg with
      | .point _ p => iqlPoint gcf m γ st p
      | _ => (γ, (st, [])) }

def iqlNode (m : Method) : Node Cache IqlSt Pt Out := iqlNodeWith (getCreateFn m) m
def iqlNodeOld (m : Method) : Node Cache IqlSt Pt Out := iqlNodeWith (getCreateFnOld m) m

/-! ### batch edges: window output and the batch side of receivers (pipelines `|window()…|NODE`) -/

/-- a buffered batch on a batch edge -/
structure Batch where
  key : String          -- structured key of its group (rendering)
  bid : String          -- its group id on the batch edge
  tmax : Int
  pts : List Pt
deriving Repr, Inhabited

structure WinCB where
  key : String
  bid : String
  buf : List Pt := []
  count : Nat := 0
  nextEmit : Nat
deriving Repr, Inhabited

/-- `windowByCount` emitting the batches themselves (same transcription as `windowCountNode`). -/
def windowCountNodeB (period every : Nat) (fill : Bool) : Node Unit WinCB Pt Batch :=
  { newGroup := fun _ _ first => ((), match first with
      | .point _ p => { key := p.key, bid := p.bid, nextEmit := if fill then period else every }
      | _ => { key := "", bid := "", nextEmit := 0 }),
    recv := fun _ w m => ((), match m with
      | .point _ p =>
        let buf := w.buf ++ [p]
        let buf := if buf.length > period then buf.drop 1 else buf
        let count := w.count + 1
        if count == w.nextEmit then
          ({ w with buf := buf, count := count, nextEmit := w.nextEmit + every },
           [{ key := w.key, bid := w.bid, tmax := p.time, pts := buf }])
        else ({ w with buf := buf, count := count }, [])
      | _ => (w, [])) }

/-- projection of an emitted batch: size, then per point its time and (if the node sets one) its `o` field -/
def batchProj (pts : List (Int × Option String)) : String :=
  s!"n:{pts.length}" ++ String.join (pts.map (fun p => s!"/{p.1}" ++ (match p.2 with | some o => "=" ++ o | none => "")))

def batchOut (b : Batch) (pts : List (Int × Option String)) : Out := { key := b.key, time := b.tmax, proj := batchProj pts }

/-- a receiver on a batch edge, given as what it does with one whole batch (BeginBatch, the points, EndBatch) -/
def batchNode {Γ σ : Type} (init : σ) (onBatch : Γ → σ → Batch → Γ × (σ × List Out)) : Node Γ σ Batch Out :=
  { newGroup := fun γ _ _ => (γ, init),
    recv := fun γ s m => match m with
      | .buffered _ b => onBatch γ s b
      | _ => (γ, (s, [])) }

/-- `sampleGroup` batch side: `count` restarts at every BeginBatch. -/
def sampleNodeB (n : Nat) : Node Unit Unit Batch Out :=
  batchNode () (fun _ _ b => ((), ((), [batchOut b ((b.pts.zipIdx.filter (fun pi => pi.2 % n == 0)).map (fun pi => (pi.1.time, none)))])))

/-- `stateTrackingGroup` batch side with `stateCountTracker`: `tracker.reset()` at BeginBatch. -/
def stateCountNodeB (t : Int) : Node Unit Unit Batch Out :=
  batchNode () (fun _ _ b =>
    let r := b.pts.foldl (fun (acc : Int × List (Int × Option String)) p =>
      match evalGt p.v t with
      | none => acc
      | some false => (0, acc.2 ++ [(p.time, some "i:-1")])
      | some true => (acc.1 + 1, acc.2 ++ [(p.time, some s!"i:{acc.1 + 1}")])) (0, [])
    ((), ((), [batchOut b r.2])))

/-- `stateCount(lambda: count() % 2 == 0)` batch side: the tracker restarts at BeginBatch, the lambda's `count()` does not. -/
def stateCountFnNodeB : Node Unit Nat Batch Out :=
  batchNode 0 (fun _ cnt b =>
    let r := b.pts.foldl (fun (acc : (Nat × Int) × List (Int × Option String)) p =>
      if (acc.1.1 + 1) % 2 == 0 then ((acc.1.1 + 1, acc.1.2 + 1), acc.2 ++ [(p.time, some s!"i:{acc.1.2 + 1}")])
      else ((acc.1.1 + 1, 0), acc.2 ++ [(p.time, some "i:-1")])) ((cnt, 0), [])
    ((), (r.1.1, [batchOut b r.2])))

/-- `whereGroup` batch side with `lambda: count() % 2 == 1`: the group's `count()` is NOT reset between batches. -/
def whereCountNodeB : Node Unit Nat Batch Out :=
  batchNode 0 (fun _ cnt b =>
    let r := b.pts.foldl (fun (acc : Nat × List (Int × Option String)) p =>
      (acc.1 + 1, if (acc.1 + 1) % 2 == 1 then acc.2 ++ [(p.time, none)] else acc.2)) (cnt, [])
    ((), (r.1, [batchOut b r.2])))

/-- `changeDetectGroup` batch side: `previous = nil` at BeginBatch. -/
def changeDetectNodeB : Node Unit Unit Batch Out :=
  batchNode () (fun _ _ b =>
    let r := b.pts.foldl (fun (acc : Option Val × List (Int × Option String)) p =>
      match p.v with
      | .missing => acc
      | v => if acc.1 == some v then acc else (some v, acc.2 ++ [(p.time, none)])) (none, [])
    ((), ((), [batchOut b r.2])))

/-- `derivativeGroup` batch side (`.as('o')`): `previous = nil` at BeginBatch. -/
def derivativeNodeB : Node Unit Unit Batch Out :=
  batchNode () (fun _ _ b =>
    let r := b.pts.foldl (fun (acc : Option (Float × Int) × List (Int × Option String)) p =>
      match p.v.num? with
      | none => acc
      | some f1 =>
        match acc.1 with
        | none => (some (f1, p.time), acc.2)
        | some (f0, t0) =>
          let elapsed := Float.ofInt (p.time - t0)
          if elapsed == 0 then (some (f1, p.time), acc.2)
          else (some (f1, p.time), acc.2 ++ [(p.time, some (fbits ((f1 - f0) / (elapsed / 1e9))))])) (none, [])
    ((), ((), [batchOut b r.2])))

/-- one `BatchPoint` of `influxqlGroup` (batch side) over an arbitrary `getCreateFn`: the context is realised from the
first point that has the field (`rc = nil` at BeginBatch) -/
def iqlBatchStep (gcf : Cache → Kind → Cache × Option Kind) (m : Method) (tmax : Int) (acc : Cache × Option Ctx) (p : Pt) :
    Cache × Option Ctx :=
  match acc.2 with
  | some c => (acc.1, some (c.aggregate m p.v))
  | none =>
    match p.v.kind? with
    | none => (acc.1, none)
    | some k =>
      let g := gcf acc.1 k
      match g.2 with
      | none => (g.1, none)
      | some f => (g.1, some (({ kind := f, time := tmax } : Ctx).aggregate m p.v))

/-- `EndBatch`: an unrealised context is realised for float64 ("assume float64 since we do not have any data") -/
def iqlBatchFin (gcf : Cache → Kind → Cache × Option Kind) (tmax : Int) (r : Cache × Option Ctx) : Cache × Option Ctx :=
  match r.2 with
  | some c => (r.1, some c)
  | none =>
    let g := gcf r.1 .flt
    (g.1, g.2.map (fun f => { kind := f, time := tmax }))

/-- the result is emitted as a stream point at `tmax` -/
def iqlBatchOut (m : Method) (b : Batch) : Option Ctx → List Out
  | some c => [{ key := b.key, time := b.tmax,
                 proj := if m == .sum && c.kind == .flt then fbits (Float.ofInt c.acc) else s!"i:{c.acc}" }]
  | none => []

def iqlOnBatch (gcf : Cache → Kind → Cache × Option Kind) (m : Method) (γ : Cache) (b : Batch) : Cache × List Out :=
  let fin := iqlBatchFin gcf b.tmax (b.pts.foldl (iqlBatchStep gcf m b.tmax) (γ, none))
  (fin.1, iqlBatchOut m b fin.2)

/-- `influxqlGroup` batch side (`sum` / `count`) with the node-wide createFn cache: `rc = nil` at BeginBatch, the
context is realised from the first point that has the field; at EndBatch an unrealised context is realised for
float64 and the result is emitted as a stream point at `tmax`. -/
def iqlNodeBWith (gcf : Cache → Kind → Cache × Option Kind) (m : Method) : Node Cache Unit Batch Out :=
  batchNode () (fun γ _ b => ((iqlOnBatch gcf m γ b).1, ((), (iqlOnBatch gcf m γ b).2)))

def iqlNodeB (m : Method) : Node Cache Unit Batch Out := iqlNodeBWith (getCreateFn m) m

/-! ### two nodes in a row -/

/-- a window's batch travels on the batch edge under ITS OWN id there (`NewBeginBatchMessage` → `ToGroupID` over the
group's tag keys), not under the stream-edge id of the group that made it -/
def onBatchEdge (gb : GroupID × Batch) : Item Batch := .buffered gb.2.bid gb.2

/-- node A's output, carried over by `conv` (which also says under which group id each message travels), is node B's
input: two demultiplexers in a row -/
def runPipe {ΓA σA π μ ΓB σB μ' ο : Type} (A : Node ΓA σA π μ) (γA : ΓA) (conv : GroupID × μ → Item μ')
    (B : Node ΓB σB μ' ο) (γB : ΓB) (items : List (Item π)) : List (GroupID × ο) :=
  runNode B γB ((runNode A γA items).map conv)

/-! ### windowByTime as a grouped receiver (the window itself is C03's proved model, imported, not re-transcribed)

`WindowNode.NewGroup(group, first)` → `newWindowByTime(first.Name(), first.Time(), group, …)`: one `Kap.C03.TW` per
group. C03's points are (time, identity); here the identity of a point is its arrival index IN ITS GROUP and the
payload is looked up in the group's own arrival list `seen` — nothing is node-wide. -/

structure WinT where
  key : String
  bid : String
  seen : List Pt := []
  tw : Kap.C03.TW
deriving Repr, Inhabited

def winTBatch (w : WinT) (seen : List Pt) (b : Kap.C03.Batch) : Batch :=
  { key := w.key, bid := w.bid, tmax := b.tmax, pts := b.pts.filterMap (fun q => seen[q.id]?) }

def windowTimeNodeB (c : Kap.C03.TCfg) : Node Unit WinT Pt Batch :=
  { newGroup := fun _ _ first => ((), match first with
      | .point _ p => { key := p.key, bid := p.bid, tw := Kap.C03.TW.init c p.time }
      | .barrier _ p => { key := p.key, bid := p.bid, tw := Kap.C03.TW.init c p.time }
      | _ => { key := "", bid := "", tw := Kap.C03.TW.init c 0 }),
    recv := fun _ w m => ((), match m with
      | .point _ p =>
        let seen := w.seen ++ [p]
        let r := w.tw.point { t := p.time, id := w.seen.length }
        ({ w with seen := seen, tw := r.1 }, (r.2.map (winTBatch w seen)).toList)
      | .barrier _ p =>
        let r := w.tw.barrier p.time
        ({ w with tw := r.1 }, (r.2.map (winTBatch w w.seen)).toList)
      | _ => (w, [])) }

/-! ### alert node with its history ring and flapping flag (`alertState.history/idx/flapping/changed`)

`addEvent` (changed, ring write, `updateFlapping`), `percentChange`'s comparisons (`ringDiffs`, loop start `idx+2` as in
today's code) and `alertState.Point`'s suppression `(UseFlapping && flapping) || (IsStateChangesOnly && !changed)`;
no `stateChangesOnly(duration)`, no `noRecoveries`. The weighting arithmetic + hysteresis is the parameter `flap`
(the isolation theorem holds for every `flap`); the code's float64 one is `goFlapDecide`. -/

structure AlertH where
  history : List Nat
  idx : Nat := 0
  flapping : Bool := false
deriving Repr, Inhabited, DecidableEq

/-- the comparisons of `percentChange`, in loop order: `c := (i + idx + 2) % l; p := c - 1` (wrapping) -/
def ringDiffs (h : List Nat) (idx : Nat) : List Bool :=
  (List.range (h.length - 1)).map (fun i =>
    let c := (i + idx + 2) % h.length
    let p := if c == 0 then h.length - 1 else c - 1
    h.getD c 0 != h.getD p 0)

/-- `percentChange` + `updateFlapping` in float64, same operations in the same order as the Go code
(`weight := maxWeight / weightDiff` is a constant expression: exactly 0.8, then rounded) -/
def goFlapDecide (low high : Float) (flapping : Bool) (diffs : List Bool) : Bool :=
  let weight0 : Float := Float.ofBits 0x3FE999999999999A
  let maxW : Float := Float.ofBits 0x3FF3333333333333
  let step := (maxW - weight0) / diffs.length.toFloat
  let r := diffs.foldl (fun (acc : Float × Float) d => (if d then acc.1 + acc.2 else acc.1, acc.2 + step)) (0.0, weight0)
  let p := r.1 / diffs.length.toFloat
  if flapping && p < low then false else if !flapping && p > high then true else flapping

/-- the same decision in exact arithmetic for `history(5)`, `flapping(1/4, 1/2)` (weights 8/10 … 11/10): used by the
non-vacuity examples only (the kernel does not compute floats) -/
def exactFlapDecide5 (flapping : Bool) (diffs : List Bool) : Bool :=
  let s := (diffs.zipIdx.filter (·.1)).foldl (fun a di => a + 8 + di.2) 0     -- 40 · percentChange
  if flapping && s < 10 then false else if !flapping && s > 20 then true else flapping

/-- `addEvent`: returns the new state and `changed` -/
def alertAddEvent (useFlap : Bool) (flap : Bool → List Bool → Bool) (s : AlertH) (l : Nat) : AlertH × Bool :=
  let changed := s.history.getD s.idx 0 != l
  let idx := (s.idx + 1) % s.history.length
  let h := s.history.set idx l
  ({ history := h, idx := idx, flapping := if useFlap then flap s.flapping (ringDiffs h idx) else s.flapping }, changed)

def alertHistNode (thr : Nat → Option Int) (sco useFlap : Bool) (hlen : Nat) (flap : Bool → List Bool → Bool) :
    Node Unit AlertH Pt Out :=
  pureNode { history := List.replicate hlen 0 } (fun s p =>
    let l := determineLevelThr thr p.v (s.history.getD s.idx 0)
    let r := alertAddEvent useFlap flap s l
    if (useFlap && r.1.flapping) || (sco && !r.2) then (r.1, [])
    else if l != 0 || r.2 then (r.1, [{ key := p.key, time := p.time, proj := levelName l }])
    else (r.1, []))

/-! ### alert node, batch side (`alertState.BufferedBatch`, no `.all()`, no flapping / stateChangesOnly)

every point is judged against the level the group had BEFORE the batch; the event level is the highest one; the whole
batch is forwarded with the level written to every point iff `level != OK || changed`; an empty batch does nothing. -/

def alertBatchEmit (cur l : Nat) (b : Batch) : List Out :=
  if l != 0 || cur != l then [batchOut b (b.pts.map (fun p => (p.time, some (levelName l))))] else []

/-- `.crit/.warn/.info(lambda: "v" > T)`: per-group state = current level -/
def alertThrNodeB (thr : Nat → Option Int) : Node Unit Nat Batch Out :=
  batchNode 0 (fun _ cur b =>
    if b.pts.isEmpty then ((), (cur, []))
    else
      let l := (b.pts.map (fun p => determineLevelThr thr p.v cur)).foldl max 0
      ((), (l, alertBatchEmit cur l b)))

/-- `.crit(lambda: P(count()))`: per-group state = (the group's `count()`, current level); `count()` runs on through the
points of a batch and across batches, the level the points are judged against does not -/
def alertCountNodeB (pr : CountPred) : Node Unit (Nat × Nat) Batch Out :=
  batchNode (0, 0) (fun _ s b =>
    if b.pts.isEmpty then ((), (s, []))
    else
      let r := b.pts.foldl (fun (acc : Nat × Nat) _ =>
        let d := alertDetermine pr acc.1 s.2
        (d.1, max acc.2 d.2)) (s.1, 0)
      ((), ((r.1, r.2), alertBatchEmit s.2 r.2 b)))

/-! ### eval node, batch side (`evalGroup.BatchPoint` with `lambda: count() + "v"` `.as('o')`)

the group's `count()` (its CopyReset copy) runs on across the points of a batch and across batches; a point whose
field is missing fails in `fillScope` BEFORE the expression runs (dropped, `count()` untouched); a float field makes
`int + float` a type error found while the operator is being specialised, before `count()` has advanced (dropped,
`count()` untouched — the generator mixes int and float points inside a group so that the run sees this); other
field types are not generated. -/
def evalCountAddNodeB : Node Unit Nat Batch Out :=
  batchNode 0 (fun _ cnt b =>
    let r := b.pts.foldl (fun (acc : Nat × List (Int × Option String)) p =>
      match p.v with
      | .int i => (acc.1 + 1, acc.2 ++ [(p.time, some s!"i:{(acc.1 + 1 : Int) + i}")])
      | .flt _ => acc
      | _ => acc) (cnt, [])
    ((), (r.1, [batchOut b r.2])))

/-! ### groupBy, stream side (`GroupByNode.Point`): a stateless relabelling

`dims.TagNames = computeTagNames(…); p.SetDimensions(dims)` — the point leaves with the id `idf p` (= `ToGroupID` of its
own name / tags / computed dimensions), whatever group it arrived under. -/

def groupByStream {π : Type} (idf : π → GroupID) (pts : List π) : List (GroupID × π) := pts.map (fun p => (idf p, p))

/-! ### recording receiver (ties `Demux.step` to the real `groupedConsumer` on every message type) -/

def recKind : Msg Nat → String
  | .point _ _ => "P" | .barrier _ _ => "R" | .buffered _ _ => "B" | .begin _ _ => "B"
  | .batchPoint _ => "p" | .endBatch _ => "E" | .delete _ _ => "D"

structure RecSt where
  first : String      -- kind of the message `NewGroup` was called with
  n : Nat             -- calls this receiver has seen
deriving Repr, Inhabited

structure RecOut where
  call : String
  n : Nat
  first : String
deriving Repr, Inhabited, DecidableEq

/-- The harness' recording `GroupedReceiver`: a per-group call counter. A buffered batch of `k` points reaches a
plain receiver as `BeginBatch`, `k` × `BatchPoint`, `EndBatch` (`receiveBufferedBatch`). -/
def recNode : Node Unit RecSt Nat RecOut :=
  { newGroup := fun _ _ m => ((), { first := recKind m, n := 0 }),
    recv := fun _ s m => ((),
      let calls := match m with
        | .buffered _ k => "B" :: (List.replicate k "p" ++ ["E"])
        | _ => [recKind m]
      ({ s with n := s.n + calls.length },
       calls.zipIdx.map (fun ci => { call := ci.1, n := s.n + ci.2 + 1, first := s.first }))) }

end Kap.C06
