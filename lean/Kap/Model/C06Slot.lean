/-
C06 — nodes that keep a per-group SLOT TABLE next to the demultiplexer's map: transcription of http_out.go

  HTTPOutNode.newGroup            idx := len(result.Series); Series = append(Series, nil); indexes = append(indexes, g)
  HTTPOutNode.updateResultWithRow if idx >= len(Series) { log; return }; Series[idx] = row
  HTTPOutNode.deleteGroup(idx)    for g in indexes[idx+1:] { g.idx-- }; indexes = indexes[:idx] ++ indexes[idx+1:];
                                  Series likewise
  httpOutGroup.Point / DeleteGroup, driven by edge.groupedConsumer (a group's receiver is created at its first message
  and dropped at its DeleteGroup; a DeleteGroup of an unknown group reaches no receiver).

State: the receivers are OBJECTS shared by the consumer's map and n.indexes; each is modelled as the pair
(group id, its idx field) and `recv` lists them in the order of n.indexes, so "the consumer's receiver of g" is the
entry of `recv` named g. `series` is n.result.Series; a row is the pair (group written in the row's tags, value).
Abstracted: the row's other columns, the batch side (same idx logic through BufferedBatch), the mutex.
-/
namespace Kap.C06.Slot

abbrev Row := String × Int

structure St where
  recv : List (String × Nat)
  series : List (Option Row)
deriving Repr, DecidableEq, Inhabited

inductive Op where
  | point (g : String) (v : Int)
  | delete (g : String)
deriving Repr, DecidableEq, Inhabited

def Op.group : Op → String
  | .point g _ => g
  | .delete g => g

def St.empty : St := ⟨[], []⟩

/-- the idx field of g's receiver (groupedConsumer.groups[g]), if the group is live -/
def find (s : St) (g : String) : Option Nat := (s.recv.find? (fun r => r.1 == g)).map (·.2)

def newGroup (s : St) (g : String) : St :=
  ⟨s.recv ++ [(g, s.series.length)], s.series ++ [none]⟩

def update (s : St) (g : String) (r : Row) : St :=
  match find s g with
  | none => s
  | some i => if i < s.series.length then { s with series := s.series.set i (some r) } else s

def dec (r : String × Nat) : String × Nat := (r.1, r.2 - 1)

/-- deleteGroup(idx) as the code has it: renumber indexes[idx+1:], then splice both slices -/
def deleteAt (s : St) (i : Nat) : St :=
  ⟨s.recv.take i ++ (s.recv.drop (i + 1)).map dec, s.series.eraseIdx i⟩

/-- a deleteGroup that splices first and then renumbers the SAME range [idx+1:] of the spliced slice: the receiver
that moved into position idx keeps its old number (the regression this part of the check was built after) -/
def deleteAtSplicedFirst (s : St) (i : Nat) : St :=
  let r := s.recv.eraseIdx i
  ⟨r.take (i + 1) ++ (r.drop (i + 1)).map dec, s.series.eraseIdx i⟩

def stepWith (del : St → Nat → St) (s : St) : Op → St
  | .point g v =>
    let s1 := if (find s g).isNone then newGroup s g else s
    update s1 g (g, v)
  | .delete g =>
    match find s g with
    | none => s
    | some i => del s i

def step : St → Op → St := stepWith deleteAt
def run (h : List Op) : St := h.foldl step St.empty
def runWith (del : St → Nat → St) (h : List Op) : St := h.foldl (stepWith del) St.empty

/-- what GET /tasks/<id>/<endpoint> answers: the rows of the series in slot order (nil entries carry no row) -/
def served (s : St) : List Row := s.series.filterMap id

/-- the rows served under group g's tags -/
def servedFor (s : St) (g : String) : List Row := (served s).filter (fun r => r.1 == g)

end Kap.C06.Slot
