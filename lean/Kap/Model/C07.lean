/-
C07 — executable model of the graceful-stop protocol of a stream task, as a transition system.

Transcribed from (snapshot ef0888e + fix commits):
  * task_master.go   WritePoints (a point is ACCEPTED when it sits in the `write_points` edge), runForking /
                     forkPoint (takes tm.mu.RLock, Collects into the task's source edge while it is registered,
                     drops the point otherwise), StopTask/DeleteTask (tm.mu.Lock held from delFork to the end
                     of ExecutingTask.stop), Close (Drain = close write_points, wait for the fork goroutine,
                     delFork; then stop every task), delFork (closes the source edge once)
  * task.go          ExecutingTask.stop: close(et.stopping); per node IN WALK ORDER stop() then Wait();
                     et.wg.Wait() (calcThroughput)
  * node.go          node.start: runF; on exit ALWAYS closeChildEdges, on error abortParentEdges; errCh
  * edge/edge.go     channelEdge: bounded FIFO (`cap`), Close delivers the backlog then EOF, Abort makes
                     Collect return ErrAborted (random select against a free slot), Close of an aborted edge fails
  * stream.go / edge/consumer.go   Emit one message, hand it to the receiver, Collect it into the child edge
  * influxdb_out.go  Point → write → writeBuffer.enqueue (select queue<- / <-stopping), writeBuffer.run
                     (queue → buffer, write at size B, flush request, ticker, stopping); flush(); abort() by the
                     deferred stopBuffer of runOut since repair 4fb4805 (`Cfg.influxEarlyAbort` = the code before:
                     stopOut = flush(); abort() called by ExecutingTask.stop)
  * alert.go / alert/topics.go  runAlert: registerDeleteHookForTask, consume (event → bufHandler.Handle,
                     non-blocking, queue of H events), then CloseTopic (bufHandler.Close: close(events), wait
                     for the handler goroutine to drain) — also on the error path since repair d61e6a5
                     (`Cfg.alertLeak`/`Cfg.hookLock` = true give the code before the repairs, for the
                     counterexample theorems)
  * http_post.go     doPost synchronously, then forward          (kind `post`)
  * udf.go           stopUDF = udf.Abort: the reader goroutine stops reading its input edge; ErrAborted from a
                     child edge makes the node fail like every other node since the repair of finding
                     udf-above-failed-node-blocks-stop (the forwarding goroutine tells the writing goroutine to stop,
                     discards the rest of the UDF's output, runUDF closes the UDF and returns the error; the model fails
                     the node at once, the real node when its writing goroutine next looks: at the next message or at
                     the end of its input). `Cfg.udfFwdOrphan` = true gives the code before: only the FORWARDING
                     goroutine ended (`fwdDead`), the node kept running (kind `udf`). runUDF joins its forwarding
                     goroutine on every return path (repair of finding failed-udf-forwarder-not-joined): the failing
                     node `fail K` (a UDF whose process dies after K messages) is ONE process here, which is what the
                     repaired code amounts to - the K-th message is in the child edge before the node returns; the
                     code before the repair (the process dies while the forwarding goroutine still holds a message,
                     the node returns, the child edge is closed under that goroutine) has no counterpart in this model
  * kapacitor_loopback.go  Point → TaskMaster.WriteKapacitorPoint → the SAME write_points edge    (kind `loop`)
  * barrier.go       idleBarrier / periodicBarrier: timer goroutines per group, stopped and joined by the deferred
                     stopBarrierEmitter of runF; with delete(TRUE) emitBarrier collects a DeleteGroup message into
                     the node's own input edge (kind `barrier`; barrier/delete messages are control messages and
                     not counted)

Abstractions (see checks/C07.json): messages are indistinguishable points (counts, FIFO edges); a pipeline is a
CHAIN (node i feeds node i+1) in this file; trees (forks: several child edges per node) are Model/C07Tree.lean, which reuses
the node processes and the stopping goroutine defined here; joins/unions (several parents) are not modelled; every node passes every point on; external calls
(cli.Write, Handler.Handle, the HTTP POST) are atomic — a slow output is a schedule that delays that action;
`flush()` (request + writeAll + acknowledgement) is one action; the writer is quiescent once the stop is
requested (points accepted after the stop are outside the property); the UDF process is one stage.

Scheduling = nondeterministic choice among enabled actions: `step s a = none` means `a` is not enabled in `s`.
A schedule is a list of actions. Ghost fields (`ent`, `got`, `lost`, `lostIngest`, `accepted`) only count.
-/
namespace Kap.C07

/-- Node kinds. `pass` = stream source / from / where(TRUE) / eval …; `post` = httpPost (synchronous output,
then forwards); `alert H` = alert node with one anonymous-topic handler whose queue holds `H` events;
`influx B` = influxDBOut with buffer size `B`; `udf` = UDF node (stop aborts it; the recording sink counts as
its output); `fail K` = a node whose runF returns an error after forwarding `K` messages; `loop` =
kapacitorLoopback. -/
inductive Kind where
  | pass | post | alert (H : Nat) | influx (B : Nat) | udf | fail (K : Nat) | loop | barrier (del : Bool)
  deriving DecidableEq, Repr, Inhabited

/-- One node process together with ITS INPUT edge and its helper goroutine (writeBuffer.run / bufHandler.run). -/
structure Nd where
  kind : Kind
  inq : Nat := 0            -- messages buffered in the input edge
  ent : Nat := 0            -- ghost: messages ever collected into the input edge
  inClosed : Bool := false  -- input edge closed (EOF after the backlog)
  inAborted : Bool := false -- input edge aborted
  hand : Nat := 0           -- message taken and not yet passed on (0/1)
  got : Nat := 0            -- ghost: messages taken off the input edge
  deliv : Nat := 0          -- points handed to the external output of this node
  lost : Nat := 0           -- ghost: points lost on the OUTPUT side (enqueue on stopping, buffer discarded at abort, handler queue overflow, loop-back refused)
  dropped : Nat := 0        -- ghost: points lost on the FORWARD side (message in hand when Collect returned ErrAborted / when the node failed)
  buf : Nat := 0            -- influx: points in writeBuffer.buffer; alert: events queued in the bufHandler
  inited : Bool := false    -- alert: delete hook registered (needs tm.mu in the unrepaired code)
  stopping : Bool := false  -- influx: w.stopping closed; udf: aborted; alert: events channel closed (CloseTopic)
  helperDone : Bool := false -- influx: writeBuffer.run returned; alert: bufHandler.run returned
  fwdDead : Bool := false   -- udf: the forwarding goroutine got ErrAborted and returned; nothing reads udf.Out any more
  failed : Bool := false    -- runF is returning an error
  done : Bool := false      -- node goroutine finished (errCh written)
  panicked : Bool := false  -- ghost: a helper goroutine of this node sent on a closed channel (the process dies)
  owed : Nat := 0           -- TREE model only (Model/C07Tree.lean): the parent's forward loop still has to Collect the message it holds into THIS input edge (0/1); the chain model never touches it
  deriving DecidableEq, Repr, Inhabited

def isBarrier : Kind → Bool
  | .barrier _ => true
  | _ => false

/-- Does the node own a helper goroutine? -/
def Kind.hasHelper : Kind → Bool
  | .alert _ | .influx _ | .barrier _ => true
  | _ => false

/-- Actions of a node (and of its helper goroutine). -/
inductive NAct where
  | init        -- alert: registerDeleteHookForTask
  | take        -- Emit from the input edge and process (post/udf: deliver; alert: Handle; fail: maybe error)
  | put         -- pass the message on: Collect into the child edge / enqueue into the write buffer / loop back
  | putErr      -- Collect returned ErrAborted (child edge aborted): the node fails
  | enqDrop     -- influx: enqueue chose `<-w.stopping`: the point is dropped
  | closeOut    -- alert: CloseTopic → close(events)
  | exit        -- runF returns: close child edges, abort parent edges on error, errCh
  | tick        -- influx: flush ticker fired with a non-empty buffer → writeAll
  | handle      -- alert: handler goroutine delivers one queued event
  | helperExit  -- influx: run sees `<-w.stopping`; alert: run sees the closed, drained queue
  | timerFire   -- barrier with delete: a timer goroutine collects DeleteGroup into the node's own, already closed, input edge
  deriving DecidableEq, Repr, Inhabited

/-- What a node action needs to know about the TaskMaster. -/
structure Env where
  cap : Nat
  hookLock : Bool        -- registerDeleteHookForTask takes tm.mu (code before repair 97356b1)
  alertLeak : Bool       -- a failed alert node returns without CloseTopic (code before repair d61e6a5)
  barrierGuard : Bool    -- the barrier timers use Edge.CollectUnlessClosed (repair e30c0fb)
  influxEarlyAbort : Bool -- influxDBOut flushes+aborts its write buffer in stop() (code before repair 4fb4805)
  udfFwdOrphan : Bool    -- ErrAborted from a child edge only ends the forwarding goroutine of a UDF node (code before the repair)
  tmLockFree : Bool      -- tm.mu is neither held for writing nor for reading
  ingestSpace : Bool     -- the write_points edge has a free slot
  writesClosed : Bool    -- TaskMaster.writesClosed

/-- Result of a node action: the node, its child (if any), and whether a point was looped into write_points. -/
structure NRes where
  nd : Nd
  child : Option Nd
  looped : Bool := false

/-- Close the input edge of a child (edge.Close: fails on an aborted edge). -/
def closeIn (c : Nd) : Nd := if c.inAborted then c else { c with inClosed := true }

/-- runF returns normally: the input edge is closed and drained (alert: and CloseTopic has returned;
udf: or the UDF was aborted). -/
def exitOk (env : Env) (nd : Nd) : Bool :=
  match nd.kind with
  | .alert _ => nd.hand = 0 ∧ nd.inq = 0 ∧ nd.inClosed ∧ nd.helperDone
  | .influx _ => nd.hand = 0 ∧ nd.inq = 0 ∧ nd.inClosed ∧ (env.influxEarlyAbort ∨ nd.helperDone)
  | .udf => (nd.hand = 0 ∧ ((nd.inq = 0 ∧ nd.inClosed) ∨ nd.stopping)) ∨ (nd.stopping ∧ nd.fwdDead)
  | _ => nd.hand = 0 ∧ nd.inq = 0 ∧ nd.inClosed

/-- runF returns an error (repaired alert node: after CloseTopic). -/
def exitFailedOk (env : Env) (nd : Nd) : Bool :=
  match nd.kind with
  | .alert _ => env.alertLeak ∨ nd.helperDone
  | .influx _ => env.influxEarlyAbort ∨ nd.helperDone
  | _ => true

/-- One action of node `nd` whose child (next node in the chain) is `child`. -/
def nodeStep (env : Env) (a : NAct) (nd : Nd) (child : Option Nd) : Option NRes :=
  match a with
  -- helper goroutines (they outlive the node goroutine)
  | .tick =>
    match nd.kind with
    | .influx _ => if nd.buf > 0 ∧ !nd.helperDone then some ⟨{ nd with deliv := nd.deliv + nd.buf, buf := 0 }, child, false⟩ else none
    | _ => none
  | .handle =>
    match nd.kind with
    | .alert _ => if nd.buf > 0 ∧ !nd.helperDone then some ⟨{ nd with buf := nd.buf - 1, deliv := nd.deliv + 1 }, child, false⟩ else none
    | _ => none
  | .helperExit =>
    match nd.kind with
    | .influx _ => if nd.stopping ∧ !nd.helperDone then some ⟨{ nd with helperDone := true, lost := nd.lost + nd.buf, buf := 0 }, child, false⟩ else none
    | .alert _ => if nd.stopping ∧ nd.buf = 0 ∧ !nd.helperDone then some ⟨{ nd with helperDone := true }, child, false⟩ else none
    | _ => none
  -- the node goroutine
  | .init =>
    match nd.kind with
    | .alert _ =>
      if !nd.done ∧ !nd.inited ∧ !nd.failed ∧ (!env.hookLock ∨ env.tmLockFree) then some ⟨{ nd with inited := true }, child, false⟩ else none
    | _ => none
  | .take =>
    if !nd.done ∧ nd.hand = 0 ∧ nd.inq > 0 ∧ !nd.failed then
      match nd.kind with
      | .pass | .influx _ | .loop | .barrier _ => some ⟨{ nd with inq := nd.inq - 1, got := nd.got + 1, hand := 1 }, child, false⟩
      | .post => some ⟨{ nd with inq := nd.inq - 1, got := nd.got + 1, hand := 1, deliv := nd.deliv + 1 }, child, false⟩
      | .udf => if nd.stopping then none else some ⟨{ nd with inq := nd.inq - 1, got := nd.got + 1, hand := 1, deliv := nd.deliv + 1 }, child, false⟩
      | .alert H =>
        if !nd.inited then none
        else if nd.buf < H then some ⟨{ nd with inq := nd.inq - 1, got := nd.got + 1, hand := 1, buf := nd.buf + 1 }, child, false⟩
        else some ⟨{ nd with inq := nd.inq - 1, got := nd.got + 1, hand := 1, lost := nd.lost + 1 }, child, false⟩
      | .fail K =>
        if nd.got < K then some ⟨{ nd with inq := nd.inq - 1, got := nd.got + 1, hand := 1 }, child, false⟩
        else some ⟨{ nd with inq := nd.inq - 1, got := nd.got + 1, failed := true, dropped := nd.dropped + 1 }, child, false⟩
    else none
  | .put =>
    if !nd.done ∧ nd.hand = 1 ∧ !nd.failed then
      match nd.kind with
      | .influx B =>
        if nd.helperDone then none
        else if nd.buf + 1 ≥ B then some ⟨{ nd with hand := 0, deliv := nd.deliv + (nd.buf + 1), buf := 0 }, child, false⟩
        else some ⟨{ nd with hand := 0, buf := nd.buf + 1 }, child, false⟩
      | .loop =>
        if env.writesClosed then some ⟨{ nd with hand := 0, lost := nd.lost + 1 }, child, false⟩
        else if env.ingestSpace then some ⟨{ nd with hand := 0 }, child, true⟩
        else none
      | _ =>
        if nd.fwdDead then none else
        match child with
        | none => some ⟨{ nd with hand := 0 }, none, false⟩
        | some c =>
          if c.inq < env.cap then some ⟨{ nd with hand := 0 }, some { c with inq := c.inq + 1, ent := c.ent + 1 }, false⟩
          else none
    else none
  | .putErr =>
    match nd.kind, child with
    | .influx _, _ => none
    | .loop, _ => none
    | .udf, some c =>
      if env.udfFwdOrphan then
        -- UDFNode before the repair: only the forwarding goroutine sees ErrAborted; it returns, the node itself keeps
        -- running until its input ends or the UDF is aborted, and nothing reads the UDF's output any more
        if !nd.done ∧ nd.hand = 1 ∧ !nd.failed ∧ !nd.fwdDead ∧ c.inAborted then
          some ⟨{ nd with hand := 0, dropped := nd.dropped + 1, fwdDead := true }, child, false⟩ else none
      -- repaired: the node stops feeding the UDF, closes it and returns the forwarding error, like every other node
      else if !nd.done ∧ nd.hand = 1 ∧ !nd.failed ∧ c.inAborted then some ⟨{ nd with hand := 0, dropped := nd.dropped + 1, failed := true }, child, false⟩ else none
    | _, some c =>
      if !nd.done ∧ nd.hand = 1 ∧ !nd.failed ∧ c.inAborted then some ⟨{ nd with hand := 0, dropped := nd.dropped + 1, failed := true }, child, false⟩ else none
    | _, none => none
  | .enqDrop =>
    match nd.kind with
    | .influx _ => if !nd.done ∧ nd.hand = 1 ∧ nd.stopping then some ⟨{ nd with hand := 0, lost := nd.lost + 1 }, child, false⟩ else none
    | _ => none
  | .closeOut =>
    match nd.kind with
    | .alert _ =>
      if !nd.done ∧ ((nd.hand = 0 ∧ nd.inq = 0 ∧ nd.inClosed ∧ !nd.failed) ∨ (nd.failed ∧ !env.alertLeak)) ∧ nd.inited ∧ !nd.stopping then
        some ⟨{ nd with stopping := true }, child, false⟩ else none
    | .influx _ =>
      -- the deferred stopBuffer of runOut (repaired code): flush() then abort() closes w.stopping
      if !env.influxEarlyAbort ∧ !nd.done ∧ ((nd.hand = 0 ∧ nd.inq = 0 ∧ nd.inClosed ∧ !nd.failed) ∨ nd.failed) ∧ !nd.stopping then
        some ⟨{ nd with deliv := nd.deliv + nd.buf, buf := 0, stopping := true }, child, false⟩ else none
    | _ => none
  | .exit =>
    -- (the barrier node's deferred stopBarrierEmitter stops and joins its timers on both paths)
    if nd.done then none
    else if nd.failed then
      if exitFailedOk env nd then
        some ⟨{ nd with done := true, inAborted := true, helperDone := nd.helperDone || isBarrier nd.kind }, child.map closeIn, false⟩ else none
    else if exitOk env nd then
      -- (an aborted UDF whose forwarding goroutine is gone drops the message it still holds)
      some ⟨{ nd with done := true, hand := 0, dropped := nd.dropped + nd.hand, helperDone := nd.helperDone || isBarrier nd.kind }, child.map closeIn, false⟩
    else none
  | .timerFire =>
    -- emitBarrier: `n.in.Collect(DeleteGroup)` on the input edge the parent has closed = send on closed channel.
    -- (with the guard the send returns ErrAborted and nothing changes; fires on an open edge only add control
    -- messages, which the model does not count: both are stutter steps and omitted)
    match nd.kind with
    | .barrier true =>
      if !nd.helperDone ∧ nd.got > 0 ∧ nd.inClosed ∧ !nd.panicked ∧ !env.barrierGuard then some ⟨{ nd with panicked := true }, child, false⟩ else none
    | _ => none

/-- Apply a node action at position `i` of the chain. Returns the new chain and whether a point was looped. -/
def stepAt (env : Env) (a : NAct) : Nat → List Nd → Option (List Nd × Bool)
  | _, [] => none
  | 0, [nd] =>
    match nodeStep env a nd none with
    | some r => some ([r.nd], r.looped)
    | none => none
  | 0, nd :: c :: rest =>
    match nodeStep env a nd (some c) with
    | some r => some (r.nd :: (r.child.getD c) :: rest, r.looped)
    | none => none
  | i + 1, nd :: rest =>
    match stepAt env a i rest with
    | some (rest', l) => some (nd :: rest', l)
    | none => none

/-- Phases of the goroutine that executes the stop (StopTask / DeleteTask / Close). -/
inductive Ph where
  | idle                 -- no stop requested yet
  | closeIngest          -- Close: waitForForks: writesClosed := true; close(write_points)
  | waitFork             -- Close: tm.wg.Wait()
  | wantLock             -- tm.mu.Lock()
  | delFork              -- delFork: close the source edge, unregister
  | etStop               -- ExecutingTask.stop: close(et.stopping)
  | stopF (i : Nat)      -- nodes[i].stop()      (influx: flush(); udf: Abort)
  | flushed (i : Nat)    -- influx: flush() returned; next: abort() closes w.stopping
  | wbWait (i : Nat)     -- influx: abort(): w.wg.Wait()
  | wait (i : Nat)       -- nodes[i].Wait()
  | wgWait               -- et.wg.Wait()
  | unlock               -- return; tm.mu.Unlock()
  | finished
  deriving DecidableEq, Repr, Inhabited

/-- Static configuration. -/
structure Cfg where
  cap : Nat              -- edge buffer size (defaultEdgeBufferSize = 1000 in the code)
  viaClose : Bool        -- TaskMaster.Close (Drain first) instead of StopTask/DeleteTask
  hookLock : Bool        -- AlertNode registers its delete hook under tm.mu (true = code before repair 97356b1)
  alertLeak : Bool       -- a failed AlertNode does not close its topic (true = code before repair d61e6a5)
  barrierGuard : Bool := true  -- barrier timers guard their send into the input edge (false = code before repair e30c0fb)
  influxEarlyAbort : Bool := false -- influxDBOut.stop() = flush()+abort() (true = code before repair 4fb4805; since then the
                                   -- deferred stopBuffer of runOut does it when the input has been consumed)
  udfFwdOrphan : Bool := false  -- a UDF node whose child edge was aborted only loses its forwarding goroutine (true = code
                                -- before the repair of finding udf-above-failed-node-blocks-stop)
  deriving DecidableEq, Repr, Inhabited

structure State where
  toWrite : Nat          -- points the writer still wants to write
  accepted : Nat := 0    -- ghost: WritePoints calls that returned nil
  ingest : Nat := 0      -- task points buffered in the write_points edge
  ingestL : Nat := 0     -- looped points (other db/rp) buffered in the write_points edge
  ingestClosed : Bool := false
  forkHand : Nat := 0    -- point taken by runForking (0/1)
  forkLoop : Nat := 0    -- looped point taken by runForking (0/1)
  forkRL : Bool := false -- forkPoint holds tm.mu.RLock
  forkDone : Bool := false
  registered : Bool := true
  lostIngest : Nat := 0  -- ghost: accepted points dropped by forkPoint (task no longer registered / source edge aborted)
  lockHeld : Bool := false
  etStopping : Bool := false
  thrDone : Bool := false
  ph : Ph := .idle
  nodes : List Nd
  deriving DecidableEq, Repr, Inhabited

/-- Global actions. -/
inductive Act where
  | write            -- WritePoints: one point into write_points
  | forkTake         -- runForking: EmitPoint
  | forkLock         -- forkPoint: tm.mu.RLock()
  | forkPut          -- forkPoint: Collect into the source edge (or drop when unregistered); RUnlock
  | forkDrop         -- forkPoint: Collect returned ErrAborted (source edge aborted); RUnlock
  | forkExit         -- runForking returns (write_points closed and empty)
  | stop             -- the next step of the stopping goroutine (the first one = the stop request)
  | thrExit          -- calcThroughput sees et.stopping
  | node (i : Nat) (a : NAct)
  deriving DecidableEq, Repr, Inhabited

def modifyNth (l : List Nd) (i : Nat) (f : Nd → Nd) : List Nd :=
  match l, i with
  | [], _ => []
  | nd :: rest, 0 => f nd :: rest
  | nd :: rest, i + 1 => nd :: modifyNth rest i f

def Ph.wantsLock : Ph → Bool
  | .wantLock => true
  | _ => false

/-- The phase after `nodes[i].stop()` resp. after `nodes[i].Wait()`. -/
def afterWait (n i : Nat) : Ph := if i + 1 < n then .stopF (i + 1) else .wgWait

def env (cfg : Cfg) (s : State) : Env :=
  { cap := cfg.cap, hookLock := cfg.hookLock, alertLeak := cfg.alertLeak, barrierGuard := cfg.barrierGuard, influxEarlyAbort := cfg.influxEarlyAbort, udfFwdOrphan := cfg.udfFwdOrphan, tmLockFree := !s.lockHeld ∧ !s.forkRL,
    ingestSpace := s.ingest + s.ingestL < cfg.cap, writesClosed := s.ingestClosed }

/-- The stopping goroutine. -/
def stopStep (cfg : Cfg) (s : State) : Option State :=
  match s.ph with
  | .idle => some { s with ph := if cfg.viaClose then .closeIngest else .wantLock }
  | .closeIngest => some { s with ingestClosed := true, ph := .waitFork }
  | .waitFork => if s.forkDone then some { s with ph := .wantLock } else none
  | .wantLock => if !s.forkRL ∧ !s.lockHeld then some { s with lockHeld := true, ph := .delFork } else none
  | .delFork => some { s with registered := false, nodes := modifyNth s.nodes 0 closeIn, ph := .etStop }
  | .etStop => some { s with etStopping := true, ph := if s.nodes.isEmpty then .wgWait else .stopF 0 }
  | .stopF i =>
    match s.nodes[i]? with
    | none => none
    | some nd =>
      match nd.kind with
      | .influx _ =>
        if !cfg.influxEarlyAbort then some { s with ph := .wait i }   -- repaired code: no stop function
        -- flush(): needs writeBuffer.run in its select; writeAll; acknowledgement
        else if nd.helperDone then none
        else some { s with nodes := modifyNth s.nodes i (fun nd => { nd with deliv := nd.deliv + nd.buf, buf := 0 }), ph := .flushed i }
      | .udf => some { s with nodes := modifyNth s.nodes i (fun nd => { nd with stopping := true }), ph := .wait i }
      | _ => some { s with ph := .wait i }
  | .flushed i => some { s with nodes := modifyNth s.nodes i (fun nd => { nd with stopping := true }), ph := .wbWait i }
  | .wbWait i =>
    match s.nodes[i]? with
    | some nd => if nd.helperDone then some { s with ph := .wait i } else none
    | none => none
  | .wait i =>
    match s.nodes[i]? with
    | some nd => if nd.done then some { s with ph := afterWait s.nodes.length i } else none
    | none => none
  | .wgWait => if s.thrDone then some { s with ph := .unlock } else none
  | .unlock => some { s with lockHeld := false, ph := .finished }
  | .finished => none

/-- One step of the whole system; `none` = the action is not enabled. -/
def step (cfg : Cfg) (s : State) : Act → Option State
  | .write =>
    if s.toWrite > 0 ∧ s.ph = .idle ∧ !s.ingestClosed ∧ s.ingest + s.ingestL < cfg.cap then
      some { s with toWrite := s.toWrite - 1, accepted := s.accepted + 1, ingest := s.ingest + 1 }
    else none
  | .forkTake =>
    -- the write_points edge is FIFO; the model takes task points before looped points
    if s.forkHand = 0 ∧ s.forkLoop = 0 ∧ !s.forkDone then
      if s.ingest > 0 then some { s with ingest := s.ingest - 1, forkHand := 1 }
      else if s.ingestL > 0 then some { s with ingestL := s.ingestL - 1, forkLoop := 1 }
      else none
    else none
  | .forkLock =>
    -- a blocked Lock() excludes new readers (sync.RWMutex)
    if (s.forkHand = 1 ∨ s.forkLoop = 1) ∧ !s.forkRL ∧ !s.lockHeld ∧ !s.ph.wantsLock then some { s with forkRL := true } else none
  | .forkPut =>
    if s.forkRL then
      if s.forkLoop = 1 then some { s with forkLoop := 0, forkRL := false }   -- no task subscribes to the loop-back db/rp
      else if s.forkHand = 1 then
        if !s.registered then some { s with forkHand := 0, forkRL := false, lostIngest := s.lostIngest + 1 }
        else
          match s.nodes with
          | [] => none
          | nd :: rest =>
            if nd.inq < cfg.cap then some { s with forkHand := 0, forkRL := false, nodes := { nd with inq := nd.inq + 1, ent := nd.ent + 1 } :: rest }
            else none
      else none
    else none
  | .forkDrop =>
    if s.forkRL ∧ s.forkHand = 1 ∧ s.registered then
      match s.nodes with
      | nd :: _ => if nd.inAborted then some { s with forkHand := 0, forkRL := false, lostIngest := s.lostIngest + 1 } else none
      | [] => none
    else none
  | .forkExit =>
    if s.forkHand = 0 ∧ s.forkLoop = 0 ∧ s.ingest = 0 ∧ s.ingestL = 0 ∧ s.ingestClosed ∧ !s.forkDone then some { s with forkDone := true } else none
  | .stop => stopStep cfg s
  | .thrExit => if s.etStopping ∧ !s.thrDone then some { s with thrDone := true } else none
  | .node i a =>
    match stepAt (env cfg s) a i s.nodes with
    | some (ns, looped) => some { s with nodes := ns, ingestL := if looped then s.ingestL + 1 else s.ingestL }
    | none => none

def mkNd (k : Kind) : Nd := { kind := k, helperDone := !k.hasHelper }

/-- Initial state: the task is started, nothing written yet. -/
def init (kinds : List Kind) (toWrite : Nat) : State :=
  { toWrite := toWrite, nodes := kinds.map mkNd }

/-- Run a schedule; actions that are not enabled are skipped (`runStrict` refuses them). -/
def run (cfg : Cfg) (s : State) : List Act → State
  | [] => s
  | a :: as => match step cfg s a with
    | some s' => run cfg s' as
    | none => run cfg s as

def runStrict (cfg : Cfg) (s : State) : List Act → Option State
  | [] => some s
  | a :: as => match step cfg s a with
    | some s' => runStrict cfg s' as
    | none => none

/-- All candidate actions of a state (every action enabled in `s` is in this list). -/
def nactAll : List NAct := [.init, .take, .put, .putErr, .enqDrop, .closeOut, .exit, .tick, .handle, .helperExit, .timerFire]

def allActs (s : State) : List Act :=
  [.write, .forkTake, .forkLock, .forkPut, .forkDrop, .forkExit, .stop, .thrExit] ++
  (List.range s.nodes.length).flatMap (fun i => nactAll.map (fun a => Act.node i a))

def enabledActs (cfg : Cfg) (s : State) : List Act := (allActs s).filter (fun a => (step cfg s a).isSome)

/-- The stop has returned and every goroutine of the task is gone. -/
def State.stopped (s : State) : Bool :=
  s.ph = .finished ∧ s.thrDone ∧ s.nodes.all (fun nd => nd.done ∧ nd.helperDone)

end Kap.C07
