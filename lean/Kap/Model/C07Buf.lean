/-
C07 — a BUFFERING merging node at a graceful stop: the join node with an outer fill (join.go).

Transcribed from join.go (one group, stream edges, distinct tolerance-rounded timestamps 0, 1, 2 …):
  * joinGroup.Collect      the point of parent `src` at time `t` is put into the set of `t` (created when missing),
                           `g.head[src] = t`, then `g.emit(g.checkOnlyReadSets())`
  * joinGroup.checkOnlyReadSets   `onlyReadySets` = some parent head is NOT after `g.oldestTime` (a head that has never
                           been set is the zero time)
  * joinGroup.emit(only)   nothing buffered: return; the oldest set is emitted when it is Ready (every parent has a
                           point in it) or when `only` is false, otherwise it stays; `g.oldestTime` moves to the oldest
                           remaining set; when `only` was false: `only = checkOnlyReadSets(); return g.emit(only)`
  * joinGroup.emitAll      `for len(g.sets) > 0 { g.emit(false) }` — what JoinNode.Finish runs for every group once ALL
                           parent edges are closed (graceful StopTask / DeleteTask / TaskMaster.Close), before runJoin
                           returns and node.start closes the child edges. `flushOnce = true` is the seeded change C07-4
                           (`return g.emit(false)`, once).
  * joinset.JoinIntoPoint  with `.fill(<value>)` (OUTER join) a set some parent has no point for is emitted with that
                           parent's fields filled: every emitted set is one output point. (With the default INNER join
                           an incomplete set is emitted as nothing: not modelled, the harness uses the outer form.)

Abstraction: two parents; the LEADING parent `a` delivers the points of the timestamps 0 … n-1, the LAGGING parent `b`
only those of 0 … m-1 (its branch filters the rest out), each in time order; so the sets are the timestamps below
`max a b` (a, b = points arrived so far), they are emitted oldest first, and `e` = number of sets emitted (= output
points handed to the child edge) is all the state there is. Tied to the real JoinNode by the driver on every `=ojoin:<lag>`
case (harness: two branches of one stream task joined with .fill(0.0), sink below): the output below the join must have
been handed exactly `e` points when the stop has returned.
-/
namespace Kap.C07.Buf

structure J where
  n : Nat              -- points the leading parent delivers (accepted points)
  m : Nat              -- points the lagging parent delivers
  a : Nat := 0         -- points of the leading parent collected so far
  b : Nat := 0         -- points of the lagging parent collected so far
  e : Nat := 0         -- sets emitted (a prefix in time order) = points handed to the child edge
  done : Bool := false -- Finish has run, runJoin returns, the child edge is closed
  deriving DecidableEq, Repr, Inhabited

/-- sets still buffered -/
def J.pending (s : J) : Nat := max s.a s.b - s.e

/-- checkOnlyReadSets: some head is not after the oldest buffered time `e` (head of a parent = its count - 1) -/
def checkOnly (s : J) : Bool := !(decide (s.e + 2 ≤ s.a) && decide (s.e + 2 ≤ s.b))

/-- joinGroup.emit (the recursion of the Go code, bounded by the number of buffered sets) -/
def emit : Nat → Bool → J → J
  | 0, _, s => s
  | f + 1, only, s =>
    if max s.a s.b ≤ s.e then s else
    let ready := decide (s.e < s.a) && decide (s.e < s.b)
    let s1 := if ready || !only then { s with e := s.e + 1 } else s
    if !only then emit f (checkOnly s1) s1 else s1

/-- joinGroup.emitAll: `for len(g.sets) > 0 { g.emit(false) }` -/
def emitAll : Nat → J → J
  | 0, s => s
  | f + 1, s => if max s.a s.b ≤ s.e then s else emitAll f (emit (s.pending + 1) false s)

inductive Act where
  | a        -- a point of the leading parent arrives
  | b        -- a point of the lagging parent arrives
  | finish   -- every parent edge is closed: JoinNode.Finish, then the node returns
  deriving DecidableEq, Repr, Inhabited

/-- `flushOnce` = the seeded change C07-4: emitAll calls emit(false) once. -/
def step (flushOnce : Bool) (s : J) : Act → Option J
  | .a => if !s.done ∧ s.a < s.n then
      let s1 := { s with a := s.a + 1 }
      some (emit (s1.pending + 1) (checkOnly s1) s1) else none
  | .b => if !s.done ∧ s.b < s.m then
      let s1 := { s with b := s.b + 1 }
      some (emit (s1.pending + 1) (checkOnly s1) s1) else none
  | .finish => if !s.done ∧ s.a = s.n ∧ s.b = s.m then
      let s1 := if flushOnce then emit (s.pending + 1) false s else emitAll (s.pending + 1) s
      some { s1 with done := true } else none

def run (flushOnce : Bool) (s : J) : List Act → J
  | [] => s
  | x :: xs => match step flushOnce s x with
    | some s' => run flushOnce s' xs
    | none => run flushOnce s xs

def init (n m : Nat) : J := { n := n, m := m }

/-- the canonical schedule the driver replays: the parents alternate, then Finish -/
def canon (n : Nat) : List Act := (List.replicate n [Act.a, Act.b]).flatten ++ [.finish]

end Kap.C07.Buf
