/-
C07 — the stop protocol on TREES (a node may have several CHILD edges; every node still has one parent edge).

Same node processes, same TaskMaster / stop goroutine as the chain model (Model/C07.lean: `Nd`, `nodeStep`,
`stopStep`, the fork goroutine …); what is new is transcribed from

  * task.go            ExecutingTask.link: `et.nodes` = Pipeline.Walk order (pipeline.go sort(): reverse post-order of
                       a DFS, a topological order: every node comes after its parent); `ep.linkChild(en)` is called
                       in that order, so `n.outs` lists the child edges of a node in WALK ORDER;
                       ExecutingTask.stop walks `et.nodes` in that order (stop(); Wait())
  * edge/forwarding.go forwardingReceiver.forward: `for _, out := range fr.outs { if err := out.Collect(msg); err != nil
                       { return err } }` — ONE message is collected into the child edges one after the other, in the
                       order of `outs`; a full child edge blocks the loop there, an aborted one ends it with ErrAborted
                       (the children after it never see the message, the node fails)
  * node.go            node.start: on exit closeChildEdges closes EVERY child edge (Close fails on an aborted edge and
                       the loop goes on: `exit_path_visits_every_edge`), abortParentEdges on error

Representation: the nodes of the task in walk order (`State.nodes`, index 0 = the stream source, fed by the
TaskMaster's fork goroutine) and `par : List Nat`, `par[k]` = index of the parent of node `k ≥ 1`. Node `k` is a child
of node `i` iff `i < k ∧ par[k] = i`; the children of a node in increasing index order are its `outs`. Each node
record carries ITS INPUT edge (as in the chain model) and the new field `owed`: the parent's forward loop holds a
message it still has to collect into this edge. A chain is the topology `par[k] = k - 1`.

Everything else (what a node does with a message, write buffer, handler queue, barrier timers, failing nodes, the
stopping goroutine) is the chain model's `nodeStep` / `stopStep` / `step`, applied unchanged.
-/
import Kap.Model.C07
namespace Kap.C07.Tree
open Kap.C07

/-- node `k` is a child of node `i` (its input edge is one of `i`'s `outs`) -/
def isChild (par : List Nat) (i k : Nat) : Bool := decide (i < k) && par[k]? == some i

/-- kinds that pass the message on to their child edges -/
def fwd : Kind → Bool
  | .influx _ | .loop => false
  | _ => true

/-- `g` applied to every element together with its index (`off` = index of the head). -/
def mapI (g : Nat → Nd → Nd) : Nat → List Nd → List Nd
  | _, [] => []
  | off, x :: r => g off x :: mapI g (off + 1) r

/-- Replace node `i` by `nd'` and apply `g k` to every node `k` after it (children come after their parent). -/
def tupd (ns : List Nd) (i : Nat) (nd' : Nd) (g : Nat → Nd → Nd) : List Nd :=
  ns.take i ++ nd' :: mapI g (i + 1) (ns.drop (i + 1))

def owedAt (ns : List Nd) (k : Nat) : Bool :=
  match ns[k]? with
  | some x => decide (0 < x.owed)
  | none => false

/-- The child edge the forward loop of node `i` is at: the first child, in the order of `outs`, that has not got
the message yet. -/
def curChild (par : List Nat) (ns : List Nd) (i : Nat) : Option Nat :=
  (List.range ns.length).find? (fun k => isChild par i k && owedAt ns k)

/-- Is there another child after the current one that has not got the message yet? -/
def othersOwed (par : List Nat) (ns : List Nd) (i : Nat) (cur : Option Nat) : Bool :=
  (List.range ns.length).any (fun k => (some k != cur) && isChild par i k && owedAt ns k)

/-- What an action `a` of a node does to its child `k` (`cur` = the child the forward loop is at, `rc` = that child
after `nodeStep`; `newMsg` = the action took a message that has to be forwarded). -/
def childEff (a : NAct) (newMsg : Bool) (cur : Option Nat) (rc : Option Nd) (k : Nat) (x : Nd) : Nd :=
  match a with
  | .take => if newMsg then { x with owed := 1 } else x          -- forward(): the loop over `outs` starts
  | .put => if cur = some k then { (rc.getD x) with owed := 0 } else x   -- out.Collect(msg) returned nil
  | .putErr => { x with owed := 0 }                              -- Collect returned ErrAborted: `return err`
  | .exit => closeIn { x with owed := 0 }                        -- closeChildEdges: every child edge
  | _ => x

/-- One action of node `i` of the tree. -/
def tnode (env : Env) (par : List Nat) (ns : List Nd) (i : Nat) (a : NAct) : Option (List Nd × Bool) :=
  match ns[i]? with
  | none => none
  | some nd =>
    -- (influxDBOut / loopback have no forward loop: they hand the message to their write buffer / to the TaskMaster)
    let cur := if fwd nd.kind then curChild par ns i else none
    match nodeStep env a nd (cur.bind (fun k => ns[k]?)) with
    | none => none
    | some r =>
      -- a message that other children still have to get stays in the node's hand
      let keep := (a == NAct.put) && fwd nd.kind && othersOwed par ns i cur
      let nd' := if keep then nd else r.nd
      let newMsg := fwd nd.kind && (nd.hand == 0) && (r.nd.hand == 1)
      some (tupd ns i nd' (fun k x => if isChild par i k then childEff a newMsg cur r.child k x else x), r.looped)

/-- One step of the whole system on the topology `par`. Everything but the node actions is the chain model's step
(the fork goroutine feeds node 0, `delFork` closes the input edge of node 0, `ExecutingTask.stop` walks the node list). -/
def step (cfg : Cfg) (par : List Nat) (s : State) : Act → Option State
  | .node i a =>
    match tnode (env cfg s) par s.nodes i a with
    | some (ns, looped) => some { s with nodes := ns, ingestL := if looped then s.ingestL + 1 else s.ingestL }
    | none => none
  | a => Kap.C07.step cfg s a

/-- Run a schedule; actions that are not enabled are skipped. -/
def run (cfg : Cfg) (par : List Nat) (s : State) : List Act → State
  | [] => s
  | a :: as => match step cfg par s a with
    | some s' => run cfg par s' as
    | none => run cfg par s as

def runStrict (cfg : Cfg) (par : List Nat) (s : State) : List Act → Option State
  | [] => some s
  | a :: as => match step cfg par s a with
    | some s' => runStrict cfg par s' as
    | none => none

def enabledActs (cfg : Cfg) (par : List Nat) (s : State) : List Act :=
  (allActs s).filter (fun a => (step cfg par s a).isSome)

/-- Well-formed topology for `n` nodes: every node but the source has a parent before it in walk order. -/
def wfPar (par : List Nat) (n : Nat) : Bool :=
  (List.range n).all (fun k => k == 0 || (match par[k]? with | some p => decide (p < k) | none => false))

/-- The chain `0 → 1 → … → n-1`. -/
def chainPar (n : Nat) : List Nat := (List.range n).map (fun k => k - 1)

end Kap.C07.Tree
