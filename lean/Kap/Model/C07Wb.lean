/-
C07 — the WRITE BUFFER of an influxDBOut node with SEVERAL destinations, and its final flush at a graceful stop.

Transcribed from influxdb_out.go:
  * InfluxDBOutNode.Point / write   a point becomes a batch of one point and is enqueued under the key
                           `BatchPointsConfig{Database, RetentionPolicy, WriteConsistency, Precision}`; without
                           `.database()` / `.retentionPolicy()` the database and retention policy are the ones the point
                           CAME FROM, so in a task with several DBRPs the node feeds several keys (`Act.enq k id`)
  * writeBuffer.run, `case qe := <-w.queue`   the points are added to the batch `w.buffer[qe.bpc]` (created when
                           missing); when the batch has reached `w.size` points it is written (`w.write`), an error is
                           logged, and the entry is deleted - written or not (`enqueue`)
  * writeBuffer.write      `cli.Write(bp)`; an error counts in `write_errors`, a success adds the size of the batch to
                           `points_written` (`write`; which keys the client rejects is a parameter: `Cfg.rejects`)
  * writeBuffer.writeAll   `for bpc, bp := range w.buffer { err := w.write(bp); if err != nil { log }; delete(w.buffer, bpc) }`
                           - EVERY entry is written, whatever happened to the ones before it. Go iterates a map in an
                           unspecified order: the order is a parameter of the action (`order`; keys it does not name
                           follow in ascending order), so "for all orders" is a quantifier of the theorems.
                           Used by the flush ticker (`Act.tick`) and by the explicit flush.
  * InfluxDBOutNode.stopBuffer   deferred in runOut: once the input edge has been consumed, `wb.flush()` (= writeAll
                           on the buffer goroutine) and then `wb.abort()` (the goroutine returns; whatever is still in
                           the map is gone) (`Act.stop`).
`Cfg.stopAtFirstErr = true` is the seeded change C07-6: writeAll deletes the entry, and RETURNS at the first failing
write ("the rest goes out with the next flush") - harmless for a tick, fatal for the flush before the abort.

Abstraction: a key is a number below `Cfg.nkeys`; a point is its id; one goroutine (writeBuffer.run) owns the map, so
every action is atomic; NewBatchPoints does not fail. Tied to the real node by the driver on every `minflux:<B>.<K>.<F>`
case (harness: influxDBOut() without .database() in a task with K DBRPs, a fake client rejecting the databases of the
bit mask F): per database, the sizes of the Write calls the client saw must be the ones the model makes.
-/
namespace Kap.C07.Wb

/-- one call of `cli.Write` -/
structure Call where
  key : Nat
  ids : List Nat
  ok : Bool
  deriving DecidableEq, Repr, Inhabited

structure Cfg where
  size : Nat                      -- writeBuffer.size (`.buffer(B)`)
  nkeys : Nat                     -- keys the input of the node can carry: 0 … nkeys-1
  rejects : List Nat := []        -- keys whose `cli.Write` returns an error
  stopAtFirstErr : Bool := false  -- seeded change C07-6
  deriving DecidableEq, Repr, Inhabited

structure S where
  buf : Nat → List Nat := fun _ => []   -- w.buffer: key ↦ ids buffered under it (no entry = nothing buffered)
  calls : List Call := []                -- the `cli.Write` calls so far, in order
  enq : List (Nat × Nat) := []           -- (key, id) of the points the node has enqueued so far, in order
  errors : Nat := 0                      -- write_errors
  written : Nat := 0                     -- points_written
  stopped : Bool := false                -- abort() has returned
  deriving Inhabited

def rejected (cfg : Cfg) (k : Nat) : Bool := cfg.rejects.contains k

/-- writeBuffer.write on the batch of key `k` -/
def write (cfg : Cfg) (s : S) (k : Nat) : S :=
  let b := s.buf k
  if rejected cfg k then { s with calls := s.calls ++ [⟨k, b, false⟩], errors := s.errors + 1 }
  else { s with calls := s.calls ++ [⟨k, b, true⟩], written := s.written + b.length }

/-- `delete(w.buffer, bpc)` -/
def del (s : S) (k : Nat) : S := { s with buf := fun j => if j = k then [] else s.buf j }

/-- `case qe := <-w.queue` -/
def enqueue (cfg : Cfg) (s : S) (k id : Nat) : S :=
  let b := s.buf k ++ [id]
  let s1 : S := { s with buf := fun j => if j = k then b else s.buf j, enq := s.enq ++ [(k, id)] }
  if cfg.size ≤ b.length then del (write cfg s1 k) k else s1

/-- one iteration of `for bpc, bp := range w.buffer` (`halted` = the loop has returned before this entry) -/
def visit (cfg : Cfg) (st : S × Bool) (k : Nat) : S × Bool :=
  if st.2 || (st.1.buf k).isEmpty then st
  else (del (write cfg st.1 k) k, cfg.stopAtFirstErr && rejected cfg k)

/-- writeBuffer.writeAll, the map iterated in `order` (then the keys `order` does not name) -/
def writeAll (cfg : Cfg) (order : List Nat) (s : S) : S :=
  ((order ++ List.range cfg.nkeys).foldl (visit cfg) (s, false)).1

inductive Act where
  | enq (k id : Nat)          -- the node handles a point of key `k`
  | tick (order : List Nat)   -- the flush ticker fires
  | stop (order : List Nat)   -- the input is consumed: stopBuffer = flush() then abort()
  deriving DecidableEq, Repr, Inhabited

def step (cfg : Cfg) (s : S) : Act → Option S
  | .enq k id => if s.stopped = false ∧ k < cfg.nkeys then some (enqueue cfg s k id) else none
  | .tick o => if s.stopped = false then some (writeAll cfg o s) else none
  | .stop o => if s.stopped = false then some { writeAll cfg o s with stopped := true } else none

def run (cfg : Cfg) (s : S) : List Act → S
  | [] => s
  | x :: xs => match step cfg s x with
    | some s' => run cfg s' xs
    | none => run cfg s xs

def init : S := {}

/-! ### What an observer of the client sees -/

/-- ids of key `k` some `cli.Write` call contained (handed to the destination), in order -/
def attempted (s : S) (k : Nat) : List Nat := (s.calls.filter (fun c => c.key = k)).flatMap (·.ids)
/-- … the destination accepted -/
def delivered (s : S) (k : Nat) : List Nat := (s.calls.filter (fun c => c.key = k && c.ok)).flatMap (·.ids)
/-- ids the node enqueued under key `k`, in order -/
def enqueued (s : S) (k : Nat) : List Nat := (s.enq.filter (fun p => p.1 = k)).map (·.2)
/-- sizes of the Write calls of key `k`, in order (what the driver compares with the fake client's record) -/
def callSizes (s : S) (k : Nat) : List Nat := (s.calls.filter (fun c => c.key = k)).map (·.ids.length)

/-- the schedule the harness realises: point i of n goes to key i mod K, the flush ticker never fires, then the stop -/
def canon (n K : Nat) (order : List Nat) : List Act := (List.range n).map (fun i => Act.enq (i % K) i) ++ [.stop order]

end Kap.C07.Wb
