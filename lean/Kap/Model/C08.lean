/-
C08 — model of topic-state persistence and recovery.

Transcribed (snapshot ef0888e + the two `fix:` commits 406230c, d33d002):
* `services/alert/service.go`
    `Service.Collect`          = `[restoreClosed T, mem T e, notify T e, (level = OK ? txDel : txPut)]`
                                 (closed topic ⇒ restore first; `topics.Collect` = memory update THEN handler
                                 enqueue; THEN one storage transaction: `clearHistory` deletes the key when the
                                 level is OK, `persistEventState` puts it otherwise; both only with `PersistTopics`)
    `Service.UpdateEvent`      = `[mem T e, txPut T e]`  (no handler is told; Put whatever the level is)
    `Service.CloseTopic`       = `[closeTopic T]`        (memory of the topic dropped, `closedTopics[T] = true`)
    `Service.RestoreTopic`     = `[restoreTopic T]`      (memory of the topic := bucket; the closed flag stays)
    `Service.DeleteTopic`      = `[dropMem T, txDelTopic T]`
    `Service.Open` (`loadSavedTopicStates`) = `Svc.restart`: memory := every bucket on disk, nothing closed.
* `services/storage/bolt.go`: a bucket per topic, key = event id; `Update` commits atomically (trusted); `Bucket`
  never creates, `Put` creates, `Delete` on a missing bucket/key is a no-op. An existing-but-empty bucket and a
  missing bucket load the same event states, so the store is modelled as a map topic → id → state.
* `alert.go`: `AlertNode.restoreEvent` / `restoreEventState` / `alertState.Point` / `handleEvent`
  (`plan` below): a group's state is created on its first point after a (re)start from the topic states (anonymous
  topic wins, reconciliation through `UpdateEvent`); an event is emitted when the level is not OK or changed
  (`stateChangesOnly`, `noRecoveries` honoured) and collected on the anonymous topic FIRST, the named topic SECOND.

(Commit a7b01dd moved `topics.DeleteTopic` in `CloseTopic`/`DeleteTopic` in front of taking `s.mu`: the order is
still memory-only bookkeeping first, the `DeleteTopic` transaction last, as modelled.)
Abstracted: the sorted slice inside `alert.Topic` (C09 proves it faithful: one state per id); message/details/
duration of an event state; flapping, stateChangesOnly-duration, level reset expressions, inhibitors (not used by
the harness' task); handler registration churn (C09) — `told` is what a handler registered on the topic all the
time is handed (enqueue = told; queue overflow is outside the model).
A FAILING storage transaction (`Micro.txFail`, `FOp`) is still attempted (crash points before/after it exist) but
commits nothing; the operation returns the error (`FOp.reportsError`).
A CRASH keeps `disk` (and the outside world's memory of what handlers were told) and loses everything else.
Core Lean only (the compiled driver imports this file).
-/
import Kap.Basic
namespace Kap.C08

/-- Everything an `alert.EventState` carries besides its id and level: `Time`, `Duration`, `Message`, `Details`.
The service never looks inside (it stores, restores and hands on the whole state), so the model passes it around as
one value — the field of `ES`/`Ev`/`Op` that holds it is still called `time`. A numeral `n` stands for the payload
with `Time = n` and everything else empty. How the four parts are laid down in a Bolt record (JSON, empty parts
omitted) and read back is modelled in Kap/Model/C08Rec.lean. -/
structure Payload where
  time : Int
  duration : Int := 0
  message : String := ""
  details : String := ""
deriving DecidableEq, Repr, Inhabited

instance : OfNat Payload n := ⟨{ time := n }⟩

/-- `alert.EventState`. Levels: OK=0 < Info=1 < Warning=2 < Critical=3. -/
structure ES where
  id : String
  level : Nat
  time : Payload
deriving DecidableEq, Repr, Inhabited

/-- topic → event id → state: used both for the Bolt namespace `topic_states_store` and for `alert.Topics`. -/
abbrev Store := String → String → Option ES

namespace Store
def empty : Store := fun _ _ => none
def put (s : Store) (T : String) (e : ES) : Store :=
  fun T' i => if T = T' ∧ e.id = i then some e else s T' i
def del (s : Store) (T id : String) : Store :=
  fun T' i => if T = T' ∧ id = i then none else s T' i
def dropTopic (s : Store) (T : String) : Store :=
  fun T' i => if T = T' then none else s T' i
/-- `RestoreTopicNoCopy(T, bucket T of src)` -/
def loadTopic (s : Store) (T : String) (src : Store) : Store :=
  fun T' i => if T = T' then src T' i else s T' i
/-- level of an id on a topic; an absent state is OK -/
def level (s : Store) (T id : String) : Nat :=
  match s T id with
  | some e => e.level
  | none => 0
end Store

/-- what a handler is handed -/
structure Ev where
  topic : String
  id : String
  level : Nat
  time : Payload
deriving DecidableEq, Repr, Inhabited

structure Svc where
  persist : Bool := true                       -- `PersistTopics`
  disk : Store := Store.empty
  mem : Store := Store.empty
  closed : String → Bool := fun _ => false     -- `closedTopics`
  told : List Ev := []                         -- handler-observed events, oldest first

/-- The atomic sub-steps; a crash can fall between any two of them. -/
inductive Micro where
  | restoreClosed (T : String)
  | mem (T : String) (e : ES)
  | notify (T : String) (e : ES)
  | txPut (T : String) (e : ES)
  | txDel (T id : String)
  | closeTopic (T : String)
  | restoreTopic (T : String)
  | dropMem (T : String)
  | txDelTopic (T : String)
  | txFail                            -- a storage transaction that fails: its function ran, nothing was committed
deriving Repr, Inhabited, DecidableEq

def Micro.isTx : Micro → Bool
  | .txPut .. | .txDel .. | .txDelTopic .. | .txFail => true
  | _ => false

def setFlag (f : String → Bool) (T : String) (b : Bool) : String → Bool :=
  fun T' => if T = T' then b else f T'

def exec (s : Svc) : Micro → Svc
  | .restoreClosed T =>
    if s.closed T then { s with mem := s.mem.loadTopic T s.disk, closed := setFlag s.closed T false } else s
  | .mem T e => { s with mem := s.mem.put T e }
  | .notify T e => { s with told := s.told ++ [{ topic := T, id := e.id, level := e.level, time := e.time }] }
  | .txPut T e => if s.persist then { s with disk := s.disk.put T e } else s
  | .txDel T id => if s.persist then { s with disk := s.disk.del T id } else s
  | .closeTopic T => { s with mem := s.mem.dropTopic T, closed := setFlag s.closed T true }
  | .restoreTopic T => { s with mem := s.mem.loadTopic T s.disk }
  | .dropMem T => { s with mem := s.mem.dropTopic T, closed := setFlag s.closed T false }
  | .txDelTopic T => { s with disk := s.disk.dropTopic T }
  | .txFail => s

def runMicros (s : Svc) (ms : List Micro) : Svc := ms.foldl exec s

/-- `Service.Collect(event)` -/
def collectMicros (T : String) (e : ES) : List Micro :=
  [.restoreClosed T, .mem T e, .notify T e, if e.level = 0 then .txDel T e.id else .txPut T e]

/-- `Service.UpdateEvent(topic, state)` -/
def updateMicros (T : String) (e : ES) : List Micro := [.mem T e, .txPut T e]

/-- Operations on the alert service. -/
inductive Op where
  | collect (T id : String) (level : Nat) (time : Payload)
  | update (T id : String) (level : Nat) (time : Payload)
  | closeTopic (T : String)
  | restoreTopic (T : String)
  | deleteTopic (T : String)
deriving Repr, Inhabited, DecidableEq

def Op.micros : Op → List Micro
  | .collect T id l t => collectMicros T { id := id, level := l, time := t }
  | .update T id l t => updateMicros T { id := id, level := l, time := t }
  | .closeTopic T => [.closeTopic T]
  | .restoreTopic T => [.restoreTopic T]
  | .deleteTopic T => [.dropMem T, .txDelTopic T]

def step (s : Svc) (op : Op) : Svc := runMicros s op.micros
def run (s : Svc) (ops : List Op) : Svc := ops.foldl step s

/-- Process death followed by `Service.Open`: only the disk (and what the outside world was already told)
survives; `loadSavedTopicStates` restores every bucket. -/
def Svc.restart (s : Svc) : Svc :=
  { persist := s.persist, disk := s.disk, mem := s.disk, closed := fun _ => false, told := s.told }

/-- The state in which the process dies: `ops.take k` completed, then the first `j` sub-steps of `ops[k]`. -/
def crashAt (s : Svc) (ops : List Op) (k j : Nat) : Svc :=
  runMicros (run s (ops.take k)) (((ops[k]?).map Op.micros).getD [] |>.take j)

/-- Restart on the crash state and process the remaining data (the operation in flight is lost). -/
def recover (s : Svc) (ops : List Op) (k j : Nat) : Svc :=
  run (crashAt s ops k j).restart (ops.drop (k + 1))

/-- Any number of process deaths: each `(k, j)` refers to the operations that remain at that time; after the last
restart the remaining operations are processed to the end. -/
def multiCrash (s : Svc) (ops : List Op) : List (Nat × Nat) → Svc
  | [] => run s ops
  | (k, j) :: cs => multiCrash (crashAt s ops k j).restart (ops.drop (k + 1)) cs

/-! ### storage failures: `Update` returns an error -/

/-- the `n`-th transaction (1-based; 0 = none) of a list of sub-steps fails: it is still attempted (a crash point
before and after it exists) but commits nothing -/
def failTx (isTx : α → Bool) (failed : α) (n : Nat) (ms : List α) : List α :=
  let rec go : List α → Nat → List α
    | [], _ => []
    | x :: rest, seen =>
      if isTx x then (if seen + 1 = n then failed :: go rest (seen + 1) else x :: go rest (seen + 1))
      else x :: go rest seen
  if n = 0 then ms else go ms 0

/-- an operation together with the number of its transaction that fails (0 = none) -/
abbrev FOp := Op × Nat

def FOp.micros (f : FOp) : List Micro := failTx Micro.isTx .txFail f.2 f.1.micros
/-- `Collect`/`UpdateEvent`/`DeleteTopic` return the error of their storage transaction to the caller -/
def FOp.reportsError (f : FOp) : Bool := f.2 ≠ 0 && decide (f.2 ≤ (f.1.micros.filter Micro.isTx).length)

def fstep (s : Svc) (f : FOp) : Svc := runMicros s f.micros
def frun (s : Svc) (fops : List FOp) : Svc := fops.foldl fstep s
def fcrashAt (s : Svc) (fops : List FOp) (k j : Nat) : Svc :=
  runMicros (frun s (fops.take k)) (((fops[k]?).map FOp.micros).getD [] |>.take j)

/-! ### The alert node on top of the service -/

structure Cfg where
  anon : Option String     -- anonymous topic `<tm>:<task>:<node>`; present iff the node has handlers
  named : Option String    -- `.topic('…')`
  sco : Bool               -- `.stateChangesOnly()`
  noRec : Bool             -- `.noRecoveries()`
deriving Repr, Inhabited, DecidableEq

structure World where
  svc : Svc := {}
  groups : String → Option Nat := fun _ => none    -- `alertState` per id: its current level

inductive NMicro where
  | svc (m : Micro)
  | setGroup (id : String) (level : Nat)
  | clearGroups
deriving Repr, Inhabited, DecidableEq

def NMicro.isTx : NMicro → Bool
  | .svc m => m.isTx
  | _ => false

def nexec (w : World) : NMicro → World
  | .svc m => { w with svc := exec w.svc m }
  | .setGroup id l => { w with groups := fun i => if id = i then some l else w.groups i }
  | .clearGroups => { w with groups := fun _ => none }

def optLevel : Option ES → Nat
  | some e => e.level
  | none => 0

/-- `AlertNode.restoreEvent(id)`: the level the group resumes at, and the reconciling `UpdateEvent` (if any). -/
def restoreEvent (cfg : Cfg) (s : Svc) (id : String) : Nat × List Micro :=
  let anonSt := cfg.anon.bind (fun T => s.mem T id)
  let namedSt := cfg.named.bind (fun T => s.mem T id)
  let fix : List Micro :=
    if optLevel namedSt ≠ optLevel anonSt then
      match anonSt, namedSt, cfg.anon, cfg.named with
      | some a, some _, _, some Tn => updateMicros Tn a      -- both found: anonymous topic takes precedence
      | none, some n, some Ta, _ => updateMicros Ta n        -- only the named topic knows the id
      | _, _, _, _ => []
    else []
  (if anonSt.isSome then optLevel anonSt else optLevel namedSt, fix)

/-- `handleEvent`: anonymous topic first, named topic second. -/
def emitMicros (cfg : Cfg) (e : ES) : List Micro :=
  (match cfg.anon with | some T => collectMicros T e | none => []) ++
  (match cfg.named with | some T => collectMicros T e | none => [])

/-- does `alertState.Point` hand an event to `handleEvent`? (`cur` = level before the point) -/
def emits (cfg : Cfg) (cur l : Nat) : Bool :=
  let changed := cur ≠ l
  !(cfg.sco && !changed) && (l ≠ 0 || changed) && !(cfg.noRec && l = 0)

/-- All sub-steps of one point `(id, level, time)` reaching the alert node (`NewGroup` on the first point of the
id since the node started, then `alertState.Point`). They are determined by the state at the start of the point. -/
def plan (cfg : Cfg) (w : World) (id : String) (l : Nat) (t : Payload) : List NMicro :=
  let (cur, fix) := match w.groups id with
    | some c => (c, [])
    | none => restoreEvent cfg w.svc id
  fix.map .svc ++ [.setGroup id l] ++
    (if emits cfg cur l then (emitMicros cfg { id := id, level := l, time := t }).map .svc else [])

inductive NOp where
  | point (id : String) (level : Nat) (time : Payload)
  | taskRestart           -- graceful stop + start of the task (no process death)
deriving Repr, Inhabited, DecidableEq

def nplan (cfg : Cfg) (w : World) : NOp → List NMicro
  | .point id l t => plan cfg w id l t
  | .taskRestart =>
    -- runAlert exit: CloseTopic(anon); runAlert entry: RestoreTopic(anon); all group states are new
    (match cfg.anon with | some T => [.svc (.closeTopic T), .svc (.restoreTopic T)] | none => []) ++ [.clearGroups]

def nrunMicros (w : World) (ms : List NMicro) : World := ms.foldl nexec w
def nstep (cfg : Cfg) (w : World) (op : NOp) : World := nrunMicros w (nplan cfg w op)
def nrun (cfg : Cfg) (w : World) (ops : List NOp) : World := ops.foldl (nstep cfg) w

/-- Process death, `Service.Open`, task start (`runAlert`: `RestoreTopic(anon)`). -/
def World.restart (cfg : Cfg) (w : World) : World :=
  let s := w.svc.restart
  { svc := match cfg.anon with | some T => exec s (.restoreTopic T) | none => s, groups := fun _ => none }

def ncrashAt (cfg : Cfg) (w : World) (ops : List NOp) (k j : Nat) : World :=
  let b := nrun cfg w (ops.take k)
  nrunMicros b (((ops[k]?).map (nplan cfg b)).getD [] |>.take j)

def nrecover (cfg : Cfg) (w : World) (ops : List NOp) (k j : Nat) : World :=
  nrun cfg ((ncrashAt cfg w ops k j).restart cfg) (ops.drop (k + 1))

/-- Index (number of completed sub-steps) of the crash point "just before (`post = false`) / just after
(`post = true`) the `m`-th storage transaction (1-based)" in a list of sub-steps; `none` if there are fewer. -/
def txIndex (isTx : α → Bool) (ms : List α) (m : Nat) (post : Bool) : Option Nat :=
  let rec go : List α → Nat → Nat → Option Nat
    | [], _, _ => none
    | x :: rest, seen, pos =>
      if isTx x then
        if seen + 1 = m then some (if post then pos + 1 else pos) else go rest (seen + 1) (pos + 1)
      else go rest seen (pos + 1)
  go ms 0 0

end Kap.C08
