/-
C08 — model of the V1→V2 topic-store migration with its own sub-steps.

Transcribed: `services/alert/migrate_topic_store.go`, `Service.MigrateTopicStoreV1V2` (snapshot ef0888e + `fix:` 13b86fb),
called by `Service.Open` before `loadSavedTopicStates`:

    version = Versions().Get(topic_store_version); if version == "2" → return            (`migSteps … = []`)
    os.RemoveAll(<db>.v1.bak)                        -- 13b86fb; absent in the code as found     `rmStale`
    CopyFile(<db>, <db>.v1.bak)  (O_CREATE|O_EXCL: FAILS when the file exists)                   `copyBak`
    defer os.RemoveAll(<db>.v1.bak)                                                              `rmBak` (runs last)
    Update on topic_states_store: for every V1 TopicState, every event state with id ≠ "":
        Bucket(topic).Put(id, state)           -- ONE transaction                                `txWriteV2`
    defer: if the function returns an error from here on: CloseBolt, Rename(<db>.v1.bak, <db>)   (`restore`)
    topicsDAO.DeleteMultiple(all V1 topic keys)  -- ONE transaction                              `txDeleteV1`
    Versions().Set(topic_store_version, "2")     -- ONE transaction                              `txSetVersion`

The file system is two files: the Bolt database (three parts: the version key, the V1 layout = namespace
`alert_store` one `TopicState` per topic, the V2 layout = namespace `topic_states_store` a bucket per topic) and
the backup copy `<db>.v1.bak` (absent, or a copy of some database). A CRASH keeps both files as they stand; each
transaction is atomic (bbolt, trusted); `CopyFile` is treated as atomic (a torn copy is still "a file that exists",
which is all the code ever asks of a stale backup: it is never read unless THIS attempt made it).
Abstracted: pagination of `topicsDAO.List` (100 topics per page), the index rebuild after `DeleteMultiple`, JSON
(un)marshalling errors.
A FAILING step (no crash): `copyBak` on an existing file returns the error before anything was deferred;
a failing transaction commits nothing and returns its error: `txWriteV2` → only the backup is removed;
`txDeleteV1` / `txSetVersion` → the backup is renamed over the database (restore), then removed (no-op).
Core Lean only (the compiled driver imports this file).
-/
import Kap.Model.C08
namespace Kap.C08.Mig

/-- the Bolt file -/
structure Db where
  v2flag : Bool := false          -- `topic_store_version` = "2"
  v1 : Store := Store.empty       -- namespace `alert_store`, topic states in the VERSION 1 layout
  v2 : Store := Store.empty       -- namespace `topic_states_store`, a bucket per topic

/-- the two files -/
structure Fs where
  db : Db := {}
  bak : Option Db := none         -- `<db>.v1.bak`

/-- The V2 buckets after the write transaction: every V1 event state with a non-empty id is `Put` (an existing
V2 record of the same id is overwritten, everything else in V2 stays). -/
def overlay (v2 v1 : Store) : Store :=
  fun T i => if i = "" then v2 T i else match v1 T i with
    | some e => some e
    | none => v2 T i

inductive Step where
  | rmStale | copyBak | txWriteV2 | txDeleteV1 | txSetVersion | rmBak
deriving Repr, DecidableEq, Inhabited

def Step.isTx : Step → Bool
  | .txWriteV2 | .txDeleteV1 | .txSetVersion => true
  | _ => false

/-- one sub-step that succeeds -/
def exec (fs : Fs) : Step → Fs
  | .rmStale => { fs with bak := none }
  | .copyBak => { fs with bak := some fs.db }
  | .txWriteV2 => { fs with db := { fs.db with v2 := overlay fs.db.v2 fs.db.v1 } }
  | .txDeleteV1 => { fs with db := { fs.db with v1 := Store.empty } }
  | .txSetVersion => { fs with db := { fs.db with v2flag := true } }
  | .rmBak => { fs with bak := none }

/-- The sub-steps of one call, decided by the version key read first. `fixed = false` is the code as found
(no removal of a stale backup). -/
def migSteps (fixed : Bool) (fs : Fs) : List Step :=
  if fs.db.v2flag then [] else
    (if fixed then [.rmStale] else []) ++ [.copyBak, .txWriteV2, .txDeleteV1, .txSetVersion, .rmBak]

def runSteps (fs : Fs) (ss : List Step) : Fs := ss.foldl exec fs

/-- The files as they stand when the process dies after `j` sub-steps of the call. -/
def crashAt (fixed : Bool) (fs : Fs) (j : Nat) : Fs := runSteps fs ((migSteps fixed fs).take j)

/-- `MigrateTopicStoreV1V2` run to its end without a crash; `failAt = some n`: the `n`-th (1-based) storage
transaction of the call fails. Result: the files, and whether the call returned nil (the service opens). -/
def attempt (fixed : Bool) (failAt : Option Nat) (fs : Fs) : Fs × Bool :=
  let rec go (fs : Fs) (seen : Nat) : List Step → Fs × Bool
    | [] => (fs, true)
    | s :: rest =>
      if s = .copyBak ∧ fs.bak.isSome then (fs, false)                 -- O_EXCL: nothing deferred yet
      else if s.isTx ∧ failAt = some (seen + 1) then
        if s = .txWriteV2 then ({ fs with bak := none }, false)         -- rolled back; deferred removal of the backup
        else match fs.bak with                                          -- deferred restore, then removal
          | some b => ({ db := b, bak := none }, false)
          | none => ({ fs with bak := none }, false)
      else go (exec fs s) (if s.isTx then seen + 1 else seen) rest
  go fs 0 (migSteps fixed fs)

/-- what the migration is supposed to make of a database -/
def migrated (db : Db) : Db :=
  if db.v2flag then db else { v2flag := true, v1 := Store.empty, v2 := overlay db.v2 db.v1 }

/-- Any number of process deaths during consecutive start attempts (`js`: the number of sub-steps each doomed
attempt completes), then one attempt that is left alone. -/
def crashes (fixed : Bool) (fs : Fs) : List Nat → Fs
  | [] => fs
  | j :: js => crashes fixed (crashAt fixed fs j) js

end Kap.C08.Mig
