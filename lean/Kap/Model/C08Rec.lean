/-
C08 — the Bolt record of an event state and how a bucket is read back.

Transcribed:
* `services/alert/dao.go` `type EventState struct { Message string "message,omitempty"; Details string
  "details,omitempty"; Time time.Time "time,omitempty" (a struct: always written); Duration time.Duration
  "duration,omitempty"; Level alert.Level "level" }` and `services/alert/dao_easyjson.go`
  `easyjson…Encode…Alert1` (`if in.Message != ""`, `if in.Details != ""`, `if true` for time, `if in.Duration != 0`,
  level always) = `encode`; `easyjson…Decode…Alert1` (a `switch key` that assigns ONLY the keys present in the
  object; nothing else of `out` is touched) = `decodeInto`; `EventState.Reset` = `zero`.
* `services/alert/service.go` `restoreTopic` (RestoreTopic at task start, restore of a closed topic on Collect) and
  `migrate_topic_store.go` `LoadTopicBucket` (Service.Open): `es := &EventState{}; for each key of the bucket in key
  order { decode INTO es; result[key] = copy of es; es.Reset() }` = `restoreBucket true`.
  `restoreBucket false` is the variant without the `Reset()` (one shared decode buffer).
Core Lean only.
-/
import Kap.Model.C08
namespace Kap.C08.Rec

/-- the stored JSON object (key = event id, in bucket = topic) -/
structure Stored where
  message : Option String     -- absent when the message is empty
  details : Option String     -- absent when the details are empty
  time : Int                  -- always present
  duration : Option Int       -- absent when the duration is 0
  level : Nat                 -- always present
deriving DecidableEq, Repr, Inhabited

/-- `services/alert.EventState` (the id is the key of the record) -/
structure Rec where
  level : Nat
  p : Payload
deriving DecidableEq, Repr, Inhabited

def zero : Rec := { level := 0, p := { time := 0 } }

def encode (r : Rec) : Stored :=
  { message := if r.p.message = "" then none else some r.p.message,
    details := if r.p.details = "" then none else some r.p.details,
    time := r.p.time,
    duration := if r.p.duration = 0 then none else some r.p.duration,
    level := r.level }

/-- decode INTO a buffer: only the keys present in the object are assigned -/
def decodeInto (buf : Rec) (s : Stored) : Rec :=
  { level := s.level,
    p := { time := s.time,
           duration := match s.duration with | some d => d | none => buf.p.duration,
           message := match s.message with | some m => m | none => buf.p.message,
           details := match s.details with | some m => m | none => buf.p.details } }

/-- read a bucket back, entries in key order, ONE buffer; `reset`: is the buffer zeroed after each entry? -/
def restoreBucket (reset : Bool) : Rec → List (String × Stored) → List (String × Rec)
  | _, [] => []
  | buf, (k, s) :: rest =>
    let r := decodeInto buf s
    (k, r) :: restoreBucket reset (if reset then zero else r) rest

end Kap.C08.Rec
