/-
C09 — model of `alert/topics.go` (`Topics`, `Topic`, `sortedStates`, `bufHandler`).

Transcription (snapshot ef0888e + the two `fix:` commits recorded in known_findings.txt):
* `Topic.sorted` is the slice of event states, `Topic.events[id]` is the entry of `sorted` with that id
  (the Go code shares the pointer), so the model keeps `sorted` only.
* `updateEvent`: unknown id ⇒ append + sort; known id ⇒ overwrite in place, sort iff the level changed;
  returns the previous state.
* `sortedStates.Less` = `less` below; `sort.Sort` is modelled by Go's insertion sort (what `sort.Sort`
  runs for n ≤ 12); theorem `Kap.Props.C09.sorted_unique` shows every correct sort gives the same slice.
* `MaxLevel` = level of `sorted[0]` or OK; `EventStates(min)` iterates `sorted` and BREAKS at the first
  `Level < min`.
* handlers: `bufHandler` = FIFO queue drained by one goroutine, `Close` drains ⇒ a handler ends up
  having received exactly what was enqueued, in order (queue overflow — 5000 pending events — is outside
  the model and outside the harness: recorded as an assumption).
Core Lean only (the compiled driver imports this file).
-/
import Kap.Basic
namespace Kap.C09

/-- `alert.EventState` restricted to what the property observes. Levels: OK=0 < Info=1 < Warning=2 < Critical=3. -/
structure ES where
  id : String
  level : Nat
  time : Int
deriving DecidableEq, Repr, Inhabited

/-- `sortedStates.Less` as it is in the source today (level descending, then id ascending). -/
def less (a b : ES) : Bool :=
  if a.level ≠ b.level then decide (a.level > b.level) else decide (a.id < b.id)

/-- `sortedStates.Less` as it was at snapshot ef0888e (kept for the counterexample theorem). -/
def lessOld (a b : ES) : Bool :=
  if a.level > b.level then true else decide (a.id < b.id)

/-- One inner loop of Go's `insertionSort`: `x` travels left over the (reversed) sorted prefix while
`lt x y`. The argument and the result are the prefix in REVERSE order. -/
def insRev (lt : ES → ES → Bool) (x : ES) : List ES → List ES
  | [] => [x]
  | y :: ys => if lt x y then y :: insRev lt x ys else x :: y :: ys

/-- Go's `insertionSort(data, 0, n)` with comparator `lt`. -/
def goSortWith (lt : ES → ES → Bool) (l : List ES) : List ES :=
  (l.foldl (fun acc x => insRev lt x acc) []).reverse

def goSort (l : List ES) : List ES := goSortWith less l

/-- A delivered `alert.Event`, as a handler sees it. -/
structure Ev where
  topic : String
  id : String
  level : Nat
  time : Int
  prev : Nat          -- `event.PreviousState().Level` (OK when there was no previous state)
deriving DecidableEq, Repr, Inhabited

structure Handler where
  hid : String
  got : List Ev       -- everything delivered to the wrapped handler so far (oldest first)
deriving Repr, Inhabited

structure Topic where
  sorted : List ES := []
  collected : Nat := 0
  handlers : List Handler := []
deriving Repr, Inhabited

def Topic.find (t : Topic) (id : String) : Option ES := t.sorted.find? (fun e => e.id == id)

/-- `Topic.updateEvent`. -/
def Topic.updateEventWith (lt : ES → ES → Bool) (t : Topic) (s : ES) : Topic × Option ES :=
  match t.find s.id with
  | none => ({ t with sorted := goSortWith lt (t.sorted ++ [s]) }, none)
  | some cur =>
    let repl := t.sorted.map (fun e => if e.id == s.id then s else e)
    ({ t with sorted := if cur.level ≠ s.level then goSortWith lt repl else repl }, some cur)

def Topic.updateEvent (t : Topic) (s : ES) : Topic × Option ES := t.updateEventWith less s

/-- `Topic.MaxLevel`. -/
def Topic.maxLevel (t : Topic) : Nat :=
  match t.sorted with
  | [] => 0
  | e :: _ => e.level

/-- `Topic.EventStates(minLevel)` — with the early `break`. -/
def Topic.eventStates (t : Topic) (min : Nat) : List ES :=
  t.sorted.takeWhile (fun e => decide (e.level ≥ min))

/-- `Topic.collect` + `handleEvent`: every handler's queue gets the event. -/
def Topic.collectWith (lt : ES → ES → Bool) (topic : String) (t : Topic) (s : ES) : Topic :=
  let (t', prev) := t.updateEventWith lt s
  let ev : Ev := { topic := topic, id := s.id, level := s.level, time := s.time,
                   prev := match prev with | some p => p.level | none => 0 }
  { t' with collected := t'.collected + 1,
            handlers := t'.handlers.map (fun h => { h with got := h.got ++ [ev] }) }

def Topic.collect (topic : String) (t : Topic) (s : ES) : Topic := t.collectWith less topic s

/-- `Topic.addHandler`: no duplicate registrations. -/
def Topic.addHandler (t : Topic) (hid : String) : Topic :=
  if t.handlers.any (fun h => h.hid == hid) then t
  else { t with handlers := t.handlers ++ [{ hid := hid, got := [] }] }

/-- swap-with-last removal at the first index whose handler equals `hid` (`removeHandler`). Returns the
new list and the removed handler (whose queue `Close` drains). -/
def removeSwap (hid : String) : List Handler → List Handler × Option Handler
  | [] => ([], none)
  | h :: rest =>
    if h.hid == hid then
      -- `handlers[i] = handlers[len-1]` (when i is not the last index); `handlers = handlers[:len-1]`
      (match rest.getLast? with
        | none => []
        | some last => last :: rest.dropLast, some h)
    else
      let (r, o) := removeSwap hid rest
      (h :: r, o)

/-- The whole `Topics` registry plus the log of what closed handlers had received. -/
structure Topics where
  topics : List (String × Topic) := []
  /-- deliveries of handlers that were closed (deregistered / topic deleted): `(hid, events)` -/
  closed : List (String × List Ev) := []
deriving Repr, Inhabited

def Topics.get (s : Topics) (topic : String) : Option Topic :=
  (s.topics.find? (fun p => p.1 == topic)).map (·.2)

def Topics.set (s : Topics) (topic : String) (t : Topic) : Topics :=
  if s.topics.any (fun p => p.1 == topic) then
    { s with topics := s.topics.map (fun p => if p.1 == topic then (topic, t) else p) }
  else { s with topics := s.topics ++ [(topic, t)] }

def Topics.ensure (s : Topics) (topic : String) : Topic := (s.get topic).getD {}

/-- `t.removeHandler(h)` on the (existing or freshly ensured) topic: swap-removal; the removed handler is
closed, i.e. its queue is drained — what it received is final and logged under `closed`. -/
def Topics.removeHandler (s : Topics) (topic hid : String) : Topics :=
  let t := s.ensure topic
  let (hs, removed) := removeSwap hid t.handlers
  let s' := s.set topic { t with handlers := hs }
  match removed with
  | some h => { s' with closed := s'.closed ++ [(h.hid, h.got)] }
  | none => s'

/-- `t.addHandler(h)` on the (existing or freshly ensured) topic. -/
def Topics.addHandler (s : Topics) (topic hid : String) : Topics :=
  s.set topic ((s.ensure topic).addHandler hid)

inductive Op where
  | collect (topic id : String) (level : Nat) (time : Int)
  | update (topic id : String) (level : Nat) (time : Int)     -- Topics.UpdateEvent
  | reg (topic hid : String)
  | dereg (topic hid : String)
  | replace (topic old new : String)
  | deltopic (topic : String)
  | restore (topic : String) (states : List ES)               -- Topics.RestoreTopicNoCopy
deriving Repr, Inhabited

def stepWith (lt : ES → ES → Bool) (s : Topics) : Op → Topics
  | .collect topic id level time =>
    s.set topic ((s.ensure topic).collectWith lt topic { id := id, level := level, time := time })
  | .update topic id level time =>
    s.set topic ((s.ensure topic).updateEventWith lt { id := id, level := level, time := time }).1
  | .reg topic hid => s.addHandler topic hid                      -- RegisterHandler (creates the topic)
  | .dereg topic hid =>                                           -- DeregisterHandler (only on an existing topic)
    match s.get topic with
    | none => s
    | some _ => s.removeHandler topic hid
  | .replace topic old new =>                                      -- ReplaceHandler: ensure, remove old, add new
    (s.removeHandler topic old).addHandler topic new
  | .deltopic topic =>
    match s.get topic with
    | none => s
    | some t =>
      { topics := s.topics.filter (fun p => p.1 != topic),
        closed := s.closed ++ t.handlers.map (fun h => (h.hid, h.got)) }
  | .restore topic states =>
    -- `restoreEventStatesNoCopy` iterates a Go map (any order) and sorts; ids of a map are distinct.
    s.set topic { (s.ensure topic) with sorted := goSortWith lt states }

def step (s : Topics) (op : Op) : Topics := stepWith less s op
def run (ops : List Op) : Topics := ops.foldl step {}

/-- What the live registration of handler `hid` on `topic` has received (`addHandler` never registers a
handler twice on one topic, so the first match is the only one). -/
def Topics.live (s : Topics) (topic hid : String) : List Ev :=
  match s.get topic with
  | none => []
  | some t =>
    match t.handlers.find? (fun h => h.hid == hid) with
    | some hd => hd.got
    | none => []

/-- What closed registrations of `hid` had received for `topic`. -/
def Topics.fromClosed (s : Topics) (topic hid : String) : List Ev :=
  (s.closed.filter (fun p => p.1 == hid)).flatMap (fun p => p.2.filter (fun e => e.topic == topic))

/-- Everything handler `hid` has received for topic `topic` (closed registrations first, then the live one). -/
def Topics.delivered (s : Topics) (topic hid : String) : List Ev :=
  s.fromClosed topic hid ++ s.live topic hid

def Topics.maxLevel (s : Topics) (topic : String) : Nat := (s.ensure topic).maxLevel
def Topics.eventStates (s : Topics) (topic : String) (min : Nat) : List ES := (s.ensure topic).eventStates min

end Kap.C09
