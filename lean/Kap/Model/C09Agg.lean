/-
C09, service layer — the aggregate handler (services/alert/handlers.go `aggregateHandler.run`): events handed
to the handler are collected until the next tick of a wall-clock ticker; a tick with at least one collected
event emits ONE event on the configured topic, with id = the configured id, message = the template applied to
(count, interval), and level / time computed by the loop transcribed below; then the collection is emptied.
A tick with no collected event emits nothing. Closing the handler DISCARDS what is collected (as coded).

Modelled: the content of one emitted event as a function of the events collected since the previous emission
(`tick`). NOT modelled: when ticks happen (wall clock) — the driver accepts any segmentation of the input into
consecutive non-empty groups and judges every group; `Duration`, `Details`, `NoExternal`, `Data.Result.Series`.
The zero `time.Time` the loop starts from is `none` (every event time the harness uses is after it).
Core Lean only.
-/
namespace Kap.C09.Agg

/-- what the loop looks at of a collected event -/
structure In where
  level : Nat
  time : Int
deriving Repr, Inhabited, DecidableEq

structure Out where
  level : Nat
  time : Option Int
  count : Nat
deriving Repr, Inhabited, DecidableEq

/-- body of `for i, e := range events` -/
def loopStep (a : Out) (e : In) : Out :=
  { a with
    level := if e.level > a.level then e.level else a.level
    time := match a.time with
      | none => some e.time
      | some t => if e.time > t then some e.time else some t }

/-- `case <-ticker.C:` — `none` = nothing emitted (`if len(events) == 0 { continue }`) -/
def tick (events : List In) : Option Out :=
  if events.isEmpty then none
  else some (events.foldl loopStep { level := 0, time := none, count := events.length })

end Kap.C09.Agg
