/-
C09, service layer — the ASYNCHRONOUS model: what `services/alert` + `alert/topics.go` do when every handler runs
on its own goroutine, for configurations in which a topic may have SEVERAL ways in (diamonds, a topic that is both
collected directly and published to).

Transcribed
* `alert/topics.go` `bufHandler`: `Handle` appends the event to the handler's FIFO queue (`events` channel), one
  goroutine per handler takes the events out one at a time and calls the wrapped handler (`run`); `Close` (called
  by `removeHandler` / `Topic.close`) closes the channel and WAITS until the goroutine has handled everything that is
  still queued — so deregistering or replacing a handler drains its queue synchronously (as repaired by a7b01dd the
  caller holds no service lock meanwhile).
* `Topic.collect` (as repaired by 800c4eb: ONE step under the topic's collect mutex): store the state — the previous
  state of the id becomes the event's `previousState` when there is one — and queue the event on every handler of
  the topic. `collectOn` below. (`updOnly` / `enqOnly` are the two halves the code before 800c4eb locked separately;
  they are used only by the counterexample `nonatomic_collect_breaks_prev_chain`.)
* `publishHandler.Handle` (behind `matchHandler`): if the match expression holds for the event as the topic handed
  it over, `Service.Collect` on every target, synchronously on the handler's goroutine, in the order of the spec's
  target list. `runH`.
* an anonymous recording handler: handling = appending to what it has got. `runR`.
* `RegisterAnonHandler`, `RegisterHandlerSpec`, `DeregisterHandlerSpec`, `UpdateHandlerSpec`, `Service.Collect`: the
  external operations. `exec`.
A SCHEDULE is any list of steps: the external operations and `runH k` / `runR r` = "that handler's goroutine takes
one event". A step on an empty queue does nothing, so every list is a schedule.

State representation: queues are functions of the handler key (topic, id), so that steps of different handlers
touch different arguments. GHOST components (never read by a step, they only record what happened, for the
theorems): `Item.cid` (number of the originating collect), `Item.path` (the publish handlers the copy went through),
`ASt.arr` (per topic: what the topic handed to its handlers, NEWEST FIRST), `ASt.done` (what a spec handler has taken
from its queue), `ASt.ncol`.
Core Lean only.
-/
import Kap.Model.C09Svc
import Kap.Spec.C09Svc
namespace Kap.C09.Async
open Kap.C09 Kap.C09.Svc Kap.C09.SvcSpec

/-- key of a handler: (topic, handler id) for a spec handler, (topic, recorder name) for a recorder -/
abbrev Key := String × String

structure Item where
  cid : Nat
  path : List Key
  ev : SEv
deriving Repr, Inhabited, DecidableEq

structure ASt where
  specs : List Spec := []
  recs : List Key := []
  /-- topic → id → level of the id's current state on the topic -/
  last : String → String → Option Nat := fun _ _ => none
  hq : Key → List Item := fun _ => []
  rq : Key → List Item := fun _ => []
  got : Key → List Item := fun _ => []
  arr : String → List Item := fun _ => []
  done : Key → List Item := fun _ => []
  ncol : Nat := 0

def _root_.Kap.C09.Svc.Spec.key (sp : Spec) : Key := (sp.topic, sp.hid)

def ASt.specOf (s : ASt) (k : Key) : Option Spec := s.specs.find? (fun sp => sp.topic == k.1 && sp.hid == k.2)
def ASt.isSpec (s : ASt) (k : Key) : Bool := s.specs.any (fun sp => sp.topic == k.1 && sp.hid == k.2)

/-- first half of `Topic.collect` (`updateEvent`): store the state, compute the event as the handlers will see it -/
def updOnly (s : ASt) (T : String) (it : Item) : ASt × Item :=
  ({ s with last := fun Y i => if Y = T ∧ i = it.ev.id then some it.ev.level else s.last Y i },
   { it with ev := seen s.last T it.ev })

/-- second half of `Topic.collect` (`handleEvent`): queue the event on every handler of the topic -/
def enqOnly (s : ASt) (T : String) (it' : Item) : ASt :=
  { s with hq := fun k => if k.1 = T ∧ s.isSpec k = true then s.hq k ++ [it'] else s.hq k,
           rq := fun r => if r.1 = T ∧ r ∈ s.recs then s.rq r ++ [it'] else s.rq r,
           arr := fun Y => if Y = T then it' :: s.arr Y else s.arr Y }

/-- `Topic.collect` on `T`, one step -/
def collectOn (s : ASt) (T : String) (it : Item) : ASt :=
  let p := updOnly s T it
  enqOnly p.1 T p.2

/-- the copy a publish handler sends on -/
def Item.ext (it : Item) (k : Key) : Item := { it with path := it.path ++ [k] }

/-- `publishHandler.Handle` -/
def publish (s : ASt) (sp : Spec) (it : Item) : ASt :=
  sp.targets.foldl (fun acc t => collectOn acc t (it.ext sp.key)) s

/-- the goroutine of spec handler `k` takes one event from its queue -/
def runH (s : ASt) (k : Key) : ASt :=
  match s.specOf k, s.hq k with
  | some sp, it :: rest =>
    let s1 : ASt := { s with hq := fun k' => if k' = k then rest else s.hq k',
                             done := fun k' => if k' = k then s.done k ++ [it] else s.done k' }
    if holds sp it.ev then publish s1 sp it else s1
  | _, _ => s

/-- the goroutine of recorder `r` takes one event from its queue -/
def runR (s : ASt) (r : Key) : ASt :=
  match s.rq r with
  | it :: rest =>
    { s with rq := fun r' => if r' = r then rest else s.rq r',
             got := fun r' => if r' = r then s.got r ++ [it] else s.got r' }
  | [] => s

def iter {α : Type} (f : α → α) : Nat → α → α
  | 0, a => a
  | n + 1, a => iter f n (f a)

/-- `bufHandler.Close` of spec handler `k`: everything queued is handled before `Close` returns -/
def drainH (s : ASt) (k : Key) : ASt := iter (fun a => runH a k) (s.hq k).length s

inductive Step where
  | ext (op : Svc.Op)
  | runH (k : Key)
  | runR (r : Key)
deriving Repr, Inhabited

/-- the handler is gone (its queue is empty after the drain whenever publish edges go forward; a handler that
publishes to its own topic is outside the model, the queue is cleared so that no event outlives its handler) -/
def removeSpec (s : ASt) (k : Key) : ASt :=
  { s with specs := s.specs.filter (fun x => !(x.topic == k.1 && x.hid == k.2)),
           hq := fun k' => if k' = k then [] else s.hq k' }

def execOp (s : ASt) : Svc.Op → ASt
  | .recorder T n => if (T, n) ∈ s.recs then s else { s with recs := s.recs ++ [(T, n)] }
  | .reg sp => if s.isSpec sp.key then s else { s with specs := s.specs ++ [sp] }
  | .dereg T hid => removeSpec (drainH s (T, hid)) (T, hid)
  | .upd T old sp =>
    -- `UpdateHandlerSpec`: creating the new id fails when another handler of the topic already has it
    if s.isSpec (T, old) = true ∧ (sp.key = (T, old) ∨ s.isSpec sp.key = false) then
      let s1 := removeSpec (drainH s (T, old)) (T, old)
      { s1 with specs := s1.specs ++ [sp] }
    else s
  | .collect T ev =>
    collectOn { s with ncol := s.ncol + 1 } T { cid := s.ncol, path := [], ev := { ev with prev := 0 } }

def exec (s : ASt) : Step → ASt
  | .ext op => execOp s op
  | .runH k => runH s k
  | .runR r => runR s r

def execAll (sched : List Step) (s : ASt) : ASt := sched.foldl exec s

/-- all queues are empty -/
def ASt.quiet (s : ASt) : Bool :=
  s.specs.all (fun sp => (s.hq sp.key).isEmpty) && s.recs.all (fun r => (s.rq r).isEmpty)

/-- what recorder `name` has got for topic `X` -/
def ASt.received (s : ASt) (name X : String) : List SEv := (s.got (X, name)).map (·.ev)

/-! ### A canonical schedule (what the driver runs the model with): after every operation, let the handlers run
in registration order until all queues are empty. `fuel` bounds the number of rounds. -/

def round (s : ASt) : ASt :=
  let s1 := s.recs.foldl (fun a r => iter (fun b => runR b r) (a.rq r).length a) s
  s1.specs.foldl (fun a sp => iter (fun b => runH b sp.key) (a.hq sp.key).length a) s1

def settle : Nat → ASt → ASt
  | 0, s => s
  | n + 1, s => if s.quiet then s else settle n (round s)

def stepSettled (s : ASt) (op : Svc.Op) : ASt :=
  let s1 := execOp s op
  settle (s1.specs.length + 2) s1

/-- the topics after `T` in the fixed order -/
def after : List String → String → List String
  | [], _ => []
  | o :: rest, T => if o == T then rest else after rest T

/-- publish edges only go forward in `ord` (acyclicity, witnessed by an order) -/
def fwd (ord : List String) (specs : List Spec) : Bool :=
  specs.all (fun sp => sp.targets.all (fun t => (after ord sp.topic).contains t))

end Kap.C09.Async
