/-
C09, service layer — the asynchronous model WITH BOUNDED QUEUES (overflow).

`alert/topics.go` `bufHandler.Handle` is non-blocking: `select { case h.events <- event: … default: return error }`.
When the handler's channel (capacity `topic-buffer-length`, at least 1000) is full the event is NOT queued for that
handler; `Topic.handleEvent` goes on with the topic's other handlers and returns the collected errors; the topic's
state has already been updated (`updateEvent` comes first); `Topics.Collect` / `Service.Collect` return the error;
`publishHandler.Handle` IGNORES it and goes on with its next target topic.

This file repeats the steps of Kap/Model/C09Async.lean with a capacity parameter `cap : Option Nat` (`none` =
unbounded = the model all theorems of Kap/Props/C09Async.lean are about: `cap_none_*` in the Props file).
A GATED recorder (harness: a handler that blocks inside `Handle` until released) is a recorder whose goroutine takes
no further event: in the model simply a recorder the schedule does not run; `take` = its goroutine takes the one
event it then blocks on (`runR`, the event is recorded on entry of `Handle`).
Core Lean only.
-/
import Kap.Model.C09Async
namespace Kap.C09.Async
open Kap.C09 Kap.C09.Svc Kap.C09.SvcSpec

/-- the handler's channel is full -/
def full (cap : Option Nat) (q : List Item) : Bool :=
  match cap with
  | none => false
  | some c => decide (c ≤ q.length)

/-- `Topic.handleEvent` with non-blocking handlers: the event is queued on every handler of the topic whose OWN
queue is not full -/
def enqOnlyC (cap : Option Nat) (s : ASt) (T : String) (it' : Item) : ASt :=
  { s with hq := fun k => if k.1 = T ∧ s.isSpec k = true ∧ full cap (s.hq k) = false then s.hq k ++ [it'] else s.hq k,
           rq := fun r => if r.1 = T ∧ r ∈ s.recs ∧ full cap (s.rq r) = false then s.rq r ++ [it'] else s.rq r,
           arr := fun Y => if Y = T then it' :: s.arr Y else s.arr Y }

/-- `Topic.collect`: the state is stored first, whatever happens to the handlers -/
def collectOnC (cap : Option Nat) (s : ASt) (T : String) (it : Item) : ASt :=
  let p := updOnly s T it
  enqOnlyC cap p.1 T p.2

/-- `publishHandler.Handle`: every target in turn, the result of `Collect` is ignored -/
def publishC (cap : Option Nat) (s : ASt) (sp : Spec) (it : Item) : ASt :=
  sp.targets.foldl (fun acc t => collectOnC cap acc t (it.ext sp.key)) s

def runHC (cap : Option Nat) (s : ASt) (k : Key) : ASt :=
  match s.specOf k, s.hq k with
  | some sp, it :: rest =>
    let s1 : ASt := { s with hq := fun k' => if k' = k then rest else s.hq k',
                             done := fun k' => if k' = k then s.done k ++ [it] else s.done k' }
    if holds sp it.ev then publishC cap s1 sp it else s1
  | _, _ => s

def drainHC (cap : Option Nat) (s : ASt) (k : Key) : ASt := iter (fun a => runHC cap a k) (s.hq k).length s

def execOpC (cap : Option Nat) (s : ASt) : Svc.Op → ASt
  | .recorder T n => if (T, n) ∈ s.recs then s else { s with recs := s.recs ++ [(T, n)] }
  | .reg sp => if s.isSpec sp.key then s else { s with specs := s.specs ++ [sp] }
  | .dereg T hid => removeSpec (drainHC cap s (T, hid)) (T, hid)
  | .upd T old sp =>
    if s.isSpec (T, old) = true ∧ (sp.key = (T, old) ∨ s.isSpec sp.key = false) then
      let s1 := removeSpec (drainHC cap s (T, old)) (T, old)
      { s1 with specs := s1.specs ++ [sp] }
    else s
  | .collect T ev =>
    collectOnC cap { s with ncol := s.ncol + 1 } T { cid := s.ncol, path := [], ev := { ev with prev := 0 } }

def execC (cap : Option Nat) (s : ASt) : Step → ASt
  | .ext op => execOpC cap s op
  | .runH k => runHC cap s k
  | .runR r => runR s r

/-! ### the canonical schedule with gated recorders (what the driver runs) -/

/-- all queues are empty, except those of gated recorders -/
def quietG (gated : List Key) (s : ASt) : Bool :=
  s.specs.all (fun sp => (s.hq sp.key).isEmpty) && s.recs.all (fun r => gated.contains r || (s.rq r).isEmpty)

def roundC (cap : Option Nat) (gated : List Key) (s : ASt) : ASt :=
  let s1 := s.recs.foldl (fun a r => if gated.contains r then a else iter (fun b => runR b r) (a.rq r).length a) s
  s1.specs.foldl (fun a sp => iter (fun b => runHC cap b sp.key) (a.hq sp.key).length a) s1

def settleC (cap : Option Nat) (gated : List Key) : Nat → ASt → ASt
  | 0, s => s
  | n + 1, s => if quietG gated s then s else settleC cap gated n (roundC cap gated s)

def stepSettledC (cap : Option Nat) (gated : List Key) (s : ASt) (op : Svc.Op) : ASt :=
  let s1 := execOpC cap s op
  settleC cap gated (s1.specs.length + 2) s1

end Kap.C09.Async
