/-
C09 — the CONCURRENT model of `alert/topics.go`: handlers with a backlog, a removal in progress, operations that
overlap. (The sequential model Kap/Model/C09.lean treats a handler as the list of what it has received and every
operation as one step; here a registration is a queue with a goroutine, and `DeregisterHandler` / `ReplaceHandler`
take time.)

Transcribed
* `bufHandler` (`newHandler`, `Handle`, `run`, `Close`): a registration `Reg` = the wrapped handler's name, the
  FIFO queue (`events` channel) and the event its goroutine is inside `h.h.Handle` with (`busy`). `take` = `run`
  receives the next event and enters `Handle` (logged `enter`), `fin` = that call returns (logged `exit`; a GATED
  handler of the harness returns only when it is given a token). `Close` returns when the queue is empty and the
  goroutine idle (`closed`).
* `Topic.addHandler` (no second registration of an equal handler), `Topic.removeHandler` (`detach`: the handler
  leaves `t.handlers` and its `Close` starts - the swap-with-last ORDER of `t.handlers` is abstracted, nothing here
  depends on it, see removeSwap_keeps_others), `Topic.collect`/`handleEvent` (`doCollect`: the event, with the previous
  level of its id, is queued on every registered handler).
* THE LOCK: `removeHandler` holds `t.mu` (write) from the look-up until `Close` HAS RETURNED; `addHandler`,
  `updateEvent` and `handleEvent` need `t.mu` as well. So while a registration is closing (`closing ≠ []`) nothing
  else happens on the topic: `tmuFree`. The parameter `lk` switches this off (`lk = false`: `Close` runs after the
  lock was released - the shape of a plausible "do not stall collectors behind a slow handler" change); it exists
  only for the counterexample theorem `unlocked_close_breaks_fifo`.
* `Topics.RegisterHandler` holds `Topics.mu` (write) for the whole call, i.e. also while it waits for `t.mu`;
  `Collect`, `DeregisterHandler`, `ReplaceHandler` only pass through `Topics.mu` before they touch the topic. `smu`
  = the label of the `RegisterHandler` call holding it. The calls are `Pend` entries with a phase; `advance` = the
  call takes its next step if it can (it is BLOCKED otherwise).
Abstracted: the topic's store of event states is the per-id current state (`upsert`/`lookupLevel`; the sorted slice is
the subject of Kap/Model/C09.lean, `reachable_refines_spec`); topics are never deleted here (DeleteTopic /
Topics.Close during a concurrent history are outside this model); queue overflow is outside (Kap/Model/C09AsyncCap).
GHOST: `hist` = the atomic effects in the order in which they happened (the linearisation), `log`.
Core Lean only.
-/
import Kap.Spec.C09
namespace Kap.C09.Drain
open Kap.C09

/-- one `bufHandler` -/
structure Reg where
  hid : String
  queue : List Ev := []
  busy : Option Ev := none
deriving Repr, Inhabited, DecidableEq

def Reg.idle (r : Reg) : Bool := r.queue.isEmpty && r.busy.isNone

/-- one `*Topic` -/
structure Top where
  cur : List ES := []
  regs : List Reg := []        -- `t.handlers`
  closing : List Reg := []     -- detached, `Close` has not returned yet
deriving Repr, Inhabited, DecidableEq

inductive LogE where
  | enter (T h : String) (ev : Ev)
  | exit (T h : String) (ev : Ev)
deriving Repr, Inhabited, DecidableEq

inductive Call where
  | collect (T id : String) (level : Nat) (time : Int)
  | reg (T h : String)
  | dereg (T h : String)
  | replace (T o n : String)
deriving Repr, Inhabited, DecidableEq

structure Pend where
  label : String
  call : Call
  phase : Nat := 0
deriving Repr, Inhabited, DecidableEq

structure St where
  top : String → Top := fun _ => {}
  /-- handlers that are not gated (their `Handle` returns at once) -/
  free : String → Bool := fun _ => false
  tokens : String → String → Nat := fun _ _ => 0
  opened : Bool := false
  log : List LogE := []
  hist : List Op := []
  smu : Option String := none
  pend : List Pend := []

instance : Inhabited St := ⟨{}⟩

def St.setTop (s : St) (T : String) (t : Top) : St := { s with top := fun Y => if Y = T then t else s.top Y }

/-- `t.mu` can be taken: no `Close` is running under it -/
def tmuFree (lk : Bool) (t : Top) : Bool := !lk || t.closing.isEmpty

/-- `Topic.collect` -/
def doCollect (s : St) (T id : String) (level : Nat) (time : Int) : St :=
  let t := s.top T
  let ev : Ev := { topic := T, id := id, level := level, time := time, prev := lookupLevel t.cur id }
  { (s.setTop T { t with cur := upsert t.cur { id := id, level := level, time := time },
                         regs := t.regs.map (fun r => { r with queue := r.queue ++ [ev] }) })
    with hist := s.hist ++ [.collect T id level time] }

/-- `Topic.addHandler` -/
def doAdd (s : St) (T h : String) : St :=
  let t := s.top T
  { (if t.regs.any (fun r => r.hid == h) then s else s.setTop T { t with regs := t.regs ++ [{ hid := h }] })
    with hist := s.hist ++ [.reg T h] }

/-- `Topic.removeHandler` up to the call of `Close` -/
def doDetach (s : St) (T h : String) : St :=
  let t := s.top T
  { (match t.regs.find? (fun r => r.hid == h) with
     | some r => s.setTop T { t with regs := t.regs.filter (fun x => !(x.hid == h)), closing := t.closing ++ [r] }
     | none => s)
    with hist := s.hist ++ [.dereg T h] }

/-- `Close` of handler `h`'s detached registration returns (only when it is drained) -/
def doClosed (s : St) (T h : String) : St :=
  let t := s.top T
  s.setTop T { t with closing := t.closing.filter (fun r => !(r.hid == h && r.idle)) }

def modFirst (p : Reg → Bool) (f : Reg → Reg) : List Reg → List Reg
  | [] => []
  | r :: rest => if p r then f r :: rest else r :: modFirst p f rest

def Top.side (t : Top) (c : Bool) : List Reg := if c then t.closing else t.regs
def Top.setSide (t : Top) (c : Bool) (l : List Reg) : Top := if c then { t with closing := l } else { t with regs := l }

/-- `bufHandler.run` takes the next event and enters `Handle` -/
def doTake (s : St) (T h : String) (c : Bool) : St :=
  let t := s.top T
  match (t.side c).find? (fun r => r.hid == h) with
  | some r =>
    match r.busy, r.queue with
    | none, ev :: rest =>
      { (s.setTop T (t.setSide c (modFirst (fun x => x.hid == h) (fun x => { x with queue := rest, busy := some ev }) (t.side c))))
        with log := s.log ++ [.enter T h ev] }
    | _, _ => s
  | none => s

/-- `Handle` returns -/
def doFin (s : St) (T h : String) (c : Bool) : St :=
  let t := s.top T
  match (t.side c).find? (fun r => r.hid == h) with
  | some r =>
    match r.busy with
    | some ev =>
      if s.opened || s.free h || decide (s.tokens T h > 0) then
        { (s.setTop T (t.setSide c (modFirst (fun x => x.hid == h) (fun x => { x with busy := none }) (t.side c))))
          with log := s.log ++ [.exit T h ev],
               tokens := if s.opened || s.free h then s.tokens
                         else fun Y g => if Y = T ∧ g = h then s.tokens T h - 1 else s.tokens Y g }
      else s
    | none => s
  | none => s

inductive CStep where
  | collect (T id : String) (level : Nat) (time : Int)
  | add (T h : String)
  | detach (T h : String)
  | closed (T h : String)
  | take (T h : String) (closing : Bool)
  | fin (T h : String) (closing : Bool)
  | tok (T h : String) (n : Nat)
  | openAll
deriving Repr, Inhabited

def addTokens (s : St) (T h : String) (n : Nat) : St :=
  { s with tokens := fun Y g => if Y = T ∧ g = h then s.tokens T h + n else s.tokens Y g }

def openAll (s : St) : St := { s with opened := true }

/-- one step of the topic machinery; a step that is not enabled does nothing, so every list is a schedule -/
def cstep (lk : Bool) (s : St) : CStep → St
  | .collect T id level time => if tmuFree lk (s.top T) then doCollect s T id level time else s
  | .add T h => if tmuFree lk (s.top T) then doAdd s T h else s
  | .detach T h => if tmuFree lk (s.top T) then doDetach s T h else s
  | .closed T h => doClosed s T h
  | .take T h c => doTake s T h c
  | .fin T h c => doFin s T h c
  | .tok T h n => addTokens s T h n
  | .openAll => openAll s

def runC (lk : Bool) (sched : List CStep) (s : St) : St := sched.foldl (cstep lk) s

/-! ### the calls -/

def invoke (s : St) (lab : String) (c : Call) : St := { s with pend := s.pend ++ [{ label := lab, call := c }] }

/-- the call takes its next step: `none` = it cannot (blocked); otherwise the new state and what is left of the call
(`none` = it has returned) -/
def advance (lk : Bool) (s : St) (p : Pend) : Option (St × Option Pend) :=
  match p.call, p.phase with
  -- Topics.Collect: RLock/RUnlock of Topics.mu, then Topic.collect
  | .collect _ _ _ _, 0 => if s.smu.isNone then some (s, some { p with phase := 1 }) else none
  | .collect T id level time, _ => if tmuFree lk (s.top T) then some (doCollect s T id level time, none) else none
  -- Topics.RegisterHandler: Topics.mu held until addHandler has returned
  | .reg _ _, 0 => if s.smu.isNone then some ({ s with smu := some p.label }, some { p with phase := 1 }) else none
  | .reg T h, _ => if tmuFree lk (s.top T) then some ({ doAdd s T h with smu := none }, none) else none
  -- Topics.DeregisterHandler: RLock/RUnlock, then removeHandler (detach … Close returns)
  | .dereg _ _, 0 => if s.smu.isNone then some (s, some { p with phase := 1 }) else none
  | .dereg T h, 1 => if tmuFree lk (s.top T) then some (doDetach s T h, some { p with phase := 2 }) else none
  | .dereg T h, _ =>
    let s' := doClosed s T h
    if (s'.top T).closing.any (fun r => r.hid == h) then none else some (s', none)
  -- Topics.ReplaceHandler: Lock/Unlock, removeHandler(old), addHandler(new)
  | .replace _ _ _, 0 => if s.smu.isNone then some (s, some { p with phase := 1 }) else none
  | .replace T o _, 1 => if tmuFree lk (s.top T) then some (doDetach s T o, some { p with phase := 2 }) else none
  | .replace T o _, 2 =>
    let s' := doClosed s T o
    if (s'.top T).closing.any (fun r => r.hid == o) then none else some (s', some { p with phase := 3 })
  | .replace T _ n, _ => if tmuFree lk (s.top T) then some (doAdd s T n, none) else none

/-- the pending call `lab` takes its next step, if it can -/
def adv (lk : Bool) (s : St) (lab : String) : St :=
  match s.pend.find? (fun p => p.label == lab) with
  | some p =>
    match advance lk s p with
    | some (s', some p') => { s' with pend := s'.pend.map (fun q => if q.label == lab then p' else q) }
    | some (s', none) => { s' with pend := s'.pend.filter (fun q => !(q.label == lab)) }
    | none => s
  | none => s

inductive Step where
  | core (c : CStep)
  | invoke (lab : String) (c : Call)
  | adv (lab : String)
deriving Repr, Inhabited

def step (lk : Bool) (s : St) : Step → St
  | .core c => cstep lk s c
  | .invoke lab c => invoke s lab c
  | .adv lab => adv lk s lab

def run (lk : Bool) (sched : List Step) (s : St) : St := sched.foldl (step lk) s

/-! ### observations of a state -/

/-- the events handler `h` has entered `Handle` with for topic `T` -/
def entered (log : List LogE) (T h : String) : List Ev :=
  log.filterMap (fun e => match e with
    | .enter T' h' ev => if T' = T ∧ h' = h then some ev else none
    | .exit _ _ _ => none)

/-- what is still queued for handler `h` on topic `T` -/
def pendingOf (t : Top) (h : String) : List Ev :=
  ((t.closing ++ t.regs).filter (fun r => r.hid == h)).flatMap (·.queue)

/-- the calls of `h` for `T` alternate `enter x, exit x, enter y, …`; `cur` = the call that has not returned -/
def bracketedFrom (T h : String) : Option Ev → List LogE → Bool
  | _, [] => true
  | cur, .enter T' h' ev :: rest =>
    if T' = T ∧ h' = h then cur.isNone && bracketedFrom T h (some ev) rest else bracketedFrom T h cur rest
  | cur, .exit T' h' ev :: rest =>
    if T' = T ∧ h' = h then cur == some ev && bracketedFrom T h none rest else bracketedFrom T h cur rest

/-- one at a time -/
def bracketed (T h : String) (log : List LogE) : Bool := bracketedFrom T h none log

def blockedLabels (s : St) : List String := s.pend.map (·.label)

/-! ### exploring the schedules (what the driver runs): handler goroutines run as far as they can (their steps commute
with everything), the pending calls are advanced in every possible order -/

def handlerRound (ts hs : List String) (s : St) : St :=
  ts.foldl (fun a T => hs.foldl (fun b h =>
    [true, false].foldl (fun c cl => doFin (doTake c T h cl) T h cl) b) a) s

def settleH (ts hs : List String) : Nat → St → St
  | 0, s => s
  | n + 1, s =>
    let s' := handlerRound ts hs s
    if s'.log.length == s.log.length then s' else settleH ts hs n s'

/-- equality of what matters for the future and for the observation, over the given topic and handler names -/
def stEq (ts hs : List String) (a b : St) : Bool :=
  a.pend == b.pend && a.smu == b.smu && a.opened == b.opened && a.log == b.log &&
  ts.all (fun T => a.top T == b.top T && hs.all (fun h => a.tokens T h == b.tokens T h))

def dedup (ts hs : List String) (l : List St) : List St :=
  l.foldl (fun acc s => if acc.any (fun x => stEq ts hs x s) then acc else acc ++ [s]) []

/-- the successors of a (handler-settled) state: one pending call takes one step -/
def succs (ts hs : List String) (s : St) : List St :=
  s.pend.filterMap (fun p => match advance true s p with
    | some _ => some (settleH ts hs 64 (adv true s p.label))
    | none => none)

/-- breadth-first: all states in which no pending call can take a step -/
def explore (ts hs : List String) : Nat → List St → List St → List St
  | 0, _, acc => acc
  | n + 1, frontier, acc =>
    if frontier.isEmpty then acc else
    let quiet := frontier.filter (fun s => (succs ts hs s).isEmpty)
    let next := dedup ts hs (frontier.flatMap (succs ts hs))
    explore ts hs n next (dedup ts hs (acc ++ quiet))

/-- every quiescent state some schedule reaches from `s` -/
def quiescents (ts hs : List String) (s : St) : List St :=
  explore ts hs (4 * s.pend.length + 2) [settleH ts hs 64 s] []

end Kap.C09.Drain
