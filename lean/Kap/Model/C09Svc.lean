/-
C09, service layer — model of how `services/alert` wires handlers onto topics:
`createHandlerFromSpec` (kind `publish`, optional `match` ⇒ `matchHandler` wrapping `publishHandler`),
`RegisterHandlerSpec` / `DeregisterHandlerSpec` / `UpdateHandlerSpec`, `RegisterAnonHandler`,
`Service.Collect` (persistence off) and the propagation of republished events.

Transcription notes
* `matchHandler.match`: every tag variable the expression references must be present in the event's tags,
  otherwise the evaluation errors and the event is NOT handed on (independently of short-circuiting);
  `changed()` is `State.Level != PreviousState().Level`; `level()` is the level; identifiers OK/INFO/WARNING/
  CRITICAL are 0..3.
* `publishHandler.Handle`: for each configured target topic, `event.Topic = t; Collect(event)` — the event
  keeps its `previousState`; `Topic.collect` overwrites it only when the target topic already holds a state
  for that id (`if ok { event.previousState = prev }`), so on the id's FIRST arrival on a target the previous
  level seen by the target's handlers is the one carried over from the publishing topic.
* every handler sits behind a `bufHandler` FIFO drained by its own goroutine: along a chain of publish
  handlers order is preserved. The model delivers depth-first and synchronously; this is faithful exactly
  when every topic has at most one way in (direct collection XOR one publishing handler): there all schedules
  of the ASYNCHRONOUS model (Kap/Model/C09Async.lean) end in one state (`async_confluent_single_entry`). Under that
  hypothesis (plus forward-only publish edges) this model is PROVED equal to the declarative chain semantics of
  Kap/Spec/C09Svc.lean (`svc_delivery_is_chain_semantics`); the diamond of `single_entry_needed` shows where the
  two part ways without it. Histories outside the class are no longer rejected by the driver: they are judged with
  the schedule-quantified theorems of Kap/Props/C09Async.lean, and this model is compared on single-entry cases only.
* the aggregate handler is modelled separately (content rule only): Kap/Model/C09Agg.lean.
Core Lean only.
-/
import Kap.Model.C09
namespace Kap.C09.Svc

/-- An event as the service layer sees it: state + the two tags the match expressions may reference. -/
structure SEv where
  id : String
  level : Nat
  time : Int
  prev : Nat
  tags : List (String × String)
deriving Repr, Inhabited, DecidableEq

/-- The match expressions the harness uses (a fixed table shared with the Go side by index). -/
inductive M where
  | all                               -- no match expression
  | levelGe (k : Nat)                 -- level() >= K
  | levelEq (k : Nat)                 -- level() == K
  | changed (b : Bool)                -- changed() == TRUE/FALSE
  | tagEq (tag val : String)          -- "tag" == 'val'
  | and (a b : M)
  | or (a b : M)
deriving Repr, Inhabited

def M.vars : M → List String
  | .tagEq t _ => [t]
  | .and a b | .or a b => a.vars ++ b.vars
  | _ => []

def tagOf (ev : SEv) (t : String) : Option String := (ev.tags.find? (fun p => p.1 == t)).map (·.2)

/-- evaluation once every referenced tag is known to be present -/
def M.evalCore (ev : SEv) : M → Bool
  | .all => true
  | .levelGe k => decide (ev.level ≥ k)
  | .levelEq k => decide (ev.level = k)
  | .changed b => (ev.level != ev.prev) == b
  | .tagEq t v => tagOf ev t == some v
  | .and a b => a.evalCore ev && b.evalCore ev
  | .or a b => a.evalCore ev || b.evalCore ev

/-- `matchHandler.match`: `none` = evaluation error (a referenced tag is missing). -/
def M.eval (m : M) (ev : SEv) : Option Bool :=
  if m.vars.all (fun t => (tagOf ev t).isSome) then some (m.evalCore ev) else none

/-- index ↔ expression table (Go side: `matchTable` in harness/c09/svc.go, same order). -/
def matchTable : List M :=
  [ .all,
    .levelGe 2,
    .levelEq 3,
    .changed true,
    .tagEq "host" "a",
    .and (.levelGe 2) (.tagEq "host" "a"),
    .or (.changed true) (.levelEq 3),
    .or (.tagEq "dc" "x") (.levelGe 1),
    .changed false ]

structure Spec where
  topic : String
  hid : String
  midx : Nat
  targets : List String
deriving Repr, Inhabited

/-- Service state: current event states per topic, registered handler specs, anonymous recorders and what
they have received. -/
structure St where
  states : List (String × List ES) := []
  specs : List Spec := []
  recs : List (String × String) := []                 -- (topic, recorder)
  log : List (String × String × SEv) := []            -- (recorder, topic, event) in delivery order
  overflow : Bool := false                            -- propagation ran out of fuel (cyclic configuration)
deriving Repr, Inhabited

def St.cur (s : St) (T : String) : List ES := ((s.states.find? (fun p => p.1 == T)).map (·.2)).getD []

def St.setCur (s : St) (T : String) (l : List ES) : St :=
  if s.states.any (fun p => p.1 == T) then
    { s with states := s.states.map (fun p => if p.1 == T then (T, l) else p) }
  else { s with states := s.states ++ [(T, l)] }

def upsertES (l : List ES) (e : ES) : List ES :=
  if l.any (fun x => x.id == e.id) then l.map (fun x => if x.id == e.id then e else x) else l ++ [e]

/-- the event as topic `T` hands it to its handlers: previous level = level of the id's current state on
`T`, or the carried one when `T` has no state for the id yet (see header) -/
def evAt (s : St) (T : String) (ev : SEv) : SEv :=
  { ev with prev := match (s.cur T).find? (fun x => x.id == ev.id) with
      | some p => p.level
      | none => ev.prev }

/-- `Topic.collect` on `T`: store the state, hand the event to every recorder registered on `T`. -/
def record (s : St) (T : String) (ev' : SEv) : St :=
  let s1 : St := s.setCur T (upsertES (s.cur T) { id := ev'.id, level := ev'.level, time := ev'.time })
  { s1 with log := s1.log ++ ((s1.recs.filter (fun (r : String × String) => r.1 == T)).map
              (fun (r : String × String) => (r.2, T, ev'))) }

/-- every spec handler of the topic whose match holds republishes to its targets (`f` = deliver one hop) -/
def pubFold (f : St → String → St) (ev' : SEv) (specs : List Spec) (s : St) : St :=
  specs.foldl (fun (acc : St) (sp : Spec) =>
    match (matchTable.getD sp.midx .all).eval ev' with
    | some true => sp.targets.foldl f acc
    | _ => acc) s

/-- `Service.Collect` on topic `T` with everything it triggers downstream. -/
def deliver : Nat → St → String → SEv → St
  | 0, s, _, _ => { s with overflow := true }
  | fuel + 1, s, T, ev =>
    let ev' := evAt s T ev
    let s2 := record s T ev'
    pubFold (fun acc t => deliver fuel acc t ev') ev' (s2.specs.filter (fun (sp : Spec) => sp.topic == T)) s2

inductive Op where
  | recorder (topic name : String)
  | reg (sp : Spec)
  | dereg (topic hid : String)
  | upd (topic oldHid : String) (sp : Spec)
  | collect (topic : String) (ev : SEv)
deriving Repr, Inhabited

def fuelFor (s : St) : Nat := s.specs.length + 2

/-- Returns the new state and whether the call succeeded (`RegisterHandlerSpec` rejects a duplicate id). -/
def step (s : St) : Op → St × Bool
  | .recorder T name => if s.recs.contains (T, name) then (s, true) else ({ s with recs := s.recs ++ [(T, name)] }, true)
  | .reg sp =>
    if s.specs.any (fun x => x.topic == sp.topic && x.hid == sp.hid) then (s, false)
    else ({ s with specs := s.specs ++ [sp] }, true)
  | .dereg T hid => ({ s with specs := s.specs.filter (fun x => !(x.topic == T && x.hid == hid)) }, true)
  | .upd T old sp =>
    ({ s with specs := (s.specs.filter (fun x => !(x.topic == T && x.hid == old))) ++ [sp] }, true)
  | .collect T ev => (deliver (fuelFor s) s T { ev with prev := 0 }, true)

/-- what recorder `name` received for topic `T` -/
def St.received (s : St) (name T : String) : List SEv :=
  (s.log.filter (fun e => e.1 == name && e.2.1 == T)).map (·.2.2)

/-- The class of configurations in which synchronous depth-first delivery is faithful to the asynchronous
implementation: every topic has at most one way in. `direct` are the topics events are collected on
directly. -/
def singleEntry (s : St) (direct : List String) : Bool :=
  let targets := s.specs.flatMap (·.targets)
  targets.all (fun t => (targets.filter (· == t)).length ≤ 1 && !direct.contains t)

/-- the state after a history of operations -/
def run (ops : List Op) : St := ops.foldl (fun s op => (step s op).1) {}

/-- the topics events were collected on directly during a history -/
def directs (ops : List Op) : List String :=
  ops.filterMap (fun op => match op with | .collect T _ => some T | _ => none)

/-- Acyclicity, witnessed by a fixed order of the topics: publish edges only go to topics later in `order`
(the harness generates specs over `harnessOrder`). -/
def forwardOnly (order : List String) (specs : List Spec) : Bool :=
  specs.all (fun sp => sp.targets.all (fun t => decide (order.idxOf sp.topic < order.idxOf t)))

/-- the topological order of the topics the Go harness uses (`svcTopics` in harness/c09/svc.go) -/
def harnessOrder : List String := ["t0", "t1", "p0", "p1", "p2"]

end Kap.C09.Svc
