/-
C10 — executable model of the per-point / per-group nodes of kapacitor, transcribed from the Go code:

  where.go (whereGroup.doWhere), eval.go (EvalNode.eval, evalGroup), default.go (setDefaults, BeginBatch/BatchPoint/Point),
  delete.go (doDeletes, deleteDimensions), shift.go, sample.go (sampleGroup, shouldKeep), derivative.go
  (derivativeGroup.doDerivative, DerivativeNode.derivative), change_detect.go, state_tracking.go (both trackers),
  flatten.go (flattenBuffer.addPoint/Point/BatchPoint/EndBatch, FlattenNode.flatten), combine.go (combineBuffer.addPoint,
  combine, merge, combination.Do/Count), group_by.go (Point, BeginBatch/BatchPoint/emit, computeTagNames),
  expr.go (fillScope, EvalPredicate), edge/messages.go (which setter recomputes the group id), edge/grouped.go
  (one receiver per group id), models/point.go (ToGroupID).

Shape: immutable `Point` / `Batch` values; one function per node from the whole input of an edge to the whole output
(`Node.run`), built from a per-group step function with the SAME branches and the same order of effects as the Go
receiver; groups are kept in an association list keyed by the group id exactly like `groupedConsumer.groups`.

Abstracted (stated in checks/C10.json):
  * maps are association lists (lookup = first match; `aset` replaces or appends); map iteration order is not modelled —
    where the Go result depends on it (flatten with dropOriginalFieldName and several fields) the driver refuses to judge;
  * lambdas are a small typed expression language (comparisons, + - *, AND/OR with short circuit, literals, references)
    evaluated by `eval` below with the error behaviour of tick/stateful as far as this subset goes (missing reference,
    mismatched types, field/tag collision ⇒ error); stateful lambda functions do not occur, so the per-group
    `CopyReset()` of expressions is not visible;
  * floats are IEEE bit patterns; arithmetic goes through Lean's `Float` (opaque to the theorems);
  * int64 wrap-around is not modelled (`Int`); times are Unix nanoseconds (`Int`), the zero `time.Time` is `none`;
  * `time.Round/Truncate` are Kap.C16.goRound / goTruncate (absolute time since Go's zero time, any positive duration;
    times not before year 1);
  * size hints, database / retention policy, barriers and delete-group messages are not modelled;
  * aliasing (shared maps between branches) cannot be expressed here — it is tied dynamically by the harness.
Core Lean only.
-/
import Kap.Basic
import Kap.Model.C16
namespace Kap.C10

/-! ## Values, maps -/

inductive Val where
  | int (v : Int)
  | flt (bits : UInt64)
  | str (s : String)
  | bool (b : Bool)
  | missing                 -- `*ast.Missing` smuggled into a field by eval.keep (reachable only through short circuit)
deriving DecidableEq, Repr, Inhabited

def f64 (bits : UInt64) : Float := Float.ofBits bits
def bitsOf (f : Float) : UInt64 := f.toBits

/-- Lookup in an association list (first match). -/
def aget {α : Type} : List (String × α) → String → Option α
  | [], _ => none
  | (k', v) :: r, k => if k' = k then some v else aget r k

def aerase {α : Type} (l : List (String × α)) (k : String) : List (String × α) := l.filter (fun e => e.1 ≠ k)

/-- Go `m[k] = v`: replace every entry of the key, or append. -/
def aset {α : Type} (l : List (String × α)) (k : String) (v : α) : List (String × α) :=
  if (aget l k).isSome then l.map (fun e => if e.1 = k then (k, v) else e) else l ++ [(k, v)]

def akeys {α : Type} (l : List (String × α)) : List String := l.map (·.1)

abbrev Fields := List (String × Val)
abbrev Tags := List (String × String)

/-- Insertion into a sorted list of strings (structural, so that `decide` can run it). -/
def insertStr (s : String) : List String → List String
  | [] => [s]
  | x :: r => if s ≤ x then s :: x :: r else x :: insertStr s r

/-- `sort.Strings`. -/
def sortStrs (l : List String) : List String := l.foldr insertStr []

/-- `models.SortedKeys`. -/
def sortedKeys {α : Type} (l : List (String × α)) : List String := sortStrs (akeys l)

/-! ## Points, batches, group ids -/

structure Point where
  name : String
  tags : Tags
  fields : Fields
  time : Int
  dims : List String := []     -- Dimensions.TagNames
  byName : Bool := false       -- Dimensions.ByName
deriving DecidableEq, Repr, Inhabited

structure BPoint where
  tags : Tags
  fields : Fields
  time : Int
deriving DecidableEq, Repr, Inhabited

/-- A batch: begin message (name, group tags, byName, tmax) + points. The dimensions of a begin message are always the
sorted keys of its tags (NewBeginBatchMessage, SetTags, SetTagsAndDimensions keep that). -/
structure Batch where
  name : String
  tags : Tags
  byName : Bool := false
  tmax : Option Int := none
  points : List BPoint := []
deriving DecidableEq, Repr, Inhabited

def tagOr (tags : Tags) (k : String) : String := (aget tags k).getD ""

/-- `models.ToGroupID`. -/
def toGroupID (name : String) (tags : Tags) (dims : List String) (byName : Bool) : String :=
  match dims with
  | [] => if byName then name else ""
  | _ =>
    (if byName then name ++ "\n" else "") ++ ",".intercalate (dims.map (fun d => d ++ "=" ++ tagOr tags d))

def Point.gid (p : Point) : String := toGroupID p.name p.tags p.dims p.byName
def Batch.dims (b : Batch) : List String := sortedKeys b.tags
def Batch.gid (b : Batch) : String := toGroupID b.name b.tags b.dims b.byName

/-- `pointMessage.GroupInfo().Tags`: the tags restricted to the dimensions ("" when absent). -/
def Point.groupTags (p : Point) : Tags := p.dims.foldl (fun acc d => aset acc d (tagOr p.tags d)) []

def BPoint.ofPoint (p : Point) : BPoint := { tags := p.tags, fields := p.fields, time := p.time }

/-! ## Lambda expressions (subset) -/

inductive BinOp where
  | eq | ne | lt | le | gt | ge | add | sub | mul | and | or
deriving DecidableEq, Repr, Inhabited

inductive Expr where
  | lit (v : Val)
  | ref (n : String)
  | bin (op : BinOp) (a b : Expr)
deriving DecidableEq, Repr, Inhabited

inductive Ty where
  | int | flt | str | bool | missing
deriving DecidableEq, Repr

def Val.ty : Val → Ty
  | .int _ => .int | .flt _ => .flt | .str _ => .str | .bool _ => .bool | .missing => .missing

def BinOp.isCmp : BinOp → Bool
  | .eq | .ne | .lt | .le | .gt | .ge => true
  | _ => false
def BinOp.isLogical : BinOp → Bool
  | .and | .or => true
  | _ => false

def cmpInt (op : BinOp) (x y : Int) : Bool :=
  match op with
  | .eq => x == y | .ne => x != y | .lt => x < y | .le => x ≤ y | .gt => x > y | .ge => x ≥ y | _ => false
def cmpFlt (op : BinOp) (x y : Float) : Bool :=
  match op with
  | .eq => x == y | .ne => x != y | .lt => x < y | .le => x ≤ y | .gt => x > y | .ge => x ≥ y | _ => false
def cmpStr (op : BinOp) (x y : String) : Bool :=
  match op with
  | .eq => x == y | .ne => x != y | .lt => x < y | .le => x ≤ y | .gt => x > y | .ge => x ≥ y | _ => false

/-- The entries of `evaluationFuncs` (tick/stateful/evaluation_funcs.go) for the subset; `none` = no entry = error. -/
def evalBin (op : BinOp) (a b : Val) : Option Val :=
  match op, a, b with
  | .add, .int x, .int y => some (.int (x + y))
  | .sub, .int x, .int y => some (.int (x - y))
  | .mul, .int x, .int y => some (.int (x * y))
  | .add, .flt x, .flt y => some (.flt (bitsOf (f64 x + f64 y)))
  | .sub, .flt x, .flt y => some (.flt (bitsOf (f64 x - f64 y)))
  | .mul, .flt x, .flt y => some (.flt (bitsOf (f64 x * f64 y)))
  | .add, .str x, .str y => some (.str (x ++ y))
  | .and, .bool x, .bool y => some (.bool (x && y))
  | .or, .bool x, .bool y => some (.bool (x || y))
  | op, .int x, .int y => if op.isCmp then some (.bool (cmpInt op x y)) else none
  | op, .int x, .flt y => if op.isCmp then some (.bool (cmpFlt op (Float.ofInt x) (f64 y))) else none
  | op, .flt x, .int y => if op.isCmp then some (.bool (cmpFlt op (f64 x) (Float.ofInt y))) else none
  | op, .flt x, .flt y => if op.isCmp then some (.bool (cmpFlt op (f64 x) (f64 y))) else none
  | op, .str x, .str y => if op.isCmp then some (.bool (cmpStr op x y)) else none
  | .eq, .bool x, .bool y => some (.bool (x == y))
  | .ne, .bool x, .bool y => some (.bool (x != y))
  | _, _, _ => none

abbrev Scope := List (String × Val)   -- a reference that is neither field nor tag is bound to `Val.missing`

/-- `NodeEvaluator.Type(scope)`: comparison and logical nodes are constantly bool WITHOUT looking at their operands;
math nodes look their operands up in the table. `none` = error. -/
def typeOf (sc : Scope) : Expr → Option Ty
  | .lit v => some v.ty
  | .ref n => (aget sc n).map Val.ty
  | .bin op a b =>
    if op.isCmp || op.isLogical then some .bool else
    match typeOf sc a, typeOf sc b with
    | some .int, some .int => some .int
    | some .flt, some .flt => some .flt
    | some .str, some .str => if op = .add then some .str else none
    | _, _ => none

/-- Evaluation; `none` = error. AND/OR check the types of both operands first and then short-circuit. -/
def eval (sc : Scope) : Expr → Option Val
  | .lit v => some v
  | .ref n => match aget sc n with
    | some .missing => none
    | some v => some v
    | none => none
  | .bin op a b =>
    if op.isLogical then
      match typeOf sc a, typeOf sc b with
      | some .bool, some .bool =>
        match eval sc a with
        | some (.bool x) =>
          if (op = .and && !x) then some (.bool false)
          else if (op = .or && x) then some (.bool true)
          else match eval sc b with
            | some (.bool y) => some (.bool y)
            | _ => none
        | _ => none
      | _, _ => none
    else
      match eval sc a, eval sc b with
      | some x, some y => evalBin op x y
      | _, _ => none

/-- `ast.FindReferenceVariables` (order irrelevant, duplicates harmless). -/
def Expr.refs : Expr → List String
  | .lit _ => []
  | .ref n => [n]
  | .bin _ a b => a.refs ++ b.refs

/-- `fillScope`: fields first, then tags (collision ⇒ error), else keep what the scope has or bind "missing". -/
def fillScope (sc : Scope) (refs : List String) (fields : Fields) (tags : Tags) : Option Scope :=
  refs.foldl (fun acc r =>
    match acc with
    | none => none
    | some sc =>
      match aget fields r, aget tags r with
      | some _, some _ => none
      | some v, none => some (aset sc r v)
      | none, some t => some (aset sc r (.str t))
      | none, none => if (aget sc r).isSome then some sc else some (aset sc r .missing)) (some sc)

/-- `EvalPredicate`: `none` = error. -/
def evalPred (e : Expr) (fields : Fields) (tags : Tags) : Option Bool :=
  match fillScope [] e.refs fields tags with
  | none => none
  | some sc =>
    match typeOf sc e with
    | none => none
    | some _ =>
      match eval sc e with
      | some (.bool b) => some b
      | _ => none

/-! ## Node configurations -/

structure EvalCfg where
  exprs : List Expr
  as : List String
  tags : List String := []
  keep : Bool := false
  keepList : List String := []
deriving Repr, Inhabited

structure DerivCfg where
  field : String
  as : String
  unit : Int
  nonNeg : Bool
deriving Repr, Inhabited

structure FlattenCfg where
  on : List String
  delim : String
  tol : Int
  drop : Bool
deriving Repr, Inhabited

structure CombineCfg where
  exprs : List Expr
  names : List String
  delim : String
  tol : Int
  max : Int
deriving Repr, Inhabited

structure GroupByCfg where
  dims : List String      -- as listed (not yet sorted)
  all : Bool
  excl : List String
  byName : Bool
deriving Repr, Inhabited

inductive Node where
  | where_ (e : Expr)
  | eval (c : EvalCfg)
  | default_ (fields : Fields) (tags : Tags)
  | delete (fields : List String) (tags : List String)
  | shift (d : Int)
  | sample (n : Int) (dur : Int)
  | derivative (c : DerivCfg)
  | changeDetect (fields : List String)
  | stateCount (e : Expr) (as : String)
  | stateDuration (e : Expr) (as : String) (unit : Int)
  | flatten (c : FlattenCfg)
  | combine (c : CombineCfg)
  | groupBy (c : GroupByCfg)
deriving Repr, Inhabited

/-- What travels on an edge. -/
inductive Edge where
  | stream (ps : List Point)
  | batch (bs : List Batch)
deriving Repr, Inhabited

/-! ## Grouped receivers (edge/grouped.go): one state per group id, created on the first message of the group -/

/-- Stream side of `groupedConsumer`: look the group of the point up (create it from the first point), run the group's
receiver, store the new state. -/
def runGrouped {σ : Type} (init : Point → σ) (step : σ → Point → σ × List Point) :
    List (String × σ) → List Point → List Point
  | _, [] => []
  | st, p :: ps =>
    let s := (aget st p.gid).getD (init p)
    let r := step s p
    r.2 ++ runGrouped init step (aset st p.gid r.1) ps

/-! ## where -/

def wherePass (e : Expr) (fields : Fields) (tags : Tags) : Bool := evalPred e fields tags == some true

def whereStream (e : Expr) (ps : List Point) : List Point := ps.filter (fun p => wherePass e p.fields p.tags)
def whereBatch (e : Expr) (b : Batch) : Batch := { b with points := b.points.filter (fun p => wherePass e p.fields p.tags) }

/-! ## eval -/

/-- The expression loop of `EvalNode.eval` (as repaired: `refVarList[i]` leaves out the names bound by EARLIER expressions
of the node, so a result is never re-filled from a field or tag of the same name): fill the scope for expression i,
evaluate, bind under `as[i]`. `earlier` = the `.as()` names before i. -/
def evalLoop : List Expr → List String → List String → Scope → Fields → Tags → Option Scope
  | [], _, _, sc, _, _ => some sc
  | _ :: _, [], _, _, _, _ => none
  | e :: es, a :: as, earlier, sc, fields, tags =>
    match fillScope sc (e.refs.filter (fun r => !earlier.contains r)) fields tags with
    | none => none
    | some sc1 =>
      match typeOf sc1 e with
      | none => none
      | some _ =>
        match eval sc1 e with
        | none => none
        | some v => evalLoop es as (earlier ++ [a]) (aset sc1 a v) fields tags

/-- Snapshot ef0888e (kept for the counterexample theorem): every reference of expression i was re-filled, also a name
an earlier expression had bound. -/
def evalLoopOld : List Expr → List String → Scope → Fields → Tags → Option Scope
  | [], _, sc, _, _ => some sc
  | _ :: _, [], _, _, _ => none
  | e :: es, a :: as, sc, fields, tags =>
    match fillScope sc e.refs fields tags with
    | none => none
    | some sc1 =>
      match typeOf sc1 e with
      | none => none
      | some _ =>
        match eval sc1 e with
        | none => none
        | some v => evalLoopOld es as (aset sc1 a v) fields tags

/-- `vars.Has(name)` / `vars.Get(name)`. -/
def scopeGet (sc : Scope) (k : String) : Option Val := aget sc k

/-- The shape shared by the tag loop and the three field loops of `EvalNode.eval`: walk the names; `get` says
"error" (none), "skip" (some none) or "write this value" (some (some v)); the first error aborts. -/
def optFold {β : Type} (get : String → Option (Option β)) (keys : List String) (init : List (String × β)) : Option (List (String × β)) :=
  keys.foldl (fun acc k =>
    match acc with
    | none => none
    | some m =>
      match get k with
      | none => none
      | some none => some m
      | some (some v) => some (aset m k v)) (some init)

/-- `for tag := range n.tags`: the result must exist and be a string. -/
def tagGet (sc : Scope) (t : String) : Option (Option String) :=
  match scopeGet sc t with
  | some (.str s) => some (some s)
  | _ => none

def evalTags (c : EvalCfg) (sc : Scope) (tags : Tags) : Option Tags := optFold (tagGet sc) c.tags tags

/-- keep(list): the scope first, then the raw fields, else "cannot keep field". -/
def keepListGet (sc : Scope) (fields : Fields) (f : String) : Option (Option Val) :=
  match scopeGet sc f with
  | some v => some (some v)
  | none => (aget fields f).map some

/-- keep(): every result is read back from the scope. -/
def keepAllGet (sc : Scope) (f : String) : Option (Option Val) := (scopeGet sc f).map some

/-- no keep: the results, skipping those turned into tags. -/
def noKeepGet (c : EvalCfg) (sc : Scope) (f : String) : Option (Option Val) :=
  if c.tags.contains f then some none else (scopeGet sc f).map some

def evalFields (c : EvalCfg) (sc : Scope) (fields : Fields) : Option Fields :=
  if c.keep then
    if c.keepList ≠ [] then optFold (keepListGet sc fields) c.keepList []
    else optFold (keepAllGet sc) c.as fields          -- all original fields + all results
  else optFold (noKeepGet c sc) c.as []               -- the results only

/-- `EvalNode.eval` on the fields and tags of one point; `none` = error = the point is dropped. -/
def evalFT (c : EvalCfg) (fields : Fields) (tags : Tags) : Option (Fields × Tags) :=
  match evalLoop c.exprs c.as [] [] fields tags with
  | none => none
  | some sc =>
    match evalTags c sc tags with
    | none => none
    | some nt =>
      match evalFields c sc fields with
      | none => none
      | some nf => some (nf, nt)

/-- snapshot ef0888e -/
def evalFTOld (c : EvalCfg) (fields : Fields) (tags : Tags) : Option (Fields × Tags) :=
  match evalLoopOld c.exprs c.as [] fields tags with
  | none => none
  | some sc =>
    match evalTags c sc tags with
    | none => none
    | some nt =>
      match evalFields c sc fields with
      | none => none
      | some nf => some (nf, nt)

def evalPoint (c : EvalCfg) (p : Point) : Option Point :=
  (evalFT c p.fields p.tags).map (fun r => { p with fields := r.1, tags := r.2 })
def evalBPoint (c : EvalCfg) (p : BPoint) : Option BPoint :=
  (evalFT c p.fields p.tags).map (fun r => { p with fields := r.1, tags := r.2 })

def evalStream (c : EvalCfg) (ps : List Point) : List Point := ps.filterMap (evalPoint c)
def evalBatch (c : EvalCfg) (b : Batch) : Batch := { b with points := b.points.filterMap (evalBPoint c) }

/-! ## default -/

/-- `setDefaults`, fields: a field that is absent is set (copy on first write). -/
def defaultFields (cfg : Fields) (fields : Fields) : Fields :=
  cfg.foldl (fun nf kv => if (aget fields kv.1).isNone then aset nf kv.1 kv.2 else nf) fields

/-- `setDefaults`, tags: a tag that is absent OR EMPTY is set. -/
def defaultTags (cfg : Tags) (tags : Tags) : Tags :=
  cfg.foldl (fun nt kv => if tagOr tags kv.1 = "" then aset nt kv.1 kv.2 else nt) tags

def defaultPoint (cf : Fields) (ct : Tags) (p : Point) : Point :=
  { p with fields := defaultFields cf p.fields, tags := defaultTags ct p.tags }
def defaultBPoint (cf : Fields) (ct : Tags) (p : BPoint) : BPoint :=
  { p with fields := defaultFields cf p.fields, tags := defaultTags ct p.tags }
/-- BeginBatch: the group tags are defaulted too (`SetTags` re-derives the dimensions from them). -/
def defaultBatch (cf : Fields) (ct : Tags) (b : Batch) : Batch :=
  { b with tags := defaultTags ct b.tags, points := b.points.map (defaultBPoint cf ct) }

/-! ## delete -/

def deleteKeys {α : Type} (ks : List String) (m : List (String × α)) : List (String × α) :=
  ks.foldl (fun nm k => if (aget m k).isSome then aerase nm k else nm) m

def deletePoint (df dt : List String) (p : Point) : Point :=
  let p1 := { p with fields := deleteKeys df p.fields, tags := deleteKeys dt p.tags }
  if p.dims.any (fun d => dt.contains d) then { p1 with dims := p.dims.filter (fun d => !dt.contains d) } else p1
def deleteBPoint (df dt : List String) (p : BPoint) : BPoint :=
  { p with fields := deleteKeys df p.fields, tags := deleteKeys dt p.tags }
def deleteBatch (df dt : List String) (b : Batch) : Batch :=
  { b with tags := deleteKeys dt b.tags, points := b.points.map (deleteBPoint df dt) }

/-! ## shift -/

def shiftPoint (d : Int) (p : Point) : Point := { p with time := p.time + d }
def shiftBatch (d : Int) (b : Batch) : Batch :=
  { b with tmax := b.tmax.map (· + d), points := b.points.map (fun p => { p with time := p.time + d }) }

/-! ## sample -/

/-- `shouldKeep`: duration form `t.Equal(t.Truncate(d))` with Go's `Time.Truncate` (Kap.C16.goTruncate: multiples of d are
counted from Go's zero time, year 1 — NOT from the Unix epoch); count form `count % N == 0`. -/
def shouldKeep (n dur : Int) (count : Int) (t : Int) : Bool :=
  if dur ≠ 0 then Kap.C16.goTruncate t dur == t else count % n == 0

/-- `sampleGroup.Point`: state = count. -/
def sampleStep (n dur : Int) (count : Int) (p : Point) : Int × List Point :=
  (count + 1, if shouldKeep n dur count p.time then [p] else [])

def sampleStream (n dur : Int) (ps : List Point) : List Point := runGrouped (fun _ => 0) (sampleStep n dur) [] ps

/-- Batch: the count is reset by BeginBatch. -/
def sampleBPoints (n dur : Int) : Int → List BPoint → List BPoint
  | _, [] => []
  | c, p :: ps => (if shouldKeep n dur c p.time then [p] else []) ++ sampleBPoints n dur (c + 1) ps
def sampleBatch (n dur : Int) (b : Batch) : Batch := { b with points := sampleBPoints n dur 0 b.points }

/-! ## derivative -/

def numToFloat : Option Val → Option Float
  | some (.int v) => some (Float.ofInt v)
  | some (.flt b) => some (f64 b)
  | _ => none

/-- `DerivativeNode.derivative`: (value, store, emit). -/
def derivative (c : DerivCfg) (prev : Option (Fields × Int)) (curr : Fields) (currTime : Int) : Option Val × Bool :=
  match numToFloat (aget curr c.field) with
  | none => (none, false)
  | some f1 =>
    match prev with
    | none => (none, true)
    | some (pf, pt) =>
      match numToFloat (aget pf c.field) with
      | none => (none, true)
      | some f0 =>
        if currTime - pt = 0 then (none, true) else
        let diff := f1 - f0
        if c.nonNeg && diff < 0 then (none, true) else
        (some (.flt (bitsOf (diff / (Float.ofInt (currTime - pt) / Float.ofInt c.unit)))), true)

/-- `doDerivative` on (fields, time): new previous and the emitted fields. -/
def derivFT (c : DerivCfg) (prev : Option (Fields × Int)) (fields : Fields) (t : Int) : Option (Fields × Int) × Option Fields :=
  let r := derivative c prev fields t
  (if r.2 then some (fields, t) else prev, r.1.map (fun v => aset fields c.as v))

def derivStep (c : DerivCfg) (prev : Option (Fields × Int)) (p : Point) : Option (Fields × Int) × List Point :=
  let r := derivFT c prev p.fields p.time
  (r.1, match r.2 with | some nf => [{ p with fields := nf }] | none => [])

def derivStream (c : DerivCfg) (ps : List Point) : List Point := runGrouped (fun _ => none) (derivStep c) [] ps

def derivBPoints (c : DerivCfg) : Option (Fields × Int) → List BPoint → List BPoint
  | _, [] => []
  | prev, p :: ps =>
    let r := derivFT c prev p.fields p.time
    (match r.2 with | some nf => [{ p with fields := nf }] | none => []) ++ derivBPoints c r.1 ps
def derivBatch (c : DerivCfg) (b : Batch) : Batch := { b with points := derivBPoints c none b.points }

/-! ## changeDetect -/

/-- Go `!=` on interface values holding field values: same dynamic type and equal value; floats compare numerically
(-0.0 equals 0.0, NaN differs from itself). -/
def Val.goEq : Val → Val → Bool
  | .flt a, .flt b => f64 a == f64 b
  | a, b => decide (a = b)

/-- `ChangeDetectNode.changeDetect`: some listed field that is present differs from the previous (absent counts as different). -/
def changed (fs : List String) (prev : Option Fields) (curr : Fields) : Bool :=
  fs.any (fun f => match aget curr f with
    | none => false
    | some v =>
      match prev.bind (fun pf => aget pf f) with
      | some pv => !Val.goEq pv v
      | none => true)

def changeStep (fs : List String) (prev : Option Fields) (p : Point) : Option Fields × List Point :=
  if changed fs prev p.fields then (some p.fields, [p]) else (prev, [])

def changeStream (fs : List String) (ps : List Point) : List Point := runGrouped (fun _ => none) (changeStep fs) [] ps

def changeBPoints (fs : List String) : Option Fields → List BPoint → List BPoint
  | _, [] => []
  | prev, p :: ps => if changed fs prev p.fields then p :: changeBPoints fs (some p.fields) ps else changeBPoints fs prev ps
def changeBatch (fs : List String) (b : Batch) : Batch := { b with points := changeBPoints fs none b.points }

/-! ## stateCount / stateDuration -/

/-- `stateCountTracker.track`. -/
def countTrack (count : Int) (inState : Bool) : Int × Val :=
  if !inState then (0, .int (-1)) else (count + 1, .int (count + 1))

/-- `stateDurationTracker.track` (startTime zero = none). -/
def durTrack (unit : Int) (start : Option Int) (t : Int) (inState : Bool) : Option Int × Val :=
  if !inState then (none, .flt (bitsOf (Float.ofInt (-1)))) else
  let s := start.getD t
  (some s, .flt (bitsOf (Float.ofInt (t - s) / Float.ofInt unit)))

/-- `stateTrackingGroup.track` for the count tracker on (fields, tags): an evaluation error drops the point and leaves
the tracker untouched. -/
def countFT (e : Expr) (as : String) (count : Int) (fields : Fields) (tags : Tags) : Int × Option Fields :=
  match evalPred e fields tags with
  | none => (count, none)
  | some b => let r := countTrack count b; (r.1, some (aset fields as r.2))

def durFT (e : Expr) (as : String) (unit : Int) (start : Option Int) (fields : Fields) (tags : Tags) (t : Int) :
    Option Int × Option Fields :=
  match evalPred e fields tags with
  | none => (start, none)
  | some b => let r := durTrack unit start t b; (r.1, some (aset fields as r.2))

def countStep (e : Expr) (as : String) (count : Int) (p : Point) : Int × List Point :=
  let r := countFT e as count p.fields p.tags
  (r.1, match r.2 with | some nf => [{ p with fields := nf }] | none => [])
def durStep (e : Expr) (as : String) (unit : Int) (start : Option Int) (p : Point) : Option Int × List Point :=
  let r := durFT e as unit start p.fields p.tags p.time
  (r.1, match r.2 with | some nf => [{ p with fields := nf }] | none => [])

def countStream (e : Expr) (as : String) (ps : List Point) : List Point := runGrouped (fun _ => 0) (countStep e as) [] ps
def durStream (e : Expr) (as : String) (unit : Int) (ps : List Point) : List Point :=
  runGrouped (fun _ => none) (durStep e as unit) [] ps

def countBPoints (e : Expr) (as : String) : Int → List BPoint → List BPoint
  | _, [] => []
  | c, p :: ps =>
    let r := countFT e as c p.fields p.tags
    (match r.2 with | some nf => [{ p with fields := nf }] | none => []) ++ countBPoints e as r.1 ps
def durBPoints (e : Expr) (as : String) (unit : Int) : Option Int → List BPoint → List BPoint
  | _, [] => []
  | s, p :: ps =>
    let r := durFT e as unit s p.fields p.tags p.time
    (match r.2 with | some nf => [{ p with fields := nf }] | none => []) ++ durBPoints e as unit r.1 ps
def countBatch (e : Expr) (as : String) (b : Batch) : Batch := { b with points := countBPoints e as 0 b.points }
def durBatch (e : Expr) (as : String) (unit : Int) (b : Batch) : Batch := { b with points := durBPoints e as unit none b.points }

/-! ## flatten -/

/-- `Time.Round(d)` exactly as Go computes it (Kap.C16.goRound: the remainder is taken of the absolute time since Go's zero
time, year 1; halfway values round up; d ≤ 0 leaves t alone). Times are Unix nanoseconds. -/
def roundTo (t d : Int) : Int := Kap.C16.goRound t d

/-- The tag part of the flattened field name of one point: the values of the `on` tags joined by the delimiter
(`none` when a tag is missing). `pre` is what the shared prefix buffer holds on entry. -/
def flattenPrefix (on : List String) (delim : String) (tags : Tags) (pre : String) : Nat → List String → Option String × String
  | _, [] => (some pre, pre)
  | i, t :: ts =>
    match aget tags t with
    | some v => flattenPrefix on delim tags (pre ++ (if i > 0 then delim else "") ++ v) (i + 1) ts
    | none => (none, pre)

/-- Field name for one field of a point. -/
def flatName (c : FlattenCfg) (pre : String) (fname : String) : String :=
  if c.drop then pre else pre ++ (if pre.length > 0 then c.delim else "") ++ fname

/-- `FlattenNode.flatten` with the prefix buffer made explicit. `resetOnSkip = true` is the code as repaired
(the buffer is reset before `continue POINTS`); `false` is snapshot ef0888e, where the part of the prefix written
before the missing tag was found stays in the buffer and is prepended to the names of the NEXT point. -/
def flattenGo (resetOnSkip : Bool) (c : FlattenCfg) : String → List BPoint → Fields → Fields
  | _, [], acc => acc
  | buf, p :: ps, acc =>
    match flattenPrefix c.on c.delim p.tags buf 0 c.on with
    | (none, left) => flattenGo resetOnSkip c (if resetOnSkip then "" else left) ps acc
    | (some pre, _) =>
      flattenGo resetOnSkip c "" ps (p.fields.foldl (fun a kv => aset a (flatName c pre kv.1) kv.2) acc)

def flattenFields (c : FlattenCfg) (pts : List BPoint) : Fields := flattenGo true c "" pts []
/-- snapshot ef0888e (kept for the counterexample theorem). -/
def flattenFieldsOld (c : FlattenCfg) (pts : List BPoint) : Fields := flattenGo false c "" pts []

/-- `flattenBuffer`: current bucket time (zero = none), name and group of the FIRST message, buffered points. -/
structure FlatSt where
  time : Option Int
  name : String
  gtags : Tags
  dims : List String
  byName : Bool
  points : List BPoint := []
deriving Repr, Inhabited

/-- `addPoint`: returns the fields to emit (with the time of the bucket that was closed). -/
def flatAdd (c : FlattenCfg) (s : FlatSt) (p : BPoint) : FlatSt × Option (Int × Fields) :=
  if s.time ≠ some p.time then
    let out := if s.points ≠ [] then some ((s.time.getD 0), flattenFields c s.points) else none
    ({ s with time := some p.time, points := [p] }, out)
  else ({ s with points := s.points ++ [p] }, none)

def flatInit (c : FlattenCfg) (p : Point) : FlatSt :=
  { time := some (roundTo p.time c.tol), name := p.name, gtags := p.groupTags, dims := p.dims, byName := p.byName }

/-- `flattenBuffer.Point`. -/
def flatStep (c : FlattenCfg) (s : FlatSt) (p : Point) : FlatSt × List Point :=
  let t := roundTo p.time c.tol
  let r := flatAdd c s { tags := p.tags, fields := p.fields, time := t }
  match r.2 with
  | none => (r.1, [])
  | some (t', fields) =>
    if fields = [] then (r.1, []) else
    -- `if t.After(b.time) { b.time = t }` with t = the time of the closed bucket
    let after : Bool := match r.1.time with
      | some bt => decide (t' > bt)
      | none => true
    let s' := if after then { r.1 with time := some t' } else r.1
    (s', [{ name := s.name, tags := s.gtags, fields := fields, time := t', dims := s.dims, byName := s.byName }])

def flattenStream (c : FlattenCfg) (ps : List Point) : List Point := runGrouped (flatInit c) (flatStep c) [] ps

/-- Batch: BeginBatch resets the bucket time; every closed bucket and the last one (EndBatch) become one point whose
tags are the GROUP tags. -/
def flatBPoints (c : FlattenCfg) (gtags : Tags) : FlatSt → List BPoint → List BPoint
  | s, [] => if s.points ≠ [] then [{ tags := gtags, fields := flattenFields c s.points, time := s.time.getD 0 }] else []
  | s, p :: ps =>
    let r := flatAdd c s { p with time := roundTo p.time c.tol }
    (match r.2 with
      | some (t', fields) => if fields = [] then [] else [{ tags := gtags, fields := fields, time := t' }]
      | none => []) ++ flatBPoints c gtags r.1 ps

def flattenBatch (c : FlattenCfg) (b : Batch) : Batch :=
  { b with points := flatBPoints c b.tags { time := none, name := b.name, gtags := b.tags, dims := b.dims, byName := b.byName } b.points }

/-! ## combine -/

/-- `combination.Count` (int64 arithmetic with truncating division; -1 when n < k). -/
def combCount (n k : Nat) : Int :=
  if n < k then -1 else
  (List.range k).foldl (fun (count : Int) (i : Nat) => (count * ((n : Int) - (i : Int))) / ((i : Int) + 1)) 1

/-- All k-subsets of `l` in lexicographic order of positions (what `combination.Do` walks through). -/
def choose {α : Type} : Nat → List α → List (List α)
  | 0, _ => [[]]
  | _ + 1, [] => []
  | k + 1, x :: xs => (choose k xs).map (x :: ·) ++ choose (k + 1) xs

/-- Snapshot ef0888e (kept for the counterexample theorem): the greedy walk inside the callback — for each lambda in order
take the first remaining member that matches, never take a choice back. -/
def assign {α : Type} (m : Nat → α → Bool) : Nat → Nat → List α → Option (List α)
  | 0, _, _ => some []
  | l + 1, s, rest =>
    match rest.find? (m s) with
    | none => none
    | some x =>
      match assign m l (s + 1) (rest.eraseP (m s)) with
      | none => none
      | some r => some (x :: r)

def nth? {α : Type} : List α → Nat → Option α
  | [], _ => none
  | x :: _, 0 => some x
  | _ :: r, n + 1 => nth? r n

def firstSome {β : Type} (f : Nat → Option β) : List Nat → Option β
  | [] => none
  | i :: is =>
    match f i with
    | some r => some r
    | none => firstSome f is

/-- `combineBuffer.assign` (as repaired): for lambda s try the remaining members in order; a member that matches is taken
and the remaining lambdas are served from the others; when that fails the choice is taken back and the next member is
tried. (The code marks a used member in `indices`; here it is removed — the order of the others is the same.) -/
def assignBT {α : Type} (m : Nat → α → Bool) : Nat → Nat → List α → Option (List α)
  | 0, _, _ => some []
  | l + 1, s, rest =>
    firstSome (fun i =>
      match nth? rest i with
      | some x => if m s x then (assignBT m l (s + 1) (rest.eraseIdx i)).map (x :: ·) else none
      | none => none) (List.range rest.length)

/-- `combineBuffer.merge`. -/
def mergeSet (c : CombineCfg) (dims : List String) (set : List BPoint) : Fields × Tags :=
  let step := fun (acc : Fields × Tags × Nat) (p : BPoint) =>
    let nm := (nth? c.names acc.2.2).getD ""
    let f := p.fields.foldl (fun a kv => aset a (nm ++ c.delim ++ kv.1) kv.2) acc.1
    let t := p.tags.foldl (fun a kv => if dims.contains kv.1 then aset a kv.1 kv.2 else aset a (nm ++ c.delim ++ kv.1) kv.2) acc.2.1
    (f, t, acc.2.2 + 1)
  let r := set.foldl step ([], [], 0)
  (r.1, r.2.1)

/-- `combineBuffer.combine`: `none` = the node fails ("refusing to perform combination"). -/
def combineBucket (c : CombineCfg) (name : String) (dims : List String) (byName : Bool) (pts : List BPoint) : Option (List Point) :=
  if pts = [] then some [] else
  let l := c.exprs.length
  let cnt := combCount pts.length l
  if cnt > c.max then none else
  if cnt = -1 then some [] else
  let m := fun (s : Nat) (p : BPoint) => match nth? c.exprs s with
    | some e => evalPred e p.fields p.tags == some true
    | none => false
  some ((choose l pts).filterMap (fun set =>
    match assignBT m l 0 set with
    | none => none
    | some sel =>
      let ft := mergeSet c dims sel
      some { name := name, tags := ft.2, fields := ft.1, time := roundTo ((sel.head?.map (·.time)).getD 0) c.tol, dims := dims, byName := byName }))

structure CombSt where
  time : Option Int
  name : String
  dims : List String
  byName : Bool
  points : List BPoint := []
  dead : Bool := false
deriving Repr, Inhabited

/-- `combineBuffer.addPoint`. -/
def combAdd (c : CombineCfg) (s : CombSt) (p : BPoint) : CombSt × List Point :=
  if s.dead then (s, []) else
  let t := roundTo p.time c.tol
  let p' := { p with time := t }
  if s.time = some t then ({ s with points := s.points ++ [p'] }, [])
  else
    match combineBucket c s.name s.dims s.byName s.points with
    | none => ({ s with dead := true }, [])
    | some out => ({ s with time := some t, points := [p'] }, out)

/-- Snapshot ef0888e started a new bucket with `b.points = b.points[0:1]; b.points[0] = p`, which needs capacity ≥ 1:
`bucketTime` is b.time, `cap` the capacity of b.points, `t` the time of the arriving point. True = the process panics. -/
def combAddOldPanics (tol : Int) (bucketTime : Option Int) (cap : Nat) (t : Int) : Bool :=
  decide (bucketTime ≠ some (roundTo t tol)) && cap == 0

def combInit (p : Point) : CombSt := { time := some p.time, name := p.name, dims := p.dims, byName := p.byName }
def combStep (c : CombineCfg) (s : CombSt) (p : Point) : CombSt × List Point := combAdd c s (BPoint.ofPoint p)

def combineStream (c : CombineCfg) (ps : List Point) : List Point := runGrouped combInit (combStep c) [] ps

/-- Batch: BeginBatch resets name and bucket time; EndBatch combines what is left. Output: stream points. -/
def combBPoints (c : CombineCfg) : CombSt → List BPoint → List Point
  | s, [] => if s.dead then [] else (combineBucket c s.name s.dims s.byName s.points).getD []
  | s, p :: ps => let r := combAdd c s p; r.2 ++ combBPoints c r.1 ps

def combineBatch (c : CombineCfg) (b : Batch) : List Point :=
  combBPoints c { time := none, name := b.name, dims := b.dims, byName := b.byName } b.points

/-! ## groupBy -/

/-- `filterExcludedTagNames`. -/
def filterExcluded (names excl : List String) : List String := names.filter (fun t => !excl.contains t)

/-- `determineTagNames` (the listed names sorted, minus the excluded) + `computeTagNames`. -/
def gbTagNames (c : GroupByCfg) (tags : Tags) : List String :=
  if c.all then filterExcluded (sortedKeys tags) c.excl else filterExcluded (sortStrs c.dims) c.excl

/-- `GroupByNode.Point`. -/
def groupByPoint (c : GroupByCfg) (p : Point) : Point :=
  { p with dims := gbTagNames c p.tags, byName := p.byName || c.byName }

/-- State of the batch side: `lastTime`, the current begin message, the buffered groups in creation order. -/
structure GbSt where
  lastTime : Option Int := none
  name : String := ""
  byName : Bool := false
  tmax : Option Int := none
  groups : List (String × Batch) := []
deriving Repr, Inhabited

/-- Insertion sort by time, stable (what `sort.Sort` does for ≤ 12 elements). -/
def insertByTime (p : BPoint) : List BPoint → List BPoint
  | [] => [p]
  | x :: r => if p.time < x.time then p :: x :: r else x :: insertByTime p r
def sortByTime (l : List BPoint) : List BPoint := l.foldl (fun acc p => insertByTime p acc) []

/-- SetTagsAndDimensions: the tags of the new begin message are exactly the dimensions. -/
def restrictTags (tags : Tags) (dims : List String) : Tags := dims.foldl (fun acc d => aset acc d (tagOr tags d)) []

def gbBatchPoint (c : GroupByCfg) (s : GbSt) (p : BPoint) : GbSt :=
  let dims := gbTagNames c p.tags
  let id := toGroupID s.name p.tags dims s.byName
  match aget s.groups id with
  | some g => { s with groups := aset s.groups id { g with points := g.points ++ [p] } }
  | none => { s with groups := s.groups ++ [(id, { name := s.name, tags := restrictTags p.tags dims, byName := s.byName, tmax := s.tmax, points := [p] })] }

/-- One incoming batch: emit everything buffered when the end time differs from the last one seen, then regroup. -/
def gbBatch (c : GroupByCfg) (s : GbSt) (b : Batch) : GbSt × List Batch :=
  let (s1, out) := if b.tmax ≠ s.lastTime then
      ({ s with lastTime := b.tmax, groups := [] }, s.groups.map (fun g => { g.2 with points := sortByTime g.2.points }))
    else (s, [])
  let s2 := { s1 with name := b.name, byName := b.byName || c.byName, tmax := b.tmax }
  (b.points.foldl (gbBatchPoint c) s2, out)

def groupByBatches (c : GroupByCfg) : GbSt → List Batch → List Batch
  | _, [] => []
  | s, b :: bs => let r := gbBatch c s b; r.2 ++ groupByBatches c r.1 bs

/-! ## A node on an edge; pipelines -/

def Node.run : Node → Edge → Edge
  | .where_ e, .stream ps => .stream (whereStream e ps)
  | .where_ e, .batch bs => .batch (bs.map (whereBatch e))
  | .eval c, .stream ps => .stream (evalStream c ps)
  | .eval c, .batch bs => .batch (bs.map (evalBatch c))
  | .default_ f t, .stream ps => .stream (ps.map (defaultPoint f t))
  | .default_ f t, .batch bs => .batch (bs.map (defaultBatch f t))
  | .delete f t, .stream ps => .stream (ps.map (deletePoint f t))
  | .delete f t, .batch bs => .batch (bs.map (deleteBatch f t))
  | .shift d, .stream ps => .stream (ps.map (shiftPoint d))
  | .shift d, .batch bs => .batch (bs.map (shiftBatch d))
  | .sample n d, .stream ps => .stream (sampleStream n d ps)
  | .sample n d, .batch bs => .batch (bs.map (sampleBatch n d))
  | .derivative c, .stream ps => .stream (derivStream c ps)
  | .derivative c, .batch bs => .batch (bs.map (derivBatch c))
  | .changeDetect f, .stream ps => .stream (changeStream f ps)
  | .changeDetect f, .batch bs => .batch (bs.map (changeBatch f))
  | .stateCount e a, .stream ps => .stream (countStream e a ps)
  | .stateCount e a, .batch bs => .batch (bs.map (countBatch e a))
  | .stateDuration e a u, .stream ps => .stream (durStream e a u ps)
  | .stateDuration e a u, .batch bs => .batch (bs.map (durBatch e a u))
  | .flatten c, .stream ps => .stream (flattenStream c ps)
  | .flatten c, .batch bs => .batch (bs.map (flattenBatch c))
  | .combine c, .stream ps => .stream (combineStream c ps)
  | .combine c, .batch bs => .stream (bs.flatMap (combineBatch c))
  | .groupBy c, .stream ps => .stream (ps.map (groupByPoint c))
  | .groupBy c, .batch bs => .batch (groupByBatches c {} bs)

/-- A pipeline below one edge: every child of a node receives the SAME value (forwardingReceiver.forward hands the same
message to every out edge). -/
inductive Pipe where
  | node (n : Node) (children : List Pipe)

/-- The edges a pipeline produces (pre-order, one per node) for a given input edge. -/
def Pipe.outputs : Pipe → Edge → List Edge
  | .node n cs, e =>
    let o := n.run e
    o :: outputsList cs o
where
  outputsList : List Pipe → Edge → List Edge
    | [], _ => []
    | c :: cs, o => c.outputs o ++ outputsList cs o

/-- A chain of nodes. -/
def runChain (ns : List Node) (e : Edge) : Edge := ns.foldl (fun acc n => n.run acc) e

end Kap.C10
