/-
C10, aliasing half — the ShallowCopy discipline over facts extracted from the Go source (extract/c10alias → Kap/Gen/C10.lean).

A node shares every incoming message with its sibling branches (edge/forwarding.go hands the SAME object to every child).
The contract of edge/messages.go: write only to a message object obtained by ShallowCopy() (or created), and only to
reference data obtained by Copy()/make()/a literal — never to maps/slices read out of the incoming message.

The extractor classifies, purely syntactically, the ORIGIN of every object a function of the node files writes to, and of
every reference argument it passes to another function of these files. `noWriteToInput` decides the discipline:
  * no write has origin `input` (the incoming message object, or reference data read out of it — also via a ShallowCopy,
    which shares its maps) or `unknown`, and no unrecognised shape was met;
  * a CONTENT write to a ShallowCopy itself does not exist;
  * a write to a parameter is judged at every call site, transitively: the argument must be fresh/own (content write) or
    at least a ShallowCopy (message setter).
What this does NOT see (stated in checks/C10.json): flow through data structures other than direct receiver fields, writes
hidden in functions outside the node files, type information (everything is by name and shape).
Core Lean only.
-/
namespace Kap.C10.Alias

inductive Origin where
  | scalar | fresh | own | msgcopy | param (i : Nat) | input | unknown
deriving DecidableEq, Repr

inductive WKind where
  | content   -- m[k] = v, delete, x[i] = v, append re-using x, sort in place, copy into
  | msgset    -- msg.SetFields(…), SetTags, SetTime, SetDimensions, …
deriving DecidableEq, Repr

inductive Fact where
  | write (fn : Nat) (k : WKind) (o : Origin)
  | call (caller callee arg : Nat) (o : Origin)
  | unknown (fn : Nat) (src : String)
deriving Repr

/-- (function, parameter index, kind): "this parameter is written to by the function or by something it calls". -/
abbrev Written := List (Nat × Nat × WKind)

def directWritten (fs : List Fact) : Written :=
  fs.filterMap (fun f => match f with
    | .write fn k (.param i) => some (fn, i, k)
    | _ => none)

/-- one round of propagation through calls that pass a parameter on -/
def propagate (fs : List Fact) (w : Written) : Written :=
  fs.foldl (fun acc f => match f with
    | .call caller callee arg (.param j) =>
      let add := [WKind.content, WKind.msgset].filter (fun k => w.contains (callee, arg, k) && !acc.contains (caller, j, k))
      acc ++ add.map (fun k => (caller, j, k))
    | _ => acc) w

def iterate {α : Type} (f : α → α) : Nat → α → α
  | 0, a => a
  | n + 1, a => iterate f n (f a)

/-- all written parameters: as many rounds as there are parameter-forwarding calls (+1) reach the fixpoint -/
def written (fs : List Fact) : Written :=
  let n := (fs.filter (fun f => match f with | .call _ _ _ (.param _) => true | _ => false)).length + 1
  iterate (propagate fs) n (directWritten fs)

def okFact (w : Written) : Fact → Bool
  | .unknown _ _ => false
  | .write _ _ .input => false
  | .write _ _ .unknown => false
  | .write _ .content .msgcopy => false
  | .write _ _ _ => true
  | .call _ callee arg o =>
    match o with
    | .input | .unknown => !(w.contains (callee, arg, .content) || w.contains (callee, arg, .msgset))
    | .msgcopy => !w.contains (callee, arg, .content)
    | _ => true

/-- The ShallowCopy discipline holds of the extracted facts. -/
def noWriteToInput (fs : List Fact) : Bool := fs.all (okFact (written fs))

/-- What a passing check rules out directly: no extracted write targets the incoming message or data read out of it, and
nothing unrecognised was met. -/
theorem noWriteToInput_direct (fs : List Fact) (h : noWriteToInput fs = true) :
    (∀ fn k, Fact.write fn k .input ∉ fs) ∧ (∀ fn k, Fact.write fn k .unknown ∉ fs) ∧ (∀ fn s, Fact.unknown fn s ∉ fs) := by
  unfold noWriteToInput at h
  rw [List.all_eq_true] at h
  refine ⟨?_, ?_, ?_⟩
  · intro fn k hm; have := h _ hm; simp [okFact] at this
  · intro fn k hm; have := h _ hm; simp [okFact] at this
  · intro fn s hm; have := h _ hm; simp [okFact] at this

/-- … and at call sites: an argument that is the incoming message (or data out of it) never reaches a parameter that is
written to. -/
theorem noWriteToInput_calls (fs : List Fact) (h : noWriteToInput fs = true) (caller callee arg : Nat)
    (hm : Fact.call caller callee arg .input ∈ fs) (k : WKind) : (callee, arg, k) ∉ written fs := by
  unfold noWriteToInput at h
  rw [List.all_eq_true] at h
  have := h _ hm
  simp only [okFact, Bool.not_eq_true', Bool.or_eq_false_iff] at this
  intro hc
  cases k with
  | content => have := this.1; simp_all
  | msgset => have := this.2; simp_all

end Kap.C10.Alias
