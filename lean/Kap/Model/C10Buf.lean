/-
C10, re-buffering half — `edge.BatchBuffer` (edge/buffered.go) over a heap of Go slices.

Nodes that want a whole batch (log(), httpOut(), httpPost(), alert(), influxDBOut(), and edge.multiConsumer in front of
join()/union()) collect a batch that reaches them as begin / point … / end — i.e. whenever their parent is a per-point node
(where, eval, shift, default, delete, sample, derivative, changeDetect, stateCount, stateDuration, flatten) on a batch
edge — with ONE `BatchBuffer` per node / group / parent edge, and hand the `BufferedBatchMessage` on to their children.
`BufferedBatchMessage(end)` does NOT copy: the emitted message holds the very slice `r.points`. What has been emitted is
read by the children LATER (the edge is a 1000-slot channel, a slow child — httpPost, an alert handler, a UDF, join — lags
behind), so the buffer must never write again to a backing array it has handed out.

That is a statement about ALIASING, which immutable values cannot express: the model therefore has a heap.
  * `Slice` = (backing array, len, cap) as in Go; `append` writes IN PLACE when len < cap and reallocates (copy to a new
    array) otherwise; `make` allocates; `s[:0]` keeps the array.
  * The three methods are interpreted statement by statement from an IR (`Stmt`) which extract/c10alias REGENERATES from the
    Go source on every run (Kap/Gen/C10.lean: `bufferProg`); a statement it does not recognise is `Stmt.unknown`.
  * An emitted message is the (begin, slice) pair; `observeLate` reads every emitted message in the FINAL heap — the latest
    possible consumer.
Abstracted: the begin message is a value (its size hint is not data; `setHint` is kept for the discipline only), the end
message carries nothing, Go's growth factor of `append` is a parameter `grow` (the theorems hold for every one).
Core Lean only.
-/
namespace Kap.C10.Buf

/-- conditions of an `if` in BeginBatch -/
inductive Cond where
  | hintGtCap            -- begin.SizeHint() > cap(r.points)
deriving DecidableEq, Repr

/-- statements of the methods of BatchBuffer, as recognised by the extractor -/
inductive Stmt where
  | beginCopy            -- r.begin = begin.ShallowCopy()
  | beginShare           -- r.begin = begin                      (keeps the shared incoming object)
  | pointsMake           -- r.points = make([]BatchPointMessage, 0, <size hint>)
  | pointsTrunc          -- r.points = r.points[:0]               (keeps the backing array)
  | pointsAppend         -- r.points = append(r.points, bp)
  | setHint              -- r.begin.SetSizeHint(len(r.points))
  | emitShared           -- return NewBufferedBatchMessage(r.begin, r.points, end)
  | retNil               -- return nil
  | ite (c : Cond) (t e : List Stmt)
  | unknown (src : String)
deriving Repr

/-- the three methods -/
structure Prog where
  beginM : List Stmt
  pointM : List Stmt
  endM : List Stmt
deriving Repr

mutual
def Stmt.beq : Stmt → Stmt → Bool
  | .beginCopy, .beginCopy | .beginShare, .beginShare | .pointsMake, .pointsMake | .pointsTrunc, .pointsTrunc
  | .pointsAppend, .pointsAppend | .setHint, .setHint | .emitShared, .emitShared | .retNil, .retNil => true
  | .ite c t e, .ite c' t' e' => c == c' && Stmt.beqList t t' && Stmt.beqList e e'
  | .unknown a, .unknown b => a == b
  | _, _ => false
def Stmt.beqList : List Stmt → List Stmt → Bool
  | [], [] => true
  | a :: as, b :: bs => Stmt.beq a b && Stmt.beqList as bs
  | _, _ => false
end

def Prog.beq (p q : Prog) : Bool := Stmt.beqList p.beginM q.beginM && Stmt.beqList p.pointM q.pointM && Stmt.beqList p.endM q.endM

/-- edge/buffered.go as it is (and as the theorems need it): a FRESH slice for every batch. -/
def goodProg : Prog :=
  { beginM := [.beginCopy, .pointsMake, .retNil], pointM := [.pointsAppend, .retNil], endM := [.setHint, .emitShared] }

/-- the "allocation optimisation": keep the backing array of the previous batch when it is large enough -/
def reuseProg : Prog :=
  { goodProg with beginM := [.beginCopy, .ite .hintGtCap [.pointsMake] [.pointsTrunc], .retNil] }

structure Slice where
  arr : Nat
  len : Nat
  cap : Nat
deriving DecidableEq, Repr

/-- the nil slice: array 0 is reserved for it (capacity 0: never written) -/
def Slice.nil : Slice := { arr := 0, len := 0, cap := 0 }

/-- an emitted BufferedBatchMessage: the begin message and the points SLICE (not its contents) -/
structure Msg (β : Type) where
  begin : Option β
  sl : Slice

structure St (α β : Type) where
  next : Nat := 1                                   -- number of backing arrays allocated so far
  cell : Nat → Nat → Option α := fun _ _ => none    -- the heap: array → index → element
  begin : Option β := none                          -- r.begin
  pts : Slice := Slice.nil                          -- r.points
  out : List (Msg β) := []                          -- what has been handed to the children, in order

/-- the messages that reach a BatchBuffer -/
inductive Op (α β : Type) where
  | begin (b : β) (hint : Nat)
  | point (x : α)
  | end_

def upd {α : Type} (cell : Nat → Nat → Option α) (a i : Nat) (x : Option α) : Nat → Nat → Option α :=
  fun a' i' => if a' = a ∧ i' = i then x else cell a' i'

/-- Go's `append(s, x)` -/
def goAppend {α β : Type} (grow : Nat → Nat) (st : St α β) (x : α) : St α β :=
  if st.pts.len < st.pts.cap then
    { st with cell := upd st.cell st.pts.arr st.pts.len (some x), pts := { st.pts with len := st.pts.len + 1 } }
  else
    let old := st.pts
    { st with next := st.next + 1
              cell := fun a i => if a = st.next then (if i = old.len then some x else if i < old.len then st.cell old.arr i else none)
                                 else st.cell a i
              pts := { arr := st.next, len := old.len + 1, cap := grow old.cap } }

def evalCond {α β : Type} (st : St α β) (op : Op α β) : Cond → Bool
  | .hintGtCap => match op with | .begin _ h => decide (h > st.pts.cap) | _ => false

mutual
def exec {α β : Type} (grow : Nat → Nat) (op : Op α β) : Stmt → St α β → St α β
  | .beginCopy, st | .beginShare, st => match op with | .begin b _ => { st with begin := some b } | _ => st
  | .pointsMake, st =>
    match op with
    | .begin _ h => { st with next := st.next + 1, pts := { arr := st.next, len := 0, cap := h } }
    | _ => { st with next := st.next + 1, pts := { arr := st.next, len := 0, cap := 0 } }
  | .pointsTrunc, st => { st with pts := { st.pts with len := 0 } }
  | .pointsAppend, st => match op with | .point x => goAppend grow st x | _ => st
  | .setHint, st => st
  | .emitShared, st => { st with out := st.out ++ [{ begin := st.begin, sl := st.pts }] }
  | .retNil, st => st
  | .ite c t e, st => if evalCond st op c then execList grow op t st else execList grow op e st
  | .unknown _, st => st
def execList {α β : Type} (grow : Nat → Nat) (op : Op α β) : List Stmt → St α β → St α β
  | [], st => st
  | s :: ss, st => execList grow op ss (exec grow op s st)
end

def step {α β : Type} (p : Prog) (grow : Nat → Nat) (st : St α β) (op : Op α β) : St α β :=
  match op with
  | .begin _ _ => execList grow op p.beginM st
  | .point _ => execList grow op p.pointM st
  | .end_ => execList grow op p.endM st

def runFrom {α β : Type} (p : Prog) (grow : Nat → Nat) (st : St α β) (ops : List (Op α β)) : St α β := ops.foldl (step p grow) st

def run {α β : Type} (p : Prog) (grow : Nat → Nat) (ops : List (Op α β)) : St α β := runFrom p grow {} ops

/-- what a consumer finds in a message when it reads it in state `st` -/
def read {α β : Type} (st : St α β) (m : Msg β) : List (Option α) := (List.range m.sl.len).map (st.cell m.sl.arr)

/-- every emitted message, read in the final heap: the latest possible consumer -/
def observeLate {α β : Type} (st : St α β) : List (Option β × List (Option α)) := st.out.map (fun m => (m.begin, read st m))

/-- Go's growth (any function would do) -/
def goGrow (c : Nat) : Nat := if c = 0 then 1 else 2 * c

end Kap.C10.Buf
