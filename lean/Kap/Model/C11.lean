/-
C11 — model of the InfluxQL node lifecycle: `influxql.go` (InfluxQLNode, influxqlGroup,
influxqlStreamingTransformGroup, getCreateFn) and the kapacitor-side halves of `influxql.gen.go`
(convertXPoint, EmitPoint, EmitBatch — in Kap/Model/C11Defs.lean).

Transcription of snapshot ef0888e + the four `fix:` commits recorded in findings/C11.txt (d326602, cce1e44,
2f9187b, 70edbcf); the behaviour before each fix is kept behind a `Quirks` switch for the counterexample
theorems. Transcribed, branch for branch:
* `getCreateFn`: node-wide cache `currentKind` / `createFn`, shared by ALL groups of the node;
* `influxqlGroup.BeginBatch / BatchPoint / EndBatch`: reset of `rc`, `batchSize`, `bc.time`; realisation of the
  reduce context from the kind of the first point's field; a failed realisation ignores the point WITHOUT
  counting it, a failed aggregation (wrong type / missing field) is logged and the point still counted; the
  empty-batch rule; the float default;
* `influxqlGroup.Point` (stream mode): equal time ⇒ aggregate, else emit the current context, reset, aggregate;
* `influxqlStreamingTransformGroup`: context realised once per batch / once per group, one emit per point.
Abstracted: the reduce context is the list of successfully converted points (`RC.pts`); what `Emit` returns
is `reduce` / `tEmit` of C11Defs (the vendored reducers by their definitions). Measurement names, database
and retention policy are not modelled (the harness uses one measurement). Group identity = the group's tag
set (ID collisions are C06's subject).
Core Lean only.
-/
import Kap.Model.C11Defs
namespace Kap.C11

/-- a realised reduce context: which kind its aggregator accepts, the base context's time at creation
(`createFn(g.bc)` copies `bc` by value), and what has been aggregated. -/
structure RC where
  kind : Kind
  time : Int
  pts : List QP := []
  ts : TState := {}          -- reducer state of a streaming transformation
deriving DecidableEq, Repr, Inhabited

structure GroupSt where
  time : Int                 -- bc.time
  rc : Option RC := none
  batchSize : Nat := 0
deriving DecidableEq, Repr, Inhabited

structure NodeSt where
  currentKind : Option Kind := none      -- reflect.Invalid initially
  createFn : Option Kind := none         -- the kind the cached creator was built for (`nil` = none)
  groups : List (Tags × GroupSt) := []
deriving DecidableEq, Repr, Inhabited

/-- `InfluxQLNode.getCreateFn`. Returns the kind the returned creator builds contexts for. -/
def getCreateFn (q : Quirks) (cfg : Cfg) (n : NodeSt) (kind : Kind) : NodeSt × Option Kind :=
  let changed := n.currentKind != some kind
  if !changed && n.createFn.isSome then (n, n.createFn)
  else
    let n := { n with currentKind := some kind }
    if supported cfg.fn kind then ({ n with createFn := some kind }, some kind)
    else ((if q.staleCreateFn then n else { n with createFn := none }), none)

/-- `realizeReduceContext(kind)`: `g.rc = createFn(g.bc)`. -/
def realize (q : Quirks) (cfg : Cfg) (n : NodeSt) (bcTime : Int) (kind : Kind) : NodeSt × Option RC :=
  match getCreateFn q cfg n kind with
  | (n', some k) => (n', some { kind := k, time := bcTime })
  | (n', none) => (n', none)

/-- `realizeReduceContextFromFields`: the kind of `fields[field]`; missing ⇒ error. -/
def realizeFromFields (q : Quirks) (cfg : Cfg) (n : NodeSt) (bcTime : Int) (fields : Fields) : NodeSt × Option RC :=
  match lookup cfg.field fields with
  | none => (n, none)
  | some v => realize q cfg n bcTime v.kind

/-- `rc.AggregatePoint`: conversion error ⇒ nothing aggregated (the caller logs). Returns success. -/
def RC.aggregate (cfg : Cfg) (rc : RC) (p : Pt) : RC × Bool :=
  match convert cfg rc.kind p with
  | some qp => ({ rc with pts := rc.pts ++ [qp], ts := tAgg cfg rc.ts qp }, true)
  | none => (rc, false)

/-! ### batch mode, aggregating functions (`influxqlGroup`) -/

def beginBatch (g : GroupSt) (tmax : Int) : GroupSt := { g with batchSize := 0, time := tmax, rc := none }

def batchPoint (q : Quirks) (cfg : Cfg) (n : NodeSt) (g : GroupSt) (p : Pt) : NodeSt × GroupSt :=
  match g.rc with
  | none =>
    match realizeFromFields q cfg n g.time p.fields with
    | (n', none) => (n', g)                                  -- "failed to realize reduce context": point ignored
    | (n', some rc) => (n', { g with rc := some (rc.aggregate cfg p).1, batchSize := g.batchSize + 1 })
  | some rc => (n, { g with rc := some (rc.aggregate cfg p).1, batchSize := g.batchSize + 1 })

def endBatch (q : Quirks) (cfg : Cfg) (n : NodeSt) (gtags : Tags) (g : GroupSt) : NodeSt × List Out :=
  if g.batchSize == 0 && !cfg.fn.isEmptyOK then (n, [])
  else
    match g.rc with
    | some rc => (n, emitOut cfg gtags rc.time (reduce q cfg rc.kind rc.pts))
    | none =>
      match realize q cfg n g.time .float with
      | (n', some rc) => (n', emitOut cfg gtags rc.time (reduce q cfg rc.kind rc.pts))
      | (n', none) => (n', [.panic])       -- the node stops with an error (unreachable: count and sum accept floats)

/-! ### batch mode, streaming transformations (`influxqlStreamingTransformGroup`) -/

/-- `BatchPoint`: returns the emitted batch points. -/
def tBatchPoint (q : Quirks) (cfg : Cfg) (n : NodeSt) (gtags : Tags) (g : GroupSt) (p : Pt) : NodeSt × GroupSt × List OutPt :=
  let (n, orc) := match g.rc with
    | some rc => (n, some rc)
    | none => realizeFromFields q cfg n g.time p.fields
  match orc with
  | none => (n, g, [])
  | some rc =>
    let (rc, ok) := rc.aggregate cfg p
    if !ok && !q.emitAfterFailedAgg then (n, { g with rc := some rc }, [])
    else
      let (ts, rps) := tEmit cfg rc.ts
      let rc := { rc with ts := ts }
      let outs := (emitPoint cfg true gtags rc.time rps).filterMap (fun o => match o with | .point _ op => some op | _ => none)
      (n, { g with rc := some rc }, outs)

/-! ### stream mode -/

/-- `influxqlGroup.aggregatePoint`. -/
def aggregatePoint (q : Quirks) (cfg : Cfg) (n : NodeSt) (g : GroupSt) (p : Pt) : NodeSt × GroupSt :=
  match g.rc with
  | none =>
    match realizeFromFields q cfg n g.time p.fields with
    | (n', none) => (n', g)
    | (n', some rc) => (n', { g with rc := some (rc.aggregate cfg p).1 })
  | some rc => (n, { g with rc := some (rc.aggregate cfg p).1 })

/-- `influxqlGroup.Point`. -/
def streamPoint (q : Quirks) (cfg : Cfg) (n : NodeSt) (gtags : Tags) (g : GroupSt) (p : Pt) : NodeSt × GroupSt × List Out :=
  if p.time == g.time then
    let (n, g) := aggregatePoint q cfg n g p
    (n, g, [])
  else
    let out := match g.rc with
      | some rc => emitOut cfg gtags rc.time (reduce q cfg rc.kind rc.pts)
      | none => []
    let g := { g with time := p.time, rc := none }
    let (n, g) := aggregatePoint q cfg n g p
    (n, g, out)

/-- `influxqlStreamingTransformGroup.Point`. -/
def tStreamPoint (q : Quirks) (cfg : Cfg) (n : NodeSt) (gtags : Tags) (g : GroupSt) (p : Pt) : NodeSt × GroupSt × List Out :=
  let (n, g, outs) := tBatchPoint q cfg n gtags g p
  (n, g, outs.map (fun op => Out.point (gtags.map (·.1)) op))

/-! ### the node: grouped consumer + receivers -/

def NodeSt.group (n : NodeSt) (gtags : Tags) : Option GroupSt := lookupG gtags n.groups
where lookupG (k : Tags) : List (Tags × GroupSt) → Option GroupSt
  | [] => none
  | (k', v) :: r => if k' == k then some v else lookupG k r

def NodeSt.setGroup (n : NodeSt) (gtags : Tags) (g : GroupSt) : NodeSt :=
  if n.groups.any (fun p => p.1 == gtags) then
    { n with groups := n.groups.map (fun p => if p.1 == gtags then (gtags, g) else p) }
  else { n with groups := n.groups ++ [(gtags, g)] }

/-- one whole batch through `BeginBatch`, `BatchPoint`*, `EndBatch` of its group. -/
def stepBatch (q : Quirks) (cfg : Cfg) (n : NodeSt) (b : Batch) : NodeSt × List Out :=
  -- `newGroup(first)`: bc.time = first.Time() (overwritten by BeginBatch at once)
  let g0 : GroupSt := (n.group b.gtags).getD { time := b.tmax }
  if cfg.fn.isTransformation then
    -- BeginBatch: forwards `begin`, bc.time = begin.Time(), rc = nil
    let g := { g0 with time := b.tmax, rc := none }
    let (n, g, outs) := b.pts.foldl (fun (acc : NodeSt × GroupSt × List OutPt) p =>
      let (n, g, o) := tBatchPoint q cfg acc.1 b.gtags acc.2.1 p
      (n, g, acc.2.2 ++ o)) (n, g, [])
    (n.setGroup b.gtags g, [.batch b.tmax b.gtags outs])
  else
    let g := beginBatch g0 b.tmax
    let (n, g) := b.pts.foldl (fun (acc : NodeSt × GroupSt) p => batchPoint q cfg acc.1 acc.2 p) (n, g)
    let (n, outs) := endBatch q cfg n b.gtags g
    (n.setGroup b.gtags g, outs)

def stepPoint (q : Quirks) (cfg : Cfg) (n : NodeSt) (gtags : Tags) (p : Pt) : NodeSt × List Out :=
  -- `newGroup(first)`: bc.time = first.Time()
  let g0 : GroupSt := (n.group gtags).getD { time := p.time }
  let (n, g, outs) := if cfg.fn.isTransformation then tStreamPoint q cfg n gtags g0 p else streamPoint q cfg n gtags g0 p
  (n.setGroup gtags g, outs)

def step (q : Quirks) (cfg : Cfg) (n : NodeSt) : Msg → NodeSt × List Out
  | .batch b => stepBatch q cfg n b
  | .point gtags p => stepPoint q cfg n gtags p

def runFrom (q : Quirks) (cfg : Cfg) (n : NodeSt) : List Msg → NodeSt × List Out
  | [] => (n, [])
  | m :: ms =>
    let (n', o) := step q cfg n m
    let (n'', os) := runFrom q cfg n' ms
    (n'', o ++ os)

/-- everything the node emits for an input history, in order. -/
def run (q : Quirks) (cfg : Cfg) (ms : List Msg) : List Out := (runFrom q cfg {} ms).2

end Kap.C11
