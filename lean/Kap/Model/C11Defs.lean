/-
C11 — data types and the InfluxQL functions BY THEIR DEFINITIONS.

The reducers themselves live in the vendored module influxdata/influxdb (query/functions*.go,
query/call_iterator.go). They are NOT transcribed statement by statement: each function is written here as
its definition over the list of aggregated points (count = length, sum = Σ, min = least value with the
earliest time among equals, median = middle of the sorted values, …). That these definitions are what the
vendored reducers compute is established only by the correspondence run (bit-exact comparison on every
generated batch), never by a theorem. Documented tie-breaking rules of the vendored code are part of the
definitions (selectors: see `better`; mode: `modeOf`; top/bottom: `topLt`).

Numbers: int64 values are `Int` with every arithmetic result wrapped to the int64 range (`wrap64`);
float64 values are carried as their IEEE bit pattern (`UInt64`, so that all data has decidable equality) and
computed with Lean's `Float` (`Float.ofBits` / `Float.toBits`), which is opaque to proofs: no theorem below
says anything about float rounding. NaN is canonicalised to 0x7ff8000000000000 on both sides.
Core Lean only.
-/
import Kap.Basic
namespace Kap.C11

/-! ### values -/

inductive Kind where
  | float | int | string | bool
deriving DecidableEq, Repr, Inhabited

inductive Val where
  | int (i : Int)
  | flt (bits : UInt64)
  | str (s : String)
  | bool (b : Bool)
deriving DecidableEq, Repr, Inhabited

def Val.kind : Val → Kind
  | .int _ => .int | .flt _ => .float | .str _ => .string | .bool _ => .bool

/-- int64 wrap-around (two's complement). -/
def wrap64 (x : Int) : Int := (x + 9223372036854775808) % 18446744073709551616 - 9223372036854775808

def canonNaN : UInt64 := 0x7ff8000000000000
def fbits (f : Float) : UInt64 := if f.isNaN then canonNaN else f.toBits
def fof (b : UInt64) : Float := Float.ofBits b
def fadd (a b : UInt64) : UInt64 := fbits (fof a + fof b)
def fsub (a b : UInt64) : UInt64 := fbits (fof a - fof b)
def fdiv (a b : UInt64) : UInt64 := fbits (fof a / fof b)
def fmul (a b : UInt64) : UInt64 := fbits (fof a * fof b)
def fsqrt (a : UInt64) : UInt64 := fbits (Float.sqrt (fof a))
def fltLt (a b : UInt64) : Bool := fof a < fof b
/-- `float64(x)` for an int64 `x`. -/
def fofInt (x : Int) : UInt64 := fbits (Float.ofInt x)
def fofNat (n : Nat) : UInt64 := fbits (Float.ofNat n)
def fzero : UInt64 := 0

/-- `<` on two values of the same kind (false across kinds). -/
def Val.lt : Val → Val → Bool
  | .int a, .int b => decide (a < b)
  | .flt a, .flt b => fltLt a b
  | .str a, .str b => decide (a < b)
  | .bool a, .bool b => !a && b
  | _, _ => false

/-- `==` on two values of the same kind, as the reducers see it (IEEE equality for floats). -/
def Val.eqv (a b : Val) : Bool := !a.lt b && !b.lt a

def Val.add : Val → Val → Val
  | .int a, .int b => .int (wrap64 (a + b))
  | .flt a, .flt b => .flt (fadd a b)
  | a, _ => a

def Val.sub : Val → Val → Val
  | .int a, .int b => .int (wrap64 (a - b))
  | .flt a, .flt b => .flt (fsub a b)
  | a, _ => a

/-- `float64(v)`. -/
def Val.toF : Val → UInt64
  | .int a => fofInt a
  | .flt a => a
  | _ => fzero

def zeroOf : Kind → Val
  | .int => .int 0
  | _ => .flt fzero

/-! ### tags and fields: association lists sorted by key (what the harness prints) -/

abbrev Tags := List (String × String)
abbrev Fields := List (String × Val)

def lookup {β : Type} (k : String) : List (String × β) → Option β
  | [] => none
  | (k', v) :: r => if k' == k then some v else lookup k r

/-- insert or replace, keeping the list sorted by key. -/
def upsert {β : Type} (k : String) (v : β) : List (String × β) → List (String × β)
  | [] => [(k, v)]
  | (k', v') :: r =>
    if k' == k then (k, v) :: r
    else if k < k' then (k, v) :: (k', v') :: r
    else (k', v') :: upsert k v r

def erase {β : Type} (k : String) (l : List (String × β)) : List (String × β) := l.filter (fun p => p.1 != k)

/-- `for k,v := range over { base[k] = v }`. -/
def mergeTags (base over : Tags) : Tags := over.foldl (fun acc p => upsert p.1 p.2 acc) base

/-! ### points -/

/-- an input point (batch point or stream point); `tags` are ALL its tags (group tags included). -/
structure Pt where
  time : Int
  tags : Tags
  fields : Fields
deriving DecidableEq, Repr, Inhabited

/-- what `convertXPoint` hands to a reducer. -/
structure QP where
  time : Int
  val : Val
  tags : Tags
  fields : Fields
deriving DecidableEq, Repr, Inhabited

/-- what a reducer's `Emit` returns: `time = none` is `query.ZeroTime`. -/
structure RP where
  time : Option Int
  val : Val
  tags : Tags := []                         -- `ap.Tags` (only top/bottom keep them)
  sel : Option (Tags × Fields) := none      -- `ap.Aux` of a simple selector: the selected point's tags and fields
deriving DecidableEq, Repr, Inhabited

inductive Fn where
  | count | sum | mean | median | mode | min | max | first | last | spread | stddev
  | distinct | percentile | top | bottom
  | elapsed | difference | cumulativeSum | movingAverage
deriving DecidableEq, Repr, Inhabited

/-- Behaviour switches for the defects found by this check (all `false` = the code as it is today, after
the `fix:` commits; all `true` = snapshot ef0888e). Kept so that the counterexample theorems can be stated
about the model of the old code. -/
structure Quirks where
  /-- pipeline/influxql.go seeded count/sum with `&query.IntegerPoint{Value: 0}` (Time 0, not ZeroTime) -/
  seedTimeZero : Bool := false
  /-- getCreateFn left the creator of the PREVIOUS kind cached under the new kind after an error -/
  staleCreateFn : Bool := false
  /-- streaming transformations called Emit even when AggregatePoint had failed -/
  emitAfterFailedAgg : Bool := false
  /-- median of one float point / mode of one point returned that point itself, time included -/
  singleKeepsTime : Bool := false
deriving DecidableEq, Repr, Inhabited

def Quirks.snapshot : Quirks :=
  { seedTimeZero := true, staleCreateFn := true, emitAfterFailedAgg := true, singleKeepsTime := true }
def Quirks.current : Quirks := {}

structure Cfg where
  fn : Fn
  field : String := "v"
  as_ : String
  pointTimes : Bool := false      -- `.usePointTimes()`
  n : Int := 0                    -- top/bottom n, movingAverage window, elapsed unit (ns)
  pct : UInt64 := 0               -- percentile argument (float64 bits)
deriving DecidableEq, Repr, Inhabited

/-! ### static facts of pipeline/influxql.go -/

def Fn.isTransformation : Fn → Bool
  | .elapsed | .difference | .cumulativeSum | .movingAverage => true
  | _ => false

def Fn.isEmptyOK : Fn → Bool
  | .count | .sum => true
  | _ => false

def Fn.isSimpleSelector : Fn → Bool
  | .first | .last | .min | .max | .percentile => true
  | _ => false

/-- the node provides a batch edge (EmitBatch) rather than a stream edge (EmitPoint) -/
def Fn.emitsBatch : Fn → Bool
  | .distinct | .top | .bottom => true
  | _ => false

/-- which `Create<In><Out>Reducer` is non-nil: the kind of the emitted value for an input kind
(`none` = "cannot apply <fn> to <kind> field"). This is the documented typing: int stays int for
count, sum, mode, min, max, first, last, spread, distinct, percentile, top, bottom, elapsed, difference,
cumulativeSum; mean, median, stddev, movingAverage of ints are floats. -/
def outKind : Fn → Kind → Option Kind
  | .count, _ => some .int
  | .elapsed, _ => some .int
  | .distinct, k => some k
  | .first, k => some k
  | .last, k => some k
  | .mean, .float | .median, .float | .stddev, .float | .movingAverage, .float => some .float
  | .mean, .int | .median, .int | .stddev, .int | .movingAverage, .int => some .float
  | .sum, .float | .mode, .float | .min, .float | .max, .float | .spread, .float | .percentile, .float
  | .top, .float | .bottom, .float | .difference, .float | .cumulativeSum, .float => some .float
  | .sum, .int | .mode, .int | .min, .int | .max, .int | .spread, .int | .percentile, .int
  | .top, .int | .bottom, .int | .difference, .int | .cumulativeSum, .int => some .int
  | _, _ => none

def supported (fn : Fn) (k : Kind) : Bool := (outKind fn k).isSome

/-! ### stable insertion sort (what Go's `sort.Sort` runs for n ≤ 12; any sort gives the same VALUES) -/

def insSorted {α : Type} (lt : α → α → Bool) (x : α) : List α → List α
  | [] => [x]
  | y :: ys => if lt x y then x :: y :: ys else y :: insSorted lt x ys

def sortBy {α : Type} (lt : α → α → Bool) (l : List α) : List α :=
  l.foldl (fun acc x => insSorted lt x acc) []

/-! ### the functions -/

/-- `first` at equal times: the LARGER value wins, except that for booleans `BooleanFirstReduce` lets false
win (`!curr.Value && prev.Value`). -/
def firstTie (curr prev : Val) : Bool :=
  match curr with
  | .bool _ => curr.lt prev
  | _ => prev.lt curr

/-- Selector tie-breaking (`curr` replaces `prev`), as documented in call_iterator.go:
min/max: better value, or equal value and EARLIER time; first/last: earlier/later time, or equal time and
LARGER value (boolean `first`: false before true). -/
def better (fn : Fn) (curr prev : QP) : Bool :=
  match fn with
  | .min => curr.val.lt prev.val || (curr.val.eqv prev.val && decide (curr.time < prev.time))
  | .max => prev.val.lt curr.val || (curr.val.eqv prev.val && decide (curr.time < prev.time))
  | .first => decide (curr.time < prev.time) || (decide (curr.time = prev.time) && firstTie curr.val prev.val)
  | .last => decide (curr.time > prev.time) || (decide (curr.time = prev.time) && prev.val.lt curr.val)
  | _ => false

/-- the point selected by min/max/first/last: the best one, the earliest in arrival order among equals -/
def select (fn : Fn) : List QP → Option QP
  | [] => none
  | x :: xs => some (xs.foldl (fun best c => if better fn c best then c else best) x)

def sumVals (k : Kind) (xs : List QP) : Val := xs.foldl (fun acc x => acc.add x.val) (zeroOf k)

def minVal (xs : List QP) : Option Val :=
  match xs with
  | [] => none
  | x :: r => some (r.foldl (fun m y => if y.val.lt m then y.val else m) x.val)

def maxVal (xs : List QP) : Option Val :=
  match xs with
  | [] => none
  | x :: r => some (r.foldl (fun m y => if m.lt y.val then y.val else m) x.val)

def sortedByVal (xs : List QP) : List QP := sortBy (fun a b => a.val.lt b.val) xs

/-- median: the middle of the values sorted ascending; the mean `lo + (hi-lo)/2` of the two middle ones
for an even count; always a float. -/
def medianOf (xs : List QP) : UInt64 :=
  let s := sortedByVal xs
  let n := s.length
  if n % 2 == 0 then
    match s[n / 2 - 1]?, s[n / 2]? with
    | some lo, some hi =>
      match lo.val, hi.val with
      | .int l, .int h => fadd (fofInt l) (fdiv (fofInt (wrap64 (h - l))) (fofNat 2))
      | l, h => fadd l.toF (fdiv (fsub h.toF l.toF) (fofNat 2))
    | _, _ => canonNaN
  else
    match s[n / 2]? with
    | some m => m.val.toF
    | none => canonNaN

/-- mode: the most frequent value; among equally frequent values the scan over the value-sorted points of
`IntegerModeReduceSlice` decides (documented: earliest time wins). Transcribed loop. -/
structure ModeSt where
  mostFreq : Nat
  currFreq : Nat
  currMode : Val
  mostMode : Val
  mostTime : Int
  currTime : Int

def modeOf (xs : List QP) : Option Val :=
  match sortedByVal xs with
  | [] => none
  | a0 :: rest =>
    let st0 : ModeSt := { mostFreq := 0, currFreq := 0, currMode := a0.val, mostMode := a0.val, mostTime := a0.time, currTime := a0.time }
    let st := (a0 :: rest).foldl (fun (st : ModeSt) (p : QP) =>
      if !(p.val.eqv st.currMode) then { st with currFreq := 1, currMode := p.val, currTime := p.time }
      else
        let st := { st with currFreq := st.currFreq + 1 }
        if st.mostFreq > st.currFreq || (st.mostFreq == st.currFreq && decide (st.currTime > st.mostTime)) then st
        else { st with mostFreq := st.currFreq, mostMode := p.val, mostTime := p.time }) st0
    some st.mostMode

/-- sample standard deviation, computed exactly as `FloatStddevReduceSlice` does (running mean, then
Σ(x-mean)², then sqrt(var/(n-1))); NaN for fewer than two points. -/
def stddevOf (xs : List QP) : UInt64 :=
  if xs.length < 2 then canonNaN else
  let (mean, _) := xs.foldl (fun (acc : UInt64 × Nat) x =>
      let c := acc.2 + 1
      (fadd acc.1 (fdiv (fsub x.val.toF acc.1) (fofNat c)), c)) (fzero, 0)
  let var := xs.foldl (fun acc x => let d := fsub x.val.toF mean; fadd acc (fmul d d)) fzero
  fsqrt (fdiv var (fofNat (xs.length - 1)))

/-- index chosen by percentile: `floor(n*p/100 + 0.5) - 1`, `none` when out of range. -/
def pctIndex (n : Nat) (pct : UInt64) : Option Nat :=
  let f := Float.floor (Float.ofNat n * fof pct / 100.0 + 0.5)
  if f.isNaN || f < 1.0 then none
  else
    let i := f.toUInt64.toNat - 1
    if i < n then some i else none

/-- distinct: one point per distinct value, stamped with the time of its first occurrence, ordered by
(time, value). -/
def distinctOf (xs : List QP) : List QP :=
  let firsts := xs.foldl (fun (acc : List QP) x => if acc.any (fun y => y.val == x.val) then acc else acc ++ [x]) []
  sortBy (fun a b => if a.time != b.time then decide (a.time < b.time) else a.val.lt b.val) firsts

/-- top: `a` ranks below `b` when its value is smaller, or equal with a LATER time. -/
def topLt (a b : QP) : Bool := if !(a.val.eqv b.val) then a.val.lt b.val else decide (a.time > b.time)
def bottomLt (a b : QP) : Bool := if !(a.val.eqv b.val) then b.val.lt a.val else decide (a.time > b.time)

/-- the `n` best points, best first. -/
def topOf (lt : QP → QP → Bool) (n : Nat) (xs : List QP) : List QP :=
  ((sortBy lt xs).reverse).take n

/-! ### streaming transformations: the reducer state machines (tiny; transcribed) -/

structure TState where
  prev : Option QP := none
  curr : Option QP := none
  prevRead : Bool := true          -- `prev.Nil` of the difference reducer
  sum : Option (Int × Val) := none -- cumulativeSum: (time, running sum)
  buf : List Val := []             -- movingAverage: the last ≤ n values, oldest first
  bufTime : Int := 0
deriving DecidableEq, Repr, Inhabited

def tAgg (cfg : Cfg) (s : TState) (p : QP) : TState :=
  match cfg.fn with
  | .elapsed => { s with prev := s.curr, curr := some p }
  | .difference =>
    match s.curr with
    | some c => if c.time == p.time then s else { s with prev := s.curr, curr := some p, prevRead := false }
    | none => { s with prev := none, curr := some p, prevRead := true }
  | .cumulativeSum =>
    match s.sum with
    | some (_, v) => { s with sum := some (p.time, v.add p.val) }
    | none => { s with sum := some (p.time, (zeroOf p.val.kind).add p.val) }
  | .movingAverage =>
    let b := s.buf ++ [p.val]
    { s with buf := if b.length > cfg.n.toNat then b.drop (b.length - cfg.n.toNat) else b, bufTime := p.time }
  | _ => s

/-- `Emit()` of the transformation reducers; the difference reducer marks `prev` as read. -/
def tEmit (cfg : Cfg) (s : TState) : TState × List RP :=
  match cfg.fn with
  | .elapsed =>
    match s.prev, s.curr with
    | some a, some b => (s, [{ time := some b.time, val := .int (wrap64 ((b.time - a.time).tdiv cfg.n)) }])
    | _, _ => (s, [])
  | .difference =>
    if s.prevRead then (s, []) else
    match s.prev, s.curr with
    | some a, some b => ({ s with prevRead := true }, [{ time := some b.time, val := b.val.sub a.val }])
    | _, _ => (s, [])
  | .cumulativeSum =>
    match s.sum with
    | some (t, v) => (s, [{ time := some t, val := v }])
    | none => (s, [])
  | .movingAverage =>
    if s.buf.length != cfg.n.toNat || s.buf.isEmpty then (s, []) else
    let total : Val := s.buf.foldl (fun acc v => acc.add v) (zeroOf (s.buf.head!.kind))
    (s, [{ time := some s.bufTime, val := .flt (fdiv total.toF (fofNat s.buf.length)) }])
  | _ => (s, [])

/-! ### `Emit()` of the aggregating reducers on the list of aggregated points

`none` = the vendored reducer panics (nil seed dereferenced / index out of range on an empty slice). With
today's code `reduce` is only ever called with at least one aggregated point, or with none for count/sum
(theorem `Kap.Props.C11.emit_has_points`). -/
def reduce (q : Quirks) (cfg : Cfg) (k : Kind) (xs : List QP) : Option (List RP) :=
  match cfg.fn with
  | .count => some [{ time := if xs.isEmpty && q.seedTimeZero then some 0 else none, val := .int (wrap64 xs.length) }]
  | .sum => some [{ time := if q.seedTimeZero then some 0 else none, val := sumVals k xs }]
  | .mean =>
    some [{ time := none, val := .flt (fdiv (sumVals k xs).toF (fofNat xs.length)) }]
  | .median =>
    match xs with
    | [] => none
    | [x] => some [{ time := if k == .float && q.singleKeepsTime then some x.time else none, val := .flt x.val.toF }]
    | _ => some [{ time := none, val := .flt (medianOf xs) }]
  | .mode =>
    match xs with
    | [] => none
    | [x] => some [{ time := if q.singleKeepsTime then some x.time else none, val := x.val }]
    | _ => (modeOf xs).map (fun v => [{ time := none, val := v }])
  | .min | .max | .first | .last =>
    (select cfg.fn xs).map (fun p => [{ time := some p.time, val := p.val, sel := some (p.tags, p.fields) }])
  | .spread =>
    match minVal xs, maxVal xs with
    | some lo, some hi => some [{ time := none, val := hi.sub lo }]
    | _, _ => some [{ time := none, val := if k == .int then .int 1 else .flt (fsub (fdiv (fofInt (-1)) fzero) (fdiv (fofInt 1) fzero)) }]
  | .stddev => some [{ time := none, val := .flt (stddevOf xs) }]
  | .percentile =>
    match pctIndex xs.length cfg.pct with
    | none => some []
    | some i =>
      match (sortedByVal xs)[i]? with
      | some p => some [{ time := some p.time, val := p.val, sel := some (p.tags, p.fields) }]
      | none => some []
  | .distinct => some ((distinctOf xs).map (fun p => { time := some p.time, val := p.val }))
  | .top => some ((topOf topLt cfg.n.toNat xs).map (fun p => { time := some p.time, val := p.val, tags := p.tags }))
  | .bottom => some ((topOf bottomLt cfg.n.toNat xs).map (fun p => { time := some p.time, val := p.val, tags := p.tags }))
  | _ => some []

/-! ### outputs -/

structure OutPt where
  time : Int
  tags : Tags
  fields : Fields
deriving DecidableEq, Repr, Inhabited

inductive Out where
  | point (dims : List String) (p : OutPt)
  | batch (tmax : Int) (gtags : Tags) (pts : List OutPt)
  | panic
deriving DecidableEq, Repr, Inhabited

/-- a whole input batch of one group -/
structure Batch where
  gtags : Tags
  tmax : Int
  pts : List Pt
deriving DecidableEq, Repr, Inhabited

inductive Msg where
  | batch (b : Batch)
  | point (gtags : Tags) (p : Pt)
deriving DecidableEq, Repr, Inhabited

/-- `convertXPoint`: the point's field as a value of the aggregator's kind (missing / other type ⇒ error). -/
def convert (cfg : Cfg) (k : Kind) (p : Pt) : Option QP :=
  match lookup cfg.field p.fields with
  | some v => if v.kind == k then some { time := p.time, val := v, tags := p.tags, fields := p.fields } else none
  | none => none

/-- emit time: `pointTimes ∧ reducer time ≠ ZeroTime ⇒ reducer time, else the context's time`. -/
def emitTime (pointTimes : Bool) (ctxTime : Int) (rp : RP) : Int :=
  if pointTimes then (match rp.time with | some t => t | none => ctxTime) else ctxTime

/-- `EmitPoint`: exactly one reduced point ⇒ one stream point. -/
def emitPoint (cfg : Cfg) (pointTimes : Bool) (gtags : Tags) (ctxTime : Int) (rps : List RP) : List Out :=
  match rps with
  | [rp] =>
    let t := emitTime pointTimes ctxTime rp
    let dims := gtags.map (·.1)
    match (if cfg.fn.isSimpleSelector then rp.sel else none) with
    | some (tags, fields) =>
      let fields := if cfg.as_ != cfg.field then
          (match lookup cfg.field fields with
           | some v => upsert cfg.as_ v (erase cfg.field fields)
           | none => fields)
        else fields
      [.point dims { time := t, tags := tags, fields := fields }]
    | none => [.point dims { time := t, tags := gtags, fields := [(cfg.as_, rp.val)] }]
  | _ => []

/-- `EmitBatch`: every reduced point becomes a batch point; the batch time is the latest point time. -/
def emitBatch (cfg : Cfg) (pointTimes : Bool) (gtags : Tags) (ctxTime : Int) (rps : List RP) : List Out :=
  let pts := rps.map (fun rp =>
    ({ time := emitTime pointTimes ctxTime rp,
       tags := if rp.tags.isEmpty then gtags else mergeTags gtags rp.tags,
       fields := [(cfg.as_, rp.val)] } : OutPt))
  let tmax := pts.foldl (fun m p => if p.time > m then p.time else m) ctxTime
  [.batch tmax gtags pts]

/-- `InfluxQLNode.emit` for the aggregating functions. -/
def emitOut (cfg : Cfg) (gtags : Tags) (ctxTime : Int) (r : Option (List RP)) : List Out :=
  match r with
  | none => [.panic]
  | some rps => if cfg.fn.emitsBatch then emitBatch cfg cfg.pointTimes gtags ctxTime rps
                else emitPoint cfg cfg.pointTimes gtags ctxTime rps

end Kap.C11
