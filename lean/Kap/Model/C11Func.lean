/-
C11 — transcription of the incremental reducer behind count, sum, min, max, first, last:
`query.XFuncReducer` (influxdb query/functions.gen.go: `prev` pointer, `AggregateX`, `Emit`), the
`XCountReduce / XSumReduce / XMinReduce / XMaxReduce / XFirstReduce / XLastReduce` functions
(query/call_iterator.go) and kapacitor's choice of seed point in pipeline/influxql.go
(`&query.IntegerPoint{Value: 0, Time: query.ZeroTime}` for count and sum, `nil` for the selectors).

`Kap.Props.C11.funcReducer_equals_definition` proves that this incremental code computes exactly the list
definitions the model uses (`reduce`: length, Σ, `select`), seeds and nil-dereference included. The code
transcribed here is influxdb's except for the seeds; that the transcription is faithful is, as for every
model, established by the correspondence run (through the theorem: the driver executes `reduce`).
The `Aggregated` counter of the points is not modelled (kapacitor never reads it). Core Lean only.
-/
import Kap.Model.C11Defs
namespace Kap.C11

/-- `*query.XPoint` as a FuncReducer keeps it: Time (`none` = ZeroTime), Value, Aux -/
structure FPoint where
  time : Option Int
  val : Val
  aux : Option (Tags × Fields)
deriving DecidableEq, Repr, Inhabited

/-- `cloneAux(curr.Aux)` of a simple selector's point: `[]interface{}{p.Tags(), p.Fields()}` -/
def FPoint.ofCurr (c : QP) : FPoint := { time := some c.time, val := c.val, aux := some (c.tags, c.fields) }

/-- the reduce functions: `(t, v, aux) := fn(prev, curr)` -/
def reduceFn (fn : Fn) (prev : Option FPoint) (curr : QP) : FPoint :=
  match fn with
  | .count =>
    -- if prev == nil { return ZeroTime, 1, nil }; return ZeroTime, prev.Value + 1, nil
    match prev with
    | none => { time := none, val := .int 1, aux := none }
    | some p => { time := none, val := p.val.add (.int 1), aux := none }
  | .sum =>
    -- if prev == nil { return ZeroTime, curr.Value, nil }; return prev.Time, prev.Value + curr.Value, nil
    match prev with
    | none => { time := none, val := curr.val, aux := none }
    | some p => { time := p.time, val := p.val.add curr.val, aux := none }
  | .min =>
    -- prev == nil || curr.Value < prev.Value || (curr.Value == prev.Value && curr.Time < prev.Time)
    match prev with
    | none => FPoint.ofCurr curr
    | some p =>
      if curr.val.lt p.val || (curr.val.eqv p.val && decide (curr.time < p.time.getD 0)) then FPoint.ofCurr curr else p
  | .max =>
    -- prev == nil || curr.Value > prev.Value || (curr.Value == prev.Value && curr.Time < prev.Time)
    match prev with
    | none => FPoint.ofCurr curr
    | some p =>
      if p.val.lt curr.val || (curr.val.eqv p.val && decide (curr.time < p.time.getD 0)) then FPoint.ofCurr curr else p
  | .first =>
    -- prev == nil || curr.Time < prev.Time || (curr.Time == prev.Time && curr.Value > prev.Value)
    -- (BooleanFirstReduce: … && !curr.Value && prev.Value)
    match prev with
    | none => FPoint.ofCurr curr
    | some p =>
      if decide (curr.time < p.time.getD 0) ||
          (decide (curr.time = p.time.getD 0) && firstTie curr.val p.val) then FPoint.ofCurr curr else p
  | .last =>
    -- prev == nil || curr.Time > prev.Time || (curr.Time == prev.Time && curr.Value > prev.Value)
    match prev with
    | none => FPoint.ofCurr curr
    | some p =>
      if decide (curr.time > p.time.getD 0) || (decide (curr.time = p.time.getD 0) && p.val.lt curr.val) then
        FPoint.ofCurr curr else p
  | _ => FPoint.ofCurr curr

/-- `XFuncReducer{prev, fn}` -/
structure FuncReducer where
  prev : Option FPoint
deriving DecidableEq, Repr, Inhabited

/-- `AggregateX`: `t, v, aux := r.fn(r.prev, p); if r.prev == nil { r.prev = &XPoint{} }; r.prev.Time, .Value, .Aux = t, v, aux` -/
def FuncReducer.aggregate (fn : Fn) (r : FuncReducer) (p : QP) : FuncReducer := { prev := some (reduceFn fn r.prev p) }

/-- `Emit`: `return []XPoint{*r.prev}` — a nil `prev` is dereferenced (`none` = panic) -/
def FuncReducer.emit (r : FuncReducer) : Option (List RP) :=
  r.prev.map (fun p => [{ time := p.time, val := p.val, sel := p.aux }])

/-- the seed kapacitor hands to `NewXFuncReducer` (pipeline/influxql.go): a zero point for count and sum
(with Time 0 at snapshot ef0888e, ZeroTime since d326602), nil for the selectors -/
def funcSeed (q : Quirks) (fn : Fn) (k : Kind) : FuncReducer :=
  match fn with
  | .count => { prev := some { time := if q.seedTimeZero then some 0 else none, val := .int 0, aux := none } }
  | .sum => { prev := some { time := if q.seedTimeZero then some 0 else none, val := zeroOf k, aux := none } }
  | _ => { prev := none }

def Fn.usesFuncReducer : Fn → Bool
  | .count | .sum | .min | .max | .first | .last => true
  | _ => false

/-- the whole life of one reduce context's reducer: seed, one AggregateX per point, Emit -/
def funcReducerRun (q : Quirks) (fn : Fn) (k : Kind) (xs : List QP) : Option (List RP) :=
  (xs.foldl (FuncReducer.aggregate fn) (funcSeed q fn k)).emit

end Kap.C11
