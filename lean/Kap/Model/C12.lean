/-
C12 — executable model, part 1: the circular queue and the union node.

Transcribed from /repo:
  * circularqueue.go  `CircularQueue[T]`: `NewCircularQueue`, `Enqueue`, `Dequeue`, `Peek`
    (fields `data`, `head`, `tail`, `Len`; lazy wrap of `tail` at `len(data)`, grow = double and
    linearise, `Dequeue` clears the slots it frees with the two/one loop shape of the source and wraps
    `head` only when it EXCEEDS `len(data)`, reset of `head`/`tail` when the queue runs empty);
  * union.go `UnionNode.Point/BufferedBatch/Barrier` (optional rename, `Enqueue`, `emitReady(false)`),
    `Finish` (`emitReady(true)`) and `emitReady` (low-water mark over the head of every source and the
    remembered `lowMarks` of empty ones, stop while a source has never reported unless draining, emit
    source by source the prefix with time ≤ mark, `Dequeue` it, repeat while something was emitted).

Abstractions: a Go slice is a `List (Option α)` (`none` = zero value of a cleared / never written slot);
`time.Time` is `Int` (Unix nanoseconds) and the zero `time.Time{}` is `none`; a message is reduced to its
time, an identity, its kind and its name (all the union node looks at). The queue used by the union node
is abstract (`QueueLike`): the model is run – and the theorems are stated – for the instance `WCQ`
(Kap/Proofs/C12CQ.lean), the circular queue above restricted to the states satisfying `CQ.Good` (every
reachable state does: `Kap.Props.C12.cq_refines_list`).  The `for emitted { … }` loop is a fuel-bounded recursion; `union_fuel_enough`
shows that the fuel handed over by `UState.emitReadyAll` is never exhausted.
-/
namespace Kap.C12

/-! ## CircularQueue -/

structure CQ (α : Type) where
  data : List (Option α)
  head : Nat
  tail : Nat
  len : Nat
deriving Repr, DecidableEq

namespace CQ
variable {α : Type}

abbrev cap (q : CQ α) : Nat := q.data.length

/-- `NewCircularQueue(buf...)` for a variadic argument list (`cap(buf) = len(buf)`). -/
def new (buf : List α) : CQ α :=
  let data := if buf.length < 4 then buf.map some ++ List.replicate (4 - buf.length) none else buf.map some
  { data := data, head := 0, tail := buf.length, len := buf.length }

/-- `Enqueue`. -/
def enqueue (q : CQ α) (v : α) : CQ α :=
  if q.cap > q.len then
    -- no need to grow
    let tail := if q.tail = q.cap then 0 else q.tail
    { q with data := q.data.set tail (some v), tail := tail + 1, len := q.len + 1 }
  else
    -- grow: buf := make([]T, cap*2); copy the live part to the front
    let live := if q.head < q.tail then (q.data.drop q.head).take (q.tail - q.head)
                else q.data.drop q.head ++ q.data.take q.tail
    let buf := live ++ List.replicate (2 * q.cap - live.length) none
    { data := buf.set q.cap (some v), head := 0, tail := q.cap + 1, len := q.len + 1 }

/-- The slots `Dequeue(n)` overwrites with the zero value, in order (the loops stop after `n` slots). -/
def clearIdx (q : CQ α) (n : Nat) : List Nat :=
  if q.head > q.tail then
    let a := (List.range' q.head (q.cap - q.head)).take n
    a ++ (List.range' 0 q.tail).take (n - a.length)
  else
    (List.range' q.head (q.tail - q.head)).take n

/-- `Dequeue(n)`. -/
def dequeue (q : CQ α) (n : Int) : CQ α :=
  if n ≤ 0 then q else
  let n := if q.len ≤ n.toNat then q.len else n.toNat
  let data := (q.clearIdx n).foldl (fun d i => d.set i none) q.data
  let head := q.head + n
  let head := if head > q.cap then head - q.cap else head
  let len := q.len - n
  if len = 0 then { data := data, head := 0, tail := 0, len := 0 }
  else { data := data, head := head, tail := q.tail, len := len }

/-- Physical index of the `i`-th element (the arithmetic of `Peek`). -/
def phys (q : CQ α) (i : Nat) : Nat :=
  let p := q.head + i
  if p ≥ q.cap then p - q.cap else p

/-- `Peek(i)`: `none` = panic ("peek index is out of bounds"), `some slot` otherwise. -/
def peek (q : CQ α) (i : Int) : Option (Option α) :=
  if i < 0 ∨ i ≥ q.len then none else some ((q.data[q.phys i.toNat]?).join)

/-- `Peek(0), …, Peek(Len-1)`; a cleared slot (never reachable) is skipped. -/
def toList (q : CQ α) : List α :=
  (List.range q.len).filterMap (fun i => (q.data[q.phys i]?).join)

/-- The index invariant of every reachable queue. -/
structure Inv (q : CQ α) : Prop where
  cap_pos : 0 < q.cap
  head_le : q.head ≤ q.cap
  tail_le : q.tail ≤ q.cap
  len_le : q.len ≤ q.cap
  empty : q.len = 0 → q.head = 0 ∧ q.tail = 0
  tail_eq : 0 < q.len → 0 < q.tail ∧ (q.tail = q.head + q.len ∨ q.tail + q.cap = q.head + q.len)

/-- The queue holds exactly the elements of `l`, in order: slot `phys i` holds `l[i]`. -/
def Rel (q : CQ α) (l : List α) : Prop :=
  l.length = q.len ∧ ∀ i (h : i < l.length), q.data[q.phys i]? = some (some l[i])

/-- Reachable states: indexes consistent and every live slot filled. -/
def Good (q : CQ α) : Prop := q.Inv ∧ q.Rel q.toList

end CQ

/-! ## The queue interface used by the union node -/

class QueueLike (Q : Type) (α : outParam Type) where
  empty : Q
  len : Q → Nat
  /-- `Peek(0) … Peek(Len-1)` -/
  toList : Q → List α
  enq : Q → α → Q
  deq : Q → Nat → Q

/-! ## UnionNode -/

/-- What the union node sees of a message (`timeMessage`): kind 0 = point, 1 = batch, 2 = barrier. -/
structure UMsg where
  time : Int
  id : Nat
  kind : Nat
  name : String
deriving Repr, DecidableEq, Inhabited

structure UState (Q : Type) where
  sources : List Q
  lowMarks : List (Option Int)

namespace Union
variable {Q : Type} [QueueLike Q UMsg]
open QueueLike

def init (n : Nat) : UState Q := { sources := List.replicate n empty, lowMarks := List.replicate n none }

/-- `mark.IsZero() || t.Before(mark)` -/
def zeroOrBefore (t : Int) (mark : Option Int) : Bool :=
  match mark with
  | none => true
  | some m => decide (t < m)

/-- `!v.Time().After(mark)` (the zero time is before every message time). -/
def notAfter (t : Int) (mark : Option Int) : Bool :=
  match mark with
  | none => false
  | some m => decide (t ≤ m)

/-- One iteration of the "find low water mark" loop: returns the new `mark`, `validSources` and the new
`lowMarks[i]`. -/
def markStep (drain : Bool) (q : Q) (lm : Option Int) (mark : Option Int) (valid : Nat) :
    Option Int × Nat × Option Int :=
  let (mark, sourceMark) :=
    if len q > 0 then
      match (toList q).head? with
      | some v => ((if zeroOrBefore v.time mark then some v.time else mark), some v.time)
      | none => (mark, lm)
    else (mark, lm)
  match sourceMark with
  | some s => ((if !drain && zeroOrBefore s mark then some s else mark), valid + 1, sourceMark)
  | none => (mark, valid, sourceMark)

def markLoop (drain : Bool) : List Q → List (Option Int) → Option Int → Nat → Option Int × Nat × List (Option Int)
  | q :: qs, lm :: lms, mark, valid =>
    let (mark, valid, lm') := markStep drain q lm mark valid
    let (mark, valid, rest) := markLoop drain qs lms mark valid
    (mark, valid, lm' :: rest)
  | _, lms, mark, valid => (mark, valid, lms)

/-- The inner `for j …` loop over one source and its `Dequeue(j)`: the emitted prefix, tagged with the source index. -/
def emitSrc (mark : Option Int) (i : Nat) (q : Q) : Q × List (Nat × UMsg) :=
  let pre := (toList q).takeWhile (fun v => notAfter v.time mark)
  (deq q pre.length, pre.map (fun v => (i, v)))

def emitPass (mark : Option Int) : Nat → List Q → List Q × List (Nat × UMsg)
  | _, [] => ([], [])
  | i, q :: qs =>
    let (q', o) := emitSrc mark i q
    let (qs', os) := emitPass mark (i + 1) qs
    (q' :: qs', o ++ os)

/-- `emitReady(drain)`; the Boolean result is `false` when the fuel ran out (never, see `union_fuel_enough`). -/
def emitReady (drain : Bool) : Nat → UState Q → List (Nat × UMsg) → UState Q × List (Nat × UMsg) × Bool
  | 0, s, out => (s, out, false)
  | fuel + 1, s, out =>
    let (mark, valid, lms) := markLoop drain s.sources s.lowMarks none 0
    let s := { s with lowMarks := lms }
    if !drain && valid ≠ s.sources.length then (s, out, true)
    else
      let (srcs, emitted) := emitPass mark 0 s.sources
      let s := { s with sources := srcs }
      if emitted.isEmpty then (s, out, true) else emitReady drain fuel s (out ++ emitted)

def total (s : UState Q) : Nat := (s.sources.map (fun q => (toList q).length)).sum

def emitReadyAll (drain : Bool) (s : UState Q) : UState Q × List (Nat × UMsg) × Bool :=
  emitReady drain (total s + 1) s []

/-- `p.SetName(rename)` on a copy, for points and batches only. -/
def renamed (rename : String) (m : UMsg) : UMsg :=
  if rename ≠ "" ∧ m.kind ≠ 2 then { m with name := rename } else m

/-- `Point` / `BufferedBatch` / `Barrier` from parent `src`. -/
def message (rename : String) (s : UState Q) (src : Nat) (m : UMsg) : UState Q × List (Nat × UMsg) × Bool :=
  let s := { s with sources := s.sources.modify src (fun q => enq q (renamed rename m)) }
  emitReadyAll false s

/-- `Finish`. -/
def finish (s : UState Q) : UState Q × List (Nat × UMsg) × Bool := emitReadyAll true s

/-- A whole run: the arrivals in their arrival order, then `Finish`. Returns everything emitted. -/
def runArrivals (rename : String) : UState Q → List (Nat × UMsg) → UState Q × List (Nat × UMsg)
  | s, [] => (s, [])
  | s, (src, m) :: rest =>
    let (s, o, _) := message rename s src m
    let (s, os) := runArrivals rename s rest
    (s, o ++ os)

def run (rename : String) (n : Nat) (arrivals : List (Nat × UMsg)) : UState Q × List (Nat × UMsg) :=
  let (s, o) := runArrivals rename (init n) arrivals
  let (s, o', _) := finish s
  (s, o ++ o')

end Union

end Kap.C12
