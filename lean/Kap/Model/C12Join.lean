/-
C12 — executable model, part 2: the join node (stream joins without `on()`).

Transcribed from /repo join.go:
  * `joinGroup.Collect` (round the time, `oldestTime` update, the queue of join sets at the rounded time –
    created with one fresh set –, the message goes into the FIRST set that does not yet hold a value of
    that parent, else into a new set; `head[src] = t`; `checkOnlyReadSets`; `emit`),
  * `joinGroup.Barrier` (as repaired by the `fix:` commit, see `barrierOld` for the snapshot's version),
  * `joinGroup.emit` (the sets at `oldestTime`: emit the ready prefix – or all of them when every head is
    strictly past `oldestTime` –, delete the time or `Dequeue` the emitted prefix, recompute `oldestTime`
    as the minimum key, and re-check/recurse when non-ready sets were allowed), `checkOnlyReadSets`,
    `emitAll`, `joinset.Has/Set/Ready/First`, `joinset.JoinIntoPoint` (prefixes, delimiter, fill
    null/number/none, name, tags of the group, dimensions),
  * `JoinNode.doMessage` without dimensions (dispatch on the group ID), `JoinNode.Barrier`, `JoinNode.Finish`,
  * `time.Time.Round` on Unix nanoseconds.

Abstractions: the Go map `sets` is an association list (only looked up, inserted, deleted and scanned for
its minimum key); the per-time `CircularQueue[*joinset]` is a `List` (join.go uses it only through
`Enqueue`/`Peek`/`Dequeue`/`Len` and mutates a set through the peeked pointer; `cq_refines_list` is the
justification, the composition is by inspection); `joinset.size`/`first` are derived from `values`
(`Set` is only called on a set that does not have the parent yet); the group ID of a message is an input
(`models.ToGroupID` is the subject of C06); field values are opaque tokens. A nil dereference of the Go
code is the outcome `Status.panic`. Recursion of `emit` and the loop of `emitAll` are fuel-bounded by the
number of pending times + 1 (`Kap.Props.C12.join_flush_no_panic` shows neither runs out).
-/
namespace Kap.C12

/-- Offset between the zero `time.Time` (year 1) and the Unix epoch, in nanoseconds. -/
def unixToAbs : Int := 62135596800 * 1000000000

/-- `time.Time.Round(d)` on Unix nanoseconds: multiples of `d` since the zero time, halfway rounds up,
`d ≤ 0` leaves the time unchanged. -/
def goRound (d : Int) (t : Int) : Int :=
  if d ≤ 0 then t else
  let r := (t + unixToAbs) % d
  if r + r < d then t - r else t + (d - r)

inductive Status where
  | ok | panic | fuel
deriving DecidableEq, Repr

def Status.and : Status → Status → Status
  | .ok, s => s
  | s, _ => s

/-! ### joinset -/

structure JSet (α : Type) where
  time : Int
  values : List (Option α)
deriving DecidableEq, Repr

namespace JSet
variable {α : Type}
def new (expected : Nat) (t : Int) : JSet α := { time := t, values := List.replicate expected none }
/-- `Has(i)`: `js.values[i] != nil` -/
def has (s : JSet α) (i : Nat) : Bool := ((s.values[i]?).join).isSome
/-- `size` (number of values set) -/
def size (s : JSet α) : Nat := (s.values.filter Option.isSome).length
/-- `Ready()`: `js.size == js.expected` (`expected = len(values)`) -/
def ready (s : JSet α) : Bool := s.size == s.values.length
def set (s : JSet α) (i : Nat) (v : α) : JSet α := { s with values := s.values.set i (some v) }
/-- `First()`: the value with the least parent index -/
def first? (s : JSet α) : Option α := s.values.findSome? id
end JSet

/-! ### association list standing for the Go map -/

def alookup {β : Type} (k : Int) : List (Int × β) → Option β
  | [] => none
  | (k', v) :: rest => if k' = k then some v else alookup k rest

def aerase {β : Type} (k : Int) (m : List (Int × β)) : List (Int × β) := m.filter (fun p => p.1 ≠ k)

def aupsert {β : Type} (k : Int) (v : β) : List (Int × β) → List (Int × β)
  | [] => [(k, v)]
  | (k', v') :: rest => if k' = k then (k, v) :: rest else (k', v') :: aupsert k v rest

/-- `for t := range g.sets { if oldest.IsZero() || t.Before(oldest) { oldest = t } }` -/
def minKey {β : Type} (m : List (Int × β)) : Option Int :=
  m.foldl (fun acc p => match acc with | none => some p.1 | some o => if p.1 < o then some p.1 else some o) none

/-! ### joinGroup -/

structure JGroup (α : Type) where
  sets : List (Int × List (JSet α))
  head : List (Option Int)
  oldest : Option Int
deriving Repr

namespace JGroup
variable {α : Type}

def new (parents : Nat) : JGroup α := { sets := [], head := List.replicate parents none, oldest := none }

/-- `t.After(o)` on possibly-zero times. -/
def after (t o : Option Int) : Bool :=
  match t, o with
  | none, _ => false
  | some _, none => true
  | some a, some b => decide (a > b)

/-- `checkOnlyReadSets`: true unless every head is strictly after `oldestTime`. -/
def checkOnlyReady (g : JGroup α) : Bool := g.head.any (fun h => !after h g.oldest)

/-- `emit(onlyReadySets)`. -/
def emit : Nat → JGroup α → Bool → List (JSet α) → JGroup α × List (JSet α) × Status
  | 0, g, _, out => (g, out, .fuel)
  | fuel + 1, g, only, out =>
    if g.sets.isEmpty then (g, out, .ok) else
    match g.oldest with
    | none => (g, out, .panic)               -- g.sets[time.Time{}] is nil: `sets.Len` dereferences nil
    | some o =>
      match alookup o g.sets with
      | none => (g, out, .panic)             -- nil queue
      | some q =>
        let i := (q.takeWhile (fun s => s.ready || !only)).length
        let out := out ++ q.take i
        let sets := if i = q.length then aerase o g.sets else aupsert o (q.drop i) g.sets
        let g := { g with sets := sets, oldest := minKey sets }
        if !only then emit fuel g g.checkOnlyReady out else (g, out, .ok)

def fuelFor (g : JGroup α) : Nat := g.sets.length + 2

/-- The common tail of `Collect` and `Barrier`. -/
def checkAndEmit (g : JGroup α) : JGroup α × List (JSet α) × Status :=
  emit g.fuelFor g g.checkOnlyReady []

/-- `Collect(src, p)`; `t` is the rounded time of `p`, `expected = len(prefixes)`. -/
def collect (expected : Nat) (g : JGroup α) (src : Nat) (t : Int) (p : α) : JGroup α × List (JSet α) × Status :=
  let oldest := match g.oldest with
    | none => some t
    | some o => if t < o then some t else some o
  let q := match alookup t g.sets with
    | some q => q
    | none => [JSet.new expected t]
  let q := match q.findIdx? (fun x => !x.has src) with
    | some i => q.modify i (fun x => x.set src p)
    | none => q ++ [(JSet.new expected t).set src p]
  checkAndEmit { sets := aupsert t q g.sets, head := g.head.set src (some t), oldest := oldest }

/-- `Barrier(src, t)` as in /repo today (after the `fix:` commit): only the head moves. -/
def barrier (g : JGroup α) (src : Nat) (t : Int) : JGroup α × List (JSet α) × Status :=
  checkAndEmit { g with head := g.head.set src (some t) }

/-- `Barrier(src, t)` of snapshot ef0888e: it also lowered/initialised `oldestTime` to the barrier time,
for which no set exists. -/
def barrierOld (g : JGroup α) (src : Nat) (t : Int) : JGroup α × List (JSet α) × Status :=
  let oldest := match g.oldest with
    | none => some t
    | some o => if t < o then some t else some o
  checkAndEmit { g with head := g.head.set src (some t), oldest := oldest }

/-- `emitAll`: `for len(g.sets) > 0 { g.emit(false) }`. -/
def emitAll : Nat → JGroup α → List (JSet α) → JGroup α × List (JSet α) × Status
  | 0, g, out => (g, out, if g.sets.isEmpty then .ok else .fuel)
  | fuel + 1, g, out =>
    if g.sets.isEmpty then (g, out, .ok) else
    match emit g.fuelFor g false out with
    | (g, out, .ok) => emitAll fuel g out
    | r => r

def finish (g : JGroup α) : JGroup α × List (JSet α) × Status := emitAll (g.sets.length + 1) g []

end JGroup

/-! ### messages, configuration, JoinIntoPoint -/

/-- A point of a batch. -/
structure BPt where
  time : Int
  fields : List (String × String)
deriving DecidableEq, Repr, Inhabited

/-- What the join node sees of a point message – or of a buffered batch (then `time` is the batch's `tmax`,
`tags` are the batch's group tags, `fields` is empty and `points` holds the batch points). -/
structure JMsg where
  time : Int
  name : String
  grp : String
  byName : Bool
  dims : List String
  tags : List (String × String)
  fields : List (String × String)      -- field name ↦ rendered value token
  points : List BPt := []
deriving DecidableEq, Repr, Inhabited

inductive Fill where
  | none | null | num (tok : String)
deriving DecidableEq, Repr

structure JCfg where
  parents : Nat
  tol : Int
  fill : Fill
  names : List String
  delim : String
  sname : String
deriving Repr

structure JOut where
  name : String
  time : Int
  byName : Bool
  dims : List String
  tags : List (String × String)
  fields : List (String × String)
deriving DecidableEq, Repr

/-- `fields[k] = v` on a Go map. -/
def putField (k v : String) : List (String × String) → List (String × String)
  | [] => [(k, v)]
  | (k', v') :: rest => if k' = k then (k, v) :: rest else (k', v') :: putField k v rest

def slookup (k : String) : List (String × String) → Option String
  | [] => none
  | (k', v) :: rest => if k' = k then some v else slookup k rest

/-- `pm.GroupInfo().Tags`: the tags restricted to the dimensions (a missing tag reads as ""). -/
def groupTags (m : JMsg) : List (String × String) := m.dims.map (fun d => (d, (slookup d m.tags).getD ""))

/-- The `for i, v := range js.values` loop of `JoinIntoPoint`; `none` = `return nil, nil` (inner join). -/
def joinFields (cfg : JCfg) (firstFields : List (String × String)) :
    List (Option JMsg) → List String → List (String × String) → Option (List (String × String))
  | [], _, acc => some acc
  | none :: vs, pre :: pres, acc =>
    match cfg.fill with
    | .null => joinFields cfg firstFields vs pres (firstFields.foldl (fun a kv => putField (pre ++ cfg.delim ++ kv.1) "nil" a) acc)
    | .num tok => joinFields cfg firstFields vs pres (firstFields.foldl (fun a kv => putField (pre ++ cfg.delim ++ kv.1) tok a) acc)
    | .none => none
  | some p :: vs, pre :: pres, acc =>
    joinFields cfg firstFields vs pres (p.fields.foldl (fun a kv => putField (pre ++ cfg.delim ++ kv.1) kv.2 a) acc)
  | _ :: _, [], acc => some acc            -- `js.prefixes[i]` out of range: excluded by validation (len(names) = parents)

/-- `emitJoinedSet` + `JoinIntoPoint` for a stream join. `none` = nothing is forwarded. -/
def joinIntoPoint (cfg : JCfg) (s : JSet JMsg) : Option JOut :=
  match s.first? with
  | none => none
  | some first =>
    let name := if cfg.sname = "" then first.name else cfg.sname
    match joinFields cfg first.fields s.values cfg.names [] with
    | none => none
    | some fields =>
      some { name := name, time := s.time, byName := first.byName, dims := first.dims, tags := groupTags first, fields := fields }

/-! ### JoinIntoBatch -/

/-- A joined batch. -/
structure JBOut where
  name : String
  time : Int
  byName : Bool
  tags : List (String × String)
  points : List (Int × List (String × String))
deriving DecidableEq, Repr

/-- State of one pass of the `for i, batch := range js.values` loop inside `BATCH_POINT`. -/
structure BIter where
  set : List (Option BPt)
  setTime : Option Int
  count : Nat
  empty : List Bool
  emptyCount : Nat
  indexes : List Nat
  fieldNames : Option (List String)
deriving Repr

/-- One iteration of that loop, for parent `i`. -/
def batchVisit (tol : Int) (st : BIter) (i : Nat) (batch : Option JMsg) : BIter :=
  if st.empty.getD i false then st else
  match batch with
  | none => { st with emptyCount := st.emptyCount + 1, empty := st.empty.set i true }
  | some b =>
    let idx := st.indexes.getD i 0
    match b.points[idx]? with
    | none => { st with emptyCount := st.emptyCount + 1, empty := st.empty.set i true }   -- indexes[i] == len(b.Points())
    | some bp =>
      let t := goRound tol bp.time
      let setTime := st.setTime.getD t                        -- if setTime.IsZero() { setTime = t }
      if t < setTime then
        -- "we need to backup": give back what was taken in this pass, restart the set at the earlier time
        let indexes := List.zipWith (fun ix (s : Option BPt) => if s.isSome then ix - 1 else ix) st.indexes st.set
        { st with setTime := some t, set := (st.set.map (fun _ => none)).set i (some bp),
                  indexes := indexes.set i (indexes.getD i 0 + 1), count := 1 }
      else if t = setTime then
        { st with setTime := some setTime, set := st.set.set i (some bp), indexes := st.indexes.set i (idx + 1),
                  count := st.count + 1,
                  fieldNames := match st.fieldNames with
                    | some f => some f
                    | none => some (bp.fields.map (·.1)) }
      else { st with setTime := some setTime }

def batchPass (tol : Int) : Nat → List (Option JMsg) → BIter → BIter
  | _, [], st => st
  | i, b :: bs, st => batchPass tol (i + 1) bs (batchVisit tol st i b)

/-- "Join all batch points in set": `none` = `continue BATCH_POINT` (inner join, a parent is missing). -/
def batchFields (cfg : JCfg) (fieldNames : List String) :
    List (Option BPt) → List String → List (String × String) → Option (List (String × String))
  | [], _, acc => some acc
  | none :: vs, pre :: pres, acc =>
    match cfg.fill with
    | .null => batchFields cfg fieldNames vs pres (fieldNames.foldl (fun a k => putField (pre ++ cfg.delim ++ k) "nil" a) acc)
    | .num tok => batchFields cfg fieldNames vs pres (fieldNames.foldl (fun a k => putField (pre ++ cfg.delim ++ k) tok a) acc)
    | .none => none
  | some p :: vs, pre :: pres, acc =>
    batchFields cfg fieldNames vs pres (p.fields.foldl (fun a kv => putField (pre ++ cfg.delim ++ kv.1) kv.2 a) acc)
  | _ :: _, [], acc => some acc

/-- The `BATCH_POINT` loop (fuel: every pass marks a parent empty or consumes a point). -/
def batchLoop (cfg : JCfg) (values : List (Option JMsg)) :
    Nat → List Bool → Nat → List Nat → Option (List String) → List (Int × List (String × String)) → List (Int × List (String × String))
  | 0, _, _, _, _, acc => acc
  | fuel + 1, empty, emptyCount, indexes, fieldNames, acc =>
    if emptyCount < values.length then
      let it := batchPass cfg.tol 0 values
        { set := values.map (fun _ => none), setTime := none, count := 0, empty := empty, emptyCount := emptyCount,
          indexes := indexes, fieldNames := fieldNames }
      if it.count = 0 then batchLoop cfg values fuel it.empty it.emptyCount it.indexes it.fieldNames acc
      else
        match batchFields cfg (it.fieldNames.getD []) it.set cfg.names [] with
        | none => batchLoop cfg values fuel it.empty it.emptyCount it.indexes it.fieldNames acc
        | some fields => batchLoop cfg values fuel it.empty it.emptyCount it.indexes it.fieldNames (acc ++ [(it.setTime.getD 0, fields)])
    else acc

/-- `emitJoinedSet` + `JoinIntoBatch` for a batch join (always yields a batch, possibly without points). -/
def joinIntoBatch (cfg : JCfg) (s : JSet JMsg) : Option JBOut :=
  match s.first? with
  | none => none
  | some first =>
    let fuel := (s.values.map (fun v => match v with | some b => b.points.length + 1 | none => 1)).sum + 1
    some { name := if cfg.sname = "" then first.name else cfg.sname, time := s.time, byName := first.byName, tags := first.tags,
           points := batchLoop cfg s.values fuel (s.values.map (fun _ => false)) 0 (s.values.map (fun _ => 0)) none [] }

/-! ### JoinNode -/

structure JNode where
  groups : List (String × JGroup JMsg)
deriving Repr

namespace JNode

def glookup (k : String) : List (String × JGroup JMsg) → Option (JGroup JMsg)
  | [] => none
  | (k', v) :: rest => if k' = k then some v else glookup k rest

def gupsert (k : String) (v : JGroup JMsg) : List (String × JGroup JMsg) → List (String × JGroup JMsg)
  | [] => [(k, v)]
  | (k', v') :: rest => if k' = k then (k, v) :: rest else (k', v') :: gupsert k v rest

def init : JNode := { groups := [] }

/-- `getOrCreateGroup` -/
def group (cfg : JCfg) (nd : JNode) (id : String) : JGroup JMsg := (glookup id nd.groups).getD (JGroup.new cfg.parents)

/-- `Point(src, p)` → `doMessage` (no join dimensions) → `group.Collect`. -/
def point (cfg : JCfg) (nd : JNode) (src : Nat) (m : JMsg) : JNode × List (JSet JMsg) × Status :=
  let (g, sets, st) := (nd.group cfg m.grp).collect cfg.names.length src (goRound cfg.tol m.time) m
  ({ groups := gupsert m.grp g nd.groups }, sets, st)

/-- `Barrier(src, b)`: the group's `Barrier`, then the barrier itself is forwarded (by the caller). -/
def barrier (cfg : JCfg) (nd : JNode) (src : Nat) (grp : String) (t : Int) : JNode × List (JSet JMsg) × Status :=
  let (g, sets, st) := (nd.group cfg grp).barrier src (goRound cfg.tol t)
  ({ groups := gupsert grp g nd.groups }, sets, st)

def barrierOld (cfg : JCfg) (nd : JNode) (src : Nat) (grp : String) (t : Int) : JNode × List (JSet JMsg) × Status :=
  let (g, sets, st) := (nd.group cfg grp).barrierOld src (goRound cfg.tol t)
  ({ groups := gupsert grp g nd.groups }, sets, st)

/-- `Delete(src, d)`: the group (with whatever it had buffered) is dropped from the node; the message itself is
forwarded by the caller. (The `on()` buffers and low marks of the group, dropped too, are not modelled.) -/
def delete (nd : JNode) (grp : String) : JNode := { groups := nd.groups.filter (fun p => p.1 != grp) }

/-- `Finish()`: every group's `emitAll` (Go map order: the order across groups is not defined). -/
def finish : List (String × JGroup JMsg) → List (String × JGroup JMsg) × List (JSet JMsg) × Status
  | [] => ([], [], .ok)
  | (k, g) :: rest =>
    let (g, sets, st) := g.finish
    let (rest, sets', st') := finish rest
    ((k, g) :: rest, sets ++ sets', st.and st')

end JNode

/-! ### whole runs -/

/-- What reaches the join node, in arrival order. -/
inductive JOp where
  | point (src : Nat) (m : JMsg)
  | barrier (src : Nat) (grp : String) (t : Int)
deriving Repr

/-- The group an arrival belongs to. -/
def JOp.grp : JOp → String
  | .point _ m => m.grp
  | .barrier _ g _ => g

/-- The parent an arrival comes from. -/
def JOp.srcOf : JOp → Nat
  | .point s _ => s
  | .barrier s _ _ => s

/-- The (unrounded) time of an arrival. -/
def JOp.rawTime : JOp → Int
  | .point _ m => m.time
  | .barrier _ _ t => t

/-- The points among the arrivals, with their parent. -/
def pointsOf (ops : List JOp) : List (Nat × JMsg) :=
  ops.filterMap (fun op => match op with | .point src m => some (src, m) | .barrier _ _ _ => none)

/-- (parent, group, time) of every arrival, points and barriers. -/
def stepsOf (ops : List JOp) : List (Nat × String × Int) := ops.map (fun op => (op.srcOf, op.grp, op.rawTime))

namespace JNode
def step (cfg : JCfg) (nd : JNode) : JOp → JNode × List (JSet JMsg) × Status
  | .point src m => nd.point cfg src m
  | .barrier src grp t => nd.barrier cfg src grp t

def runOps (cfg : JCfg) : JNode → List JOp → JNode × List (JSet JMsg) × Status
  | nd, [] => (nd, [], .ok)
  | nd, op :: ops =>
    let r := nd.step cfg op
    let r' := runOps cfg r.1 ops
    (r'.1, r.2.1 ++ r'.2.1, r.2.2.and r'.2.2)

/-- A whole run: the arrivals in their arrival order, then `Finish`. -/
def run (cfg : JCfg) (ops : List JOp) : JNode × List (JSet JMsg) × Status :=
  let r := runOps cfg init ops
  let f := finish r.1.groups
  ({ groups := f.1 }, r.2.1 ++ f.2.1, r.2.2.and f.2.2)
end JNode

end Kap.C12
