/-
C12 — executable model, part 3: `join.on(dimensions)`.

Transcribed from /repo join.go: `JoinNode.doMessage` with join dimensions → `matchPoints` (the `reported` /
`allReported` bookkeeping, the general group ID of the point, `lowMarks[srcGroup]`, the low mark over all
parents, purge of cached specific points that cannot match anymore, the specific-point branch – search of
the cached match points with its `break`, `Dequeue` only once all parents reported, options 1/2/3 – and the
match-point branch), `sendMatchPoint` (the matched point takes the specific point's group tags and
dimensions, then both are collected by the specific group), `sendSpecificPoint`, and `JoinNode.Finish` (as
repaired by the `fix:` commit: cached specific points are sent alone before the groups finish; `finishOld`
is the snapshot's version).

Abstractions: the two `CircularQueue[srcPoint]` buffers are lists (Enqueue/Peek/Dequeue only); the Go maps
are association lists; the GENERAL group ID (`models.ToGroupID` over the `on()` dimensions) of every message
is an input, like the group ID itself; a message is "specific" when it has more dimensions than `on()`.
-/
import Kap.Model.C12Join
namespace Kap.C12

structure JOn where
  node : JNode := JNode.init
  reported : List Nat := []
  allReported : Bool := false
  lowMarks : List ((Nat × String) × Int) := []
  matchBuf : List (String × List (Nat × JMsg)) := []
  specBuf : List (String × List (Nat × JMsg)) := []
deriving Repr

namespace JOn

def lmLookup (k : Nat × String) : List ((Nat × String) × Int) → Option Int
  | [] => none
  | (k', v) :: rest => if k' = k then some v else lmLookup k rest

def lmUpsert (k : Nat × String) (v : Int) : List ((Nat × String) × Int) → List ((Nat × String) × Int)
  | [] => [(k, v)]
  | (k', v') :: rest => if k' = k then (k, v) :: rest else (k', v') :: lmUpsert k v rest

def bufLookup (k : String) : List (String × List (Nat × JMsg)) → Option (List (Nat × JMsg))
  | [] => none
  | (k', v) :: rest => if k' = k then some v else bufLookup k rest

def bufUpsert (k : String) (v : List (Nat × JMsg)) : List (String × List (Nat × JMsg)) → List (String × List (Nat × JMsg))
  | [] => [(k, v)]
  | (k', v') :: rest => if k' = k then (k, v) :: rest else (k', v') :: bufUpsert k v rest

/-- `lowMark.IsZero() || lm.Before(lowMark)` (a missing `lowMarks` entry reads as the zero time). -/
def zeroOrLmBefore (lm lowMark : Option Int) : Bool :=
  match lowMark with
  | none => true
  | some L => match lm with
    | none => true
    | some x => decide (x < L)

/-- "Determine lowMark, the oldest time per parent per group" in snapshot ef0888e: a missing entry read as the
zero time, which the fold kept only when no later parent had an entry – a parent that had not reported for
the group was ignored when it came first among the parents. -/
def lowMarkOfOld (parents : Nat) (gid : String) (lms : List ((Nat × String) × Int)) : Option Int :=
  (List.range parents).foldl (fun lowMark s =>
    let lm := lmLookup (s, gid) lms
    if zeroOrLmBefore lm lowMark then lm else lowMark) none

/-- The low mark as repaired: the minimum over the parents, or zero (nothing can be ruled out) as soon as
one parent has not reported for this group yet. -/
def lowMarkOf (parents : Nat) (gid : String) (lms : List ((Nat × String) × Int)) : Option Int :=
  if (List.range parents).all (fun s => (lmLookup (s, gid) lms).isSome) then lowMarkOfOld parents gid lms else none

/-- `t.Before(lowMark)` with a possibly zero low mark. -/
def beforeMark (t : Int) (lowMark : Option Int) : Bool :=
  match lowMark with
  | none => false
  | some L => decide (t < L)

/-- `sendSpecificPoint` -/
def sendSpecific (cfg : JCfg) (nd : JNode) (sp : Nat × JMsg) : JNode × List (JSet JMsg) × Status :=
  nd.point cfg sp.1 sp.2

/-- `sendMatchPoint(specific, matched)` -/
def sendMatch (cfg : JCfg) (nd : JNode) (sp ma : Nat × JMsg) : JNode × List (JSet JMsg) × Status :=
  let newMatched : JMsg := { ma.2 with tags := groupTags sp.2, dims := sp.2.dims, byName := sp.2.byName, grp := sp.2.grp }
  let (nd, o1, s1) := nd.point cfg sp.1 sp.2
  let (nd, o2, s2) := nd.point cfg ma.1 newMatched
  (nd, o1 ++ o2, s1.and s2)

def sendAll (f : JNode → (Nat × JMsg) → JNode × List (JSet JMsg) × Status) :
    JNode → List (Nat × JMsg) → JNode × List (JSet JMsg) × Status
  | nd, [] => (nd, [], .ok)
  | nd, x :: xs =>
    let (nd, o, s) := f nd x
    let (nd, o', s') := sendAll f nd xs
    (nd, o ++ o', s.and s')

/-- The search loop of the specific-point branch: which cached match points are sent with the point (in
order) and the index `i` at which the loop stopped. -/
def searchMatches (tol : Int) (t : Int) (lowMark : Option Int) : List (Nat × JMsg) → Nat → List (Nat × JMsg) → Nat × List (Nat × JMsg)
  | [], i, acc => (i, acc)
  | x :: xs, i, acc =>
    let pt := goRound tol x.2.time
    let acc := if pt = t then acc ++ [x] else acc
    if !beforeMark pt lowMark then (i, acc) else searchMatches tol t lowMark xs (i + 1) acc

/-- "Check for cached specific points that can now be sent alone": node, emitted sets, status, new buffer map. -/
def purge (cfg : JCfg) (st : JOn) (allReported : Bool) (lowMark : Option Int) (gid : String) :
    JNode × List (JSet JMsg) × Status × List (String × List (Nat × JMsg)) :=
  if allReported then
    match bufLookup gid st.specBuf with
    | some buf =>
      let old := buf.takeWhile (fun x => beforeMark (goRound cfg.tol x.2.time) lowMark)
      let r := sendAll (sendSpecific cfg) st.node old
      (r.1, r.2.1, r.2.2, bufUpsert gid (buf.drop old.length) st.specBuf)
    | none => (st.node, [], Status.ok, st.specBuf)
  else (st.node, [], Status.ok, st.specBuf)

/-- The specific-point branch up to "if !matched": node, emitted sets, status, matched, new match buffers. -/
def specMatch (cfg : JCfg) (st : JOn) (nd : JNode) (allReported : Bool) (lowMark : Option Int) (gid : String)
    (src : Nat) (m : JMsg) (t : Int) : JNode × List (JSet JMsg) × Status × Bool × List (String × List (Nat × JMsg)) :=
  match bufLookup gid st.matchBuf with
  | some mts =>
    let ih := searchMatches cfg.tol t lowMark mts 0 []
    let r := sendAll (fun nd ma => sendMatch cfg nd (src, m) ma) nd ih.2
    (r.1, r.2.1, r.2.2, !ih.2.isEmpty, if allReported then bufUpsert gid (mts.drop ih.1) st.matchBuf else st.matchBuf)
  | none => (nd, [], Status.ok, false, st.matchBuf)

/-- `matchPoints(p)`; `specific` = `len(p.Dimensions().TagNames) > len(n.j.Dimensions)`, `gid` = the general group ID. -/
def point (cfg : JCfg) (st : JOn) (src : Nat) (m : JMsg) (specific : Bool) (gid : String) : JOn × List (JSet JMsg) × Status :=
  let reported := if st.allReported || st.reported.contains src then st.reported else st.reported ++ [src]
  let allReported := st.allReported || reported.length == cfg.parents
  let t := goRound cfg.tol m.time
  let lowMarks := lmUpsert (src, gid) t st.lowMarks
  let lowMark := if allReported then lowMarkOf cfg.parents gid lowMarks else none
  let p := purge cfg st allReported lowMark gid
  if specific then
    let q := specMatch cfg st p.1 allReported lowMark gid src m t
    if q.2.2.2.1 then
      ({ node := q.1, reported := reported, allReported := allReported, lowMarks := lowMarks, matchBuf := q.2.2.2.2, specBuf := p.2.2.2 },
       p.2.1 ++ q.2.1, p.2.2.1.and q.2.2.1)
    else if allReported && beforeMark t lowMark then
      let r := sendSpecific cfg q.1 (src, m)
      ({ node := r.1, reported := reported, allReported := allReported, lowMarks := lowMarks, matchBuf := q.2.2.2.2, specBuf := p.2.2.2 },
       p.2.1 ++ q.2.1 ++ r.2.1, (p.2.2.1.and q.2.2.1).and r.2.2)
    else
      ({ node := q.1, reported := reported, allReported := allReported, lowMarks := lowMarks, matchBuf := q.2.2.2.2,
         specBuf := bufUpsert gid ((bufLookup gid p.2.2.2).getD [] ++ [(src, m)]) p.2.2.2 },
       p.2.1 ++ q.2.1, p.2.2.1.and q.2.2.1)
  else
    let matchBuf := bufUpsert gid ((bufLookup gid st.matchBuf).getD [] ++ [(src, m)]) st.matchBuf
    match bufLookup gid p.2.2.2 with
    | some buf =>
      let same := buf.takeWhile (fun x => goRound cfg.tol x.2.time = t)
      let r := sendAll (fun nd sp => sendMatch cfg nd sp (src, m)) p.1 same
      ({ node := r.1, reported := reported, allReported := allReported, lowMarks := lowMarks, matchBuf := matchBuf,
         specBuf := bufUpsert gid (buf.drop same.length) p.2.2.2 },
       p.2.1 ++ r.2.1, p.2.2.1.and r.2.2)
    | none =>
      ({ node := p.1, reported := reported, allReported := allReported, lowMarks := lowMarks, matchBuf := matchBuf, specBuf := p.2.2.2 },
       p.2.1, p.2.2.1)

/-- `Finish()` of snapshot ef0888e: only the groups are finished; specific points still cached are dropped. -/
def finishOld (st : JOn) : JOn × List (JSet JMsg) × Status :=
  let (gs, o, s) := JNode.finish st.node.groups
  ({ st with node := { groups := gs } }, o, s)

/-- `Finish()` as repaired: the cached specific points are sent alone first. -/
def finish (cfg : JCfg) (st : JOn) : JOn × List (JSet JMsg) × Status :=
  let r := sendAll (sendSpecific cfg) st.node (st.specBuf.flatMap (·.2))
  let f := JNode.finish r.1.groups
  ({ st with node := { groups := f.1 }, specBuf := st.specBuf.map (fun p => (p.1, [])) }, r.2.1 ++ f.2.1, r.2.2.and f.2.2)

/-- A whole run with `on()`: arrivals (parent, message, specific?, general group) in arrival order, then `Finish`. -/
def runArrivals (cfg : JCfg) : JOn → List (Nat × JMsg × Bool × String) → JOn × List (JSet JMsg) × Status
  | st, [] => (st, [], .ok)
  | st, a :: rest =>
    let r := st.point cfg a.1 a.2.1 a.2.2.1 a.2.2.2
    let r' := runArrivals cfg r.1 rest
    (r'.1, r.2.1 ++ r'.2.1, r.2.2.and r'.2.2)

def run (cfg : JCfg) (arrivals : List (Nat × JMsg × Bool × String)) : JOn × List (JSet JMsg) × Status :=
  let r := runArrivals cfg {} arrivals
  let f := r.1.finish cfg
  (f.1, r.2.1 ++ f.2.1, r.2.2.and f.2.2)

end JOn
end Kap.C12
