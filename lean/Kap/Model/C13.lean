/-
Model for property C13 (formatting / re-serialising a TICKscript never changes the task it defines),
expression sub-language (everything that can stand after `lambda:`).

Transcribed Go (tick/ast):
  * lex.go        lexToken / tryLexBinaryOperator / lexUnaryOperator / lexNumberOrDurationOrDot /
                  lexIdentOrKeyword / lexReference / lexSingleOrTripleString / lexRegex          → `lex`
  * node.go       newNumber, newDur (+ influxql.ParseDuration), newString, newReference, newRegex  → `decode`
  * parser.go     primary, primaryExpr, precedence (both loops), lfunction, lparameters, lparameter,
                  parseLambda                                                                      → `primary`, `outer`, `inner`, `params`, `parseTokens`
  * node.go       Format of Number/Duration/Bool/String/Regex/Reference/Identifier/Star/Unary/
                  Binary/Function nodes (single-line layout, no comments)                          → `fmtToks`, `fmtStr`
  * node.go/json.go  MarshalJSON / unmarshal of the same nodes                                     → `toJ`, `ofJ`
The operator set, operator strings and the precedence table are NOT written here: they come from
`Kap/Gen/C13.lean`, regenerated from lex.go / parser.go on every run.

Abstracted: positions, comments, MultiLine layout (differential harness only); `regexp.Compile` (every
regex of the generator is valid; `Regex.String()` = the unescaped literal); floats are kept as their
canonical decimal text, computed by an exact binary64 model (`F64`: correctly rounded parse, shortest decimal that
parses back) for literals of any length and magnitude; Go's strconv algorithms themselves are an oracle;
unicode classes are ASCII (`isLetter`/`isDigit`/`isSpace`), others are `na`.
-/
import Kap.Gen.C13

namespace Kap.C13
open Kap.C13.Gen

/-- Result of a model step: value, error (what Go reports as a parse error), or "not covered by the model". -/
inductive Res (α : Type) where
  | ok (a : α)
  | err
  | na (why : String)
  deriving Repr, DecidableEq

namespace Res
@[inline] def bind {α β} (r : Res α) (f : α → Res β) : Res β :=
  match r with
  | .ok a => f a
  | .err => .err
  | .na w => .na w
instance : Monad Res where
  pure := .ok
  bind := bind
end Res

/-! ## Operators (from the generated table) -/

/-- binding power; an operator without entry would be 0 in Go (array zero value) – the theorem
`gen_table_total` shows there is none. -/
def prec (o : BinOp) : Nat := (o.prec?).getD 0
def opStr (o : BinOp) : String := (o.str?).getD ""
def notStr : String := notStr?.getD ""

def opOfStr? (s : String) : Option BinOp := BinOp.all.find? (fun o => o.str? == some s)

inductive UnOp where
  | neg | not
  deriving DecidableEq, Repr, Inhabited

def UnOp.str : UnOp → String
  | .neg => opStr .TokenMinus
  | .not => notStr

/-! ## AST -/

inductive Num where
  | int (base : Nat) (v : Int)     -- IsInt, Int64, Base
  | flt (canon : String)           -- IsFloat, Float64 as its canonical `'f', -1` text (with ".0")
  deriving DecidableEq, Repr, Inhabited

/-- operands that are exactly one token -/
inductive Atom where
  | num (n : Num)
  | dur (ns : Int) (lit : String)          -- Dur, Literal
  | bool (b : Bool)
  | str (lit : String) (triple : Bool)     -- Literal, TripleQuotes
  | rx (re : String) (lit : String)        -- Regex.String(), Literal
  | ref (s : String)
  | star
  deriving DecidableEq, Repr, Inhabited

inductive Expr where
  | lit (a : Atom)
  | id (s : String)
  | un (op : UnOp) (e : Expr)
  | bin (op : BinOp) (l r : Expr) (parens : Bool)
  | call (f : String) (args : List Expr)
  deriving Repr, Inhabited

/-- tokens of the statement level: `|` `.` `@` `var` `=` `[` `]` `lambda:` `dbrp` -/
inductive Sym where
  | pipe | dot | at | var | asgn | lsb | rsb | lambda | dbrp
  deriving DecidableEq, Repr, Inhabited

/-- decoded tokens (what the parser works on after `newNumber`/`newString`/… turned the text into values) -/
inductive Tok where
  | lit (a : Atom)
  | id (s : String)
  | lp | rp | comma
  | not
  | op (o : BinOp)
  | sym (s : Sym)
  deriving DecidableEq, Repr, Inhabited

/-- raw tokens as the lexer emits them (type + text) -/
inductive RTok where
  | number (t : String) | duration (t : String) | string (t : String) | regex (t : String)
  | reference (t : String) | ident (t : String) | tTrue | tFalse
  | lp | rp | comma | star | not | op (o : BinOp)
  | sym (s : Sym)        -- statement-level tokens (comments are dropped by the lexer: the parser skips them)
  deriving DecidableEq, Repr, Inhabited

/-! ## Literal codecs on character lists -/

/-- the unescape loop shared by newString / newReference / newRegex: `\q` ↦ `q`, everything else copied. -/
def unescQ (q : Char) : List Char → List Char
  | '\\' :: c :: rest => if c = q then c :: unescQ q rest else '\\' :: unescQ q (c :: rest)
  | c :: rest => c :: unescQ q rest
  | [] => []

/-- the escape loop of StringNode.Format / ReferenceNode.Format: `q` ↦ `\q`. -/
def escQ (q : Char) : List Char → List Char
  | [] => []
  | c :: rest => if c = q then '\\' :: c :: escQ q rest else c :: escQ q rest

def isDigit (c : Char) : Bool := '0' ≤ c && c ≤ '9'
def isLetter (c : Char) : Bool := ('a' ≤ c && c ≤ 'z') || ('A' ≤ c && c ≤ 'Z')
def isIdentCh (c : Char) : Bool := isDigit c || isLetter c || c = '_'
def isSpace (c : Char) : Bool := c = ' ' || c = '\t' || c = '\n' || c = '\r' || c = '\x0b' || c = '\x0c'
def isAscii (c : Char) : Bool := c.toNat < 128
def isDurUnit (c : Char) : Bool := durationUnits.toList.contains c

def digitVal (c : Char) : Nat := c.toNat - '0'.toNat

/-- strconv.ParseInt(text, base, 64) for non-negative digit strings: `none` on a bad digit or overflow. -/
def parseNat (base : Nat) (cs : List Char) : Option Nat :=
  if cs.isEmpty then none else
  cs.foldl (fun acc c => match acc with
    | none => none
    | some n => if isDigit c && digitVal c < base then some (n * base + digitVal c) else none) (some 0)

def int64Max : Int := 9223372036854775807

def parseInt64 (base : Nat) (cs : List Char) : Option Int :=
  match parseNat base cs with
  | some n => if (n : Int) ≤ int64Max then some n else none
  | none => none

/-- wrap to int64 (Go's arithmetic on time.Duration) -/
def wrap64 (x : Int) : Int :=
  let m := x % 18446744073709551616
  if m ≥ 9223372036854775808 then m - 18446744073709551616 else m

def stripLeadingZeros : List Char → List Char
  | '0' :: rest => stripLeadingZeros rest
  | cs => cs

/-! ## binary64 (strconv.ParseFloat / strconv.FormatFloat(f, 'f', -1, 64)), exact arithmetic on Nat

`F64.parse` is a DEFINITION of correctly rounded decimal → binary64 conversion (round half to even, overflow is an
error, underflow is 0): what strconv.ParseFloat documents. `F64.fmt` is a definition of "the shortest decimal that
parses back, the closest one when two of that length do" printed in %f layout: what FormatFloat(f,'f',-1,64)
documents; it only ever answers with a text it has parsed back itself (`fmt_parses_back`), a value for which no
text of at most 20 digits parses back would be answered with `none` (never observed; classical result: 17 digits
always do). Go's algorithms (Eisel-Lemire / Ryu) are NOT transcribed: they are an oracle tied to these definitions
by the correspondence run (every float of every case: model text = real text, model value = real value). -/
namespace F64

/-- a finite non-negative binary64 value `m * 2^e`. What `round` returns is canonical: `m = 0 ∧ e = -1074`, or
`2^52 ≤ m < 2^53 ∧ -1074 ≤ e ≤ 971` (normal), or `0 < m < 2^52 ∧ e = -1074` (subnormal). -/
structure Val where
  m : Nat
  e : Int
  deriving DecidableEq, Repr, Inhabited

def p52 : Nat := 4503599627370496
def p53 : Nat := 9007199254740992
def eMin : Int := -1074
def eMax : Int := 971

/-- ⌊log2 (n/d)⌋ for n, d > 0 -/
def floorLog2 (n d : Nat) : Int :=
  let l : Int := (Nat.log2 n : Int) - (Nat.log2 d : Int)
  let ge : Bool := if l ≥ 0 then decide (n ≥ d * 2 ^ l.toNat) else decide (n * 2 ^ (-l).toNat ≥ d)
  if ge then l else l - 1

/-- the rational n/d (d > 0) rounded to binary64, ties to even; `none` = out of range (ParseFloat: ±Inf, ErrRange) -/
def round (n d : Nat) : Option Val :=
  if n = 0 then some ⟨0, eMin⟩ else
  let e0 := floorLog2 n d - 52
  let e := if e0 < eMin then eMin else e0
  let N := if e < 0 then n * 2 ^ (-e).toNat else n
  let D := if e < 0 then d else d * 2 ^ e.toNat
  let q := N / D
  let r := N % D
  let q' := if 2 * r > D || (2 * r = D && q % 2 = 1) then q + 1 else q
  let m := if q' = p53 then p52 else q'
  let e' := if q' = p53 then e + 1 else e
  if e' > eMax then none else some ⟨m, e'⟩

def natOfDigits (cs : List Char) : Nat := cs.foldl (fun a c => a * 10 + (c.toNat - 48)) 0

/-- strconv.ParseFloat(text, 64) on a number token of the lexer: `digits . digits`, one side may be empty -/
def parse (cs : List Char) : Option Val :=
  let ip := cs.takeWhile (· ≠ '.')
  let fp := (cs.dropWhile (· ≠ '.')).drop 1
  if !(ip.all isDigit && fp.all isDigit) || (ip.isEmpty && fp.isEmpty) then none else
  round (natOfDigits (ip ++ fp)) (10 ^ fp.length)

/-- n/d ≥ 10^p -/
def ge10 (n d : Nat) (p : Int) : Bool :=
  if p ≥ 0 then decide (n ≥ d * 10 ^ p.toNat) else decide (n * 10 ^ (-p).toNat ≥ d)

/-- ⌊log10 (n/d)⌋ for n, d > 0: estimate from the binary logarithm, corrected by comparison -/
def floorLog10 (n d : Nat) : Int :=
  let p0 := (floorLog2 n d * 30103) / 100000
  let p1 := if ge10 n d p0 then p0 else p0 - 1
  let p2 := if ge10 n d p1 then p1 else p1 - 1
  let p3 := if ge10 n d (p2 + 1) then p2 + 1 else p2
  if ge10 n d (p3 + 1) then p3 + 1 else p3

def stripTrailingZeros (cs : List Char) : List Char := (cs.reverse.dropWhile (· = '0')).reverse

def padLeft (k : Nat) (cs : List Char) : List Char := List.replicate (k - cs.length) '0' ++ cs

/-- `D * 10^s` in %f layout with as many fraction digits as needed, and the `.0` NumberNode.Format appends to a
text without decimal point -/
def decText (D : Nat) (s : Int) : List Char :=
  if s ≥ 0 then Nat.toDigits 10 (D * 10 ^ s.toNat) ++ ['.', '0']
  else
    let k := (-s).toNat
    let fp := stripTrailingZeros (padLeft k (Nat.toDigits 10 (D % 10 ^ k)))
    Nat.toDigits 10 (D / 10 ^ k) ++ '.' :: (if fp.isEmpty then ['0'] else fp)

/-- of the two candidate texts take the one that parses back to `v`; the closer one (`up`) when both do -/
def choose (v : Val) (tlo thi : List Char) (up : Bool) : Option (List Char) :=
  if parse tlo == some v then
    (if parse thi == some v then some (if up then thi else tlo) else some tlo)
  else if parse thi == some v then some thi
  else none

/-- the value n/d cut to k significant digits (`lo`), the next k-digit decimal (`lo + 1`), both as text, and
whether n/d is closer to the upper one (ties to even); `p` = ⌊log10 (n/d)⌋ -/
def cands (n d : Nat) (p : Int) (k : Nat) : List Char × List Char × Bool :=
  let s := p - ((k : Int) - 1)
  let N := if s ≥ 0 then n else n * 10 ^ (-s).toNat
  let D := if s ≥ 0 then d * 10 ^ s.toNat else d
  let lo := N / D
  let r := N % D
  (decText lo s, decText (lo + 1) s, decide (2 * r > D) || (decide (2 * r = D) && decide (lo % 2 = 1)))

/-- try k, k+1, … significant digits: the first length at which a candidate parses back to `v` wins -/
def shortest (v : Val) (n d : Nat) (p : Int) : Nat → Nat → Option (List Char)
  | 0, _ => none
  | fuel + 1, k =>
    match choose v (cands n d p k).1 (cands n d p k).2.1 (cands n d p k).2.2 with
    | some t => some t
    | none => shortest v n d p fuel (k + 1)

def zeroText : List Char := ['0', '.', '0']

/-- strconv.FormatFloat(v, 'f', -1, 64) followed by NumberNode.Format's `.0` rule -/
def fmt (v : Val) : Option (List Char) :=
  if v.m = 0 then (if parse zeroText == some v then some zeroText else none) else
  let n := if v.e ≥ 0 then v.m * 2 ^ v.e.toNat else v.m
  let d := if v.e ≥ 0 then 1 else 2 ^ (-v.e).toNat
  shortest v n d (floorLog10 n d) 20 1

end F64

/-- canonical text of a float literal `int.frac`: FormatFloat(ParseFloat(text), 'f', -1, 64) with the ".0" rule.
The float VALUE is kept as this text (`Num.flt`); `F64.parse` of the text gives the binary64 back. -/
def canonFloat (cs : List Char) : Res String :=
  match F64.parse cs with
  | none => .err
  | some v =>
    match F64.fmt v with
    | some t => .ok (String.ofList t)
    | none => .na "float-no-short-decimal"

/-- newNumber -/
def newNumber (text : String) : Res Num :=
  let cs := text.toList
  if cs.isEmpty then .err else
  if cs.contains '.' then
    (canonFloat cs).bind (fun c => .ok (.flt c))
  else
    let base := if cs.head? = some '0' && cs.length > 1 then 8 else 10
    match parseInt64 base cs with
    | some v => .ok (.int base v)
    | none => .err

def unitNs (u : List Char) : Option Int :=
  match u with
  | ['u'] => some 1000
  | ['µ'] => some 1000
  | ['m', 's'] => some 1000000
  | ['s'] => some 1000000000
  | ['m'] => some 60000000000
  | ['h'] => some 3600000000000
  | ['d'] => some 86400000000000
  | ['w'] => some 604800000000000
  | _ => none

/-- newDur = influxql.ParseDuration on a lexer token `digits unit` (single component). -/
def newDur (text : String) : Res Int :=
  let cs := text.toList
  let ds := cs.takeWhile isDigit
  let u := cs.dropWhile isDigit
  match parseInt64 10 ds, unitNs u with
  | some n, some k =>
    let d := wrap64 (n * k)
    if d < 0 then .err else .ok d
  | _, _ => .err

/-- influxql.FormatDuration -/
def formatDuration (d : Int) : String :=
  if d = 0 then "0s"
  else if d.tmod 604800000000000 = 0 then s!"{d.tdiv 604800000000000}w"
  else if d.tmod 86400000000000 = 0 then s!"{d.tdiv 86400000000000}d"
  else if d.tmod 3600000000000 = 0 then s!"{d.tdiv 3600000000000}h"
  else if d.tmod 60000000000 = 0 then s!"{d.tdiv 60000000000}m"
  else if d.tmod 1000000000 = 0 then s!"{d.tdiv 1000000000}s"
  else if d.tmod 1000000 = 0 then s!"{d.tdiv 1000000}ms"
  else if d.tmod 1000 = 0 then s!"{d.tdiv 1000}u"
  else s!"{d}ns"

/-- newString: token text (with its quotes) ↦ (Literal, TripleQuotes) -/
def newString (txt : List Char) : List Char × Bool :=
  if txt.length ≥ 6 && txt.take 3 = ['\'', '\'', '\''] then
    ((txt.drop 3).take (txt.length - 6), true)
  else
    (unescQ '\'' ((txt.drop 1).take (txt.length - 2)), false)

def newReference (txt : List Char) : List Char := unescQ '"' ((txt.drop 1).take (txt.length - 2))

/-- newRegex: (Regex.String(), Literal) -/
def newRegex (txt : List Char) : List Char × List Char :=
  let lit := (txt.drop 1).take (txt.length - 2)
  (unescQ '/' lit, lit)

/-! ## Lexer (expression sub-language) -/

/-- body of a single-quoted string after the opening quote (count = total = 1): returns the consumed body
INCLUDING the closing quote, and the rest. `\'` is skipped as a pair. -/
def scanSingle : List Char → Option (List Char × List Char)
  | [] => none
  | '\\' :: '\'' :: rest => (scanSingle rest).map (fun (b, r) => ('\\' :: '\'' :: b, r))
  | '\'' :: rest => some (['\''], rest)
  | c :: rest => (scanSingle rest).map (fun (b, r) => (c :: b, r))

/-- `if l.peek() == '\'' { l.next() }` -/
def dropQuote : List Char → List Char
  | '\'' :: r => r
  | r => r

theorem dropQuote_length_le (cs : List Char) : (dropQuote cs).length ≤ cs.length := by
  unfold dropQuote; split <;> simp

/-- body of a triple-quoted string after the opening `'''`; `count` as in the Go loop (3 = fresh). -/
def scanTriple (count : Nat) : List Char → Option (List Char × List Char)
  | [] => none
  | c :: rest =>
    if c = '\\' && count = 1 then
      (scanTriple count (dropQuote rest)).map (fun (b, r) => (c :: (rest.take (rest.length - (dropQuote rest).length)) ++ b, r))
    else if c = '\'' then
      if count = 1 then some ([c], rest)
      else (scanTriple (count - 1) rest).map (fun (b, r) => (c :: b, r))
    else (scanTriple 3 rest).map (fun (b, r) => (c :: b, r))
termination_by cs => cs.length
decreasing_by
  all_goals simp_wf
  have := dropQuote_length_le rest
  omega

/-- lexSingleOrTripleString at a `'`: token text and rest -/
def scanString : List Char → Option (List Char × List Char)
  | '\'' :: '\'' :: '\'' :: rest => (scanTriple 3 rest).map (fun (b, r) => ('\'' :: '\'' :: '\'' :: b, r))
  | '\'' :: '\'' :: rest => some (['\'', '\''], rest)
  | '\'' :: rest => (scanSingle rest).map (fun (b, r) => ('\'' :: b, r))
  | _ => none

/-- lexReference after the opening `"`: body including the closing quote -/
def scanRef : List Char → Option (List Char × List Char)
  | [] => none
  | '\\' :: '"' :: rest => (scanRef rest).map (fun (b, r) => ('\\' :: '"' :: b, r))
  | '"' :: rest => some (['"'], rest)
  | c :: rest => (scanRef rest).map (fun (b, r) => (c :: b, r))

/-- lexRegex after the opening `/`: body including the closing slash -/
def scanRegex : List Char → Option (List Char × List Char)
  | [] => none
  | '\\' :: '/' :: rest => (scanRegex rest).map (fun (b, r) => ('\\' :: '/' :: b, r))
  | '/' :: rest => some (['/'], rest)
  | c :: rest => (scanRegex rest).map (fun (b, r) => (c :: b, r))

inductive NumScan where
  | number (t : List Char) (rest : List Char)
  | duration (t : List Char) (rest : List Char)
  | dot (rest : List Char)
  | bad

/-- lexNumberOrDurationOrDot -/
def scanNumber (foundDecimal first : Bool) (acc : List Char) : List Char → NumScan
  | [] => .number acc.reverse []
  | c :: rest =>
    if c = '.' then
      if first && !(match rest with | d :: _ => isDigit d | [] => false) then .dot rest
      else if foundDecimal then .bad
      else scanNumber true false (c :: acc) rest
    else if isDigit c then scanNumber foundDecimal false (c :: acc) rest
    else if !foundDecimal && isDurUnit c then
      match c, rest with
      | 'm', 's' :: rest' => .duration (('s' :: 'm' :: acc).reverse) rest'
      | _, _ => .duration ((c :: acc).reverse) rest
    else .number acc.reverse (c :: rest)

def dropSpace : List Char → List Char
  | c :: rest => if isSpace c then dropSpace rest else c :: rest
  | [] => []

/-- `for ; n != '\\n' && isSpace(n); n = l.next() {}` of lexComment -/
def dropHSpace : List Char → List Char
  | c :: rest => if isSpace c && c != '\n' then dropHSpace rest else c :: rest
  | [] => []

theorem dropHSpace_length_le : ∀ cs : List Char, (dropHSpace cs).length ≤ cs.length
  | [] => by simp [dropHSpace]
  | c :: rest => by
    have := dropHSpace_length_le rest
    unfold dropHSpace; split <;> simp <;> omega

/-- lexComment after the leading `//`: runs to the end of the line; a following line whose first non-blank
character is `/` continues the comment. Returns what is left. -/
def skipComment : List Char → List Char
  | [] => []
  | c :: rest =>
    if c = '\n' then
      match _h : dropHSpace rest with
      | '/' :: r' => skipComment r'
      | r => r
    else skipComment rest
termination_by cs => cs.length
decreasing_by
  all_goals simp_wf
  · have := dropHSpace_length_le rest
    rw [_h] at this; simp at this; omega

def keywordTok (s : String) : Option String := (keywords.find? (fun p => p.1 == s)).map (·.2)

/-- the token loop. `bop = true` is the state `tryLexBinaryOperator`, `false` is `lexToken`. -/
def lexLoop : Nat → Bool → List Char → List RTok → Res (List RTok)
  | 0, _, _, _ => .na "lexer-fuel"
  | fuel + 1, bop, cs, acc =>
    if bop then
      match dropSpace cs with
      | '+' :: r => lexLoop fuel false r (.op .TokenPlus :: acc)
      | '-' :: r => lexLoop fuel false r (.op .TokenMinus :: acc)
      | '*' :: r => lexLoop fuel false r (.op .TokenMult :: acc)
      | '%' :: r => lexLoop fuel false r (.op .TokenMod :: acc)
      | '/' :: '/' :: r => lexLoop fuel false (skipComment r) acc
      | '/' :: r => lexLoop fuel false r (.op .TokenDiv :: acc)
      | '!' :: '=' :: r => lexLoop fuel false r (.op .TokenNotEqual :: acc)
      | '!' :: '~' :: r =>
        match dropSpace r with
        | '/' :: r' =>
          match scanRegex r' with
          | some (b, r'') => lexLoop fuel true r'' (.regex (String.ofList ('/' :: b)) :: .op .TokenRegexNotEqual :: acc)
          | none => .err
        | r' => lexLoop fuel false r' (.op .TokenRegexNotEqual :: acc)
      | '!' :: r => lexLoop fuel false r (.not :: acc)
      | '>' :: '=' :: r => lexLoop fuel false r (.op .TokenGreaterEqual :: acc)
      | '>' :: r => lexLoop fuel false r (.op .TokenGreater :: acc)
      | '<' :: '=' :: r => lexLoop fuel false r (.op .TokenLessEqual :: acc)
      | '<' :: r => lexLoop fuel false r (.op .TokenLess :: acc)
      | '=' :: '=' :: r => lexLoop fuel false r (.op .TokenEqual :: acc)
      | '=' :: '~' :: r =>
        match dropSpace r with
        | '/' :: r' =>
          match scanRegex r' with
          | some (b, r'') => lexLoop fuel true r'' (.regex (String.ofList ('/' :: b)) :: .op .TokenRegexEqual :: acc)
          | none => .err
        | r' => lexLoop fuel false r' (.op .TokenRegexEqual :: acc)
      | '=' :: r =>
        -- TokenAsgn; ignoreSpace; a regex may follow directly
        match dropSpace r with
        | '/' :: r' =>
          match scanRegex r' with
          | some (b, r'') => lexLoop fuel true r'' (.regex (String.ofList ('/' :: b)) :: .sym .asgn :: acc)
          | none => .err
        | r' => lexLoop fuel false r' (.sym .asgn :: acc)
      | r => lexLoop fuel false r acc
    else
      match cs with
      | [] => .ok acc.reverse
      | c :: r =>
        if c = '-' then lexLoop fuel false r (.op .TokenMinus :: acc)
        else if c = '!' then lexLoop fuel false r (.not :: acc)
        else if isDigit c || c = '.' then
          match scanNumber false true [] cs with
          | .number t r' => lexLoop fuel true r' (.number (String.ofList t) :: acc)
          | .duration t r' => lexLoop fuel true r' (.duration (String.ofList t) :: acc)
          | .dot r' => lexLoop fuel false r' (.sym .dot :: acc)
          | .bad => .err
        else if isLetter c then
          let w := cs.takeWhile isIdentCh
          let r' := cs.dropWhile isIdentCh
          let s := String.ofList w
          match keywordTok s with
          | some "TokenTrue" => lexLoop fuel true r' (.tTrue :: acc)
          | some "TokenFalse" => lexLoop fuel true r' (.tFalse :: acc)
          | some "TokenAnd" => lexLoop fuel true r' (.op .TokenAnd :: acc)
          | some "TokenOr" => lexLoop fuel true r' (.op .TokenOr :: acc)
          | some "TokenVar" => lexLoop fuel true r' (.sym .var :: acc)
          | some "TokenDBRP" => lexLoop fuel true r' (.sym .dbrp :: acc)
          | some "TokenLambda" =>
            match r' with
            | ':' :: r'' => lexLoop fuel true r'' (.sym .lambda :: acc)
            | _ => if (r'.head?.map isAscii).getD true then lexLoop fuel true r' (.ident s :: acc) else .na "non-ascii"
          | some _ => .na "statement-keyword"
          | none => if (r'.head?.map isAscii).getD true then lexLoop fuel true r' (.ident s :: acc) else .na "non-ascii"
        else if c = '"' then
          match scanRef r with
          | some (b, r') => lexLoop fuel true r' (.reference (String.ofList ('"' :: b)) :: acc)
          | none => .err
        else if c = '\'' then
          match scanString cs with
          | some (t, r') => lexLoop fuel true r' (.string (String.ofList t) :: acc)
          | none => .err
        else if isSpace c then lexLoop fuel false r acc
        else if c = '(' then lexLoop fuel false r (.lp :: acc)
        else if c = ')' then lexLoop fuel true r (.rp :: acc)
        else if c = ',' then lexLoop fuel false r (.comma :: acc)
        else if c = '*' then lexLoop fuel false r (.star :: acc)
        else if c = '/' then
          match r with
          | '/' :: r2 => lexLoop fuel false (skipComment r2) acc
          | d :: _ =>
            if !isAscii d then .na "lexer-multibyte-after-slash" else
            match scanRegex r with
            | some (b, r') => lexLoop fuel true r' (.regex (String.ofList ('/' :: b)) :: acc)
            | none => .err
          | [] => .err
        else if c = '[' then lexLoop fuel false r (.sym .lsb :: acc)
        else if c = ']' then lexLoop fuel false r (.sym .rsb :: acc)
        else if c = '|' then lexLoop fuel false r (.sym .pipe :: acc)
        else if c = '@' then lexLoop fuel false r (.sym .at :: acc)
        else if !isAscii c then .na "non-ascii"
        else .err

def lex (cs : List Char) : Res (List RTok) := lexLoop (2 * cs.length + 2) false cs []

/-! ## Token decoding (the `newX` constructors the parser calls) -/

def decode : RTok → Res Tok
  | .number t => (newNumber t).bind (fun n => .ok (.lit (.num n)))
  | .duration t => (newDur t).bind (fun d => .ok (.lit (.dur d t)))
  | .string t => let (l, tr) := newString t.toList; .ok (.lit (.str (String.ofList l) tr))
  | .regex t =>
    let (re, l) := newRegex t.toList
    -- regexp.Compile is not modelled: texts whose brackets do not pair up are left to the spec oracle
    if re.count '[' != re.count ']' || re.count '(' != re.count ')' || re.isEmpty then .na "regex-validity"
    else .ok (.lit (.rx (String.ofList re) (String.ofList l)))
  | .reference t => .ok (.lit (.ref (String.ofList (newReference t.toList))))
  | .ident t => .ok (.id t)
  | .tTrue => .ok (.lit (.bool true))
  | .tFalse => .ok (.lit (.bool false))
  | .lp => .ok .lp
  | .rp => .ok .rp
  | .comma => .ok .comma
  | .star => .ok (.lit .star)
  | .not => .ok .not
  | .op o => .ok (.op o)
  | .sym x => .ok (.sym x)

def decodeAll : List RTok → Res (List Tok)
  | [] => .ok []
  | t :: ts => (decode t).bind (fun x => (decodeAll ts).bind (fun xs => .ok (x :: xs)))

/-! ## Parser (parser.go), on decoded tokens, with fuel -/

/-- `primary()`'s `b.Parens = true` -/
def setParens : Expr → Expr
  | .bin o l r _ => .bin o l r true
  | e => e

/-- `p.peek().typ == TokenRParen` -/
def startsRp : List Tok → Bool
  | .rp :: _ => true
  | _ => false

/-- `p.expect(TokenRParen)` after a sub-parse -/
def expectRp {α} (k : α → Expr) : α × List Tok → Res (Expr × List Tok)
  | (a, .rp :: ts) => .ok (k a, ts)
  | _ => .err

mutual
/-- primary() -/
def primary : Nat → List Tok → Res (Expr × List Tok)
  | 0, _ => .na "fuel"
  | f + 1, .lp :: ts =>
    -- n := p.primaryExpr(); Parens = true on a BinaryNode; expect ')'
    (primary f ts).bind (fun x => (outer f x.1 0 x.2).bind (expectRp setParens))
  | _ + 1, .lit a :: ts => .ok (.lit a, ts)
  | f + 1, .id s :: .lp :: ts =>
    -- lfunction
    (params f ts).bind (expectRp (Expr.call s))
  | _ + 1, .id s :: ts => .ok (.id s, ts)
  | f + 1, .op .TokenMinus :: ts => (primary f ts).bind (fun x => .ok (.un .neg x.1, x.2))
  | f + 1, .not :: ts => (primary f ts).bind (fun x => .ok (.un .not x.1, x.2))
  | _ + 1, _ => .err
/-- the outer loop of precedence(lhs, minP) -/
def outer : Nat → Expr → Nat → List Tok → Res (Expr × List Tok)
  | 0, _, _, _ => .na "fuel"
  | f + 1, lhs, minP, .op o :: ts1 =>
    if prec o ≥ minP then
      (primary f ts1).bind (fun x => (inner f x.1 (prec o) x.2).bind (fun y =>
        outer f (.bin o lhs y.1 false) minP y.2))
    else .ok (lhs, .op o :: ts1)
  | _ + 1, lhs, _, ts => .ok (lhs, ts)
/-- the inner loop of precedence: while the lookahead binds tighter than `p`, rhs = precedence(rhs, prec look) -/
def inner : Nat → Expr → Nat → List Tok → Res (Expr × List Tok)
  | 0, _, _, _ => .na "fuel"
  | f + 1, rhs, p, .op o :: ts1 =>
    if prec o > p then
      (outer f rhs (prec o) (.op o :: ts1)).bind (fun x => inner f x.1 p x.2)
    else .ok (rhs, .op o :: ts1)
  | _ + 1, rhs, _, ts => .ok (rhs, ts)
/-- lparameters(): stops at ')', otherwise lparameter (= primary, then precedence(n, 0)) and an optional ',' -/
def params : Nat → List Tok → Res (List Expr × List Tok)
  | 0, _ => .na "fuel"
  | f + 1, ts =>
    if startsRp ts then .ok ([], ts) else
    (primary f ts).bind (fun x => (outer f x.1 0 x.2).bind (fun y =>
      match y.2 with
      | .comma :: ts2 => (params f ts2).bind (fun z => .ok (y.1 :: z.1, z.2))
      | _ => .ok ([y.1], y.2)))
end

/-- primaryExpr() -/
def primaryExpr (f : Nat) (ts : List Tok) : Res (Expr × List Tok) :=
  (primary f ts).bind (fun x => outer f x.1 0 x.2)

/-- parseLambda on tokens: primaryExpr then EOF -/
def parseTokensF (f : Nat) (ts : List Tok) : Res Expr :=
  match primaryExpr f ts with
  | .ok (e, []) => .ok e
  | .ok _ => .err
  | .err => .err
  | .na w => .na w

def parseTokens (ts : List Tok) : Res Expr := parseTokensF (2 * ts.length + 4) ts

/-- ast.ParseLambda -/
def parseLambda (src : String) : Res Expr :=
  if src.toList.contains '\n' then .na "newline-layout" else
  (lex src.toList).bind (fun rts => (decodeAll rts).bind parseTokens)

/-! ## Format (node.go), single-line layout -/

def octal (n : Nat) : String := String.ofList (Nat.toDigits 8 n)

def fmtNum : Num → Res String
  | .int base v =>
    if base = 8 then (if v < 0 then .na "negative-octal" else .ok ("0" ++ octal v.toNat))
    else if base = 10 then .ok (toString v)
    else .na "base"
  | .flt c => .ok c

def endsWithBackslash (cs : List Char) : Bool := cs.getLast? = some '\\'

def hasTwoQuotes : List Char → Bool
  | '\'' :: '\'' :: _ => true
  | _ :: rest => hasTwoQuotes rest
  | [] => false

/-- the quoting StringNode.Format chooses: the TripleQuotes flag, or (repair 02ebb2e) triple quotes for a
literal that ends in a backslash and has no two adjacent quotes -/
def useTriple (lit : List Char) (triple : Bool) : Bool :=
  triple || (endsWithBackslash lit && !hasTwoQuotes lit)

/-- StringNode.Format -/
def fmtString (lit : String) (triple : Bool) : String :=
  if useTriple lit.toList triple then "'''" ++ lit ++ "'''"
  else "'" ++ String.ofList (escQ '\'' lit.toList) ++ "'"

/-- StringNode.Format before 02ebb2e -/
def fmtStringOld (lit : String) (triple : Bool) : String :=
  if triple then "'''" ++ lit ++ "'''"
  else "'" ++ String.ofList (escQ '\'' lit.toList) ++ "'"

/-- the Literal RegexNode.Format writes: the parser's, or (repair 341b804) derived from the regex -/
def regexLiteral (re lit : String) : String :=
  if lit.isEmpty && !re.isEmpty then String.ofList (escQ '/' re.toList) else lit

/-- RegexNode.Format -/
def fmtRegex (re lit : String) : String := "/" ++ regexLiteral re lit ++ "/"

def fmtAtom : Atom → Res String
  | .num n => fmtNum n
  | .dur ns lit => .ok (if lit.isEmpty then formatDuration ns else lit)
  | .bool b => .ok (if b then "TRUE" else "FALSE")
  | .str l t => .ok (fmtString l t)
  | .rx re l => .ok (fmtRegex re l)
  | .ref s => .ok ("\"" ++ String.ofList (escQ '"' s.toList) ++ "\"")
  | .star => .ok "*"

/-- binaryOperandNeedsParens (repair 50a1b8a) -/
def needsParens (operand : Expr) (op : BinOp) (right : Bool) : Bool :=
  match operand with
  | .bin o _ _ _ => if right then prec o ≤ prec op else prec o < prec op
  | _ => false

/-- the text of an operand token (empty when the model does not cover the form, see `atomCovered`) -/
def atomText (a : Atom) : List Char :=
  match fmtAtom a with
  | .ok s => s.toList
  | _ => []

def atomCovered (a : Atom) : Bool :=
  match fmtAtom a with
  | .ok _ => true
  | _ => false

def opChars (o : BinOp) : List Char := (opStr o).toList
def unChars (o : UnOp) : List Char := o.str.toList

mutual
/-- Node.Format → text, as characters. `extra` = the parentheses `formatOperand` asks for (only a BinaryNode
honours it). -/
def fmtCharsP : Expr → Bool → List Char
  | .lit a, _ => atomText a
  | .id s, _ => s.toList
  | .un op e, _ => unChars op ++ fmtCharsP e true
  | .bin o l r p, extra =>
    (if p || extra then ['('] else []) ++ fmtCharsP l (needsParens l o false) ++ ' ' :: opChars o ++
      ' ' :: fmtCharsP r (needsParens r o true) ++ (if p || extra then [')'] else [])
  | .call f args, _ => f.toList ++ '(' :: fmtArgChars args ++ [')']
def fmtArgChars : List Expr → List Char
  | [] => []
  | [a] => fmtCharsP a false
  | a :: rest => fmtCharsP a false ++ ',' :: ' ' :: fmtArgChars rest
end

mutual
/-- every number in the tree has a form the model prints (base 8 / 10, no negative octal) -/
def covered : Expr → Bool
  | .lit a => atomCovered a
  | .id _ => true
  | .un _ e => covered e
  | .bin _ l r _ => covered l && covered r
  | .call _ args => coveredAll args
def coveredAll : List Expr → Bool
  | [] => true
  | a :: rest => covered a && coveredAll rest
end

def fmtChars (e : Expr) : List Char := fmtCharsP e false

/-- Node.Format → text -/
def fmtStr (e : Expr) : Res String :=
  if covered e then .ok (String.ofList (fmtChars e)) else .na "number-form"

mutual
/-- Node.Format → decoded tokens (the structure of the printed text) -/
def fmtToksP : Expr → Bool → List Tok
  | .lit a, _ => [.lit a]
  | .id s, _ => [.id s]
  | .un .neg e, _ => .op .TokenMinus :: fmtToksP e true
  | .un .not e, _ => .not :: fmtToksP e true
  | .bin o l r p, extra =>
    (if p || extra then [.lp] else []) ++ fmtToksP l (needsParens l o false) ++ [.op o] ++
      fmtToksP r (needsParens r o true) ++ (if p || extra then [.rp] else [])
  | .call f args, _ => .id f :: .lp :: fmtArgToks args ++ [.rp]
def fmtArgToks : List Expr → List Tok
  | [] => []
  | [a] => fmtToksP a false
  | a :: rest => fmtToksP a false ++ .comma :: fmtArgToks rest
end

def fmtToks (e : Expr) : List Tok := fmtToksP e false

mutual
/-- Node.Format before 50a1b8a: parentheses only where the Parens flag says so -/
def fmtToksOld : Expr → List Tok
  | .lit a => [.lit a]
  | .id s => [.id s]
  | .un .neg e => .op .TokenMinus :: fmtToksOld e
  | .un .not e => .not :: fmtToksOld e
  | .bin o l r p =>
    (if p then [.lp] else []) ++ fmtToksOld l ++ [.op o] ++ fmtToksOld r ++ (if p then [.rp] else [])
  | .call f args => .id f :: .lp :: fmtArgToksOld args ++ [.rp]
def fmtArgToksOld : List Expr → List Tok
  | [] => []
  | [a] => fmtToksOld a
  | a :: rest => fmtToksOld a ++ .comma :: fmtArgToksOld rest
end

/-! ## JSON (MarshalJSON / unmarshal): what survives a round trip -/

/-- float64(v) then int64(...) as `JSONNode.Int64` did before 1dcce27 after encoding/json decoded the number
into an `interface{}`: round to 53 significant bits, ties to even. -/
def roundF64 (v : Int) : Int :=
  let a := v.natAbs
  if a < 9007199254740992 then v else
  let bits := Nat.log2 a + 1
  let sh := bits - 53
  let q := a >>> sh
  let rem := a - (q <<< sh)
  let half := 1 <<< (sh - 1)
  let q' := if rem > half || (rem = half && q % 2 = 1) then q + 1 else q
  let r : Int := ((q' <<< sh : Nat) : Int)
  if v < 0 then -r else r

def jsonAtom : Atom → Res Atom
  | .num (.int b v) =>
    if b = 0 then .err  -- "integer base cannot be zero"
    else .ok (.num (.int b v))      -- numbers are decoded as json.Number (repair 1dcce27): exact
  | .num (.flt c) => .ok (.num (.flt c))
  | .dur ns _ => .ok (.dur ns "")
  | .bool b => .ok (.bool b)
  | .str l _ => .ok (.str l false)
  | .rx re _ => .ok (.rx re "")
  | .ref s => .ok (.ref s)
  | .star => .ok .star

/-- what JSONNode.Int64 did to an integer before 1dcce27 (encoding/json decoded numbers into float64) -/
def jsonIntOld (v : Int) : Int :=
  if roundF64 v ≥ 9223372036854775808 then -9223372036854775808 else roundF64 v

mutual
/-- json.Unmarshal(json.Marshal(node)) -/
def jsonRT : Expr → Res Expr
  | .lit a => (jsonAtom a).bind (fun a' => .ok (.lit a'))
  | .id s => .ok (.id s)
  | .un op e => (jsonRT e).bind (fun e' => .ok (.un op e'))
  | .bin o l r _ => (jsonRT l).bind (fun l' => (jsonRT r).bind (fun r' => .ok (.bin o l' r' false)))
  | .call f args => (jsonRTs args).bind (fun as => .ok (.call f as))
def jsonRTs : List Expr → Res (List Expr)
  | [] => .ok []
  | a :: rest => (jsonRT a).bind (fun a' => (jsonRTs rest).bind (fun r' => .ok (a' :: r')))
end

/-! ## Rendering of trees as prefix token lists (the wire format of the harness) -/

def escTok (s : String) : String :=
  if s.isEmpty then "%" else
  s.toUTF8.toList.foldl (fun acc b =>
    let c := Char.ofNat b.toNat
    if ('a' ≤ c ∧ c ≤ 'z') ∨ ('A' ≤ c ∧ c ≤ 'Z') ∨ ('0' ≤ c ∧ c ≤ '9') ∨
       c = '_' ∨ c = '.' ∨ c = ':' ∨ c = '/' ∨ c = '+' ∨ c = '-' then acc.push c
    else
      let h (n : Nat) : Char := if n < 10 then Char.ofNat ('0'.toNat + n) else Char.ofNat ('A'.toNat + (n - 10))
      (acc.push '%').push (h (b.toNat / 16)) |>.push (h (b.toNat % 16))) ""

def dumpAtom : Atom → List String
  | .num (.int b v) => ["num", "i", toString b, toString v]
  | .num (.flt c) => ["num", "f", c]
  | .dur ns l => ["dur", toString ns, escTok l]
  | .bool b => ["bool", if b then "1" else "0"]
  | .str l t => ["str", if t then "1" else "0", escTok l]
  | .rx re l => ["rx", escTok re, escTok l]
  | .ref s => ["ref", escTok s]
  | .star => ["star"]

mutual
def dump : Expr → List String
  | .lit a => dumpAtom a
  | .id s => ["id", escTok s]
  | .un op e => "un" :: escTok op.str :: dump e
  | .bin o l r p => "bin" :: escTok (opStr o) :: (if p then "1" else "0") :: (dump l ++ dump r)
  | .call f args => "call" :: escTok f :: toString args.length :: dumps args
def dumps : List Expr → List String
  | [] => []
  | a :: rest => dump a ++ dumps rest
end

end Kap.C13
