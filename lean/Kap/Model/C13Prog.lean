/-
Model for property C13, statement level (tick/ast/parser.go: program, statement, declaration, dbrp, expression,
chain, funcOrIdent, function, parameters, stringList, stringItem, lambda; node.go: Format of ProgramNode,
DeclarationNode, TypeDeclarationNode, DBRPNode, ChainNode, FunctionNode, LambdaNode, ListNode) on a
LAYOUT-INDEPENDENT token view: comments are dropped by the lexer (the parser attaches them to nodes and
`Equal` ignores them), white space / indentation / MultiLine are not tokens.

Covered: `var x = <expr | lambda | list | chain>`, `var x <type>`, `dbrp "db"."rp"`, chains
`head|node(args).prop(args).flag@udf(args)` with head an identifier or a call, arguments that are expressions
(the whole lambda sub-language), lambdas, lists of identifiers / strings / star.
Not covered (the model answers `na`): a chain as an argument (`a|join(b|where(..))`), a global function whose
arguments are lambdas / lists.
-/
import Kap.Model.C13

namespace Kap.C13
open Kap.C13.Gen

inductive Item where
  | id (s : String)
  | str (lit : String) (triple : Bool)
  | star
  deriving DecidableEq, Repr, Inhabited

/-- what `expression()` returns inside an argument list -/
inductive Arg where
  | expr (e : Expr)
  | lambda (e : Expr)
  | list (items : List Item)
  deriving Repr, Inhabited

inductive LinkOp where
  | pipe | dot | at
  deriving DecidableEq, Repr, Inhabited

def LinkOp.sym : LinkOp → Sym
  | .pipe => .pipe
  | .dot => .dot
  | .at => .at

def linkOpOf : Sym → Option LinkOp
  | .pipe => some .pipe
  | .dot => some .dot
  | .at => some .at
  | _ => none

/-- one step of a chain: `|name(args)`, `.name(args)`, `.name`, `@name(args)`, `@name` -/
structure Link where
  op : LinkOp
  name : String
  args : Option (List Arg)      -- none: an identifier (no parentheses)
  deriving Repr, Inhabited

/-- what `expression()` returns at statement level -/
inductive Rhs where
  | arg (a : Arg)
  | chain (head : Expr) (links : List Link)     -- head: identifier or call; links non-empty
  deriving Repr, Inhabited

inductive Stmt where
  | decl (name : String) (rhs : Rhs)
  | typeDecl (name type : String)
  | dbrp (db rp : String)
  | expr (rhs : Rhs)
  deriving Repr, Inhabited

abbrev Program := List Stmt

/-! ## Parser -/

def isLinkTok : List Tok → Bool
  | .sym .pipe :: _ => true
  | .sym .dot :: _ => true
  | .sym .at :: _ => true
  | _ => false

def startsCall : List Tok → Bool
  | .id _ :: .lp :: _ => true
  | _ => false

def isCallExpr : Expr → Bool
  | .call _ _ => true
  | _ => false

/-- stringList() after `[` -/
def parseItems : Nat → List Tok → Res (List Item × List Tok)
  | 0, _ => .na "fuel"
  | f + 1, ts =>
    match ts with
    | .sym .rsb :: _ => .ok ([], ts)
    | _ =>
      let item : Res (Item × List Tok) :=
        match ts with
        | .id s :: r => .ok (.id s, r)
        | .lit (.str l t) :: r => .ok (.str l t, r)
        | .lit .star :: r => .ok (.star, r)
        | _ => .err
      item.bind (fun x =>
        match x.2 with
        | .comma :: r => (parseItems f r).bind (fun y => .ok (x.1 :: y.1, y.2))
        | r => .ok ([x.1], r))

def startsLambda : List Tok → Bool
  | .sym .lambda :: _ => true
  | _ => false

def startsLsb : List Tok → Bool
  | .sym .lsb :: _ => true
  | _ => false

def startsLp : List Tok → Bool
  | .lp :: _ => true
  | _ => false

/-- identifier directly followed by `|` `.` `@` -/
def startsIdLink : List Tok → Bool
  | .id _ :: r => isLinkTok r
  | _ => false

/-- expression() inside an argument list -/
def parseArg (f : Nat) (ts : List Tok) : Res (Arg × List Tok) :=
  if startsLambda ts then (primaryExpr f (ts.drop 1)).bind (fun x => .ok (.lambda x.1, x.2))
  else if startsLsb ts then
    (parseItems f (ts.drop 1)).bind (fun x =>
      match x.2 with
      | .sym .rsb :: r' => .ok (.list x.1, r')
      | _ => .err)
  else if startsIdLink ts then .na "chain-argument"
  else
    match primaryExpr f ts with
    | .ok (e, r) => if isCallExpr e && isLinkTok r then .na "chain-argument" else .ok (.expr e, r)
    | .err => if startsCall ts then .na "global-function-arguments" else .err
    | .na w => .na w

/-- parameters(): stops at ')', otherwise expression() and an optional ',' -/
def parseArgs : Nat → List Tok → Res (List Arg × List Tok)
  | 0, _ => .na "fuel"
  | f + 1, ts =>
    if startsRp ts then .ok ([], ts) else
    (parseArg f ts).bind (fun x =>
      match x.2 with
      | .comma :: r => (parseArgs f r).bind (fun y => .ok (x.1 :: y.1, y.2))
      | r => .ok ([x.1], r))

/-- chain(): `|` always takes a function, `.` and `@` a function when `(` follows the name -/
def parseLinks : Nat → List Tok → Res (List Link × List Tok)
  | 0, _ => .na "fuel"
  | f + 1, ts =>
    match ts with
    | .sym s :: r =>
      match linkOpOf s with
      | none => .ok ([], ts)
      | some op =>
        match r with
        | .id n :: r2 =>
          if startsLp r2 then
            (parseArgs f (r2.drop 1)).bind (fun x =>
              match x.2 with
              | .rp :: r' => (parseLinks f r').bind (fun y => .ok ({ op := op, name := n, args := some x.1 } :: y.1, y.2))
              | _ => .err)
          else if op = .pipe then .err     -- function(): expect '('
          else (parseLinks f r2).bind (fun y => .ok ({ op := op, name := n, args := none } :: y.1, y.2))
        | _ => .err        -- expect identifier
    | _ => .ok ([], ts)

/-- expression() at statement level -/
def parseRhs (f : Nat) (ts : List Tok) : Res (Rhs × List Tok) :=
  if startsIdLink ts then
    match ts with
    | .id s :: r => (parseLinks f r).bind (fun y => .ok (.chain (.id s) y.1, y.2))
    | _ => .err
  else if startsCall ts then
    -- function(GlobalFunc), then a chain or precedence(term, 0)
    match primary f ts with
    | .ok (h, r) =>
      if isLinkTok r then (parseLinks f r).bind (fun y => .ok (.chain h y.1, y.2))
      else (outer f h 0 r).bind (fun y => .ok (.arg (.expr y.1), y.2))
    | .err => .na "global-function-arguments"
    | .na w => .na w
  else (parseArg f ts).bind (fun y => .ok (.arg y.1, y.2))

def startsVar : List Tok → Bool
  | .sym .var :: _ => true
  | _ => false

def startsDbrp : List Tok → Bool
  | .sym .dbrp :: _ => true
  | _ => false

def parseStmt (f : Nat) (ts : List Tok) : Res (Stmt × List Tok) :=
  if startsVar ts then
    match ts with
    | .sym .var :: .id x :: .sym .asgn :: r => (parseRhs f r).bind (fun y => .ok (.decl x y.1, y.2))
    | .sym .var :: .id x :: .id t :: r => .ok (.typeDecl x t, r)
    | _ => .err
  else if startsDbrp ts then
    match ts with
    | .sym .dbrp :: .lit (.ref a) :: .sym .dot :: .lit (.ref b) :: r => .ok (.dbrp a b, r)
    | _ => .err
  else (parseRhs f ts).bind (fun y => .ok (.expr y.1, y.2))

/-- program() -/
def parseStmts : Nat → List Tok → Res Program
  | 0, _ => .na "fuel"
  | f + 1, ts =>
    if ts.isEmpty then .ok [] else
    (parseStmt f ts).bind (fun x => (parseStmts f x.2).bind (fun y => .ok (x.1 :: y)))

def parseProgramToks (ts : List Tok) : Res Program := parseStmts (2 * ts.length + 6) ts

/-- ast.Parse -/
def parseProgram (src : String) : Res Program :=
  (lex src.toList).bind (fun rts => (decodeAll rts).bind parseProgramToks)

/-! ## Format, as tokens -/

def fmtItem : Item → Tok
  | .id s => .id s
  | .str l t => .lit (.str l t)
  | .star => .lit .star

def fmtItems : List Item → List Tok
  | [] => []
  | [a] => [fmtItem a]
  | a :: rest => fmtItem a :: .comma :: fmtItems rest

def fmtArg : Arg → List Tok
  | .expr e => fmtToks e
  | .lambda e => .sym .lambda :: fmtToks e
  | .list items => .sym .lsb :: fmtItems items ++ [.sym .rsb]

def fmtArgList : List Arg → List Tok
  | [] => []
  | [a] => fmtArg a
  | a :: rest => fmtArg a ++ .comma :: fmtArgList rest

def fmtLink (l : Link) : List Tok :=
  .sym l.op.sym :: .id l.name ::
    (match l.args with
     | none => []
     | some as => .lp :: fmtArgList as ++ [.rp])

def fmtLinks : List Link → List Tok
  | [] => []
  | l :: rest => fmtLink l ++ fmtLinks rest

def fmtRhs : Rhs → List Tok
  | .arg a => fmtArg a
  | .chain h links => fmtToks h ++ fmtLinks links

def fmtStmt : Stmt → List Tok
  | .decl x rhs => .sym .var :: .id x :: .sym .asgn :: fmtRhs rhs
  | .typeDecl x t => [.sym .var, .id x, .id t]
  | .dbrp a b => [.sym .dbrp, .lit (.ref a), .sym .dot, .lit (.ref b)]
  | .expr rhs => fmtRhs rhs

def fmtProgram : Program → List Tok
  | [] => []
  | s :: rest => fmtStmt s ++ fmtProgram rest

/-! ## Dumps (wire format of the harness) -/

def dumpItem : Item → List String
  | .id s => ["id", escTok s]
  | .str l t => ["str", if t then "1" else "0", escTok l]
  | .star => ["star"]

def dumpArg : Arg → List String
  | .expr e => dump e
  | .lambda e => "lambda" :: dump e
  | .list items => "list" :: toString items.length :: (items.map dumpItem).flatten

def dumpLinkRhs (l : Link) : List String :=
  match l.args with
  | none => ["id", escTok l.name]
  | some as =>
    "func" :: (match l.op with | .pipe => "chain" | .dot => "property" | .at => "dynamic") :: escTok l.name ::
      toString as.length :: (as.map dumpArg).flatten

def linkOpStr : LinkOp → String
  | .pipe => "|"
  | .dot => "."
  | .at => "@"

/-- ChainNodes nest to the left -/
def dumpChain (head : List String) : List Link → List String
  | [] => head
  | l :: rest => dumpChain ("chain" :: escTok (linkOpStr l.op) :: (head ++ dumpLinkRhs l)) rest

def dumpRhs : Rhs → List String
  | .arg a => dumpArg a
  | .chain h links => dumpChain (dump h) links

def dumpStmt : Stmt → List String
  | .decl x rhs => "decl" :: "id" :: escTok x :: dumpRhs rhs
  | .typeDecl x t => ["typedecl", "id", escTok x, "id", escTok t]
  | .dbrp a b => ["dbrp", "ref", escTok a, "ref", escTok b]
  | .expr rhs => dumpRhs rhs

def dumpProgram (p : Program) : List String :=
  "program" :: toString p.length :: (p.map dumpStmt).flatten

end Kap.C13
