/-
Model for property C13, pipeline → TICKscript VALUES (pipeline/tick/function.go: Function.Pipe / PipeZeroValueOK /
At / Dot / DotZeroValueOK / DotRemoveZeroValue / DotIf / DotNotNil / DotNotEmpty, Func / FuncWithZero /
FuncRemoveZero, IsZero, Literal; tick/ast/types.go: TypeOf, ZeroValue, ValueToLiteralNode; the helpers args / largs of
function.go and dimensions of query.go) and an interpreter for the builder language (Kap/Model/C13TickLang.lean)
into which extract/c13tick translates every `Build` method on every run.

`renderNode body param node parents` = the chain links (`|window()` `.period(10s)` `.align()` …) pipeline/tick emits
for a pipeline node whose exported fields are `node` – with the elision of zero values exactly as Func does it.
`none` = not covered: the body ran into an `unknown` statement / expression, a value has no literal, or a property
was chained to a nil function. The harness dumps the fields of every node of the real pipeline by reflection; the
driver compares the rendered links token by token with the text the real pipeline/tick printed.

Abstracted: positions; the error value (an error = `none`); Parents[0] (the chain the links are appended to).
-/
import Kap.Model.C13Prog
import Kap.Model.C13TickLang

namespace Kap.C13.Tick
open Kap.C13

/-- a Go value found in a pipeline node (dumped by reflection) -/
inductive Val where
  | str (s : String)
  | int (v : Int)                 -- int64
  | flt (c : String)              -- float64 in its canonical `'f', -1` text (with ".0")
  | bool (b : Bool)
  | dur (ns : Int)                -- time.Duration
  | lambda (e : Expr)             -- *ast.LambdaNode, not nil
  | lamNil                        -- (*ast.LambdaNode)(nil)
  | star                          -- *ast.StarNode, not nil
  | starNil
  | node (e : Expr)               -- any other ast.Node: passed through Literal unchanged
  | ilist (vs : List Val)         -- []interface{}
  | slice (vs : List Val)         -- any other slice ([]string, []*ast.LambdaNode, handlers …)
  | map (fs : List Val)           -- entries `kv`, sorted by key
  | struct (fs : List Val)        -- exported fields `kv` (embedded structs flattened)
  | kv (k : String) (v : Val)
  | nil                           -- nil pointer / nil interface
  | other                         -- anything else (int, regexp, func …): TypeOf = InvalidType, no literal
  deriving Inhabited

/-- IsZero: `arg == ast.ZeroValue(ast.TypeOf(arg))`, lists by length -/
def isZero : Val → Bool
  | .str s => s.isEmpty
  | .int v => v == 0
  | .flt c => c == "0.0" || c == "-0.0"
  | .bool b => !b
  | .dur ns => ns == 0
  | .lamNil => true
  | .starNil => true
  | .ilist vs => vs.isEmpty
  | _ => false

/-- an element of a []interface{} as a list item (ValueToLiteralNode inside a ListNode) -/
def itemOf : Val → Option Item
  | .str s => some (.str s false)
  | .star => some .star
  | .starNil => some .star
  | _ => none

/-- Literal: ValueToLiteralNode for the supported types, an ast.Node as it is, an error otherwise -/
def literal : Val → Option Arg
  | .str s => some (.expr (.lit (.str s false)))
  | .int v => some (.expr (.lit (.num (.int 10 v))))
  | .flt c => some (.expr (.lit (.num (.flt c))))
  | .bool b => some (.expr (.lit (.bool b)))
  | .dur ns => some (.expr (.lit (.dur ns "")))
  | .lambda e => some (.lambda e)
  | .star => some (.expr (.lit .star))
  | .starNil => some (.expr (.lit .star))
  | .node e => some (.expr e)
  | .ilist vs => (vs.mapM itemOf).map .list
  | _ => none          -- lamNil: a LambdaNode without expression cannot be printed; everything else: unsupported literal type

inductive FuncMode where
  | skipZero      -- Func: zero values dropped, no function at all when nothing is left
  | keepZero      -- FuncWithZero
  | removeZero    -- FuncRemoveZero: zero values dropped, the function stays
  deriving DecidableEq, Repr

/-- Func / FuncWithZero / FuncRemoveZero. Outer `none`: error; inner `none`: the nil node (nothing to emit) -/
def funcNode (m : FuncMode) (vals : List Val) : Option (Option (List Arg)) :=
  if vals.isEmpty then some (some []) else
  match m with
  | .keepZero => (vals.mapM literal).map some
  | .removeZero => ((vals.filter (fun v => !isZero v)).mapM literal).map some
  | .skipZero => ((vals.filter (fun v => !isZero v)).mapM literal).map (fun as => if as.isEmpty then none else some as)

def mkLink (op : LinkOp) (name : String) (as : List Arg) : Link := { op := op, name := name, args := some as }

/-- one builder call on the chain built so far (`links` = the links of THIS node; empty = `f.prev == nil`) -/
def applyCall (method name : String) (vals : List Val) (links : List Link) : Option (List Link) :=
  let emit (op : LinkOp) (r : Option (Option (List Arg))) : Option (List Link) :=
    match r with
    | none => none
    | some none => some links
    | some (some as) => some (links ++ [mkLink op name as])
  let dot (r : Option (Option (List Arg))) : Option (List Link) :=
    if links.isEmpty then none else emit .dot r      -- Dot(f.prev = nil, fn): a chain without a left side
  match method with
  | "Pipe" => if links.isEmpty then emit .pipe (funcNode .skipZero vals) else none
  | "PipeZeroValueOK" => if links.isEmpty then emit .pipe (funcNode .keepZero vals) else none
  | "At" => if links.isEmpty then emit .at (funcNode .skipZero vals) else none
  | "Dot" => dot (funcNode .skipZero vals)
  | "DotZeroValueOK" => dot (funcNode .keepZero vals)
  | "DotRemoveZeroValue" => dot (funcNode .removeZero vals)
  | "DotIf" =>
    match vals with
    | [.bool true] => dot (some (some []))
    | [.bool false] => some links
    | _ => none
  | "DotNotNil" =>
    match vals with
    | [.nil] => some links
    | [v] => dot (funcNode .keepZero [v])
    | _ => none
  | "DotNotEmpty" => if vals.isEmpty then some links else dot (funcNode .skipZero vals)
  | _ => none

/-! ## the interpreter of the builder language -/

abbrev Env := List (String × Val)

def fieldOf (fs : List Val) (k : String) : Option Val :=
  fs.findSome? (fun f => match f with
    | .kv k' v => if k' == k then some v else none
    | _ => none)

def elemsOf : Val → Option (List Val)
  | .ilist vs => some vs
  | .slice vs => some vs
  | .nil => some []
  | _ => none

/-- pipeline.TimeDimension{Length, Offset} (after the repair of pipeline/tick/query.go) -/
def timeDim : Val → Option Expr
  | .struct [.kv "Length" (.dur l), .kv "Offset" (.dur o)] =>
    some (.call "time" (.lit (.dur l "") :: (if o == 0 then [] else [.lit (.dur o "")])))
  | _ => none

/-- dimensions() of pipeline/tick/query.go: one list, unless a time(…) dimension is present -/
def dimensions (dims : List Val) : List Val :=
  if dims.any (fun d => (timeDim d).isSome) then
    dims.map (fun d => match timeDim d with | some e => .node e | none => d)
  else [.ilist dims]

def evalExpr (env : Env) (parentsTail : List Val) : BExpr → Option Val
  | .var x => env.lookup x
  | .sel e f =>
    match evalExpr env parentsTail e with
    | some (.struct fs) => fieldOf fs f
    | _ => none
  | .index e k =>
    match evalExpr env parentsTail e, evalExpr env parentsTail k with
    | some (.map fs), some (.str key) => fieldOf fs key
    | _, _ => none
  | .helper fn e =>
    match evalExpr env parentsTail e with
    | some v =>
      (elemsOf v).bind (fun vs =>
        if fn == "args" || fn == "largs" then some (.ilist vs)
        else if fn == "dimensions" then some (.ilist (dimensions vs))
        else none)
    | none => none
  | .parentsTail => some (.ilist parentsTail)
  | .octal e =>
    match evalExpr env parentsTail e with
    | some (.int v) => some (.node (.lit (.num (.int 8 v))))
    | _ => none
  | .unknown _ => none

def evalArgs (env : Env) (pt : List Val) : List (BExpr × Bool) → Option (List Val)
  | [] => some []
  | (e, spread) :: rest =>
    match evalExpr env pt e, evalArgs env pt rest with
    | some v, some vs => if spread then (elemsOf v).map (· ++ vs) else some (v :: vs)
    | _, _ => none

def lenOf : Val → Option Nat
  | .str s => some s.length
  | .ilist vs => some vs.length
  | .slice vs => some vs.length
  | .map fs => some fs.length
  | .nil => some 0
  | _ => none

def evalCond (env : Env) (pt : List Val) : BCond → Option Bool
  | .flag e => match evalExpr env pt e with | some (.bool b) => some b | _ => none
  | .lenPos e => ((evalExpr env pt e).bind lenOf).map (fun n => decide (n > 0))
  | .isZero e =>
    match evalExpr env pt e with
    | some (.int v) => some (v == 0) | some (.dur v) => some (v == 0) | some (.str s) => some s.isEmpty
    | _ => none
  | .nonZero e =>
    match evalExpr env pt e with
    | some (.int v) => some (v != 0) | some (.dur v) => some (v != 0) | some (.str s) => some (!s.isEmpty)
    | _ => none
  | .unknown => none

structure RSt where
  env : Env
  links : List Link

def keysOf : List Val → List Val
  | [] => []
  | .kv k _ :: rest => .str k :: keysOf rest
  | _ :: rest => keysOf rest

mutual
def execStmt : Nat → List Val → RSt → BStmt → Option RSt
  | 0, _, _, _ => none
  | f + 1, pt, st, s =>
    match s with
    | .call m name args =>
      (evalArgs st.env pt args).bind (fun vals => (applyCall m name vals st.links).map (fun ls => { st with links := ls }))
    | .forEach v over body =>
      ((evalExpr st.env pt over).bind elemsOf).bind (fun vs => execEach f pt st v vs body)
    | .sortedKeys v m =>
      match evalExpr st.env pt m with
      | some (.map fs) => some { st with env := (v, .ilist (keysOf fs)) :: st.env }     -- the harness dumps maps sorted by key
      | some .nil => some { st with env := (v, .ilist []) :: st.env }
      | _ => none
    | .collect v over =>
      ((evalExpr st.env pt over).bind elemsOf).map (fun vs => { st with env := (v, .ilist vs) :: st.env })
    | .bind v e => (evalExpr st.env pt e).map (fun x => { st with env := (v, x) :: st.env })
    | .ifElse c thn els =>
      (evalCond st.env pt c).bind (fun b => execBlock f pt st (if b then thn else els))
    | .unknown _ => none
def execBlock : Nat → List Val → RSt → List BStmt → Option RSt
  | 0, _, _, _ => none
  | _ + 1, _, st, [] => some st
  | f + 1, pt, st, s :: rest => (execStmt f pt st s).bind (fun st' => execBlock f pt st' rest)
def execEach : Nat → List Val → RSt → String → List Val → List BStmt → Option RSt
  | 0, _, _, _, _, _ => none
  | _ + 1, _, st, _, [], _ => some st
  | f + 1, pt, st, v, x :: xs, body =>
    (execBlock f pt { st with env := (v, x) :: st.env } body).bind (fun st' =>
      execEach f pt { st' with env := st.env } v xs body)
end

/-- the links pipeline/tick emits for one pipeline node -/
def renderNode (body : List BStmt) (param : String) (node : Val) (parentsTail : List Val) : Option (List Link) :=
  (execBlock 4096 parentsTail { env := [(param, node)], links := [] } body).map (·.links)

/-! ## static fail-closed check: nothing `unknown` in a body -/

def exprKnown : BExpr → Bool
  | .var _ => true
  | .sel e _ => exprKnown e
  | .index e k => exprKnown e && exprKnown k
  | .helper fn e => (fn == "args" || fn == "largs" || fn == "dimensions") && exprKnown e
  | .parentsTail => true
  | .octal e => exprKnown e
  | .unknown _ => false

def condKnown : BCond → Bool
  | .flag e => exprKnown e
  | .lenPos e => exprKnown e
  | .isZero e => exprKnown e
  | .nonZero e => exprKnown e
  | .unknown => false

def methodKnown (m : String) : Bool :=
  ["Pipe", "PipeZeroValueOK", "At", "Dot", "DotZeroValueOK", "DotRemoveZeroValue", "DotIf", "DotNotNil", "DotNotEmpty"].contains m

mutual
def stmtKnown : Nat → BStmt → Bool
  | 0, _ => false
  | f + 1, s =>
    match s with
    | .call m _ args => methodKnown m && args.all (fun a => exprKnown a.1)
    | .forEach _ over body => exprKnown over && stmtsKnown f body
    | .sortedKeys _ m => exprKnown m
    | .collect _ over => exprKnown over
    | .bind _ e => exprKnown e
    | .ifElse c thn els => condKnown c && stmtsKnown f thn && stmtsKnown f els
    | .unknown _ => false
def stmtsKnown : Nat → List BStmt → Bool
  | 0, _ => false
  | _ + 1, [] => true
  | f + 1, s :: rest => stmtKnown f s && stmtsKnown f rest
end

/-! ## reading a rendered argument back as a value (what evaluating the script does with a literal argument) -/

def itemVal : Item → Option Val
  | .str l _ => some (.str l)
  | .star => some .star
  | .id _ => none

/-- the value a literal argument denotes: spelling (quotes, number base, duration unit) is free, a negative number is
unary minus applied to a literal; anything else stays a node -/
def evalArg : Arg → Option Val
  | .expr (.lit (.str l _)) => some (.str l)
  | .expr (.lit (.num (.int _ v))) => some (.int v)
  | .expr (.lit (.num (.flt c))) => some (.flt c)
  | .expr (.un .neg (.lit (.num (.int _ v)))) => some (.int (-v))
  | .expr (.un .neg (.lit (.num (.flt c)))) => some (.flt ("-" ++ c))
  | .expr (.lit (.dur ns _)) => some (.dur ns)
  | .expr (.un .neg (.lit (.dur ns _))) => some (.dur (-ns))
  | .expr (.lit (.bool b)) => some (.bool b)
  | .expr (.lit .star) => some .star
  | .expr e => some (.node e)
  | .lambda e => some (.lambda e)
  | .list items => (items.mapM itemVal).map .ilist

end Kap.C13.Tick
