/-
C13, pipeline → TICKscript (pipeline/tick): the little language the bodies of the `Build` methods are translated
into by extract/c13tick (go/ast, on every run). Types only – the generated table Kap/Gen/C13Tick.lean imports this
file, the semantics is in Kap/Model/C13Tick.lean.

A `Build` method is a sequence of builder calls on the function builder (`n.Pipe("window").Dot("period", w.Period)…`)
inside a little control flow: loops over the handler / field / tag slices of the node, the sorted-keys idiom for
maps, conditions on flags and lengths. Everything the extractor does not recognise is `unknown` (fail closed: the
interpreter refuses to run it).
-/
namespace Kap.C13.Tick

/-- an argument expression of a builder call -/
inductive BExpr where
  | var (name : String)                  -- the Build parameter, a loop variable, a bound local
  | sel (e : BExpr) (field : String)     -- e.Field
  | index (e k : BExpr)                  -- e[k] (maps)
  | helper (fn : String) (e : BExpr)     -- args(e) | largs(e) | dimensions(e)
  | parentsTail                          -- n.Parents[1:]
  | octal (e : BExpr)                    -- &ast.NumberNode{IsInt: true, Int64: e, Base: 8}
  | unknown (what : String)
  deriving Repr, Inhabited

inductive BCond where
  | flag (e : BExpr)                     -- if e
  | lenPos (e : BExpr)                   -- if len(e) > 0 / len(e) != 0
  | isZero (e : BExpr)                   -- if e == 0 / e == ""
  | nonZero (e : BExpr)                  -- if e != 0 / e != ""
  | unknown
  deriving Repr, Inhabited

inductive BStmt where
  | call (method name : String) (args : List (BExpr × Bool))    -- Bool: the argument is spread (`x...`)
  | forEach (v : String) (over : BExpr) (body : List BStmt)      -- for _, v := range over { body }
  | sortedKeys (v : String) (of : BExpr)                         -- v := the keys of the map, sort.Strings(v)
  | collect (v : String) (over : BExpr)                          -- v := the elements of over as []interface{}
  | bind (v : String) (e : BExpr)                                -- v := e
  | ifElse (c : BCond) (thn els : List BStmt)
  | unknown (what : String)
  deriving Inhabited

end Kap.C13.Tick
