/-
C14 — executable model of the task catalogue and its running state.

Transcribed from services/task_store/service.go (snapshot ef0888e + the `fix:` commits listed in findings/C14.txt):
  Open (start every enabled task), handleCreateTask, handleUpdateTask (incl. ID change = Create(new) + Delete(old) +
  stop/start), deleteTask, handleCreateTemplate, handleUpdateTemplate, handleDeleteTemplate,
  updateAllAssociatedTasks with its deferred rollback loop, startTask (incl. the two saveLastError transactions),
  stopTask; services/task_store/dao.go (one storage Update transaction per DAO call; template Delete removes the
  template's associations); task_master.go StartTask / StopTask / DeleteTask / IsExecuting (the `tasks` map).

Every handler is the SEQUENCE of storage transactions and TaskMaster calls of the Go code, in the code's order.
`World.tx` counts Update transactions (compared with the real count on every request) and records the store as it
was after the `cut`-th transaction of the request: that is the Bolt file a restart "from the storage file at a
transaction boundary" finds.

Oracle inputs (not modelled, supplied per case / per request and tied by the correspondence run):
  * per script: does it parse, does the program name a task type, the dbrps it declares, does it build as a
    template, with which vars does it build as a task (`Env`);
  * per request: the set of task IDs whose start is refused by TaskMaster.StartTask (`fail`).
Records are stored under their ID (the key); the redundant ID field of the Go structs is not repeated in the
record (ObjectID() = key by construction in dao.go). Each handler is split into named sub-steps (resolve script /
validate / store the definition / move the association / restart / apply the status change) in the code's order, so
that every sub-step has its own lemma in Kap/Proofs/C14*.lean.
Task type: the stored `Type` of a task / template is not a separate field of the model's records, it is DERIVED from
the stored script (`taskIsBatch`): handleCreateTask / handleUpdateTask / handleCreateTemplate overwrite it with
taskTypeFromProgram(script) before they validate and store; handleUpdateTemplate keeps the stored Type and validates
the new script against it (templateTask(updated): a script of the other type does not build => 400, modelled in
`updateTemplate`), and updateAllAssociatedTasks copies the template's Type. So "stored Type = type of the stored
script" is an invariant of the code; the correspondence checks it on every listing (type column of tasks AND templates).
Batch tasks: startTask calls et.StartBatching() after TaskMaster.StartTask succeeded; it fails (checkDBRPs) when a
query of the script reads a db.rp that is not among the task's dbrps (`batchable`); the task is then stopped again
(`start-batching-refused`: in TaskMaster.tasks for a moment, two saveLastError transactions, 500).
Abstracted: the Error / Created / Modified / LastEnabled fields,
snapshots (their transactions are counted, their content is not modelled), ID syntax check (IDs are well formed),
storage faults (a transaction commits; crash points are modelled instead; Kap/Model/C14Fault.lean adds them).
A task that dies at run time is the pseudo-request `Op.die` (`dieTask`).
Core Lean only.
-/
namespace Kap.C14

inductive Resp where
  | ok | bad | nf | fail
deriving DecidableEq, Repr, Inhabited

def Resp.str : Resp → String
  | .ok => "ok" | .bad => "bad" | .nf => "nf" | .fail => "fail"

/-- A stored task (task_store.Task) without its key. `tmpl = ""` means no template, `vars = "v0"` no vars. -/
structure Task where
  script : String
  vars : String
  tmpl : String
  dbrps : List String
  enabled : Bool
deriving DecidableEq, Repr, Inhabited

/-- Oracle attributes of one script. -/
structure ScriptInfo where
  parse : Bool            -- newProgramNodeFromTickscript succeeds
  typed : Bool            -- taskTypeFromProgram names a task type
  pdbrps : List String    -- dbrpsFromProgram
  tmplOk : Bool           -- TaskMaster.NewTemplate builds it (with the script's own type)
  valid : String → Bool   -- TaskMaster.NewTask builds it with these vars (with the script's own type)
  batch : Bool := false           -- taskTypeFromProgram = batch (meaningful when `typed`)
  qdbrps : List String := []      -- BatchNode.DBRPs(): the db.rp the batch queries of the script read

abbrev Env := String → ScriptInfo

/-- The task_store namespace of the Bolt file: tasks by ID, template scripts by ID, association keys.
`tids` / `mids` enumerate the IDs under which a key was ever written, in key order (what a prefix scan of the
index returns); the data is in the maps. -/
structure Store where
  tasks : String → Option Task := fun _ => none
  tmpls : String → Option String := fun _ => none
  assoc : String → String → Bool := fun _ _ => false   -- assoc templateId taskId
  tids : List String := []
  mids : List String := []

def insId (id : String) : List String → List String
  | [] => [id]
  | x :: xs => if id == x then x :: xs else if id < x then id :: x :: xs else x :: insId id xs

/-- The running request/process: storage, TaskMaster.tasks (`exec`), and instrumentation. -/
structure World where
  store : Store := {}
  exec : String → Bool := fun _ => false
  ntx : Nat := 0                 -- storage Update transactions of the current request
  cut : Option Nat := none       -- crash point (number of transactions after which the file is copied)
  snap : Option Store := none    -- the file at the crash point
  br : List String := []         -- model branches taken (coverage only)

def World.note (w : World) (b : String) : World :=
  if w.br.contains b then w else { w with br := b :: w.br }

/-- One storage Update transaction. -/
def World.tx (w : World) (f : Store → Store) : World :=
  { w with store := f w.store, ntx := w.ntx + 1,
           snap := if w.cut = some (w.ntx + 1) then some (f w.store) else w.snap }

/-! ### DAO calls (dao.go) -/

def Store.putTask (s : Store) (id : String) (t : Task) : Store :=
  { s with tasks := fun i => if i = id then some t else s.tasks i, tids := insId id s.tids }

def Store.delTask (s : Store) (id : String) : Store :=
  { s with tasks := fun i => if i = id then none else s.tasks i }

def Store.putTmpl (s : Store) (id script : String) : Store :=
  { s with tmpls := fun i => if i = id then some script else s.tmpls i, mids := insId id s.mids }

/-- templateKV.Delete: data, index and ALL associations of the template. -/
def Store.delTmpl (s : Store) (id : String) : Store :=
  { s with tmpls := fun i => if i = id then none else s.tmpls i,
           assoc := fun m k => if m = id then false else s.assoc m k }

def Store.setAssoc (s : Store) (m k : String) (b : Bool) : Store :=
  { s with assoc := fun m' k' => if m' = m ∧ k' = k then b else s.assoc m' k',
           tids := if b then insId k s.tids else s.tids }

/-- tasks.Create: fails (transaction without effect) when the ID exists. -/
def tasksCreate (w : World) (id : String) (t : Task) : World × Bool :=
  if (w.store.tasks id).isSome then (w.tx (fun s => s), false) else (w.tx (·.putTask id t), true)

/-- tasks.Replace: fails when the ID does not exist. -/
def tasksReplace (w : World) (id : String) (t : Task) : World × Bool :=
  if (w.store.tasks id).isSome then (w.tx (·.putTask id t), true) else (w.tx (fun s => s), false)

def tasksDelete (w : World) (id : String) : World := w.tx (·.delTask id)

def tmplCreate (w : World) (id script : String) : World × Bool :=
  if (w.store.tmpls id).isSome then (w.tx (fun s => s), false) else (w.tx (·.putTmpl id script), true)

def tmplReplace (w : World) (id script : String) : World × Bool :=
  if (w.store.tmpls id).isSome then (w.tx (·.putTmpl id script), true) else (w.tx (fun s => s), false)

def tmplDelete (w : World) (id : String) : World := w.tx (·.delTmpl id)
def associate (w : World) (m k : String) : World := w.tx (·.setAssoc m k true)
def disassociate (w : World) (m k : String) : World := w.tx (·.setAssoc m k false)

/-- templates.ListAssociatedTasks: prefix scan in key order. -/
def listAssoc (s : Store) (m : String) : List String := s.tids.filter (s.assoc m)

/-- saveLastError: Get, then Replace (one transaction; the Error field is not modelled). -/
def saveLastError (w : World) (id : String) : World :=
  if (w.store.tasks id).isSome then w.tx (fun s => s) else w

/-! ### TaskMaster -/

def World.setExec (w : World) (id : String) (b : Bool) : World :=
  { w with exec := fun i => if i = id then b else w.exec i }

/-- stopTask / TaskMaster.StopTask / DeleteTask. -/
def stopTask (w : World) (id : String) : World := w.setExec id false

/-- newKapacitorTask succeeds. -/
def buildable (env : Env) (t : Task) : Bool := (env t.script).valid t.vars

/-- TaskMaster.StartTask succeeds (given that the task builds): it has dbrps and the oracle does not refuse it. -/
def startable (fail : List String) (id : String) (t : Task) : Bool := !t.dbrps.isEmpty && !fail.contains id

/-- The stored Type of a task (derived, see the header). -/
def taskIsBatch (env : Env) (t : Task) : Bool := (env t.script).batch

/-- ExecutingTask.StartBatching succeeds: not a batch task (not called), or checkDBRPs passes — every db.rp a query of
the script reads is among the task's dbrps. -/
def batchable (env : Env) (t : Task) : Bool :=
  !taskIsBatch env t || (env t.script).qdbrps.all (fun q => t.dbrps.contains q)

/-- The oracle outcome of a start attempt of task `id` = `t` during a request with refusals `fail`:
the task builds, TaskMaster.StartTask accepts it AND (batch tasks) StartBatching succeeds. -/
def startOK (env : Env) (fail : List String) (id : String) (t : Task) : Bool :=
  buildable env t && startable fail id t && batchable env t

/-- The third outcome of a start attempt: TaskMaster.StartTask succeeded, StartBatching was refused. -/
def batchRefused (env : Env) (fail : List String) (id : String) (t : Task) : Bool :=
  buildable env t && startable fail id t && !batchable env t

/-- startTask: three-way outcome — ok / start refused (unbuildable or TaskMaster.StartTask) / batching refused. -/
def startTask (env : Env) (fail : List String) (w : World) (id : String) (t : Task) : World × Bool :=
  if !buildable env t then (w.note "start-unbuildable", false)
  else if !startable fail id t then
    ((saveLastError (saveLastError w id) id).note "start-refused", false)   -- clear the error, record the new one
  else if !batchable env t then
    -- StartTask succeeded (the task is in TaskMaster.tasks), StartBatching failed: record the error, stop it again
    (((saveLastError ((saveLastError w id).setExec id true) id).setExec id false).note "start-batching-refused", false)
  else (((saveLastError w id).setExec id true).note
          (if taskIsBatch env t then "start-ok-batch" else "start-ok"), true)   -- "Starting task, remove last error"

/-! ### Requests -/

structure TaskReq where
  newId : String := ""      -- update only ("" = keep)
  tmpl : String := ""
  script : String := ""
  dbrps : List String := []
  status : Option Bool := none
  vars : String := "v0"
deriving DecidableEq, Repr, Inhabited

inductive Op where
  | create (id : String) (r : TaskReq)
  | update (id : String) (r : TaskReq)
  | delete (id : String)
  | tcreate (id : String) (script : String)
  | tupdate (id : String) (newId : String) (script : String)
  | tdelete (id : String)
  | restart
  | die (id : String)     -- not a request: the executing task `id` dies at run time (a node fails)
deriving DecidableEq, Repr, Inhabited

/-- Which revision of the two handlers is modelled.
`assocEarly`: the template association is written while the template is resolved, BEFORE the request is validated
(snapshot ef0888e); otherwise it is written right after the task itself was stored.
`reassocById`: handleUpdateTask moves the association only when the task ID changes (snapshot ef0888e compares
`original.TemplateID != updated.TemplateID` before `updated.TemplateID` is assigned, which is always false);
otherwise also when the template changes. -/
structure Variant where
  assocEarly : Bool
  reassocById : Bool
deriving DecidableEq, Repr

def Variant.snapshot : Variant := ⟨true, true⟩
def Variant.fixed : Variant := ⟨false, false⟩

/-! ### handleCreateTask -/

/-- Template: copy its script; plain: the script must be given. (script, templated?) -/
def createScript (s : Store) (r : TaskReq) : Option (String × Bool) :=
  if r.tmpl ≠ "" then (s.tmpls r.tmpl).map (fun sc => (sc, true))
  else if r.script = "" then none else some (r.script, false)

/-- The validation chain of handleCreateTask after the script is known: the record to store, or the branch that
rejects the request (400). -/
def createValidate (env : Env) (r : TaskReq) (script : String) : Except String Task :=
  if !(env script).parse then .error "create-parse"
  else if !(env script).typed then .error "create-untyped"
  else if !buildable env { script := script, vars := r.vars, tmpl := r.tmpl, dbrps := r.dbrps, enabled := r.status = some true }
    then .error "create-invalid"
  else if (env script).pdbrps.isEmpty && r.dbrps.isEmpty then .error "create-no-dbrp"
  else if !(env script).pdbrps.isEmpty && !r.dbrps.isEmpty then .error "create-both-dbrp"
  else .ok { script := script, vars := r.vars, tmpl := r.tmpl,
             dbrps := if (env script).pdbrps.isEmpty then r.dbrps else (env script).pdbrps,
             enabled := r.status = some true }

/-- Save the task, associate it with its template, start it when enabled. -/
def createCommit (v : Variant) (env : Env) (fail : List String) (w : World) (id : String) (t : Task) (templated : Bool) :
    World × Resp :=
  let c := tasksCreate w id t
  if !c.2 then (c.1, .fail)
  else
    let w1 := if templated && !v.assocEarly then associate c.1 t.tmpl id else c.1
    let w2 := if templated then w1.note "create-templated" else w1
    if t.enabled then
      let s := startTask env fail w2 id t
      if s.2 then (s.1.note "create-enabled", .ok) else (s.1.note "create-start-failed", .fail)
    else (w2.note "create-disabled", .ok)

def createTask (v : Variant) (env : Env) (fail : List String) (w : World) (id : String) (r : TaskReq) : World × Resp :=
  if (w.store.tasks id).isSome then (w.note "create-exists", .bad)
  else
    match createScript w.store r with
    | none => (w.note "create-no-script-or-template", .bad)
    | some (script, templated) =>
      let w1 := if templated && v.assocEarly then associate w r.tmpl id else w
      match createValidate env r script with
      | .error b => (w1.note b, .bad)
      | .ok t => createCommit v env fail w1 id t templated

/-! ### handleUpdateTask -/

/-- Resolve script and template of the updated task: (script, template id). -/
def updateScript (env : Env) (s : Store) (orig : Task) (r : TaskReq) : Option (String × String) :=
  if r.tmpl ≠ "" ∨ orig.tmpl ≠ "" then
    (s.tmpls (if r.tmpl = "" then orig.tmpl else r.tmpl)).map (fun sc => (sc, if r.tmpl = "" then orig.tmpl else r.tmpl))
  else if !(env orig.script).parse then none
  else if r.script ≠ "" then
    if !(env r.script).parse then none
    else if !(env orig.script).pdbrps.isEmpty && (env r.script).pdbrps.isEmpty && r.dbrps.isEmpty then none
    else some (r.script, "")
  else some (orig.script, "")

/-- Does the template association have to move? -/
def needsReassoc (v : Variant) (id newId : String) (orig : Task) (m : String) : Bool :=
  decide (m ≠ "") && (if v.reassocById then decide (id ≠ newId) else decide (id ≠ newId ∨ orig.tmpl ≠ m))

/-- The updated record: only the given fields change. -/
def updateRecord (env : Env) (orig : Task) (r : TaskReq) (script m : String) : Task :=
  { script := script, vars := if r.vars ≠ "v0" then r.vars else orig.vars, tmpl := m,
    dbrps := if !(env script).pdbrps.isEmpty then (env script).pdbrps else if !r.dbrps.isEmpty then r.dbrps else orig.dbrps,
    enabled := match r.status with | some b => b | none => orig.enabled }

/-- The validation chain of handleUpdateTask after script and template are known. -/
def updateValidate (env : Env) (orig : Task) (r : TaskReq) (script m : String) : Except String Task :=
  if !(env script).parse then .error "update-parse"
  else if !(env script).pdbrps.isEmpty && !r.dbrps.isEmpty then .error "update-both-dbrp"
  else if !(env script).typed then .error "update-untyped"
  else if !buildable env (updateRecord env orig r script m) then .error "update-invalid"
  else .ok (updateRecord env orig r script m)

/-- The association bookkeeping of handleUpdateTask. -/
def reassociate (w : World) (id : String) (orig : Task) (m newId : String) : World :=
  (associate (if orig.tmpl ≠ "" then disassociate w orig.tmpl id else w) m newId).note "update-reassociate"

/-- Store the definition: ID change = Create(new) + Delete(old), else Replace. -/
def storeDefinition (w : World) (id newId : String) (upd : Task) : World × Bool :=
  if id ≠ newId then
    if (tasksCreate w newId upd).2 then ((tasksDelete (tasksCreate w newId upd).1 id).note "rename", true)
    else ((tasksCreate w newId upd).1.note "rename-onto-existing", false)
  else tasksReplace w id upd

/-- Renamed while enabled: stop the old, start the new. -/
def restartRenamed (env : Env) (fail : List String) (w : World) (id newId : String) (orig upd : Task) : World × Bool :=
  if id ≠ newId ∧ orig.enabled = true ∧ upd.enabled = true then
    ((startTask env fail (stopTask w id) newId upd).1.note
        (if (startTask env fail (stopTask w id) newId upd).2 then "rename-enabled" else "rename-start-failed"),
      (startTask env fail (stopTask w id) newId upd).2)
  else (w, true)

/-- Enable / disable. -/
def applyStatus (env : Env) (fail : List String) (w : World) (id newId : String) (orig upd : Task) : World × Resp :=
  if orig.enabled != upd.enabled then
    if upd.enabled then
      if (startTask env fail w newId upd).2 then ((startTask env fail w newId upd).1.note "update-enable", .ok)
      else ((startTask env fail w newId upd).1.note "update-enable-start-failed", .fail)
    else ((stopTask w id).note "update-disable", .ok)
  else (w.note (if orig.enabled then "update-stays-enabled" else "update-stays-disabled"), .ok)

def updateCommit (v : Variant) (env : Env) (fail : List String) (w : World) (id newId : String) (orig upd : Task)
    (reassoc : Bool) : World × Resp :=
  if !(storeDefinition w id newId upd).2 then ((storeDefinition w id newId upd).1, .fail)
  else
    let w1 := if reassoc && !v.assocEarly then reassociate (storeDefinition w id newId upd).1 id orig upd.tmpl newId
              else (storeDefinition w id newId upd).1
    if !(restartRenamed env fail w1 id newId orig upd).2 then ((restartRenamed env fail w1 id newId orig upd).1, .fail)
    else applyStatus env fail (restartRenamed env fail w1 id newId orig upd).1 id newId orig upd

def updateTask (v : Variant) (env : Env) (fail : List String) (w : World) (id : String) (r : TaskReq) : World × Resp :=
  match w.store.tasks id with
  | none => (w.note "update-missing", .nf)
  | some orig =>
    match updateScript env w.store orig r with
    | none => (w.note "update-bad-script-or-template", .bad)
    | some (script, m) =>
      let newId := if r.newId ≠ "" then r.newId else id
      let reassoc := needsReassoc v id newId orig m
      let w1 := if reassoc && v.assocEarly then reassociate w id orig m newId else w
      match updateValidate env orig r script m with
      | .error b => (w1.note b, .bad)
      | .ok upd => updateCommit v env fail w1 id newId orig upd reassoc

/-! ### deleteTask -/

def deleteTask (w : World) (id : String) : World × Resp :=
  match (w.tx (fun s => s)).store.tasks id with           -- snapshots.Delete, then tasks.Get
  | none => ((w.tx (fun s => s)).note "delete-missing", .ok)
  | some t =>
    (tasksDelete
      (if t.enabled then
         (stopTask (if t.tmpl ≠ "" then (disassociate (w.tx (fun s => s)) t.tmpl id).note "delete-templated" else w.tx (fun s => s)) id).note "delete-enabled"
       else (if t.tmpl ≠ "" then (disassociate (w.tx (fun s => s)) t.tmpl id).note "delete-templated" else w.tx (fun s => s)).note "delete-disabled")
      id, .ok)

/-! ### templates -/

/-- handleCreateTemplate. -/
def createTemplate (env : Env) (w : World) (id script : String) : World × Resp :=
  if (w.store.tmpls id).isSome then (w.note "tcreate-exists", .bad)
  else if !(env script).parse || !(env script).typed || script = "" || !(env script).tmplOk then (w.note "tcreate-invalid", .bad)
  else ((tmplCreate w id script).1.note "tcreate", if (tmplCreate w id script).2 then .ok else .fail)

/-- The re-synchronised task of updateAllAssociatedTasks (forward direction). -/
def retarget (env : Env) (oldScript newId newScript : String) (t : Task) : Task :=
  { t with tmpl := newId, script := newScript,
           dbrps := if !(env oldScript).pdbrps.isEmpty || !(env newScript).pdbrps.isEmpty
                    then (env newScript).pdbrps else t.dbrps }

/-- … and of its rollback loop. -/
def untarget (env : Env) (oldId oldScript : String) (t : Task) : Task :=
  { t with tmpl := oldId, script := oldScript,
           dbrps := if !(env oldScript).pdbrps.isEmpty then (env oldScript).pdbrps else t.dbrps }

/-- Replace one task and, when it is enabled, stop and start it. -/
def reloadTask (env : Env) (fail : List String) (w : World) (k : String) (t : Task) : World × Bool :=
  if t.enabled then startTask env fail (stopTask (tasksReplace w k t).1 k) k t
  else ((tasksReplace w k t).1, true)

/-- One iteration of the rollback loop. -/
def rollbackOne (env : Env) (fail : List String) (oldId oldScript : String) (w : World) (k : String) : World :=
  match w.store.tasks k with
  | none => w.note "rollback-missing"
  | some t =>
    (reloadTask env fail w k (untarget env oldId oldScript t)).1.note
      (if t.enabled then "rollback-restart" else "rollback-disabled")

/-- The deferred rollback of updateAllAssociatedTasks over taskIds[0..i]. -/
def rollback (env : Env) (fail : List String) (oldId oldScript : String) : World → List String → World
  | w, [] => w
  | w, k :: rest => rollback env fail oldId oldScript (rollbackOne env fail oldId oldScript w k) rest

/-- One iteration of the forward loop: (world, did the reload succeed). -/
def retargetOne (env : Env) (fail : List String) (oldId oldScript newId newScript : String) (w : World) (k : String) :
    World × Bool :=
  match w.store.tasks k with
  | none => ((disassociate w oldId k).note "tupdate-stale-association", true)
  | some t =>
    ((reloadTask env fail (if oldId ≠ newId then associate w newId k else w) k (retarget env oldScript newId newScript t)).1.note
        (if t.enabled then "tupdate-restart" else "tupdate-disabled-task"),
      (reloadTask env fail (if oldId ≠ newId then associate w newId k else w) k (retarget env oldScript newId newScript t)).2)

/-- The forward loop of updateAllAssociatedTasks; `done` = taskIds[0..i). -/
def updateAll (env : Env) (fail : List String) (oldId oldScript newId newScript : String) :
    World → List String → List String → World × Bool
  | w, _, [] => (w, true)
  | w, done, k :: rest =>
    if (retargetOne env fail oldId oldScript newId newScript w k).2 then
      updateAll env fail oldId oldScript newId newScript (retargetOne env fail oldId oldScript newId newScript w k).1 (done ++ [k]) rest
    else
      (rollback env fail oldId oldScript ((retargetOne env fail oldId oldScript newId newScript w k).1.note "tupdate-rollback") (done ++ [k]), false)

/-- Save the updated template: ID change = Create(new) + Delete(old) (which drops the old associations), else Replace. -/
def storeTemplate (w : World) (id newId script : String) : World × Bool :=
  if id ≠ newId then
    if (tmplCreate w newId script).2 then ((tmplDelete (tmplCreate w newId script).1 id).note "trename", true)
    else ((tmplCreate w newId script).1.note "trename-onto-existing", false)
  else tmplReplace w id script

/-- templateTask(updated) in handleUpdateTemplate: the new script must build as a template of the STORED type (the
type of the stored script `os`): it builds with its own type and that type is the stored one. -/
def tmplAccepts (env : Env) (os ns : String) : Bool := (env ns).tmplOk && ((env ns).batch == (env os).batch)

/-- handleUpdateTemplate. -/
def updateTemplate (env : Env) (fail : List String) (w : World) (id newId script : String) : World × Resp :=
  match w.store.tmpls id with
  | none => (w.note "tupdate-missing", .nf)
  | some os =>
    -- templateTask(updated) with the STORED type: a script that does not build, or one of the other type
    if !tmplAccepts env os (if script ≠ "" then script else os) then (w.note "tupdate-invalid", .bad)
    else if !(storeTemplate w id (if newId ≠ "" then newId else id) (if script ≠ "" then script else os)).2 then
      ((storeTemplate w id (if newId ≠ "" then newId else id) (if script ≠ "" then script else os)).1, .fail)
    -- the two parses at the top of updateAllAssociatedTasks (an error runs the deferred rollback with i = 0)
    else if !(env os).parse || !(env (if script ≠ "" then script else os)).parse then
      ((rollback env fail id os (storeTemplate w id (if newId ≠ "" then newId else id) (if script ≠ "" then script else os)).1
          ((listAssoc w.store id).take 1)).note "tupdate-unparsable", .fail)
    else
      ((updateAll env fail id os (if newId ≠ "" then newId else id) (if script ≠ "" then script else os)
          (storeTemplate w id (if newId ≠ "" then newId else id) (if script ≠ "" then script else os)).1 [] (listAssoc w.store id)).1.note
          (if (listAssoc w.store id).isEmpty then "tupdate-no-tasks" else "tupdate-tasks"),
        if (updateAll env fail id os (if newId ≠ "" then newId else id) (if script ≠ "" then script else os)
          (storeTemplate w id (if newId ≠ "" then newId else id) (if script ≠ "" then script else os)).1 [] (listAssoc w.store id)).2
        then .ok else .fail)

/-- handleDeleteTemplate. -/
def deleteTemplate (w : World) (id : String) : World × Resp := ((tmplDelete w id).note "tdelete", .ok)

/-! ### run-time death -/

/-- A task that dies on its own: the goroutine startTask left behind sees `et.Wait()` return an error, stops the task
(TaskMaster.StopTask removes it from `tasks`) and records the error (saveLastError: one transaction when the task is
stored). The stored definition — its status included — is untouched. Nothing happens for a task that does not execute. -/
def dieTask (w : World) (id : String) : World × Resp :=
  if w.exec id then ((saveLastError (stopTask w id) id).note "die", .ok) else (w.note "die-not-executing", .ok)

/-! ### process start -/

/-- Service.Open on a fresh TaskMaster: start every task stored as enabled (failures are only logged). -/
def openAll (env : Env) (fail : List String) : World → List String → World
  | w, [] => w
  | w, k :: rest =>
    match w.store.tasks k with
    | some t => if t.enabled then openAll env fail (startTask env fail w k t).1 rest else openAll env fail w rest
    | none => openAll env fail w rest

/-- Process start on a given file: empty TaskMaster, then Open. -/
def boot (env : Env) (fail : List String) (s : Store) (br : List String) : World :=
  openAll env fail { store := s, br := br } s.tids

def beginReq (w : World) (cut : Option Nat) : World :=
  { w with ntx := 0, cut := cut, snap := if cut = some 0 then some w.store else none }

/-- One request (without crash). -/
def handle (v : Variant) (env : Env) (fail : List String) (w : World) : Op → World × Resp
  | .create id r => createTask v env fail w id r
  | .update id r => updateTask v env fail w id r
  | .delete id => deleteTask w id
  | .tcreate id s => createTemplate env w id s
  | .tupdate id n s => updateTemplate env fail w id n s
  | .tdelete id => deleteTemplate w id
  | .restart => ((boot env fail w.store w.br).note "restart", .ok)
  | .die id => dieTask w id

/-- The file a crash at the crash point of the request leaves. -/
def crashFile (w : World) : Store := match w.snap with | some s => s | none => w.store

/-- One step of a history: the request, then — when a crash point `cut` is given — a restart of the process on
the file as it was after `cut` transactions of the request (after all of them when the request had fewer). -/
def step (v : Variant) (env : Env) (fail : List String) (cut : Option Nat) (w : World) (op : Op) : World × Resp :=
  match cut with
  | none => handle v env fail (beginReq w cut) op
  | some _ =>
    ({ boot env fail (crashFile (handle v env fail (beginReq w cut) op).1)
              ((handle v env fail (beginReq w cut) op).1.note "crash-restart").br
         with ntx := (handle v env fail (beginReq w cut) op).1.ntx },
     (handle v env fail (beginReq w cut) op).2)

end Kap.C14
