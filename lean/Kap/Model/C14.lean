/-
C14 — executable model of the task catalogue and its running state.

Transcribed from services/task_store/service.go (snapshot ef0888e + the `fix:` commits listed in findings/C14.txt):
  Open (start every enabled task), handleCreateTask, handleUpdateTask (incl. ID change = Create(new) + Delete(old) +
  stop/start), deleteTask, handleCreateTemplate, handleUpdateTemplate, handleDeleteTemplate,
  updateAllAssociatedTasks with its deferred rollback loop, startTask (incl. the two saveLastError transactions),
  stopTask; services/task_store/dao.go (one storage Update transaction per DAO call; template Delete removes the
  template's associations); task_master.go StartTask / StopTask / DeleteTask / IsExecuting (the `tasks` map).

Every handler is the SEQUENCE of storage transactions and TaskMaster calls of the Go code, in the code's order.
`World.tx` counts Update transactions (compared with the real count on every request) and records the store as it
was after the `cut`-th transaction of the request: that is the Bolt file a restart "from the storage file at a
transaction boundary" finds.

Oracle inputs (not modelled, supplied per case / per request and tied by the correspondence run):
  * per script: does it parse, does the program name a task type, the dbrps it declares, does it build as a
    template, with which vars does it build as a task (`Env`);
  * per request: the set of task IDs whose start is refused by TaskMaster.StartTask (`fail`).
Abstracted: task type (all pool scripts are stream tasks), the Error / Created / Modified / LastEnabled fields,
snapshots (their transactions are counted, their content is not modelled), ID syntax check (IDs are well formed),
storage faults (a transaction commits; crash points are modelled instead), tasks that die at run time.
Core Lean only.
-/
namespace Kap.C14

inductive Resp where
  | ok | bad | nf | fail
deriving DecidableEq, Repr, Inhabited

def Resp.str : Resp → String
  | .ok => "ok" | .bad => "bad" | .nf => "nf" | .fail => "fail"

/-- A stored task (task_store.Task). `tmpl = ""` means no template, `vars = "v0"` no vars. -/
structure Task where
  id : String
  script : String
  vars : String
  tmpl : String
  dbrps : List String
  enabled : Bool
deriving DecidableEq, Repr, Inhabited

structure Tmpl where
  id : String
  script : String
deriving DecidableEq, Repr, Inhabited

/-- Oracle attributes of one script. -/
structure ScriptInfo where
  parse : Bool            -- newProgramNodeFromTickscript succeeds
  typed : Bool            -- taskTypeFromProgram names a task type
  pdbrps : List String    -- dbrpsFromProgram
  tmplOk : Bool           -- TaskMaster.NewTemplate builds it
  valid : String → Bool   -- TaskMaster.NewTask builds it with these vars

abbrev Env := String → ScriptInfo

/-- The task_store namespace of the Bolt file. `tids` / `mids` enumerate the IDs under which a key was ever
written, in key order (what a prefix scan of the index returns); the data is in the maps. -/
structure Store where
  tasks : String → Option Task := fun _ => none
  tmpls : String → Option Tmpl := fun _ => none
  assoc : String → String → Bool := fun _ _ => false   -- assoc templateId taskId
  tids : List String := []
  mids : List String := []

def insId (id : String) : List String → List String
  | [] => [id]
  | x :: xs => if id == x then x :: xs else if id < x then id :: x :: xs else x :: insId id xs

/-- The running request/process: storage, TaskMaster.tasks (`exec`), and instrumentation. -/
structure World where
  store : Store := {}
  exec : String → Bool := fun _ => false
  ntx : Nat := 0                 -- storage Update transactions of the current request
  cut : Option Nat := none       -- crash point (number of transactions after which the file is copied)
  snap : Option Store := none    -- the file at the crash point
  br : List String := []         -- model branches taken (coverage only)

def World.note (w : World) (b : String) : World :=
  if w.br.contains b then w else { w with br := b :: w.br }

/-- One storage Update transaction. -/
def World.tx (w : World) (f : Store → Store) : World :=
  let s := f w.store
  { w with store := s, ntx := w.ntx + 1, snap := if w.cut = some (w.ntx + 1) then some s else w.snap }

/-! ### DAO calls (dao.go) -/

def Store.putTask (s : Store) (t : Task) : Store :=
  { s with tasks := fun i => if i = t.id then some t else s.tasks i, tids := insId t.id s.tids }

def Store.delTask (s : Store) (id : String) : Store :=
  { s with tasks := fun i => if i = id then none else s.tasks i }

def Store.putTmpl (s : Store) (t : Tmpl) : Store :=
  { s with tmpls := fun i => if i = t.id then some t else s.tmpls i, mids := insId t.id s.mids }

/-- templateKV.Delete: data, index and ALL associations of the template. -/
def Store.delTmpl (s : Store) (id : String) : Store :=
  { s with tmpls := fun i => if i = id then none else s.tmpls i,
           assoc := fun m k => if m = id then false else s.assoc m k }

def Store.setAssoc (s : Store) (m k : String) (b : Bool) : Store :=
  { s with assoc := fun m' k' => if m' = m ∧ k' = k then b else s.assoc m' k',
           tids := if b then insId k s.tids else s.tids }

/-- tasks.Create: fails (transaction without effect) when the ID exists. -/
def tasksCreate (w : World) (t : Task) : World × Bool :=
  match w.store.tasks t.id with
  | some _ => (w.tx (fun s => s), false)
  | none => (w.tx (·.putTask t), true)

/-- tasks.Replace: fails when the ID does not exist. -/
def tasksReplace (w : World) (t : Task) : World × Bool :=
  match w.store.tasks t.id with
  | some _ => (w.tx (·.putTask t), true)
  | none => (w.tx (fun s => s), false)

def tasksDelete (w : World) (id : String) : World := w.tx (·.delTask id)

def tmplCreate (w : World) (t : Tmpl) : World × Bool :=
  match w.store.tmpls t.id with
  | some _ => (w.tx (fun s => s), false)
  | none => (w.tx (·.putTmpl t), true)

def tmplReplace (w : World) (t : Tmpl) : World × Bool :=
  match w.store.tmpls t.id with
  | some _ => (w.tx (·.putTmpl t), true)
  | none => (w.tx (fun s => s), false)

def tmplDelete (w : World) (id : String) : World := w.tx (·.delTmpl id)
def associate (w : World) (m k : String) : World := w.tx (·.setAssoc m k true)
def disassociate (w : World) (m k : String) : World := w.tx (·.setAssoc m k false)

/-- templates.ListAssociatedTasks: prefix scan in key order. -/
def listAssoc (s : Store) (m : String) : List String := s.tids.filter (s.assoc m)

/-- saveLastError: Get, then Replace (one transaction; the Error field is not modelled). -/
def saveLastError (w : World) (id : String) : World :=
  match w.store.tasks id with
  | some _ => w.tx (fun s => s)
  | none => w

/-! ### TaskMaster -/

def World.setExec (w : World) (id : String) (b : Bool) : World :=
  { w with exec := fun i => if i = id then b else w.exec i }

/-- stopTask / TaskMaster.StopTask / DeleteTask. -/
def stopTask (w : World) (id : String) : World := w.setExec id false

/-- newKapacitorTask succeeds. -/
def buildable (env : Env) (t : Task) : Bool := (env t.script).valid t.vars

/-- TaskMaster.StartTask succeeds (given that the task builds): it has dbrps and the oracle does not refuse it. -/
def startable (fail : List String) (t : Task) : Bool := !t.dbrps.isEmpty && !fail.contains t.id

/-- The oracle outcome of a start attempt of `t` during a request with refusals `fail`. -/
def startOK (env : Env) (fail : List String) (t : Task) : Bool := buildable env t && startable fail t

/-- startTask. -/
def startTask (env : Env) (fail : List String) (w : World) (t : Task) : World × Bool :=
  if !buildable env t then (w.note "start-unbuildable", false)
  else
    let w := saveLastError w t.id           -- "Starting task, remove last error"
    if !startable fail t then ((saveLastError w t.id).note "start-refused", false)
    else ((w.setExec t.id true).note "start-ok", true)

/-! ### Requests -/

structure TaskReq where
  newId : String := ""      -- update only ("" = keep)
  tmpl : String := ""
  script : String := ""
  dbrps : List String := []
  status : Option Bool := none
  vars : String := "v0"
deriving DecidableEq, Repr, Inhabited

inductive Op where
  | create (id : String) (r : TaskReq)
  | update (id : String) (r : TaskReq)
  | delete (id : String)
  | tcreate (id : String) (script : String)
  | tupdate (id : String) (newId : String) (script : String)
  | tdelete (id : String)
  | restart
deriving DecidableEq, Repr, Inhabited

/-- Which revision of the two handlers is modelled.
`assocEarly`: the template association is written while the template is resolved, BEFORE the request is validated
(snapshot ef0888e); otherwise it is written right after the task itself was stored.
`reassocById`: handleUpdateTask moves the association only when the task ID changes (snapshot ef0888e compares
`original.TemplateID != updated.TemplateID` before `updated.TemplateID` is assigned, which is always false);
otherwise also when the template changes. -/
structure Variant where
  assocEarly : Bool
  reassocById : Bool
deriving DecidableEq, Repr

def Variant.snapshot : Variant := ⟨true, true⟩
def Variant.fixed : Variant := ⟨false, false⟩

/-- handleCreateTask. -/
def createTask (v : Variant) (env : Env) (fail : List String) (w : World) (id : String) (r : TaskReq) : World × Resp :=
  match w.store.tasks id with
  | some _ => (w.note "create-exists", .bad)
  | none =>
    -- template: copy the script; plain: the script must be given
    let pre : Option (String × Bool) :=
      if r.tmpl ≠ "" then
        match w.store.tmpls r.tmpl with
        | none => none
        | some m => some (m.script, true)
      else if r.script = "" then none else some (r.script, false)
    match pre with
    | none => (w.note "create-no-script-or-template", .bad)
    | some (script, templated) =>
      let w := if templated && v.assocEarly then associate w r.tmpl id else w
      let info := env script
      if !info.parse then (w.note "create-parse", .bad)
      else if !info.typed then (w.note "create-untyped", .bad)
      else
        let t0 : Task := { id := id, script := script, vars := r.vars, tmpl := r.tmpl, dbrps := r.dbrps,
                           enabled := r.status = some true }
        if !buildable env t0 then (w.note "create-invalid", .bad)
        else if info.pdbrps.isEmpty && r.dbrps.isEmpty then (w.note "create-no-dbrp", .bad)
        else if !info.pdbrps.isEmpty && !r.dbrps.isEmpty then (w.note "create-both-dbrp", .bad)
        else
          let t : Task := if info.pdbrps.isEmpty then t0 else { t0 with dbrps := info.pdbrps }
          let (w, ok) := tasksCreate w t
          if !ok then (w, .fail)
          else
            let w := if templated && !v.assocEarly then associate w r.tmpl id else w
            let w := if templated then w.note "create-templated" else w
            if t.enabled then
              let (w, ok) := startTask env fail w t
              if ok then (w.note "create-enabled", .ok) else (w.note "create-start-failed", .fail)
            else (w.note "create-disabled", .ok)

/-- The association bookkeeping of handleUpdateTask. -/
def reassociate (w : World) (orig : Task) (m newId : String) : World :=
  let w := if orig.tmpl ≠ "" then disassociate w orig.tmpl orig.id else w
  (associate w m newId).note "update-reassociate"

/-- handleUpdateTask. -/
def updateTask (v : Variant) (env : Env) (fail : List String) (w : World) (id : String) (r : TaskReq) : World × Resp :=
  match w.store.tasks id with
  | none => (w.note "update-missing", .nf)
  | some orig =>
    let newId := if r.newId ≠ "" then r.newId else orig.id
    -- resolve script / template
    let pre : Option (String × String × Bool) :=      -- (script, template id, move the association?)
      if r.tmpl ≠ "" ∨ orig.tmpl ≠ "" then
        let m := if r.tmpl = "" then orig.tmpl else r.tmpl
        match w.store.tmpls m with
        | none => none
        | some mt => some (mt.script, m, if v.reassocById then decide (orig.id ≠ newId)
                                         else decide (orig.id ≠ newId ∨ orig.tmpl ≠ m))
      else
        if !(env orig.script).parse then none
        else if r.script ≠ "" then
          if !(env r.script).parse then none
          else if !(env orig.script).pdbrps.isEmpty && (env r.script).pdbrps.isEmpty && r.dbrps.isEmpty then none
          else some (r.script, "", false)
        else some (orig.script, "", false)
    match pre with
    | none => (w.note "update-bad-script-or-template", .bad)
    | some (script, m, reassoc) =>
      let w := if reassoc && v.assocEarly then reassociate w orig m newId else w
      let info := env script
      if !info.parse then (w.note "update-parse", .bad)
      else if !info.pdbrps.isEmpty && !r.dbrps.isEmpty then (w.note "update-both-dbrp", .bad)
      else
        let dbrps := if !info.pdbrps.isEmpty then info.pdbrps else if !r.dbrps.isEmpty then r.dbrps else orig.dbrps
        let enabled := match r.status with | some b => b | none => orig.enabled
        let statusChanged := orig.enabled != enabled
        let vars := if r.vars ≠ "v0" then r.vars else orig.vars
        let upd : Task := { id := newId, script := script, vars := vars, tmpl := m, dbrps := dbrps, enabled := enabled }
        if !info.typed then (w.note "update-untyped", .bad)
        else if !buildable env upd then (w.note "update-invalid", .bad)
        else
          -- store the definition: ID change = Create(new) + Delete(old), else Replace
          let r1 : World × Bool :=
            if orig.id ≠ newId then
              let (w, ok) := tasksCreate w upd
              if !ok then (w.note "rename-onto-existing", false) else ((tasksDelete w orig.id).note "rename", true)
            else tasksReplace w upd
          if !r1.2 then (r1.1, .fail)
          else
            let w := r1.1
            let w := if reassoc && !v.assocEarly then reassociate w orig m newId else w
            -- both enabled and renamed: stop the old, start the new
            let r2 : World × Bool :=
              if orig.id ≠ newId ∧ orig.enabled ∧ enabled then
                let (w, ok) := startTask env fail (stopTask w orig.id) upd
                (w.note (if ok then "rename-enabled" else "rename-start-failed"), ok)
              else (w, true)
            if !r2.2 then (r2.1, .fail)
            else
              let w := r2.1
              if statusChanged then
                if enabled then
                  let (w, ok) := startTask env fail w upd
                  if ok then (w.note "update-enable", .ok) else (w.note "update-enable-start-failed", .fail)
                else ((stopTask w orig.id).note "update-disable", .ok)
              else (w.note (if orig.enabled then "update-stays-enabled" else "update-stays-disabled"), .ok)

/-- deleteTask. -/
def deleteTask (w : World) (id : String) : World × Resp :=
  let w := w.tx (fun s => s)                       -- snapshots.Delete
  match w.store.tasks id with
  | none => (w.note "delete-missing", .ok)
  | some t =>
    let w := if t.tmpl ≠ "" then (disassociate w t.tmpl t.id).note "delete-templated" else w
    let w := if t.enabled then (stopTask w id).note "delete-enabled" else w.note "delete-disabled"
    (tasksDelete w id, .ok)

/-- handleCreateTemplate. -/
def createTemplate (env : Env) (w : World) (id script : String) : World × Resp :=
  match w.store.tmpls id with
  | some _ => (w.note "tcreate-exists", .bad)
  | none =>
    let info := env script
    if !info.parse || !info.typed || script = "" || !info.tmplOk then (w.note "tcreate-invalid", .bad)
    else
      let (w, ok) := tmplCreate w { id := id, script := script }
      (w.note "tcreate", if ok then .ok else .fail)

/-- The re-synchronised task of updateAllAssociatedTasks (forward direction). -/
def retarget (env : Env) (old new : Tmpl) (t : Task) : Task :=
  { t with tmpl := new.id, script := new.script,
           dbrps := if !(env old.script).pdbrps.isEmpty || !(env new.script).pdbrps.isEmpty
                    then (env new.script).pdbrps else t.dbrps }

/-- … and of its rollback loop. -/
def untarget (env : Env) (old : Tmpl) (t : Task) : Task :=
  { t with tmpl := old.id, script := old.script,
           dbrps := if !(env old.script).pdbrps.isEmpty then (env old.script).pdbrps else t.dbrps }

/-- The deferred rollback of updateAllAssociatedTasks over taskIds[0..i]. -/
def rollback (env : Env) (fail : List String) (old : Tmpl) : World → List String → World
  | w, [] => w
  | w, k :: rest =>
    match w.store.tasks k with
    | none => rollback env fail old (w.note "rollback-missing") rest
    | some t =>
      let t := untarget env old t
      let (w, _) := tasksReplace w t
      let w := if t.enabled then (startTask env fail (stopTask w k) t).1.note "rollback-restart" else w.note "rollback-disabled"
      rollback env fail old w rest

/-- The forward loop of updateAllAssociatedTasks; `done` = taskIds[0..i). -/
def updateAll (env : Env) (fail : List String) (old new : Tmpl) : World → List String → List String → World × Bool
  | w, _, [] => (w, true)
  | w, done, k :: rest =>
    match w.store.tasks k with
    | none => updateAll env fail old new ((disassociate w old.id k).note "tupdate-stale-association") (done ++ [k]) rest
    | some t =>
      let w := if old.id ≠ new.id then associate w new.id k else w
      let t := retarget env old new t
      let (w, _) := tasksReplace w t
      if t.enabled then
        let (w, ok) := startTask env fail (stopTask w k) t
        if ok then updateAll env fail old new (w.note "tupdate-restart") (done ++ [k]) rest
        else (rollback env fail old (w.note "tupdate-rollback") (done ++ [k]), false)
      else updateAll env fail old new (w.note "tupdate-disabled-task") (done ++ [k]) rest

/-- handleUpdateTemplate. -/
def updateTemplate (env : Env) (fail : List String) (w : World) (id newId script : String) : World × Resp :=
  match w.store.tmpls id with
  | none => (w.note "tupdate-missing", .nf)
  | some orig =>
    let upd : Tmpl := { id := if newId ≠ "" then newId else orig.id, script := if script ≠ "" then script else orig.script }
    if !(env upd.script).tmplOk then (w.note "tupdate-invalid", .bad)
    else
      let taskIds := listAssoc w.store orig.id
      let r1 : World × Bool :=
        if orig.id ≠ upd.id then
          let (w, ok) := tmplCreate w upd
          if !ok then (w.note "trename-onto-existing", false) else ((tmplDelete w orig.id).note "trename", true)
        else tmplReplace w upd
      if !r1.2 then (r1.1, .fail)
      else
        let w := r1.1
        -- the two parses at the top of updateAllAssociatedTasks (an error runs the deferred rollback with i = 0)
        if !(env orig.script).parse || !(env upd.script).parse then
          ((if taskIds.isEmpty then w else rollback env fail orig w (taskIds.take 1)).note "tupdate-unparsable", .fail)
        else
          let (w, ok) := updateAll env fail orig upd w [] taskIds
          (w.note (if taskIds.isEmpty then "tupdate-no-tasks" else "tupdate-tasks"), if ok then .ok else .fail)

/-- handleDeleteTemplate. -/
def deleteTemplate (w : World) (id : String) : World × Resp := ((tmplDelete w id).note "tdelete", .ok)

/-- Service.Open on a fresh TaskMaster: start every task stored as enabled (failures are only logged). -/
def openAll (env : Env) (fail : List String) : World → List String → World
  | w, [] => w
  | w, k :: rest =>
    match w.store.tasks k with
    | some t => if t.enabled then openAll env fail (startTask env fail w t).1 rest else openAll env fail w rest
    | none => openAll env fail w rest

/-- Process start on a given file: empty TaskMaster, then Open. -/
def boot (env : Env) (fail : List String) (s : Store) (br : List String) : World :=
  openAll env fail { store := s, br := br } s.tids

def beginReq (w : World) (cut : Option Nat) : World := { w with ntx := 0, cut := cut, snap := if cut = some 0 then some w.store else none }

/-- One request (without crash). -/
def handle (v : Variant) (env : Env) (fail : List String) (w : World) : Op → World × Resp
  | .create id r => createTask v env fail w id r
  | .update id r => updateTask v env fail w id r
  | .delete id => deleteTask w id
  | .tcreate id s => createTemplate env w id s
  | .tupdate id n s => updateTemplate env fail w id n s
  | .tdelete id => deleteTemplate w id
  | .restart => ((boot env fail w.store w.br).note "restart", .ok)

/-- One step of a history: the request, then — when a crash point `cut` is given — a restart of the process on
the file as it was after `cut` transactions of the request (after all of them when the request had fewer). -/
def step (v : Variant) (env : Env) (fail : List String) (cut : Option Nat) (w : World) (op : Op) : World × Resp :=
  let (w', resp) := handle v env fail (beginReq w cut) op
  match cut with
  | none => (w', resp)
  | some _ =>
    let file := match w'.snap with | some s => s | none => w'.store
    let w'' := boot env fail file (w'.note "crash-restart").br
    ({ w'' with ntx := w'.ntx }, resp)

end Kap.C14
