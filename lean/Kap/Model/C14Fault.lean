/-
C14 — storage faults. The fault-free model (Kap/Model/C14.lean) stays as it is; this file adds the SAME handlers for
create / update / delete task and create / delete template with one more oracle input: the index `fault` of the
storage Update transaction of the request that fails (the transaction returns an error and commits nothing).
What each handler does with the error of each DAO call is transcribed from services/task_store/service.go:
  * tasks.Create / tasks.Replace / templates.Create / templates.Delete (handler) / tasks.Delete (deleteTask): 500, return;
  * AssociateTask in create: 500, return (the task is stored, its start is not attempted);
  * DisassociateTask / AssociateTask in update: the error is remembered, the running state is still brought in line
    with the stored definition, then 500;
  * tasks.Delete(old) during an ID change, DisassociateTask in deleteTask, snapshots.Delete, saveLastError: error is
    logged or ignored, the handler goes on.
Template update under faults is not modelled (the harness never injects a fault there).
Core Lean only.
-/
import Kap.Model.C14
namespace Kap.C14

/-- A world with the fault oracle of the current request and the error flag of the last DAO call. -/
structure FW where
  w : World
  fault : Option Nat := none
  err : Bool := false

/-- One storage Update transaction that may be the failing one (counted, nothing committed). -/
def FW.tx (x : FW) (f : Store → Store) : FW :=
  if x.fault = some (x.w.ntx + 1) then { x with w := x.w.tx (fun s => s), err := true }
  else { x with w := x.w.tx f, err := false }

def FW.note (x : FW) (b : String) : FW := { x with w := x.w.note b }
def FW.setExec (x : FW) (id : String) (b : Bool) : FW := { x with w := x.w.setExec id b }

/-- DAO calls: (world, success). A call fails for its own reason (ID exists / missing) or because of the fault. -/
def createF (x : FW) (id : String) (t : Task) : FW × Bool :=
  if (x.w.store.tasks id).isSome then (x.tx (fun s => s), false) else ((x.tx (·.putTask id t)), !(x.tx (·.putTask id t)).err)
def replaceF (x : FW) (id : String) (t : Task) : FW × Bool :=
  if (x.w.store.tasks id).isSome then ((x.tx (·.putTask id t)), !(x.tx (·.putTask id t)).err) else (x.tx (fun s => s), false)
def deleteF (x : FW) (id : String) : FW × Bool := (x.tx (·.delTask id), !(x.tx (·.delTask id)).err)
def assocF (x : FW) (m k : String) (b : Bool) : FW × Bool := (x.tx (·.setAssoc m k b), !(x.tx (·.setAssoc m k b)).err)
def tmplCreateF (x : FW) (id s : String) : FW × Bool :=
  if (x.w.store.tmpls id).isSome then (x.tx (fun s => s), false) else ((x.tx (·.putTmpl id s)), !(x.tx (·.putTmpl id s)).err)
def tmplDeleteF (x : FW) (id : String) : FW × Bool := (x.tx (·.delTmpl id), !(x.tx (·.delTmpl id)).err)
/-- saveLastError: its error is ignored. -/
def saveLastErrorF (x : FW) (id : String) : FW := if (x.w.store.tasks id).isSome then x.tx (fun s => s) else x

def startTaskF (env : Env) (fail : List String) (x : FW) (id : String) (t : Task) : FW × Bool :=
  if !buildable env t then (x.note "start-unbuildable", false)
  else if !startable fail id t then ((saveLastErrorF (saveLastErrorF x id) id).note "start-refused", false)
  else if !batchable env t then
    (((saveLastErrorF ((saveLastErrorF x id).setExec id true) id).setExec id false).note "start-batching-refused", false)
  else (((saveLastErrorF x id).setExec id true).note (if taskIsBatch env t then "start-ok-batch" else "start-ok"), true)

/-- The tail of handleCreateTask: start the task when it is enabled. -/
def startCreatedF (env : Env) (fail : List String) (x : FW) (id : String) (t : Task) : FW × Resp :=
  if t.enabled then
    if (startTaskF env fail x id t).2 then ((startTaskF env fail x id t).1.note "create-enabled", .ok)
    else ((startTaskF env fail x id t).1.note "create-start-failed", .fail)
  else (x.note "create-disabled", .ok)

/-- Save the task (error: 500), associate it with its template (error: 500, the task stays stored and is not
started), start it when enabled. -/
def createCommitF (env : Env) (fail : List String) (x : FW) (id : String) (t : Task) (templated : Bool) : FW × Resp :=
  if !(createF x id t).2 then ((createF x id t).1.note "fault-create", .fail)
  else if templated && !(assocF (createF x id t).1 t.tmpl id true).2 then
    ((assocF (createF x id t).1 t.tmpl id true).1.note "fault-associate", .fail)
  else
    startCreatedF env fail
      (if templated then (assocF (createF x id t).1 t.tmpl id true).1.note "create-templated" else (createF x id t).1) id t

/-- handleCreateTask (repaired order). -/
def createTaskF (env : Env) (fail : List String) (x : FW) (id : String) (r : TaskReq) : FW × Resp :=
  if (x.w.store.tasks id).isSome then (x.note "create-exists", .bad)
  else
    match createScript x.w.store r with
    | none => (x.note "create-no-script-or-template", .bad)
    | some (script, templated) =>
      match createValidate env r script with
      | .error b => (x.note b, .bad)
      | .ok t => createCommitF env fail x id t templated

/-- Store the definition; the error of Delete(old) is only logged. -/
def storeDefinitionF (x : FW) (id newId : String) (upd : Task) : FW × Bool :=
  if id ≠ newId then
    if (createF x newId upd).2 then ((deleteF (createF x newId upd).1 id).1.note "rename", true)
    else ((createF x newId upd).1.note "rename-onto-existing", false)
  else replaceF x id upd

/-- Move the association: each of the two calls returns 500 on error. -/
def reassociateF (x : FW) (id : String) (orig : Task) (m newId : String) : FW × Bool :=
  if orig.tmpl ≠ "" ∧ !(assocF x orig.tmpl id false).2 then ((assocF x orig.tmpl id false).1, false)
  else
    ((assocF (if orig.tmpl ≠ "" then (assocF x orig.tmpl id false).1 else x) m newId true).1.note "update-reassociate",
     (assocF (if orig.tmpl ≠ "" then (assocF x orig.tmpl id false).1 else x) m newId true).2)

def finishUpdateF (env : Env) (fail : List String) (x : FW) (id newId : String) (orig upd : Task) : FW × Resp :=
  if id ≠ newId ∧ orig.enabled = true ∧ upd.enabled = true then
    if (startTaskF env fail (x.setExec id false) newId upd).2 then
      ((startTaskF env fail (x.setExec id false) newId upd).1.note "rename-enabled", .ok)
    else ((startTaskF env fail (x.setExec id false) newId upd).1.note "rename-start-failed", .fail)
  else if orig.enabled != upd.enabled then
    if upd.enabled then
      if (startTaskF env fail x newId upd).2 then ((startTaskF env fail x newId upd).1.note "update-enable", .ok)
      else ((startTaskF env fail x newId upd).1.note "update-enable-start-failed", .fail)
    else ((x.setExec id false).note "update-disable", .ok)
  else (x.note (if orig.enabled then "update-stays-enabled" else "update-stays-disabled"), .ok)

/-- Store the definition (error: 500, nothing else happens), move the association when needed (an error there is
reported only after the running state was adjusted), adjust the running state. -/
def updateCommitF (env : Env) (fail : List String) (x : FW) (id newId : String) (orig upd : Task) (m : String) : FW × Resp :=
  if !(storeDefinitionF x id newId upd).2 then ((storeDefinitionF x id newId upd).1.note "fault-or-taken", .fail)
  else if needsReassoc Variant.fixed id newId orig m then
    ((finishUpdateF env fail (reassociateF (storeDefinitionF x id newId upd).1 id orig m newId).1 id newId orig upd).1,
     if (reassociateF (storeDefinitionF x id newId upd).1 id orig m newId).2
     then (finishUpdateF env fail (reassociateF (storeDefinitionF x id newId upd).1 id orig m newId).1 id newId orig upd).2
     else .fail)
  else finishUpdateF env fail (storeDefinitionF x id newId upd).1 id newId orig upd

/-- handleUpdateTask (repaired order). -/
def updateTaskF (env : Env) (fail : List String) (x : FW) (id : String) (r : TaskReq) : FW × Resp :=
  match x.w.store.tasks id with
  | none => (x.note "update-missing", .nf)
  | some orig =>
    match updateScript env x.w.store orig r with
    | none => (x.note "update-bad-script-or-template", .bad)
    | some (script, m) =>
      match updateValidate env orig r script m with
      | .error b => (x.note b, .bad)
      | .ok upd => updateCommitF env fail x id (if r.newId ≠ "" then r.newId else id) orig upd m

/-- deleteTask: the errors of snapshots.Delete and DisassociateTask are ignored / logged; tasks.Delete's is returned. -/
def deleteTaskF (x : FW) (id : String) : FW × Resp :=
  match (x.tx (fun s => s)).w.store.tasks id with
  | none => ((x.tx (fun s => s)).note "delete-missing", .ok)
  | some t =>
    let x1 := if t.tmpl ≠ "" then (assocF (x.tx (fun s => s)) t.tmpl id false).1.note "delete-templated" else x.tx (fun s => s)
    let x2 := if t.enabled then (x1.setExec id false).note "delete-enabled" else x1.note "delete-disabled"
    ((deleteF x2 id).1, if (deleteF x2 id).2 then .ok else .fail)

def createTemplateF (env : Env) (x : FW) (id script : String) : FW × Resp :=
  if (x.w.store.tmpls id).isSome then (x.note "tcreate-exists", .bad)
  else if !(env script).parse || !(env script).typed || script = "" || !(env script).tmplOk then (x.note "tcreate-invalid", .bad)
  else ((tmplCreateF x id script).1.note "tcreate", if (tmplCreateF x id script).2 then .ok else .fail)

def deleteTemplateF (x : FW) (id : String) : FW × Resp :=
  ((tmplDeleteF x id).1.note "tdelete", if (tmplDeleteF x id).2 then .ok else .fail)

/-- The requests the fault semantics covers. -/
def faultable : Op → Bool
  | .tupdate _ _ _ => false
  | .restart => false
  | .die _ => false
  | _ => true

/-- One request with the fault oracle (`none` = no fault). -/
def handleF (env : Env) (fail : List String) (fault : Option Nat) (w : World) : Op → World × Resp
  | .create id r => let y := createTaskF env fail ⟨w, fault, false⟩ id r; (y.1.w, y.2)
  | .update id r => let y := updateTaskF env fail ⟨w, fault, false⟩ id r; (y.1.w, y.2)
  | .delete id => let y := deleteTaskF ⟨w, fault, false⟩ id; (y.1.w, y.2)
  | .tcreate id s => let y := createTemplateF env ⟨w, fault, false⟩ id s; (y.1.w, y.2)
  | .tdelete id => let y := deleteTemplateF ⟨w, fault, false⟩ id; (y.1.w, y.2)
  | op => handle Variant.fixed env fail w op

end Kap.C14
