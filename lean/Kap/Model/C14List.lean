/-
C14 — executable model of the LISTING endpoints (GET /tasks, GET /templates with pattern / offset / limit).

Transcribed from
  * services/task_store/service.go handleListTasks / handleListTemplates: `pattern`, `offset` (default 0), `limit`
    (default 100) are read from the query, the DAO is asked for that page, every returned record is rendered with the
    requested fields (`executing` = TaskMaster.IsExecuting at that moment);
  * services/task_store/dao.go taskKV.List → services/storage/indexed.go IndexedStore.list (ID index, in key order =
    ID order) and templateKV.List (template ID index): both build `match` from the pattern (`path.Match(pattern, id)`,
    empty pattern = everything), call `storage.DoListFunc(ids, match, offset, limit)` and then read the data of each
    returned ID inside the same read transaction;
  * services/storage/storage.go DoListFunc: the loop that counts MATCHES (`i`), skips the first `offset` of them and
    stops after `size = min(offset+limit, len(list)) - offset` results (`doListLoop` / `doListFunc`, same branches in
    the same order).
The ID index of the model is `tids` / `mids` restricted to the IDs that hold data (`Store.tids` enumerates every ID a
key was ever written under; the index of the code holds exactly the IDs with data).

`glob` is the fragment of `path.Match` the harness generates: literal characters, `*` (any sequence) and `?` (any one
character); IDs never contain `/` (validTaskID), character classes and escapes are not generated. The harness
prints, for every page request, which IDs of its pool the REAL `path.Match` accepts; the driver compares (tie).
Abstracted: negative offset / limit (not generated; the handlers pass them on, DoListFunc treats a negative offset as 0),
unparsable numbers (400), the `fields` / `script-format` / `dot-view` rendering options (the harness requests the fields
the model's record has; a request without `fields` or with `fields=id` only is compared on what it shows).
Core Lean only.
-/
import Kap.Model.C14
namespace Kap.C14

/-! ### storage.DoListFunc -/

/-- The loop of `DoListFunc`: `i` counts the matches seen so far, `acc` is `matches` reversed. -/
def doListLoop (m : String → Bool) (offset size : Nat) : List String → Nat → List String → List String
  | [], _, acc => acc.reverse
  | v :: rest, i, acc =>
    if !m v then doListLoop m offset size rest i acc                    -- no match: continue
    else if i + 1 ≤ offset then doListLoop m offset size rest (i + 1) acc   -- count matched; skip till offset
    else if (v :: acc).length = size then (v :: acc).reverse              -- stop once limit reached
    else doListLoop m offset size rest (i + 1) (v :: acc)

/-- `storage.DoListFunc(list, match, offset, limit)` for non-negative offset and limit. -/
def doListFunc (l : List String) (m : String → Bool) (offset limit : Nat) : List String :=
  if (if offset + limit > l.length then l.length else offset + limit) ≤ offset then []     -- size <= 0: no more results
  else doListLoop m offset ((if offset + limit > l.length then l.length else offset + limit) - offset) l 0 []

/-! ### path.Match (fragment) -/

def tails : List Char → List (List Char)
  | [] => [[]]
  | c :: s => (c :: s) :: tails s

/-- `path.Match` on patterns made of literals, `*` and `?`, names without `/`. -/
def globAux : List Char → List Char → Bool
  | [], s => s.isEmpty
  | p :: ps, s =>
    if p = '*' then (tails s).any (fun t => globAux ps t)
    else match s with
      | [] => false
      | c :: s' => (p = '?' || p = c) && globAux ps s'

def glob (pattern id : String) : Bool := globAux pattern.toList id.toList

/-- The `match` closure of IndexedStore.list / templateKV.List: no pattern = every ID. -/
def matchFn (pattern : String) : String → Bool := fun id => pattern.isEmpty || glob pattern id

/-! ### the list handlers -/

/-- The `limit` of a request that names none (handleListTasks / handleListTemplates). -/
def defaultLimit : Nat := 100

/-- The ID index of the tasks (IndexedStore, index "id"): the IDs that hold a task, in key order. -/
def Store.taskIndex (s : Store) : List String := s.tids.filter (fun i => (s.tasks i).isSome)

/-- The ID index of the templates (/templates/indexes/id/). -/
def Store.tmplIndex (s : Store) : List String := s.mids.filter (fun i => (s.tmpls i).isSome)

/-- One row of a task page: ID, stored definition, executing flag. -/
abbrev TaskRow := String × Task × Bool

/-- handleListTasks: the page of the ID index DoListFunc selects, the data of each ID, its executing flag. -/
def listTasks (w : World) (pattern : String) (offset limit : Nat) : List TaskRow :=
  (doListFunc w.store.taskIndex (matchFn pattern) offset limit).filterMap
    fun i => (w.store.tasks i).map fun t => (i, t, w.exec i)

/-- handleListTemplates. -/
def listTmpls (w : World) (pattern : String) (offset limit : Nat) : List (String × String) :=
  (doListFunc w.store.tmplIndex (matchFn pattern) offset limit).filterMap
    fun i => (w.store.tmpls i).map fun s => (i, s)

/-- Structural cases of one page request (coverage only): how the pattern splits the index, where the offset falls
among the matches, whether the limit cuts, and whether an ID that does NOT match sorts before one that does (then
"the offset counts matches" and "the offset counts index entries" differ). -/
def pageBranches (index : List String) (pattern : String) (offset limit : Nat) : List String :=
  let m := matchFn pattern
  let hits := index.filter m
  let pat := if pattern.isEmpty then "page-no-pattern"
    else if hits.isEmpty then "page-pattern-matches-none"
    else if hits.length = index.length then "page-pattern-matches-all" else "page-pattern-matches-some"
  let off := if offset = 0 then "page-offset-0"
    else if offset < hits.length then "page-offset-inside"
    else if offset = hits.length then "page-offset-at-end" else "page-offset-past-end"
  let lim := if limit = 0 then "page-limit-0"
    else if offset + limit < hits.length then "page-limit-cuts"
    else if offset + limit = hits.length then "page-limit-exact" else "page-limit-beyond"
  let gap := match index.dropWhile m with        -- first non-matching ID … and a match after it
    | [] => []
    | _ :: rest => if rest.any m then (if offset > 0 then ["page-skipped-nonmatch-offset"] else ["page-skipped-nonmatch"]) else []
  [pat, off, lim] ++ gap

end Kap.C14
