/-
C15 — model of `services/storage`: `IndexedStore` (indexed.go), `DoUpdate`/`DoListFunc` (storage.go) and the
part of the Bolt backend the store relies on (bolt.go: put / delete / get / exists / prefix `list` inside ONE
bucket, a transaction = a private copy that is committed iff the function returns nil).

Transcribed (same branches, same order of writes):
* `NewIndexedStore`: `dataPrefix = path.Join("/", Prefix, "data") + "/"`, `indexesPrefix = path.Join("/", Prefix, "indexes")`;
* `dataKey` = plain concatenation; `indexKey` = `path.Join(indexesPrefix, index, value)` INCLUDING the cleaning
  that `path.Join` performs (`pathClean`, rooted paths only: every key of the store starts with "/");
* `Index.ValueOf` (unique: the value; otherwise `value + "/" + id`);
* `GetTx`, `putTx` (exists / replace rules, the uniqueness check of every `Unique` index BEFORE any write —
  `Exists(indexKey)`, `Get`, compare the stored id with the object's: another holder = `ErrUniqueIndexConflict` —,
  data write, per index: new key, old key, write + old-key removal),
  `DeleteTx`, `list` (+ `DoListFunc`, reverse), `RebuildTx` (+ `deleteIndex`);
* `DoUpdate`: begin, run, commit iff nil — with an injected fault at the n-th `Put`/`Delete` or at `Commit`;
* Bolt: `kvPut` (B+tree insert/replace = sorted insert), `kvDel`, `kvGet`, `kvList` = `Seek(prefix)` followed by
  `Next()` while `HasPrefix` (so it relies on the keys being sorted).
Abstracted: object encoding (`Val.obj o` stands for the versioned-JSON bytes of `o`, `Val.ref id` for the raw
bytes of an id; a `ref` read back as an object is an unmarshal error; the encoded bytes of an object are never
equal to an id), `ValueFunc` errors (never), nested
buckets, key/value size limits of bbolt, strings are lists of Unicode code points (valid UTF-8 only; code point
order = byte order).
Core Lean only.
-/
import Kap.Basic
namespace Kap.C15

abbrev Str := List Char

/-- The stored object of the harness: an ID, two secondary attributes and a payload. -/
structure Obj where
  id : Str
  grp : Str
  tag : Str
  data : Str
deriving DecidableEq, Repr, Inhabited

/-- A stored value: the encoding of an object (data area), raw bytes (index area: the id), or a nested bucket:
`bucket.Get` answers nil for it (so `Exists` = false, `Get` = ErrNoKeyExists), a prefix scan lists it with an empty
value, `bucket.Put` on it fails (ErrIncompatibleValue) and `Bolt.delete` removes it with `DeleteBucket`. -/
inductive Val where
  | obj (o : Obj)
  | ref (id : Str)
  | bucket             -- the key names a NESTED BUCKET (created by someone else in the same bucket)
deriving DecidableEq, Repr, Inhabited

/-- One Bolt bucket: key/value pairs in ascending key order. -/
abbrev KV := List (Str × Val)

/-! ### Bolt bucket primitives -/

def kvGet : KV → Str → Option Val
  | [], _ => none
  | (k', v) :: r, k => if k' = k then some v else kvGet r k

/-- `bucket.Put`: B+tree insert or overwrite. -/
def kvPut : KV → Str → Val → KV
  | [], k, v => [(k, v)]
  | (k', v') :: r, k, v =>
    if k < k' then (k, v) :: (k', v') :: r
    else if k = k' then (k, v) :: r
    else (k', v') :: kvPut r k v

/-- `Bolt.delete`: seek the key, remove it when present (deleting a missing key is not an error). -/
def kvDel (kv : KV) (k : Str) : KV := kv.filter (fun e => e.1 ≠ k)

/-- `Bolt.list`: `cursor.Seek(prefix)`, then `Next()` while the key has the prefix. -/
def kvList (kv : KV) (p : Str) : KV :=
  (kv.dropWhile (fun e => decide (e.1 < p))).takeWhile (fun e => p.isPrefixOf e.1)

/-! ### `path.Join` / `path.Clean` (rooted paths) -/

/-- `strings.Split(s, "/")`. -/
def splitSlash : Str → List Str
  | [] => [[]]
  | c :: r =>
    if c = '/' then [] :: splitSlash r
    else match splitSlash r with
      | [] => [[c]]
      | s :: ss => (c :: s) :: ss

/-- The element loop of `path.Clean` for a rooted path; `stack` is the output so far, reversed. -/
def cleanSegs (stack : List Str) : List Str → List Str
  | [] => stack
  | s :: r =>
    if s = [] ∨ s = ['.'] then cleanSegs stack r               -- empty element, "."
    else if s = ['.', '.'] then cleanSegs stack.tail r          -- "..": drop the previous element (none at the root)
    else cleanSegs (s :: stack) r

/-- "/" ++ s₁ ++ "/" ++ s₂ … -/
def joinSlash : List Str → Str
  | [] => []
  | s :: r => '/' :: s ++ joinSlash r

/-- `path.Clean` of a rooted path. -/
def pathClean (p : Str) : Str :=
  let segs := (cleanSegs [] (splitSlash p)).reverse
  if segs = [] then ['/'] else joinSlash segs

def intercalateSlash : List Str → Str
  | [] => []
  | [s] => s
  | s :: r => s ++ '/' :: intercalateSlash r

/-- `path.Join(elems...)`: empty elements are ignored, the result is cleaned. -/
def pathJoin (elems : List Str) : Str :=
  match elems.filter (fun e => e ≠ []) with
  | [] => []
  | es => pathClean (intercalateSlash es)

/-! ### Configuration -/

inductive Sel where | id | grp | tag
deriving DecidableEq, Repr, Inhabited

def Sel.get : Sel → Obj → Str
  | .id, o => o.id
  | .grp, o => o.grp
  | .tag, o => o.tag

/-- `storage.Index` (the `ValueFunc` is a field selector). -/
structure Index where
  name : Str
  unique : Bool
  sel : Sel
deriving DecidableEq, Repr, Inhabited

/-- `Index.ValueOf`. -/
def Index.valueOf (i : Index) (o : Obj) : Str :=
  if i.unique then i.sel.get o else i.sel.get o ++ '/' :: o.id

structure Cfg where
  pfx : Str
  indexes : List Index
deriving Repr, Inhabited

def dataSeg : Str := ['d', 'a', 't', 'a']
def indexesSeg : Str := ['i', 'n', 'd', 'e', 'x', 'e', 's']

def Cfg.dataPrefix (c : Cfg) : Str := pathJoin [['/'], c.pfx, dataSeg] ++ ['/']
def Cfg.indexesPrefix (c : Cfg) : Str := pathJoin [['/'], c.pfx, indexesSeg]

def dataKey (c : Cfg) (id : Str) : Str := c.dataPrefix ++ id
def indexKey (c : Cfg) (index value : Str) : Str := pathJoin [c.indexesPrefix, index, value]
/-- The prefix `list`/`deleteIndex` scan: `indexKey(index, "") + "/"`. -/
def indexDir (c : Cfg) (index : Str) : Str := indexKey c index [] ++ ['/']

/-! ### Transactions with fault injection -/

inductive Err where
  | exists_   -- ErrObjectExists
  | missing   -- ErrNoObjectExists
  | io        -- the injected fault
  | other     -- unmarshal error / ErrNoKeyExists
  | conflict  -- ErrUniqueIndexConflict
deriving DecidableEq, Repr, Inhabited

inductive Fault where
  | none
  | write (n : Nat)   -- the n-th (0-based) Put/Delete of the transaction fails
  | commit            -- Commit fails
deriving DecidableEq, Repr, Inhabited

/-- An open read-write transaction: the private copy, the number of writes so far, the write that will fail. -/
structure Tx where
  kv : KV
  writes : Nat
  failAt : Option Nat
deriving Repr

def Tx.put (t : Tx) (k : Str) (v : Val) : Except Err Tx :=
  if t.failAt = some t.writes then .error .io
  else if kvGet t.kv k = some .bucket then .error .other       -- bbolt: ErrIncompatibleValue
  else .ok { t with kv := kvPut t.kv k v, writes := t.writes + 1 }

def Tx.delete (t : Tx) (k : Str) : Except Err Tx :=
  if t.failAt = some t.writes then .error .io
  else .ok { t with kv := kvDel t.kv k, writes := t.writes + 1 }

/-- `IndexedStore.GetTx`: `Exists`, `Get`, `UnmarshalBinary`. -/
def getTx (c : Cfg) (kv : KV) (id : Str) : Except Err Obj :=
  match kvGet kv (dataKey c id) with
  | none => .error .missing
  | some (.obj o) => .ok o
  | some (.ref _) => .error .other
  | some .bucket => .error .missing         -- `Exists` is false for a nested bucket

/-- What the uniqueness check of `putTx` finds under the entry key of a unique index: nothing (`Exists` is false
for a missing key and for a nested bucket), the object's own id, or something else (`string(holder.Value) !=
o.ObjectID()`: another id, or bytes that are no id at all). -/
def heldByOther (v : Option Val) (id : Str) : Bool :=
  match v with
  | none => false
  | some .bucket => false
  | some (.ref r) => r != id
  | some (.obj _) => true

/-- The uniqueness loop of `putTx` (reads only; runs before the first write): does some `Unique` index already hold
the object's value for ANOTHER object? -/
def uniqueConflict (c : Cfg) (kv : KV) (o : Obj) : Bool :=
  c.indexes.any (fun idx => idx.unique && heldByOther (kvGet kv (indexKey c idx.name (idx.valueOf o))) o.id)

/-- The index loop of `putTx`. `old = some x` ⇔ `replacing`. -/
def putIndexes (c : Cfg) (o : Obj) (old : Option Obj) : List Index → Tx → Except Err Tx
  | [], t => .ok t
  | idx :: rest, t =>
    let newKey := indexKey c idx.name (idx.valueOf o)
    let oldKey := indexKey c idx.name (match old with | some x => idx.valueOf x | none => [])
    if old.isNone || oldKey != newKey then
      match t.put newKey (.ref o.id) with
      | .error e => .error e
      | .ok t1 =>
        match old with
        | some _ =>
          match t1.delete oldKey with
          | .error e => .error e
          | .ok t2 => putIndexes c o old rest t2
        | none => putIndexes c o old rest t1
    else putIndexes c o old rest t

/-- `IndexedStore.putTx`. -/
def putTx (c : Cfg) (t : Tx) (o : Obj) (allowReplace requireReplace : Bool) : Except Err Tx :=
  match getTx c t.kv o.id with
  | .error .missing =>
    if requireReplace then .error .missing
    else if uniqueConflict c t.kv o then .error .conflict
    else match t.put (dataKey c o.id) (.obj o) with
      | .error e => .error e
      | .ok t1 => putIndexes c o none c.indexes t1
  | .error e => .error e
  | .ok old =>
    if !allowReplace then .error .exists_
    else if uniqueConflict c t.kv o then .error .conflict
    else match t.put (dataKey c o.id) (.obj o) with
      | .error e => .error e
      | .ok t1 => putIndexes c o (some old) c.indexes t1

/-- `IndexedStore.putTx` as it was before the `fix:` commit that added the uniqueness check: a `Unique` index was
never consulted, a second object with the same value overwrote the entry (kept for the counterexample theorem). -/
def putTxOld (c : Cfg) (t : Tx) (o : Obj) (allowReplace requireReplace : Bool) : Except Err Tx :=
  match getTx c t.kv o.id with
  | .error .missing =>
    if requireReplace then .error .missing
    else match t.put (dataKey c o.id) (.obj o) with
      | .error e => .error e
      | .ok t1 => putIndexes c o none c.indexes t1
  | .error e => .error e
  | .ok old =>
    if !allowReplace then .error .exists_
    else match t.put (dataKey c o.id) (.obj o) with
      | .error e => .error e
      | .ok t1 => putIndexes c o (some old) c.indexes t1

/-- The index loop of `DeleteTx`. -/
def delIndexes (c : Cfg) (o : Obj) : List Index → Tx → Except Err Tx
  | [], t => .ok t
  | idx :: rest, t =>
    match t.delete (indexKey c idx.name (idx.valueOf o)) with
    | .error e => .error e
    | .ok t1 => delIndexes c o rest t1

/-- `IndexedStore.DeleteTx`. -/
def deleteTx (c : Cfg) (t : Tx) (id : Str) : Except Err Tx :=
  match getTx c t.kv id with
  | .error .missing => .ok t
  | .error e => .error e
  | .ok o =>
    match t.delete (dataKey c id) with
    | .error e => .error e
    | .ok t1 => delIndexes c o c.indexes t1

/-- `deleteIndex`: list the directory of the index, delete every entry. -/
def deleteKeys : List Str → Tx → Except Err Tx
  | [], t => .ok t
  | k :: rest, t =>
    match t.delete k with
    | .error e => .error e
    | .ok t1 => deleteKeys rest t1

def deleteIndexes (c : Cfg) : List Index → Tx → Except Err Tx
  | [], t => .ok t
  | idx :: rest, t =>
    match deleteKeys ((kvList t.kv (indexDir c idx.name)).map (·.1)) t with
    | .error e => .error e
    | .ok t1 => deleteIndexes c rest t1

def putAllIndexes (c : Cfg) (o : Obj) : List Index → Tx → Except Err Tx
  | [], t => .ok t
  | idx :: rest, t =>
    match t.put (indexKey c idx.name (idx.valueOf o)) (.ref o.id) with
    | .error e => .error e
    | .ok t1 => putAllIndexes c o rest t1

def rebuildData (c : Cfg) : KV → Tx → Except Err Tx
  | [], t => .ok t
  | (_, .ref _) :: _, _ => .error .other
  | (_, .bucket) :: _, _ => .error .other   -- empty value: unmarshal error
  | (_, .obj o) :: rest, t =>
    match putAllIndexes c o c.indexes t with
    | .error e => .error e
    | .ok t1 => rebuildData c rest t1

/-- `IndexedStore.RebuildTx`. -/
def rebuildTx (c : Cfg) (t : Tx) : Except Err Tx :=
  match deleteIndexes c c.indexes t with
  | .error e => .error e
  | .ok t1 => rebuildData c (kvList t1.kv c.dataPrefix) t1

/-- `BeginTx`: a private copy of the committed bucket. -/
def beginTx (kv : KV) (fault : Fault) : Tx :=
  { kv := kv, writes := 0, failAt := match fault with | .write n => some n | _ => none }

/-- `DoUpdate` over Bolt: the function runs on a private copy; the copy replaces the committed state iff the
function returned nil and `Commit` succeeded. Returns the committed state and the error (if any). -/
def update (kv : KV) (fault : Fault) (f : Tx → Except Err Tx) : KV × Option Err :=
  match f (beginTx kv fault) with
  | .error e => (kv, some e)
  | .ok t => if fault = .commit then (kv, some .io) else (t.kv, none)

/-! ### Listing -/

/-- The loop of `DoListFunc`: `i` counts matches, `acc` is `matches` reversed. -/
def doListLoop (m : Str → Bool) (offset : Int) (size : Nat) : List Str → Int → List Str → List Str
  | [], _, acc => acc.reverse
  | v :: rest, i, acc =>
    if !m v then doListLoop m offset size rest i acc
    else
      let i := i + 1
      if i ≤ offset then doListLoop m offset size rest i acc
      else
        let acc := v :: acc
        if acc.length = size then acc.reverse else doListLoop m offset size rest i acc

/-- `storage.DoListFunc`. -/
def doListFunc (l : List Str) (m : Str → Bool) (offset limit : Int) : List Str :=
  let len : Int := l.length
  let upper := if offset + limit > len then len else offset + limit
  let size := upper - offset
  if size ≤ 0 then [] else doListLoop m offset size.toNat l 0 []

/-- `path.Match` restricted to `*`, `?` and literal characters (`*`/`?` do not match '/'). Fuel = pattern length
+ name length, enough for every call. -/
def globAux : Nat → List Char → List Char → Bool
  | _, [], [] => true
  | 0, _, _ => false
  | n + 1, '*' :: ps, s =>
    globAux n ps s || (match s with | [] => false | c :: s' => c ≠ '/' && globAux n ('*' :: ps) s')
  | n + 1, '?' :: ps, c :: s => c ≠ '/' && globAux n ps s
  | n + 1, p :: ps, c :: s => p = c && globAux n ps s
  | _, _, _ => false

def glob (pat name : Str) : Bool := globAux (pat.length + name.length + 1) pat name

/-- The match function `list` builds: empty pattern matches everything. -/
def matchFn (pattern : Str) : Str → Bool := fun id => if pattern = [] then true else glob pattern id

/-- `string(kv.Value)` of a directory entry: the id; the empty string for a nested bucket; an encoded object can
not be resolved. -/
def entryId : Val → Option Str
  | .ref id => some id
  | .bucket => some []
  | .obj _ => none

/-- The ids in the directory of an index (`tx.List(indexKey(index,"")+"/")`, optionally reversed); an entry that
holds an encoded object instead of an id cannot be resolved (`none`). -/
def indexIds (c : Cfg) (kv : KV) (index : Str) (rev : Bool) : List (Option Str) :=
  let es := (kvList kv (indexDir c index)).map (fun e => entryId e.2)
  if rev then es.reverse else es

def fetch (c : Cfg) (kv : KV) : List Str → Except Err (List Obj)
  | [] => .ok []
  | id :: rest =>
    match kvGet kv (dataKey c id) with
    | some (.obj o) =>
      match fetch c kv rest with
      | .ok os => .ok (o :: os)
      | .error e => .error e
    | _ => .error .other

/-- `IndexedStore.list` as it is in the source today (after the `fix:` commit: a negative limit means "no limit"
and still honours pattern and offset). -/
def list (c : Cfg) (kv : KV) (index pattern : Str) (offset limit : Int) (rev : Bool) : Except Err (List Obj) :=
  let ids := indexIds c kv index rev
  if ids.any (·.isNone) then .error .other else
  let ids := ids.filterMap id
  let limit := if limit < 0 then (ids.length : Int) else limit
  fetch c kv (doListFunc ids (matchFn pattern) offset limit)

/-- `IndexedStore.list` as it was at snapshot ef0888e: a negative limit returned EVERY id of the index,
ignoring pattern and offset (kept for the counterexample theorem). -/
def listOld (c : Cfg) (kv : KV) (index pattern : Str) (offset limit : Int) (rev : Bool) : Except Err (List Obj) :=
  let ids := indexIds c kv index rev
  if ids.any (·.isNone) then .error .other else
  let ids := ids.filterMap id
  fetch c kv (if limit ≥ 0 then doListFunc ids (matchFn pattern) offset limit else ids)

/-- `IndexedStore.Get`. -/
def get (c : Cfg) (kv : KV) (id : Str) : Except Err Obj := getTx c kv id

/-! ### Operations on the committed state -/

inductive Op where
  | create (o : Obj) (f : Fault)
  | put (o : Obj) (f : Fault)
  | replace (o : Obj) (f : Fault)
  | delete (id : Str) (f : Fault)
  | rebuild (f : Fault)
  | reopen
deriving Repr, Inhabited

/-- One API call on the committed bucket. `reopen` = close the Bolt file and open it again: the `IndexedStore`
struct holds configuration only, so nothing but the committed bucket survives — and nothing else existed. -/
def step (c : Cfg) (kv : KV) : Op → KV × Option Err
  | .create o f => update kv f (fun t => putTx c t o false false)
  | .put o f => update kv f (fun t => putTx c t o true false)
  | .replace o f => update kv f (fun t => putTx c t o true true)
  | .delete id f => update kv f (fun t => deleteTx c t id)
  | .rebuild f => update kv f (fun t => rebuildTx c t)
  | .reopen => (kv, none)

/-- A foreign write (NOT an `IndexedStore` call): somebody creates a nested bucket under `k` in the same bucket
(`CreateBucket` fails when the key exists). Used by the correspondence only. -/
def mkBucket (kv : KV) (k : Str) : KV × Option Err :=
  match kvGet kv k with
  | none => (kvPut kv k .bucket, none)
  | some _ => (kv, some .other)

def run (c : Cfg) (ops : List Op) : KV := ops.foldl (fun kv op => (step c kv op).1) []

end Kap.C15
