/-
C16 — model of the batch query machinery: `query.go` (NewQuery, SetStartTime/SetStopTime, Clone, String),
`batch.go` (QueryNode.doQuery, QueryNode.Queries, timeTicker.Next/Start, cronTicker.Next, schedule
selection in newQueryNode) and `task.go` (checkDBRPs), plus the part of the InfluxQL printer/parser
(`influxql.BinaryExpr.String`, `Parser.ParseExpr`) that decides what the issued text MEANS.

Transcription (snapshot ef0888e + the `fix:` commits listed in findings/C16.txt):
* conditions: `Cond` = AND/OR `BinaryExpr`s, `ParenExpr`, and atoms. An atom is a whole comparison
  (`"host" = 'a'`, `"v" + 1 > 2`, `time > now() - 1h` …): all comparison/arithmetic operators bind tighter
  than AND/OR, so an atom prints and re-parses as one unit (abstraction, tied by the correspondence run
  which re-parses every issued string with the real influxql parser). `time <op> <literal>` atoms keep
  their literal; flag `tl` says the right-hand side is an `*influxql.TimeLiteral` node (only the two
  literals NewQuery creates are — the parser yields StringLiterals), which is what `Clone` looks for.
* `Cond.print` = `BinaryExpr.String` (no parentheses except `ParenExpr`); `parse` = `ParseExpr` with
  its right-spine insertion `insert` (precedence OR=1 < AND=2) and `parseUnaryExpr` for `( … )`.
  Recursion of the parser is by fuel (`parse` supplies enough: theorem `parse_print`).
* `splice` = NewQuery's AND-ing of `time >= startTL AND time < stopTL` onto the user's condition
  (`spliceOld` = the snapshot's version without the ParenExpr around a top-level OR).
* `Query` keeps the statement's condition, WHICH atoms `startTL`/`stopTL` point to (index in
  left-to-right atom order = the order of `influxql.WalkFunc`), the `time(len, offset)` dimension and
  whether `groupByTimeDL/groupByOffsetDL` are the literals inside the statement (`gbLinked`; the
  snapshot's Clone made detached copies: `cloneWith false`).
* ticks: Go `time.Truncate/Round` count from the year-1 epoch (`zeroOff`); `tickerNext` = `timeTicker.Next`
  (`tickerNextOld` = snapshot: `Round` under align); `liveTick` = what `timeTicker.Start` delivers
  (first `Truncate(now)+every`, then `time.Ticker` times rounded; the runtime's jitter is a parameter);
  cron is an arbitrary `next` function (the driver instantiates `*/k` second schedules, ending schedules given by
  their firing times, and `cronZoneNext`: named hours/minutes/seconds evaluated in a zone `off` ns east of UTC);
  `cronLiveTicks` = what `cronTicker.Start` sends (ideal runtime); an ended schedule sends nothing (since the `fix:`
  recorded in findings/C16.txt; `cronLiveTicksOld` = the loop before it, which sent the zero time without pause).
* `queries` = `QueryNode.Queries(start, stop)`; the unbounded Go loop is run with fuel
  `stop - start + 1` ns (theorem `queries_fuel_irrelevant`: more fuel changes nothing).
* `doQuery` = one live tick: mutate the node's own query, issue its text; `batchTime` = the time it stamps on a
  result batch. `validDims` = the time-dimension check of `Query.Dimensions`; `setStartTimeTraps` = where Go would
  divide by zero. `Query.extra` = fill + tag dimensions (opaque, untouched).
Core Lean only (the compiled driver imports this file).
-/
import Kap.Basic
namespace Kap.C16

/-! ### Conditions, printer, parser -/

inductive TOp where | ge | lt | gt | le | eq | ne
deriving DecidableEq, Repr, Inhabited

inductive Atom where
  /-- any comparison that is not `time <op> <time literal>`; its truth value comes from the row -/
  | opq (id : Nat)
  /-- `time <op> lit`; `tl` = the literal is an `*influxql.TimeLiteral` node of the in-memory AST -/
  | time (op : TOp) (lit : Int) (tl : Bool)
deriving DecidableEq, Repr, Inhabited

inductive BOp where | or | and
deriving DecidableEq, Repr, Inhabited

/-- `Token.Precedence()` restricted to the two boolean operators. -/
def BOp.prec : BOp → Nat
  | .or => 1
  | .and => 2

inductive Cond where
  | atom (a : Atom)
  | bin (op : BOp) (l r : Cond)
  | paren (e : Cond)
deriving DecidableEq, Repr, Inhabited

inductive Tok where
  | atom (a : Atom)
  | op (o : BOp)
  | lp
  | rp
deriving DecidableEq, Repr, Inhabited

/-- Printing a TimeLiteral gives a quoted string; the parser reads it back as a StringLiteral. -/
def Atom.printed : Atom → Atom
  | .time op lit _ => .time op lit false
  | a => a

/-- `Expr.String()`: operands joined by the operator, parentheses only for `ParenExpr`. -/
def Cond.print : Cond → List Tok
  | .atom a => [.atom a.printed]
  | .bin o l r => l.print ++ .op o :: r.print
  | .paren e => .lp :: e.print ++ [.rp]

/-- The insertion loop of `ParseExpr`: descend the right spine while the operator there binds weaker
than the new one, then wrap. -/
def insert (t : Cond) (op : BOp) (rhs : Cond) : Cond :=
  match t with
  | .bin o l r => if o.prec ≥ op.prec then .bin op t rhs else .bin o l (insert r op rhs)
  | _ => .bin op t rhs

mutual
/-- `parseUnaryExpr`. -/
def parseUnary (fuel : Nat) (toks : List Tok) : Option (Cond × List Tok) :=
  match fuel, toks with
  | _, .atom a :: rest => some (.atom a, rest)
  | n+1, .lp :: rest =>
    match parseExpr n rest with
    | some (e, .rp :: rest') => some (.paren e, rest')
    | _ => none
  | _, _ => none
/-- `ParseExpr`: one unary expression, then the operator loop. -/
def parseExpr (fuel : Nat) (toks : List Tok) : Option (Cond × List Tok) :=
  match fuel with
  | 0 => none
  | n+1 =>
    match parseUnary n toks with
    | some (u, rest) => parseLoop n u rest
    | none => none
/-- The `for` loop of `ParseExpr` with the tree built so far. -/
def parseLoop (fuel : Nat) (root : Cond) (toks : List Tok) : Option (Cond × List Tok) :=
  match fuel, toks with
  | n+1, .op o :: rest =>
    match parseUnary n rest with
    | some (u, rest') => parseLoop n (insert root o u) rest'
    | none => none
  | 0, .op _ :: _ => none
  | _, _ => some (root, toks)
end

/-- Parse a complete condition. -/
def parse (toks : List Tok) : Option Cond :=
  match parseExpr (2 * toks.length + 2) toks with
  | some (e, []) => some e
  | _ => none

/-! ### Meaning -/

structure Env where
  truth : Nat → Bool
  time : Int

def TOp.eval (op : TOp) (t lit : Int) : Bool :=
  match op with
  | .ge => decide (lit ≤ t)
  | .lt => decide (t < lit)
  | .gt => decide (lit < t)
  | .le => decide (t ≤ lit)
  | .eq => decide (t = lit)
  | .ne => decide (t ≠ lit)

def Atom.eval (env : Env) : Atom → Bool
  | .opq id => env.truth id
  | .time op lit _ => op.eval env.time lit

def Cond.eval (env : Env) : Cond → Bool
  | .atom a => a.eval env
  | .bin .and l r => l.eval env && r.eval env
  | .bin .or l r => l.eval env || r.eval env
  | .paren e => e.eval env

/-! ### query.go -/

def geTL (s : Int) : Cond := .atom (.time .ge s true)
def ltTL (e : Int) : Cond := .atom (.time .lt e true)

/-- The user's condition as NewQuery puts it under the AND: a top-level OR gets a ParenExpr. -/
def wrapUser : Cond → Cond
  | .bin .or l r => .paren (.bin .or l r)
  | c => c

/-- NewQuery's condition (`user = none`: the statement had no WHERE). -/
def splice (user : Option Cond) (s e : Int) : Cond :=
  match user with
  | some c => .bin .and (wrapUser c) (.bin .and (geTL s) (ltTL e))
  | none => .bin .and (geTL s) (ltTL e)

/-- NewQuery as it was at snapshot ef0888e (no ParenExpr). -/
def spliceOld (user : Option Cond) (s e : Int) : Cond :=
  match user with
  | some c => .bin .and c (.bin .and (geTL s) (ltTL e))
  | none => .bin .and (geTL s) (ltTL e)

def Cond.natoms : Cond → Nat
  | .atom _ => 1
  | .bin _ l r => l.natoms + r.natoms
  | .paren e => e.natoms

/-- Atoms in the order `influxql.WalkFunc` reaches them (pre-order: node, LHS, RHS). -/
def Cond.atoms : Cond → List Atom
  | .atom a => [a]
  | .bin _ l r => l.atoms ++ r.atoms
  | .paren e => e.atoms

def Atom.setLit (v : Int) : Atom → Atom
  | .time op _ tl => .time op v tl
  | a => a

/-- `lit.Val = v` through the pointer to the `i`-th atom's literal. -/
def Cond.setLit (i : Nat) (v : Int) : Cond → Cond
  | .atom a => if i = 0 then .atom (a.setLit v) else .atom a
  | .bin o l r => if i < l.natoms then .bin o (l.setLit i v) r else .bin o l (r.setLit (i - l.natoms) v)
  | .paren e => .paren (e.setLit i v)

structure Query where
  cond : Cond
  startIdx : Nat
  stopIdx : Nat
  /-- the `time(len, offset)` dimension of the statement, if any -/
  gb : Option (Int × Int) := none
  /-- `groupByTimeDL/groupByOffsetDL` are the literals of the statement (not detached copies) -/
  gbLinked : Bool := true
  alignGroup : Bool := false
  /-- everything else the user configured that ends up in the text: fill option and the tag / `*` dimensions
  (an opaque rendering; NO operation of query.go touches it after newQueryNode) -/
  extra : String := ""
deriving DecidableEq, Repr, Inhabited

/-- NewQuery + Dimensions + AlignGroup as newQueryNode calls them (times are zero until the first tick). -/
def newQueryWith (sp : Option Cond → Int → Int → Cond) (user : Option Cond) (gb : Option (Int × Int)) (alignGroup : Bool)
    (extra : String := "") : Query :=
  let n := match user with
    | some c => c.natoms
    | none => 0
  { cond := sp user 0 0, startIdx := n, stopIdx := n + 1, gb := gb, gbLinked := true, alignGroup := alignGroup, extra := extra }

/-- `Query.Dimensions` (after the fix: commit of findings/C16.txt): a time dimension must be positive. At the
snapshot every length was accepted. -/
def validDims (gb : Option (Int × Int)) : Bool :=
  match gb with
  | some (len, _) => decide (0 < len)
  | none => true

/-- `SetStartTime` evaluates `… % groupByTimeDL.Val`: Go panics when that is zero (integer divide by zero) —
in `doQuery`'s own goroutine, which nothing recovers. -/
def Query.setStartTimeTraps (q : Query) : Bool :=
  q.alignGroup && q.gbLinked && (match q.gb with | some (len, _) => len == 0 | none => false)

def newQuery (user : Option Cond) (gb : Option (Int × Int)) (alignGroup : Bool) (extra : String := "") : Query :=
  newQueryWith splice user gb alignGroup extra

/-- `SetStartTime`: write the literal; under alignGroup recompute the group-by offset
(`s.Sub(time.Unix(0,0)) % groupByTimeDL.Val`, Go's truncated remainder). -/
def Query.setStartTime (q : Query) (s : Int) : Query :=
  { q with cond := q.cond.setLit q.startIdx s,
           gb := if q.alignGroup && q.gbLinked then q.gb.map (fun p => (p.1, Int.tmod s p.1)) else q.gb }

def Query.setStopTime (q : Query) (e : Int) : Query :=
  { q with cond := q.cond.setLit q.stopIdx e }

/-- State of the literal search of `Clone`. -/
structure Walk where
  start : Option Nat := none
  stop : Option Nat := none
  err : Bool := false
deriving DecidableEq, Repr, Inhabited

/-- The callback of `Clone`'s `WalkFunc` at the `i`-th atom. -/
def walkAtom (w : Walk) (i : Nat) : Atom → Walk
  | .time .ge _ true => if w.start.isNone then { w with start := some i } else { w with err := true }
  | .time .lt _ true => if w.stop.isNone then { w with stop := some i } else { w with err := true }
  | _ => w

def walkFrom (w : Walk) (i : Nat) : List Atom → Walk
  | [] => w
  | a :: rest => walkFrom (walkAtom w i a) (i + 1) rest

def walk (c : Cond) : Walk := walkFrom {} 0 c.atoms

/-- `Clone`: deep copy of the statement, literals re-found by the walk; `none` = it returned an error
(multiple or missing start/stop literals). `linked = false` is the snapshot's behaviour (detached copies of
the group-by literals). -/
def Query.cloneWith (linked : Bool) (q : Query) : Option Query :=
  let w := walk q.cond
  match w.start, w.stop, w.err with
  | some i, some j, false => some { q with startIdx := i, stopIdx := j, gbLinked := linked }
  | _, _, _ => none

def Query.clone := Query.cloneWith true

/-- What one issued query text says, after the receiver parsed it. -/
structure Issued where
  cond : Option Cond      -- `none`: the text does not parse
  gb : Option (Int × Int)
  extra : String := ""    -- fill option and tag / `*` dimensions
deriving DecidableEq, Repr, Inhabited

/-- `String()` as the database reads it. -/
def Query.issue (q : Query) : Issued := { cond := parse q.cond.print, gb := q.gb, extra := q.extra }

/-! ### batch.go: ticks -/

/-- Unix epoch − Go's zero time (year 1), in ns. -/
def zeroOff : Int := 62135596800 * 1000000000

/-- `Time.Truncate(d)`. -/
def goTruncate (t d : Int) : Int := if d ≤ 0 then t else t - (t + zeroOff) % d

/-- `Time.Round(d)` (halfway values round up). -/
def goRound (t d : Int) : Int :=
  if d ≤ 0 then t else
  let r := (t + zeroOff) % d
  if r + r < d then t - r else t + (d - r)

/-- `timeTicker.Next`. -/
def tickerNext (every : Int) (align : Bool) (now : Int) : Int :=
  if align then goTruncate now every + every else now + every

/-- `timeTicker.Next` at snapshot ef0888e. -/
def tickerNextOld (every : Int) (align : Bool) (now : Int) : Int :=
  let next := now + every
  if align then goRound next every else next

/-- The `k`-th time (k = 0, 1, …) the ticker started at `s0` sends: unaligned it is a `time.Ticker`;
aligned it first waits for `Truncate(now)+every`, then rounds the times of a `time.Ticker` created
then (`jitter` = how far the runtime's tick time is from the ideal one). -/
def liveTick (every : Int) (align : Bool) (s0 : Int) (k : Nat) (jitter : Int := 0) : Int :=
  if align then
    let first := goTruncate s0 every + every
    if k = 0 then first else goRound (first + k * every + jitter) every
  else s0 + (k + 1) * every + jitter

/-- Schedule selection of `newQueryNode`: `none` = rejected. -/
inductive Sched where
  | every (d : Int) (align : Bool)
  | cron
deriving DecidableEq, Repr, Inhabited

def chooseSched (every : Int) (align : Bool) (cronSet : Bool) : Option Sched :=
  if every ≠ 0 && cronSet then none
  else if every > 0 then some (.every every align)
  else if cronSet then some .cron
  else none

/-- The `*/k * * * * * *` cron schedule the driver uses as a concrete `next` (K = k seconds in ns). -/
def cronNext (K : Int) (t : Int) : Option Int := some ((t / K + 1) * K)

/-- A cron schedule that ENDS (a year field): its firing times as an ascending list; after the last one
`cronexpr.Next` answers the zero time (`none`). -/
def cronListNext (fires : List Int) (t : Int) : Option Int := fires.find? (fun f => decide (t < f))

/-! ### cron in the host's zone; the live cron ticker -/

/-- One day in ns. -/
def dayNs : Int := 86400000000000

/-- `cronexpr.Expression.Next(t)` for an expression that names seconds, minutes and hours (day, month and weekday
`*`). cronexpr reads the civil fields of its argument in the argument's OWN Location: `off` = that zone's offset
east of UTC in ns (its clock reads `t + off`), `tod` = the named times of day in ns since the zone's midnight,
ascending. First a later named time on the same day of that clock, else the first one of its next day. -/
def cronZoneNext (tod : List Int) (off : Int) (t : Int) : Option Int :=
  let l := t + off
  match tod.find? (fun x => decide (l % dayNs < x)) with
  | some x => some (l / dayNs * dayNs + x - off)
  | none => tod.head?.map (fun x => (l / dayNs + 1) * dayNs + x - off)

/-- Go's zero time (what `cronexpr.Next` answers when the schedule has ended) as Unix ns. -/
def zeroTime : Int := -zeroOff

/-- `cronTicker.Start`: `for { now := time.Now(); next := c.expr.Next(now); if next.IsZero() { <-c.closing; return };
select { case <-time.After(next.Sub(now)): c.ticker <- next … } }` with an ideal runtime (the tick is sent at `next`, the
loop continues from there). `next` = `c.expr.Next` in the Location of `time.Now()`, i.e. the host's zone. When the
schedule has ended `Next` is the zero time: the loop stops ticking (it waits to be closed). -/
def cronLiveTicks (next : Int → Option Int) : Nat → Int → List Int
  | 0, _ => []
  | n+1, now =>
    match next now with
    | none => []
    | some c => c :: cronLiveTicks next n c

/-- The loop as it was before the repair (no test for the zero time): `next.Sub(now)` is negative, `time.After` fires
at once and the ZERO TIME is sent — again and again (`Next` of the zero time is the zero time). -/
def cronLiveTicksOld (next : Int → Option Int) : Nat → Int → List Int
  | 0, _ => []
  | n+1, now =>
    match next now with
    | none => List.replicate (n + 1) zeroTime
    | some c => c :: cronLiveTicksOld next n c

/-- The times `QueryNode.Queries` walks and the times `cronTicker.Start` sends come from the same `c.expr.Next`, but
each evaluates it in the Location of ITS OWN argument: `start.Local()` there, `time.Now()` here — both the host's
zone `time.Local` in the code. `cronLiveIn zLive` / `histTicks (cronZoneNext tod zHist)` keep the two zones apart so
that the theorems can say what their agreement is worth. -/
def cronLiveIn (tod : List Int) (zLive : Int) (n : Nat) (s0 : Int) : List Int := cronLiveTicks (cronZoneNext tod zLive) n s0

/-! ### batch.go: queries -/

/-- One live tick of `doQuery`: `stop = tick − offset`, `start = stop − period`. -/
def tickRange (offset period tick : Int) : Int × Int := (tick - offset - period, tick - offset)

def Query.setRange (q : Query) (r : Int × Int) : Query := (q.setStartTime r.1).setStopTime r.2

/-- `doQuery` for one tick: the node's OWN query is mutated and its text issued. -/
def doQuery (offset period : Int) (q : Query) (tick : Int) : Query × Issued :=
  let q' := q.setRange (tickRange offset period tick)
  (q', q'.issue)

/-- The time `doQuery` stamps on a result batch: the query's stop, unless the query is grouped by time and the
result carried a point time (`ptMax` = the latest point time of the series, `none` = no points). -/
def batchTime (groupedByTime : Bool) (ptMax : Option Int) (stop : Int) : Int :=
  match ptMax with
  | none => stop
  | some t => if groupedByTime then t else stop

def liveRun (offset period : Int) : Query → List Int → List Issued
  | _, [] => []
  | q, t :: ts => let (q', out) := doQuery offset period q t; out :: liveRun offset period q' ts

/-- The loop of `QueryNode.Queries`: tick times it accepts. -/
def histTicks (next : Int → Option Int) (stop now offset : Int) : Nat → Int → List Int
  | 0, _ => []
  | fuel+1, cur =>
    match next cur with
    | none => []                                  -- `current.IsZero()`
    | some c =>
      if c > stop then [] else
      if c - offset > now then [] else
      c :: histTicks next stop now offset fuel c

/-- `stop.IsZero()` ⇒ `stop = now`. -/
def effStop (stop : Option Int) (now : Int) : Int := stop.getD now

def histFuel (start stop : Int) : Nat := (stop - start).toNat + 1

/-- `QueryNode.Queries(start, stop)` with the given `Clone`: `none` = a clone failed. -/
def queriesWith (clone : Query → Option Query) (next : Int → Option Int) (offset period : Int) (q : Query)
    (start : Int) (stop : Option Int) (now : Int) : Option (List Issued) :=
  let s := effStop stop now
  (histTicks next s now offset (histFuel start s) start).mapM (fun c =>
    (clone q).map (fun q' => (q'.setRange (tickRange offset period c)).issue))

def queries := queriesWith Query.clone

/-! ### task.go: checkDBRPs -/

abbrev DBRP := String × String

/-- `checkDBRPs`: every source of every query node must be declared. -/
def checkDBRPs (declared : List DBRP) (nodes : List (List DBRP)) : Bool :=
  nodes.all (fun srcs => srcs.all (fun d => declared.contains d))

/-- `StartBatching` / `BatchQueries`: nothing is issued unless the check passes; then every node issues
queries on its own sources. Result: the sources that get queried (`none` = refused). -/
def startBatching (declared : List DBRP) (nodes : List (List DBRP)) : Option (List (List DBRP)) :=
  if checkDBRPs declared nodes then some nodes else none

end Kap.C16
