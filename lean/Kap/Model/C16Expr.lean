/-
C16 — the little expression language in which /verif/extract/c16 writes down, on every run, the time arithmetic
it finds in the Go SOURCE of batch.go / query.go (lean/Kap/Gen/C16.lean), and its evaluator. A Go shape the
extractor does not recognise becomes `.unknown "<source>"`, which evaluates to `none`: the `gen_*` theorems of
Kap.Props.C16 then no longer check (fail closed). Times are ns since the Unix epoch, durations ns.
Core Lean only.
-/
import Kap.Model.C16
namespace Kap.C16

/-- time / duration expressions -/
inductive TE where
  | name (s : String)            -- a variable, field or argument-less call chain, by its Go source text
  | add (t d : TE)               -- t.Add(d)
  | neg (d : TE)                 -- -1 * d
  | truncate (t d : TE)          -- t.Truncate(d)
  | round (t d : TE)             -- t.Round(d)
  | sinceEpoch (t : TE)          -- t.Sub(time.Unix(0, 0))
  | tmod (a b : TE)              -- a % b
  | tickerNext (t : TE)          -- n.ticker.Next(t)
  | unknown (src : String)
deriving DecidableEq, Repr, Inhabited

/-- conditions -/
inductive BE where
  | flag (s : String)            -- a boolean variable / field / argument-less call
  | notNil (s : String)          -- s != nil
  | isZero (t : TE)              -- t.IsZero()
  | after (a b : TE)             -- a.After(b)
  | nonPositive (t : TE)         -- t <= 0
  | or (a b : BE)
  | and (a b : BE)
  | not (a : BE)
  | unknown (src : String)
deriving DecidableEq, Repr, Inhabited

/-- What the named quantities are in one situation. A time that is Go's zero time has no value and `zero = true`. -/
structure EEnv where
  val : String → Option Int := fun _ => none
  zero : String → Bool := fun _ => false
  flag : String → Option Bool := fun _ => none
  next : Int → Option Int := fun _ => none

def EEnv.set (ρ : EEnv) (k : String) (v : Int) : EEnv := { ρ with val := fun x => if x = k then some v else ρ.val x }

def TE.eval (ρ : EEnv) : TE → Option Int
  | .name s => ρ.val s
  | .add t d => do let a ← t.eval ρ; let b ← d.eval ρ; pure (a + b)
  | .neg d => do let a ← d.eval ρ; pure (-1 * a)
  | .truncate t d => do let a ← t.eval ρ; let b ← d.eval ρ; pure (goTruncate a b)
  | .round t d => do let a ← t.eval ρ; let b ← d.eval ρ; pure (goRound a b)
  | .sinceEpoch t => t.eval ρ
  | .tmod a b => do let x ← a.eval ρ; let y ← b.eval ρ; pure (Int.tmod x y)
  | .tickerNext t => do let a ← t.eval ρ; ρ.next a
  | .unknown _ => none

def BE.eval (ρ : EEnv) : BE → Option Bool
  | .flag s => ρ.flag s
  | .notNil s => ρ.flag (s ++ " != nil")
  | .isZero (.name s) => if ρ.zero s then some true else (ρ.val s).map (fun _ => false)
  | .isZero _ => none
  | .after a b => do let x ← a.eval ρ; let y ← b.eval ρ; pure (decide (x > y))
  | .nonPositive t => do let x ← t.eval ρ; pure (decide (x ≤ 0))
  | .or a b => do let x ← a.eval ρ; if x then pure true else b.eval ρ      -- Go's || short-circuits
  | .and a b => do let x ← a.eval ρ; if x then b.eval ρ else pure false
  | .not a => do let x ← a.eval ρ; pure (!x)
  | .unknown _ => none

/-- A situation given by association lists (what the `gen_*` theorems quantify over). -/
def envOf (vals : List (String × Int)) (flags : List (String × Bool) := []) (zeros : List String := [])
    (next : Int → Option Int := fun _ => none) : EEnv :=
  { val := fun k => (vals.find? (fun p => p.1 == k)).map (·.2),
    flag := fun k => (flags.find? (fun p => p.1 == k)).map (·.2),
    zero := fun k => zeros.contains k, next := next }

end Kap.C16
