/-
C17 — executable model of task/backend/scheduler/treescheduler.go (TreeScheduler).

Transcribed (same branches, same order of side effects):
  * `Item.Less`                        → `less`      (field order regenerated from the source: Kap/Gen/C17.lean)
  * btree Delete / ReplaceOrInsert      → `qdelete` / `qreplace` on a list kept in `less` order
  * `TreeScheduler.Schedule`            → `schedule`  (Next error ⇒ onErr + return err; timer re-arm only when
                                                      `s.when` is zero or after the new `when`; delete the old
                                                      queue entry through the uniqueness index; index := next+Offset)
  * `TreeScheduler.release` / `Release` → `release`
  * `iterator` (one visited item)       → `visit`     (stop at the first item with next+Offset after now;
                                                      NON-BLOCKING send: busy worker ⇒ skip; on send: toDelete,
                                                      `updateNext`; Next error ⇒ onErr and the item is dropped)
  * `process`                           → `process`   (Ascend, then all deletes, then all inserts)
  * one pass of the inner `for` of the main loop in `NewScheduler` → `loopIter` (empty ⇒ when := zero;
                                                      head not due ⇒ `timer.Reset(ts.Sub(it.When()))` — the NEGATIVE
                                                      duration of the source, `s.when` left as it is; otherwise
                                                      process, then empty / re-arm / go round again)
  * `work` (one finished execution)     → `done`      (executor result, onErr, UpdateLastScheduled(next), onErr)

Abstracted:
  * a schedule object (`cron` field) is an index `sc` into an oracle `Env.nx : sc → from → Option next`
    (github.com/influxdata/cron is trusted; the harness lists the occurrences in the op line);
  * the worker a task id hashes to is the oracle `Env.wk` (xxhash of the id modulo the number of workers);
  * goroutines: the main loop is the function `loopRun` that runs inner-loop passes until it either is back at its
    `select` with no tick to consume or spins without progress (`spinning`: every due item is blocked by a busy
    worker); a worker is busy from the channel send until the `done` action for its item (the harness gates every
    Execute call), so "the worker is not receiving" = `busy` has an entry for it;
  * the mock clock/timer of github.com/benbjohnson/clock: `timer` is the armed deadline, `tick` a value waiting in
    `timer.C`; a mock timer fires only when the clock is moved (`kick` = `Mock.Add(0)` under the scheduler mutex,
    which the harness performs while settling after every op, so that an armed deadline ≤ now behaves like a real
    timer); the clock is only moved while the scheduler mutex is held;
  * times are whole seconds (`Int`), as in `Item` (`when`, `next`, `Offset` are int64 seconds), except `s.when` and the
    timer deadline, which are milliseconds (a fractional offset reaches them through `nt.Add(sch.Offset())`), and the
    task's offset, which the model item keeps EXACT in milliseconds (`Item.off`): the two Go fields computed from it
    by `Schedule` are functions of it — `Offset` = `secUp off` (whole seconds, truncated toward zero, a positive
    sub-second rest rounded UP) and `roundedUp` = `early off` (1 iff there was such a rest).
-/
import Kap.Gen.C17
namespace Kap.C17

/-! ### association lists keyed by `Nat` (Go maps: `nextTime`, and the per-worker channel occupancy) -/

def aget {α} (l : List (Nat × α)) (k : Nat) : Option α :=
  match l with
  | [] => none
  | (k', v) :: r => if k' = k then some v else aget r k

def adel {α} (l : List (Nat × α)) (k : Nat) : List (Nat × α) := l.filter (fun p => p.1 ≠ k)

def aset {α} (l : List (Nat × α)) (k : Nat) (v : α) : List (Nat × α) := (k, v) :: adel l k

/-! ### items and the btree -/

/-- `Item.roundedUp` for an offset of `o` ms: `sch.Offset() > time.Duration(int64(sch.Offset().Seconds()))*time.Second`. -/
def early (o : Int) : Int := if o.tmod 1000 > 0 then 1 else 0

/-- `Item.Offset` for an offset of `o` ms: `int64(sch.Offset().Seconds())` (truncated toward zero), `++` when the
offset has a positive sub-second rest. -/
def secUp (o : Int) : Int := o.tdiv 1000 + early o

structure Item where
  whn : Int      -- `when`  = next + Offset at the time the item was made
  id : Nat
  sc : Nat       -- which schedule object (`cron`)
  next : Int
  off : Int      -- the task's offset in ms; Go keeps `Offset` = `secUp off` and `roundedUp` = `early off`
deriving DecidableEq, Repr, Inhabited

/-- Value of a field of `Item` (an `unknown` field, i.e. source the extractor did not recognise, has no meaning:
no lemma covers it). -/
def fld : Gen.Fld → Item → Int
  | .when, it => it.whn
  | .id, it => it.id
  | .next, it => it.next
  | .offset, it => secUp it.off
  | .unknown _, _ => 0

def lexLess : List Gen.Fld → Item → Item → Bool
  | [], _, _ => false
  | f :: r, a, b => decide (fld f a < fld f b) || (decide (fld f a = fld f b) && lexLess r a b)

/-- `Item.Less`, with the field order REGENERATED from the source on every run (`Gen.lessKeys`; in the snapshot
`it.when < it2.when || (it.when == it2.when && it.id < it2.id)`, i.e. `[when, id]`). -/
def less (a b : Item) : Bool := lexLess Gen.lessKeys a b

/-- btree key equality: neither is less. -/
def same (a b : Item) : Bool := !less a b && !less b a

/-- `BTree.Delete(key)`. -/
def qdelete (q : List Item) (k : Item) : List Item := q.filter (fun x => !same x k)

def qinsert : List Item → Item → List Item
  | [], x => [x]
  | y :: ys, x => if less x y then x :: y :: ys else y :: qinsert ys x

/-- `BTree.ReplaceOrInsert(item)`. -/
def qreplace (q : List Item) (x : Item) : List Item := qinsert (qdelete q x) x

/-- A key as built by `Item{id: taskID, when: when}`. -/
def key (id : Nat) (w : Int) : Item := { whn := w, id := id, sc := 0, next := 0, off := 0 }

/-! ### history events (ghost state: what an outside observer sees) -/

inductive Ev where
  | sched (id sc : Nat) (off last : Int)     -- a Schedule call succeeded (`off`: the Schedulable's offset in ms)
  | schedErr (id : Nat)                      -- a Schedule call returned the Next error
  | rel (id : Nat)                           -- a Release call returned
  | clock (now : Int)                        -- the clock was moved to `now`
  | start (id : Nat) (next runAt : Int)      -- Executor.Execute(id, scheduledFor = next, runAt) was entered
  | finish (id : Nat) (next : Int)           -- that Execute call returned (or panicked)
  | ckpt (id : Nat) (t : Int)                -- UpdateLastScheduled(id, t)
  | onErr (id : Nat)                         -- the ErrorFunc was called
deriving DecidableEq, Repr

structure Env where
  nx : Nat → Int → Option Int    -- schedule oracle: `Schedule.Next(from)`
  wk : Nat → Nat                 -- worker index of a task id

structure St where
  now : Int := 0
  queue : List Item := []
  index : List (Nat × Int) := []       -- `nextTime`
  swhen : Option Int := none           -- `s.when` in MILLISECONDS (none = zero time)
  timer : Option Int := none           -- armed deadline of `s.timer`, in MILLISECONDS
  tick : Bool := false                 -- a tick is waiting in `timer.C`
  spinning : Bool := false             -- the main loop is inside its inner `for`
  busy : List (Nat × Item) := []       -- worker ↦ item it is executing
  trace : List Ev := []                -- newest first
deriving Repr, DecidableEq

/-! ### Schedule / Release -/

/-- The timer part of `Schedule` for a new item whose exact due time is `wms` milliseconds
(`nt.Add(sch.Offset())`, the offset NOT truncated to seconds here):
`if s.when.IsZero() || s.when.After(nt) { s.when = nt; Stop(); Reset(0) if until <= 0 else Reset(until) }`. -/
def schedTimer (s : St) (wms : Int) : St :=
  let rearm : Bool := match s.swhen with
    | none => true
    | some sw => decide (sw > wms)
  if rearm then { s with swhen := some wms, timer := some (if wms - s.now * 1000 ≤ 0 then s.now * 1000 else wms) } else s

/-- `Schedule` of a Schedulable whose offset is `off` s + `frac` ms (`o` ms): the item is keyed and tested with
`Offset` = `secUp o` whole seconds (a positive sub-second rest rounded up), the timer is armed with the exact offset
(`nt.Add(sch.Offset())`). -/
def schedule (E : Env) (s : St) (id sc : Nat) (off last frac : Int) : St :=
  let o := off * 1000 + frac
  match E.nx sc last with
  | none => { s with trace := Ev.schedErr id :: Ev.onErr id :: s.trace }
  | some nt =>
    let it : Item := { whn := nt + secUp o, id := id, sc := sc, next := nt, off := o }
    let s1 := schedTimer s (nt * 1000 + o)
    let q : List Item := match aget s1.index id with
      | some w => qdelete s1.queue (key id w)
      | none => s1.queue
    { s1 with index := aset s1.index id (it.next + secUp it.off), queue := qreplace q it,
              trace := Ev.sched id sc o last :: s1.trace }

def release (s : St) (id : Nat) : St :=
  match aget s.index id with
  | none => { s with trace := Ev.rel id :: s.trace }
  | some w => { s with queue := qdelete s.queue (key id w), index := adel s.index id,
                       trace := Ev.rel id :: s.trace }

/-! ### process() -/

structure PAcc where
  busy : List (Nat × Item)
  toDel : List Item := []
  toIns : List Item := []
  evs : List Ev := []          -- newest first

/-- The body of `iterator` for one item that passed the due test.
`skip`: ids whose worker is found not receiving at the instant of the visit although it is idle by the time the
pass ends (a worker that finishes its run in the middle of an Ascend pass: the items of that worker visited before
that instant were skipped, the ones visited after it are dispatched). The theorems hold for every `skip`. -/
def visit (E : Env) (skip : List Nat) (a : PAcc) (it : Item) : PAcc :=
  if skip.contains it.id then a else
  match aget a.busy (E.wk it.id) with
  | some _ => a                       -- `default:` the worker is not receiving
  | none =>
    let a1 : PAcc := { a with busy := aset a.busy (E.wk it.id) it, toDel := a.toDel ++ [it],
                              evs := Ev.start it.id it.next (it.whn - early it.off) :: a.evs }   -- `it.runAt()`
    match E.nx it.sc it.next with
    | none => { a1 with evs := Ev.onErr it.id :: a1.evs }     -- dropped
    | some n => { a1 with toIns := a1.toIns ++ [{ it with next := n, whn := n + secUp it.off }] }

/-- The due test of `iterator`, REGENERATED from the source (`Gen.dueSum`, `Gen.dueStop`; in the snapshot
`if time.Unix(it.next+it.Offset, 0).After(ts) { return false }`, i.e. due iff next + Offset ≤ now). -/
def isDue (now : Int) (it : Item) : Bool :=
  match Gen.dueStop with
  | .after => decide ((Gen.dueSum.map (fun f => fld f it)).foldl (· + ·) 0 ≤ now)
  | .unknown _ => false

def applyDel (p : List (Nat × Int) × List Item) (d : Item) : List (Nat × Int) × List Item :=
  (adel p.1 d.id, qdelete p.2 d)

def applyIns (p : List (Nat × Int) × List Item) (i : Item) : List (Nat × Int) × List Item :=
  (aset p.1 i.id i.whn, qreplace p.2 i)

def process (E : Env) (skip : List Nat) (s : St) : St :=
  let due := s.queue.takeWhile (isDue s.now)
  let a := due.foldl (visit E skip) { busy := s.busy }
  let p := a.toDel.foldl applyDel (s.index, s.queue)
  let p := a.toIns.foldl applyIns p
  { s with busy := a.busy, index := p.1, queue := p.2, trace := a.evs ++ s.trace }

/-! ### the main loop -/

/-- One pass of the inner `for` (entered after a tick was consumed). Returns the state and whether the loop
goes round again (`true`) or `continue schedulerLoop`s back to the `select` (`false`). -/
def loopIter (E : Env) (skip : List Nat) (s : St) : St × Bool :=
  match s.queue.head? with
  | none => ({ s with swhen := none }, false)
  | some it =>
    if it.whn > s.now then
      -- `s.timer.Reset(ts.Sub(it.When()))`: now − when, a negative duration; `s.when` is not touched
      ({ s with timer := some (s.now * 1000 + (s.now * 1000 - it.whn * 1000)) }, false)
    else
      let s1 := process E skip s
      match s1.queue.head? with
      | none => ({ s1 with swhen := none }, false)
      | some it1 =>
        let untl := it1.whn - s1.now
        if untl > 0 then
          -- resetTimer(until)
          ({ s1 with swhen := some ((s1.now + untl) * 1000), timer := some ((s1.now + untl) * 1000) }, false)
        else ({ s1 with swhen := some (it1.whn * 1000) }, true)

/-- The main-loop goroutine runs until it blocks: at the `select` with no tick, or spinning in the inner loop
without being able to dispatch anything (a pass that dispatched nothing leaves the state unchanged). -/
def loopRun (E : Env) (skip : List Nat) : Nat → St → St
  | 0, s => s
  | f + 1, s =>
    if s.spinning then
      let r := loopIter E skip s
      if r.2 then
        (if r.1.trace.length = s.trace.length then r.1 else loopRun E skip f r.1)
      else loopRun E skip f { r.1 with spinning := false }
    else if s.tick then loopRun E skip f { s with tick := false, spinning := true }
    else s

/-- The mock timer fires when the clock is moved and its deadline has been reached (`Mock.Add(0)`); never while a
tick is still unconsumed (the harness does not move the clock then: the mock would deadlock). -/
def kick (s : St) : St :=
  if s.tick then s else
  match s.timer with
  | some d => if d ≤ s.now * 1000 then { s with tick := true, timer := none } else s
  | none => s

def fuel : Nat := 64

/-- What the harness does after every op: let the loop run, move the mock clock by 0, let the loop run (twice:
the second round is a no-op except that it fires a deadline that could not fire while a tick was pending). -/
def settle (E : Env) (skip : List Nat) (s : St) : St :=
  loopRun E skip fuel (kick (loopRun E skip fuel (kick (loopRun E skip fuel s))))

/-- Nothing can happen without a further API call / clock move / finished run: the main loop cannot move
(it is parked at its `select` with no tick, or spins without being able to dispatch), and if the timer fires
(possible only for a deadline re-armed in the past by the negative `Reset`) the pass it causes changes nothing. -/
def Quiescent (E : Env) (s : St) : Prop := loopRun E [] 1 s = s ∧ loopRun E [] 2 (kick s) = s

instance (E : Env) (s : St) : Decidable (Quiescent E s) := by unfold Quiescent; exact inferInstance

/-! ### a finished execution (`work`) -/

inductive Res where | ok | err | panic
deriving DecidableEq, Repr

def done (E : Env) (s : St) (id : Nat) (res : Res) (cpok : Bool) : St :=
  match aget s.busy (E.wk id) with
  | none => s
  | some it =>
    if it.id = id then
      let evs : List Ev := [Ev.finish id it.next] ++ (if res = Res.ok then [] else [Ev.onErr id]) ++
                           [Ev.ckpt id it.next] ++ (if cpok then [] else [Ev.onErr id])
      { s with busy := adel s.busy (E.wk id), trace := evs.reverse ++ s.trace }
    else s

/-! ### fine-grained actions (the transition system the theorems quantify over) -/

inductive Act where
  | sched (id sc : Nat) (off last frac : Int)
  | rel (id : Nat)
  | adv (d : Nat)                       -- the clock moves forward by d seconds
  | fire                                -- the (mock) timer fires
  | consume                             -- the main loop takes the tick and enters its inner loop
  | iter (skip : List Nat)              -- one pass of the inner loop
  | done (id : Nat) (res : Res) (cpok : Bool)
deriving Repr

def act (E : Env) (s : St) : Act → St
  | .sched id sc off last frac => schedule E s id sc off last frac
  | .rel id => release s id
  | .adv d => { s with now := s.now + d, trace := Ev.clock (s.now + d) :: s.trace }
  | .fire => kick s
  | .consume => if s.tick && !s.spinning then { s with tick := false, spinning := true } else s
  | .iter skip => if s.spinning then
      let r := loopIter E skip s
      { r.1 with spinning := r.2 }
    else s
  | .done id res cpok => done E s id res cpok

def runActs (E : Env) (s : St) (as : List Act) : St := as.foldl (act E) s

/-! ### harness ops (what the correspondence run executes; each is a composition of actions) -/

inductive Op where
  | sched (id sc : Nat) (off last frac : Int)
  | rel (id : Nat)
  | adv (d : Nat)
  | done (id : Nat) (res : Res) (cpok : Bool)
deriving Repr

/-- `adv` is refused by the harness while a tick is stuck behind a spinning loop. -/
def step (E : Env) (skip : List Nat) (s : St) : Op → St
  | .sched id sc off last frac => settle E skip (schedule E s id sc off last frac)
  | .rel id => settle E skip (release s id)
  | .adv d => if s.tick then settle E skip s
              else settle E skip { s with now := s.now + d, trace := Ev.clock (s.now + d) :: s.trace }
  | .done id res cpok => settle E skip (done E s id res cpok)

/-! ### the coordinator (task/backend/coordinator/coordinator.go)

What `TaskCreated` / `TaskUpdated` / `TaskDeleted` forward to the scheduler. The SHAPES are regenerated from the
source (`Gen.coordCreated/Updated/Deleted`, `Gen.pickTs`); an unrecognised shape yields `Fwd.unknown`, which nothing
accepts. `NewSchedule`'s alignment of the last-scheduled time for `@every N` is `alignTs` (Go's `Time.Truncate`
counts from year 1, hence `goEpoch`). -/

structure CTask where
  hasSchedule : Bool          -- `Cron != "" || Every != ""`
  every : Option Int          -- `@every N` seconds (aligned by NewSchedule); none for a cron line
  active : Bool               -- Status == "active"
  ls : Option Int             -- LatestScheduled (none = zero time)
  lc : Option Int             -- LatestCompleted (none = zero time)
deriving Repr

inductive Fwd where
  | sched (last : Int)        -- Schedule(task) with LastScheduled() = last
  | rel                       -- Release(id)
  | err                       -- the callback returns an error, nothing is forwarded
  | unknown
deriving DecidableEq, Repr

/-- Seconds between the zero `time.Time` (0001-01-01) and the Unix epoch. -/
def goEpoch : Int := 62135596800

def alignTs (every : Option Int) (ts : Int) : Int :=
  match every with
  | some n => if n > 0 then ts - (ts + goEpoch) % n else ts
  | none => ts

/-- `ts := CreatedAt; if LS.IsZero() || LS.Before(LC) { ts = LC } else if !LS.IsZero() { ts = LS }`
(`CreatedAt` is never used: one of the two branches always assigns). `none` = the zero time. -/
def pickTs (t : CTask) : Option (Option Int) :=
  match Gen.pickTs with
  | .completedIfScheduledZeroOrOlderElseScheduled =>
    some (match t.ls, t.lc with
      | none, lc => lc
      | some ls, some lc => if ls < lc then some lc else some ls
      | some ls, none => some ls)
  | .unknown _ => none

def schedFwd (t : CTask) : Fwd :=
  if !t.hasSchedule then .err else
  match pickTs t with
  | some (some ts) => .sched (alignTs t.every ts)
  | some none => .unknown        -- the zero time: not generated (year-1 arithmetic is outside the model)
  | none => .unknown

def applyShape : Gen.CoordShape → CTask → CTask → Fwd
  | .schedule, _, to => schedFwd to
  | .release, _, _ => .rel
  | .releaseIfBecameInactiveElseSchedule, frm, to =>
    match schedFwd to with
    | .sched last => if frm.active != to.active && !to.active then .rel else .sched last
    | f => f
  | .unknown _, _, _ => .unknown

inductive CKind where | created | updated | deleted
deriving DecidableEq, Repr

def coordFwd (k : CKind) (frm to : CTask) : Fwd :=
  match k with
  | .created => applyShape Gen.coordCreated to to
  | .updated => applyShape Gen.coordUpdated frm to
  | .deleted => applyShape Gen.coordDeleted frm to

/-- The scheduler action a forwarded call is (`sc`: the schedule object, `offms`: the task's offset in ms). -/
def fwdAct (id sc : Nat) (offms : Int) : Fwd → Option Act
  | .sched last => some (.sched id sc (offms.tdiv 1000) last (offms.tmod 1000))
  | .rel => some (.rel id)
  | _ => none

end Kap.C17
