/-
C18 — model of kapacitor's recording / replay path.

Transcribed (snapshot ef0888e + the `fix:` commits listed in findings/C18.txt):
* `replay.go` `WritePointForRecording` (`db \n rp \n <line> \n`), `edge/messages.go` `pointMessage.Bytes(precision)`
  (key, ' ', fields, ' ', `UnixNano()/multiplier`) together with the ESCAPING functions of
  influxdb/models it calls (`EscapeMeasurement ∘ unescapeMeasurement`, `escapeTag`, `escape.String`,
  `EscapeStringField`, `appendField`, tags with an empty value are skipped)                      → `record`;
* `replay.go` `readPointsFromIO`: `bufio.Scanner` line splitting (split at '\n', one trailing '\r' dropped, token
  limit 64 MiB since 45d6388), three lines per point, first parse error ends the reading                        → `spanNL`, `spanLP`, `readFrames`, `readStream`
  (the third line ends at the first line feed outside quoted field values since c988361; `readFramesOld` is the snapshot's reader);
* `replay.go` `replayStreamFromChan` / `replayBatchFromChan`: `diff = zero − first`, wait time, shifted time,
  batch `tmax` rule                                                                              → `replayStream`, `replayBatches`;
  the same loops as fed DIRECTLY from a channel by services/replay (`replay-live`), incl. the "Emit empty batch"
  branch of `replayBatchFromChan` that only this path reaches                                    → `liveStreamReplay`, `replayLiveGo`;
* `edge/messages.go` `bufferedBatchMessage.MarshalJSON/UnmarshalJSON`, `readBatchFromIO`: at VALUE level — numbers
  come back as float64 (plain `json.Unmarshal` into `interface{}`), a point without tags gets the batch's tags,
  dimensions = sorted tag keys, group id recomputed, empty batches are skipped by the reader    → `decodeBatch`, `readBatches`.

Abstracted / external (tied by the correspondence run only):
* the influxdb line-protocol PARSER (`models.ParsePointsWithPrecision`, ~900 lines): `parseLine` below is a small
  executable parser for the writer's image (split at unescaped separators, unescape, classify the value by its
  syntax; `skipWhitespace` before the measurement and before the field section as in `scanKey`/`scanFields`);
  theorems that need `parse ∘ write = id` take it as the explicit hypothesis `LPLaw` (proved on `LPDomain`);
  tied to the real parser on every recorded line and on lines generated from this grammar (harness `lp` cases);
* float ↔ text (`strconv` 'f' -1 / `ParseFloat`) is an oracle table carried in the op line (`FloatCodec`);
* `encoding/json` (string escaping, RFC 3339 times, map order): strings (valid UTF-8), bools, finite floats and
  times are assumed to round-trip; integers are decoded as the nearest float64 (`f64OfInt`, exact model of
  round-to-nearest-even);
* `time.Time{}` (the zero time) and int64 overflow of time arithmetic are outside the model (times are `Int` ns).
Core Lean only.
-/
import Kap.Basic
namespace Kap.C18

abbrev Bytes := List UInt8

def NL : UInt8 := 10
def CR : UInt8 := 13
def BS : UInt8 := 92      -- '\\'
def SP : UInt8 := 32
def COMMA : UInt8 := 44
def EQ : UInt8 := 61
def DQ : UInt8 := 34
def HASH : UInt8 := 35
def TAB : UInt8 := 9

/-- A field value. Floats are IEEE-754 bit patterns. -/
inductive FV where
  | float (bits : Nat)
  | int (v : Int)
  | str (s : Bytes)
  | bool (b : Bool)
deriving DecidableEq, Repr, Inhabited

/-- Field type tag (`float64`, `int64`, `string`, `bool`). -/
def FV.kind : FV → Nat
  | .float _ => 0 | .int _ => 1 | .str _ => 2 | .bool _ => 3

abbrev Tags := List (Bytes × Bytes)     -- sorted by key, distinct keys (a Go map)
abbrev Fields := List (Bytes × FV)      -- sorted by key, distinct keys (a Go map)

/-- `edge.PointMessage` as recorded from a stream (dimensions are empty on that path). -/
structure SPoint where
  db : Bytes
  rp : Bytes
  name : Bytes
  tags : Tags
  fields : Fields
  time : Int
deriving DecidableEq, Repr, Inhabited

/-- External float ↔ text conversion (`strconv.AppendFloat(v,'f',-1,64)` / `strconv.ParseFloat`). -/
structure FloatCodec where
  fmt : Nat → Bytes
  parse : Bytes → Option Nat

/-! ### The writer: `WritePointForRecording` / `pointMessage.Bytes` -/

/-- `bytes.Replace(in, [c], w, -1)`. -/
def replaceByte (c : UInt8) (w : Bytes) : Bytes → Bytes
  | [] => []
  | x :: xs => if x = c then w ++ replaceByte c w xs else x :: replaceByte c w xs

/-- `bytes.Replace(in, [a,b], [w], -1)` (left to right, non-overlapping). -/
def replacePair (a b w : UInt8) : Bytes → Bytes
  | x :: y :: rest => if x = a ∧ y = b then w :: replacePair a b w rest else x :: replacePair a b w (y :: rest)
  | l => l

/-- `models.unescapeMeasurement`. -/
def unescMeas (s : Bytes) : Bytes := replacePair BS SP SP (replacePair BS COMMA COMMA s)
/-- `models.EscapeMeasurement`. -/
def escMeas (s : Bytes) : Bytes := replaceByte SP [BS, SP] (replaceByte COMMA [BS, COMMA] s)
/-- `models.escapeTag`. -/
def escTag (s : Bytes) : Bytes := replaceByte EQ [BS, EQ] (replaceByte SP [BS, SP] (replaceByte COMMA [BS, COMMA] s))
/-- `models.unescapeTag`. -/
def unescTag (s : Bytes) : Bytes := replacePair BS EQ EQ (replacePair BS SP SP (replacePair BS COMMA COMMA s))
/-- `escape.String` (one pass `strings.Replacer` over `,` `"` space `=`). -/
def escKey (s : Bytes) : Bytes :=
  s.flatMap (fun c => if c = COMMA ∨ c = DQ ∨ c = SP ∨ c = EQ then [BS, c] else [c])
/-- `models.EscapeStringField` (one pass over `"` and `\`). -/
def escStr (s : Bytes) : Bytes := s.flatMap (fun c => if c = DQ ∨ c = BS then [BS, c] else [c])

/-- `models.unescapeStringField`. -/
def unescStr : Bytes → Bytes
  | x :: y :: rest =>
    if x = BS ∧ y = BS then BS :: unescStr rest
    else if x = BS ∧ y = DQ then DQ :: unescStr rest
    else x :: unescStr (y :: rest)
  | l => l

/-- `escape.UnescapeString` (one pass replacer over the four pairs). -/
def unescKey : Bytes → Bytes
  | x :: y :: rest =>
    if x = BS ∧ (y = COMMA ∨ y = DQ ∨ y = SP ∨ y = EQ) then y :: unescKey rest
    else x :: unescKey (y :: rest)
  | l => l

/-- Decimal digits of a natural number (ASCII); `fuel` only makes the recursion structural. -/
def natDigitsAux : Nat → Nat → Bytes
  | 0, _ => []
  | fuel + 1, n => if n < 10 then [UInt8.ofNat (48 + n)] else natDigitsAux fuel (n / 10) ++ [UInt8.ofNat (48 + n % 10)]

def natDigits (n : Nat) : Bytes := natDigitsAux (n + 1) n

/-- `strconv.FormatInt(v, 10)`. -/
def intDigits (v : Int) : Bytes := if v < 0 then 45 :: natDigits v.natAbs else natDigits v.natAbs

/-- `appendField`'s rendering of the value. -/
def renderFV (F : FloatCodec) : FV → Bytes
  | .float b => F.fmt b
  | .int v => intDigits v ++ [105]                  -- 'i'
  | .str s => DQ :: escStr s ++ [DQ]
  | .bool true => [116, 114, 117, 101]              -- true
  | .bool false => [102, 97, 108, 115, 101]         -- false

def joinWith (sep : UInt8) : List Bytes → Bytes
  | [] => []
  | [x] => x
  | x :: rest => x ++ sep :: joinWith sep rest

/-- `models.MakeKey(name, NewTags(tags))`. -/
def keyBytes (name : Bytes) (tags : Tags) : Bytes :=
  escMeas (unescMeas name) ++
    tags.flatMap (fun kv => if kv.2.isEmpty then [] else COMMA :: escTag kv.1 ++ EQ :: escTag kv.2)

/-- `Fields.MarshalBinary`. -/
def fieldBytes (F : FloatCodec) (fs : Fields) : Bytes :=
  joinWith COMMA (fs.map (fun kv => escKey kv.1 ++ EQ :: renderFV F kv.2))

/-- `pointMessage.Bytes(precision)` for a non-zero time; `mult = GetPrecisionMultiplier(precision)`
(Go's `/` truncates toward zero). -/
def lineOf (F : FloatCodec) (mult : Int) (p : SPoint) : Bytes :=
  keyBytes p.name p.tags ++ SP :: fieldBytes F p.fields ++ SP :: intDigits (p.time.tdiv mult)

/-- One frame of a stream recording. -/
structure Frame where
  db : Bytes
  rp : Bytes
  line : Bytes
deriving DecidableEq, Repr, Inhabited

/-- `WritePointForRecording` on raw components. -/
def Frame.bytes (f : Frame) : Bytes := f.db ++ NL :: f.rp ++ NL :: f.line ++ [NL]

def writeFrames (fs : List Frame) : Bytes := fs.flatMap Frame.bytes

def frameOf (F : FloatCodec) (mult : Int) (p : SPoint) : Frame := ⟨p.db, p.rp, lineOf F mult p⟩

/-- The whole stream recording. -/
def record (F : FloatCodec) (mult : Int) (ps : List SPoint) : Bytes := writeFrames (ps.map (frameOf F mult))

/-! ### The reader: `bufio.Scanner` + three lines per point -/

/-- `maxRecordingLineSize` (64 MiB), the Scanner's token limit since the `fix:` commit 45d6388. -/
def maxTok : Nat := 67108864

/-- `bufio.MaxScanTokenSize` (64 KiB), the limit of the snapshot. -/
def maxTokOld : Nat := 65536

/-- `dropCR`. -/
def dropCR (l : Bytes) : Bytes :=
  match l.getLast? with
  | some c => if c = CR then l.dropLast else l
  | none => l

/-- `bufio.ScanLines`' search: the bytes before the first '\n', and what follows it (`none`: no '\n'). -/
def spanNL : Bytes → Bytes × Option Bytes
  | [] => ([], none)
  | c :: r => if c = NL then ([], some r) else ((c :: (spanNL r).1), (spanNL r).2)

/-- State of `scanLineProtocolLine` (replay.go, since the `fix:` commit c988361): inside a quoted field value?
past the first unescaped space? how many unquoted `=` and `,` were seen in the field section? -/
structure LPState where
  quoted : Bool := false
  fields : Bool := false
  equals : Nat := 0
  commas : Nat := 0
deriving DecidableEq, Repr, Inhabited

/-- One byte that is neither a backslash nor the terminating line feed (the `switch` of `scanLineProtocolLine`). -/
def lpStep (s : LPState) (c : UInt8) : LPState :=
  if c = SP ∧ !s.fields then { s with fields := true }
  else if !s.fields ∨ c = NL then s
  else if c = EQ ∧ !s.quoted then { s with equals := s.equals + 1 }
  else if c = COMMA ∧ !s.quoted then { s with commas := s.commas + 1 }
  else if c = DQ ∧ s.equals > s.commas then { s with quoted := !s.quoted }
  else s

/-- `scanLineProtocolLine`'s search: the bytes before the first '\n' that is not inside a quoted field value (a
backslash protects the byte after it), and what follows it. -/
def spanLP : LPState → Bytes → Bytes × Option Bytes
  | _, [] => ([], none)
  | s, [c] => if c = BS then ([c], none) else if c = NL ∧ !s.quoted then ([], some []) else ([c], none)
  | s, c :: d :: rest =>
    if c = BS then (c :: d :: (spanLP s rest).1, (spanLP s rest).2)
    else if c = NL ∧ !s.quoted then ([], some (d :: rest))
    else (c :: (spanLP (lpStep s c) (d :: rest)).1, (spanLP (lpStep s c) (d :: rest)).2)

inductive Tok where
  | eof                              -- no more input
  | tooLong                          -- `bufio.ErrTooLong`
  | tok (raw : Bytes) (rest : Bytes) -- a token (before `dropCR`) and the unread input
deriving Repr

/-- One `Scanner.Scan()` with the given search: at the end of the input a non-empty remainder is a token. -/
def takeTok (max : Nat) (span : Bytes → Bytes × Option Bytes) (data : Bytes) : Tok :=
  if data.isEmpty then .eof
  else if (span data).1.length ≥ max then .tooLong
  else .tok (span data).1 ((span data).2.getD [])

/-- `readPointsFromIO`'s loop over the recording: database line, retention policy line, line protocol line (the
split function switches to the quote-aware search for every third token); `false` = the reader reports an error
(a scan error, or "expected another line"). `fuel` only makes the recursion structural. -/
def readFramesAux (max : Nat) : Nat → Bytes → List Frame × Bool
  | 0, _ => ([], false)
  | fuel + 1, data =>
    match takeTok max spanNL data with
    | .eof => ([], true)
    | .tooLong => ([], false)
    | .tok db r1 =>
      match takeTok max spanNL r1 with
      | .tok rp r2 =>
        match takeTok max (spanLP {}) r2 with
        | .tok ln r3 =>
          (⟨dropCR db, dropCR rp, dropCR ln⟩ :: (readFramesAux max fuel r3).1, (readFramesAux max fuel r3).2)
        | _ => ([], false)
      | _ => ([], false)

/-- Framing layer of `readPointsFromIO`. -/
def readFrames (max : Nat) (data : Bytes) : List Frame × Bool := readFramesAux max (data.length + 1) data

/-! #### The snapshot's reader (before c988361) -/

/-- Split at every '\n': the '\n'-terminated lines, and the (possibly empty) unterminated tail. -/
def splitNL : Bytes → List Bytes × Bytes
  | [] => ([], [])
  | c :: rest =>
    if c = NL then ([] :: (splitNL rest).1, (splitNL rest).2)
    else match splitNL rest with
      | ([], t) => ([], c :: t)
      | (l :: ls, t) => ((c :: l) :: ls, t)

/-- All raw lines of the input in order (`'\n'`-terminated ones, then a non-empty unterminated tail). -/
def rawLines (data : Bytes) : List Bytes :=
  let (ls, tail) := splitNL data
  if tail.isEmpty then ls else ls ++ [tail]

/-- `bufio.Scanner` with `ScanLines`: tokens until the first line that does not fit the buffer
(`true` = the scan stopped with `ErrTooLong`). -/
def scanLines (max : Nat) : List Bytes → List Bytes × Bool
  | [] => ([], false)
  | l :: rest =>
    if l.length ≥ max then ([], true)
    else let (ls, e) := scanLines max rest; (dropCR l :: ls, e)

/-- Group the scanned lines in threes (`readPointsFromIO`'s loop); `false` = the reader reports an error
(a scan error, or "expected another line"). -/
def frames : List Bytes → Bool → List Frame × Bool
  | db :: rp :: ln :: rest, e => let (fs, ok) := frames rest e; (⟨db, rp, ln⟩ :: fs, ok)
  | [], e => ([], !e)
  | _, _ => ([], false)

/-- Framing layer of `readPointsFromIO` AS IT WAS IN THE SNAPSHOT (plain `bufio.ScanLines` for all three lines): kept
for the theorems that characterise the defect repaired by c988361. -/
def readFramesOld (max : Nat) (data : Bytes) : List Frame × Bool :=
  let (ls, e) := scanLines max (rawLines data)
  frames ls e

/-! ### Line protocol parsing (small executable parser for the writer's image) -/

/-- Index-free split at the first UNESCAPED occurrence of a stop byte: a backslash protects the byte after it.
`q = true`: double quotes toggle a quoted region in which stop bytes do not count. -/
def splitUnesc (stop : UInt8) (q : Bool) : Bytes → Bool → Bytes × Option Bytes
  | [], _ => ([], none)
  | [c], inq => if c = stop ∧ !inq then ([], some []) else ([c], none)
  | c :: d :: rest, inq =>
    if c = BS then
      let (a, b) := splitUnesc stop q rest inq
      (c :: d :: a, b)
    else if q ∧ c = DQ then
      let (a, b) := splitUnesc stop q (d :: rest) (!inq)
      (c :: a, b)
    else if c = stop ∧ !inq then ([], some (d :: rest))
    else
      let (a, b) := splitUnesc stop q (d :: rest) inq
      (c :: a, b)

/-- Split at every unescaped stop byte. -/
def splitAllUnesc (stop : UInt8) (q : Bool) (fuel : Nat) (s : Bytes) : List Bytes :=
  match fuel with
  | 0 => [s]
  | fuel + 1 =>
    match splitUnesc stop q s false with
    | (a, none) => [a]
    | (a, some rest) => a :: splitAllUnesc stop q fuel rest

def parseNat? (s : Bytes) : Option Nat :=
  if s.isEmpty then none else
  s.foldl (fun (acc : Option Nat) (c : UInt8) => match acc with
    | some n => if 48 ≤ c ∧ c ≤ 57 then some (n * 10 + (c.toNat - 48)) else none
    | none => none) (some 0)

def parseInt? (s : Bytes) : Option Int :=
  match s with
  | 45 :: rest => (parseNat? rest).map (fun n => -(n : Int))
  | _ => (parseNat? s).map (fun n => (n : Int))

def boolLits : List (Bytes × Bool) :=
  [([116], true), ([84], true), ([116, 114, 117, 101], true), ([84, 114, 117, 101], true), ([84, 82, 85, 69], true),
   ([102], false), ([70], false), ([102, 97, 108, 115, 101], false), ([70, 97, 108, 115, 101], false), ([70, 65, 76, 83, 69], false)]

/-- Classify and decode one field value by its syntax (quotes ⇒ string, trailing `i` ⇒ integer,
boolean literal ⇒ bool, otherwise float). -/
def parseFV (F : FloatCodec) (v : Bytes) : Option FV :=
  match v with
  | [] => none
  | c :: rest =>
    if c = DQ then
      match rest.getLast? with
      | some l => if l = DQ ∧ rest.length ≥ 1 then some (.str (unescStr rest.dropLast)) else none
      | none => none
    else if v.getLast? = some 105 then
      (parseInt? v.dropLast).bind (fun i => if -(2:Int)^63 ≤ i ∧ i < (2:Int)^63 then some (.int i) else none)
    else match boolLits.lookup v with
      | some b => some (.bool b)
      | none => (F.parse v).map .float

def skipWS : Bytes → Bytes
  | c :: rest => if c = SP ∨ c = TAB ∨ c = 0 then skipWS rest else c :: rest
  | [] => []

inductive LineResult where
  | point (name : Bytes) (tags : Tags) (fields : Fields) (time : Int)
  | nopoint                     -- blank line or comment: `ParsePointsWithPrecision` returns no point and no error
  | error
deriving DecidableEq, Repr, Inhabited

def parseKV {α} (stop : UInt8) (q : Bool) (fk : Bytes → Bytes) (fv : Bytes → Option α) (s : Bytes) : Option (Bytes × α) :=
  match splitUnesc stop q s false with
  | (k, some v) => if k.isEmpty then none else (fv v).map (fun x => (fk k, x))
  | _ => none

/-- insertion of a pair into a key-sorted list (the parser sorts tags; `Fields()` builds a map). -/
def insertKV {α} (kv : Bytes × α) : List (Bytes × α) → List (Bytes × α)
  | [] => [kv]
  | x :: xs => if kv.1 < x.1 then kv :: x :: xs else if kv.1 = x.1 then kv :: xs else x :: insertKV kv xs

def sortKV {α} (l : List (Bytes × α)) : List (Bytes × α) := l.foldl (fun acc kv => insertKV kv acc) []

/-- `ParsePointsWithPrecision(line, time.Time{}, precision)` restricted to one line, then `mps[0]`. -/
def parseLine (F : FloatCodec) (mult : Int) (line : Bytes) : LineResult :=
  let s := skipWS line
  match s with
  | [] => .nopoint
  | c :: _ =>
    if c = HASH then .nopoint else
    match splitUnesc SP false s false with
    | (key, some rest) =>
      -- `scanFields` starts with `skipWhitespace` (space, TAB, NUL): a field key that begins with TAB or NUL loses it
      let rest := skipWS rest
      match splitUnesc SP true rest false with
      | (flds, trest) =>
        let tb := ((trest.getD []).dropWhile (· = SP))
        -- trailing spaces after the timestamp are allowed
        let tb := (tb.reverse.dropWhile (· = SP)).reverse
        let parts := splitAllUnesc COMMA false key.length key
        match parts with
        | [] => .error
        | m :: tagParts =>
          if m.isEmpty then .error else
          let tags := tagParts.mapM (parseKV EQ false unescTag (fun v => if v.isEmpty then none else some (unescTag v)))
          let fields := (splitAllUnesc COMMA true flds.length flds).mapM (parseKV EQ false unescKey (parseFV F))
          match tags, fields, parseInt? tb with
          | some tags, some fields, some t =>
            if fields.isEmpty then .error else .point (unescMeas m) (sortKV tags) (sortKV fields) (t * mult)
          | _, _, _ => .error
    | _ => .error

inductive Status where | ok | err | panic
deriving DecidableEq, Repr, Inhabited

/-- `readPointsFromIO`: the points sent on the channel, and how the reader ended. -/
def parseFrames (F : FloatCodec) (mult : Int) : List Frame → Bool → List SPoint × Status
  | [], ok => ([], if ok then .ok else .err)
  | f :: rest, ok =>
    match parseLine F mult f.line with
    | .point n t fl tm =>
      let (ps, st) := parseFrames F mult rest ok
      (⟨f.db, f.rp, n, t, fl, tm⟩ :: ps, st)
    | .nopoint => ([], .err)      -- since the `fix:` commit (before: `mps[0]` index out of range ⇒ process dies)
    | .error => ([], .err)

def readStream (F : FloatCodec) (mult : Int) (data : Bytes) : List SPoint × Status :=
  let (fs, ok) := readFrames maxTok data
  parseFrames F mult fs ok

/-! ### Replay time arithmetic -/

/-- One delivered stream point together with the argument of the `clck.Until` call before it. -/
structure SOut where
  p : SPoint
  until_ : Int
deriving DecidableEq, Repr, Inhabited

/-- `replayStreamFromChan`: `start`/`diff` are set by the first point. -/
def replayStreamGo (zero : Int) (recTime : Bool) : Option Int → List SPoint → List SOut
  | _, [] => []
  | diff?, p :: rest =>
    let diff := match diff? with | some d => d | none => zero - p.time
    let wait := p.time + diff
    ⟨if recTime then p else { p with time := wait }, wait⟩ :: replayStreamGo zero recTime (some diff) rest

def replayStream (zero : Int) (recTime : Bool) (ps : List SPoint) : List SOut := replayStreamGo zero recTime none ps

/-- Result of a whole replay as the collector sees it. -/
structure Replayed (α : Type) where
  status : Status
  items : List α
  closes : Nat          -- number of `collector.Close()` calls
  closedAt : Nat        -- number of items delivered before the first `Close()`
deriving Repr

/-- Record with `WritePointForRecording`, replay with `ReplayStreamFromIO`. -/
def streamRoundTrip (F : FloatCodec) (mult : Int) (zero : Int) (recTime : Bool) (ps : List SPoint) : Replayed SOut :=
  let (qs, st) := readStream F mult (record F mult ps)
  let items := replayStream zero recTime qs
  ⟨st, items, 1, items.length⟩

/-! ### Batches -/

structure BPoint where
  tags : Tags
  fields : Fields
  time : Int
deriving DecidableEq, Repr, Inhabited

/-- `edge.BufferedBatchMessage` built by `NewBeginBatchMessage` (dimensions = sorted tag keys). -/
structure Batch where
  name : Bytes
  byName : Bool
  tmax : Int
  tags : Tags
  points : List BPoint
deriving DecidableEq, Repr, Inhabited

/-- Position of the highest set bit + 1. -/
def bitLen (n : Nat) : Nat := if n = 0 then 0 else Nat.log2 n + 1

/-- The float64 nearest to a natural number `n < 2^64` (round half to even), as (biased exponent, mantissa). -/
def f64OfNat (n : Nat) : Nat :=
  if n = 0 then 0 else
  let len := bitLen n
  if len ≤ 53 then
    -- exact: mantissa = n shifted left, exponent = len-1
    let m := n <<< (53 - len)
    ((len - 1 + 1023) <<< 52) ||| (m - (1 <<< 52))
  else
    let sh := len - 53
    let q := n >>> sh
    let r := n - (q <<< sh)
    let half := 1 <<< (sh - 1)
    let q' := if r > half ∨ (r = half ∧ q % 2 = 1) then q + 1 else q
    -- a carry out of the mantissa bumps the exponent
    if q' = (1 <<< 53) then ((len + 1023) <<< 52) else ((len - 1 + 1023) <<< 52) ||| (q' - (1 <<< 52))

/-- Bits of the float64 that `encoding/json` produces for the decimal literal of an int64. -/
def f64OfInt (v : Int) : Nat := if v < 0 then (1 <<< 63) ||| f64OfNat v.natAbs else f64OfNat v.natAbs

/-- What a field value looks like after `json.Marshal` → `json.Unmarshal` into `interface{}`. -/
def jsonFV : FV → FV
  | .int v => .float (f64OfInt v)
  | x => x

/-- `models.ToGroupID(name, tags, Dimensions{ByName, TagNames = keys of tags})`. -/
def groupID (name : Bytes) (byName : Bool) (tags : Tags) : Bytes :=
  if tags.isEmpty then (if byName then name else [])
  else (if byName then name ++ [NL] else []) ++ joinWith COMMA (tags.map (fun kv => kv.1 ++ EQ :: kv.2))

/-- `MarshalJSON` ; `UnmarshalJSON`. -/
def decodeBatch (b : Batch) : Batch :=
  { b with points := b.points.map (fun p =>
      { p with fields := p.fields.map (fun kv => (kv.1, jsonFV kv.2)),
               tags := if p.tags.isEmpty then b.tags else p.tags }) }

/-- `readBatchFromIO` on the output of `WriteBatchForRecording`. -/
def readBatches (bs : List Batch) : List Batch := (bs.map decodeBatch).filter (fun b => !b.points.isEmpty)

structure BOut where
  b : Batch
  until_ : Int
deriving DecidableEq, Repr, Inhabited

def lastTime (ps : List BPoint) : Int := match ps.getLast? with | some p => p.time | none => 0

/-- `points[0].Time()` (0 stands for the absent first point of an empty batch, which never gets here). -/
def Batch.firstTime (b : Batch) : Int := match b.points with | p :: _ => p.time | [] => 0

/-- `replayBatchFromChan` on non-empty batches (the only ones `readBatchFromIO` lets through).
`shiftTmax = true` is the code since the `fix:` commit (tmax shifted like the points), `false` the snapshot. -/
def replayBatchesGo (shiftTmax : Bool) (zero : Int) (recTime : Bool) : Option Int → List Batch → List BOut
  | _, [] => []
  | diff?, b :: rest =>
    let diff := match diff? with
      | some d => d
      | none => zero - b.firstTime
    let pts := if recTime then b.points else b.points.map (fun p => { p with time := p.time + diff })
    let lastT := if recTime then lastTime b.points + diff else lastTime pts
    let tmax0 := if !recTime ∧ shiftTmax then b.tmax + diff else b.tmax
    let lpt := lastTime pts
    let tmax := if tmax0 < lpt then lpt else tmax0
    ⟨{ b with points := pts, tmax := tmax }, lastT⟩ :: replayBatchesGo shiftTmax zero recTime (some diff) rest

def batchRoundTrip (shiftTmax : Bool) (zero : Int) (recTime : Bool) (bs : List Batch) : Replayed BOut :=
  let items := replayBatchesGo shiftTmax zero recTime none (readBatches bs)
  ⟨.ok, items, 1, items.length⟩

/-! ### Live replays: `ReplayStreamFromChan` / `ReplayBatchFromChan` fed directly from a channel

`services/replay` feeds the replay loops directly (no recording in between) for `replay-live`: a batch task's queries
(`doLiveBatchReplay` → `startRecordBatch`, batch time = the query's stop time) and a query (`doLiveQueryReplay` →
`runQueryStream` / `runQueryBatch`, batch time = zero time for a series without values). Nothing is written or parsed
there, so the deliveries are the items themselves — every name, every field type — with the times shifted; and batches
WITHOUT points reach `replayBatchFromChan` (its "Emit empty batch" branch; `readBatchFromIO` never lets one through). -/

/-- Record nothing, replay with `ReplayStreamFromChan`. -/
def liveStreamReplay (zero : Int) (recTime : Bool) (ps : List SPoint) : Replayed SOut :=
  let items := replayStream zero recTime ps
  ⟨.ok, items, 1, items.length⟩

/-- A batch on a channel: `hasT = false` is `b.Begin().Time().IsZero()` (then `b.tmax` is meaningless, 0). -/
structure LBatch where
  b : Batch
  hasT : Bool
deriving DecidableEq, Repr, Inhabited

/-- One delivered batch of a live replay: the batch, whether its batch time is a non-zero time, and the argument of the
`clck.Until` call before it (`none`: the empty-batch branch does not wait). -/
structure LOut where
  b : Batch
  hasT : Bool
  until_ : Option Int
deriving DecidableEq, Repr, Inhabited

/-- `replayBatchFromChan` on everything a channel can carry. State: `diff?` (`start`/`diff`, set by the first item that
carries a time) and `prev` (the variable `tmax`: batch time of the last delivered batch that had one, `none` = zero time).
`fixed = true` is the code since the `fix:` commit for empty batches: the batch time of a batch without points is
shifted like every other timestamp and, when it is the first timestamp of the replay, anchors the offset;
`fixed = false` is the snapshot (`tmax = b.Begin().Time().UTC()` unshifted, `start` untouched). -/
def replayLiveGo (fixed : Bool) (zero : Int) (recTime : Bool) : Option Int → Option Int → List LBatch → List LOut
  | _, _, [] => []
  | diff?, prev, lb :: rest =>
    let b := lb.b
    if b.points.isEmpty then
      if !lb.hasT then
        -- "Set tmax to last batch if not set."
        ⟨{ b with tmax := prev.getD 0 }, prev.isSome, none⟩ :: replayLiveGo fixed zero recTime diff? prev rest
      else
        let diff?' := if fixed then some (diff?.getD (zero - b.tmax)) else diff?
        let t := if fixed ∧ !recTime then b.tmax + diff?'.getD 0 else b.tmax
        ⟨{ b with tmax := t }, true, none⟩ :: replayLiveGo fixed zero recTime diff?' (some t) rest
    else
      let diff := diff?.getD (zero - b.firstTime)
      let pts := if recTime then b.points else b.points.map (fun p => { p with time := p.time + diff })
      let lastT := if recTime then lastTime b.points + diff else lastTime pts
      let lpt := lastTime pts
      -- a zero batch time is before every point
      let tmax := if lb.hasT then (let t0 := if recTime then b.tmax else b.tmax + diff; if t0 < lpt then lpt else t0) else lpt
      ⟨{ b with points := pts, tmax := tmax }, true, some lastT⟩ :: replayLiveGo fixed zero recTime (some diff) (some tmax) rest

/-- Record nothing, replay one source with `ReplayBatchFromChan`. -/
def liveBatchReplay (fixed : Bool) (zero : Int) (recTime : Bool) (bs : List LBatch) : Replayed LOut :=
  let items := replayLiveGo fixed zero recTime none none bs
  ⟨.ok, items, 1, items.length⟩

/-! ### The writer's state: a sink that may fail, and a scratch buffer shared by the recordings of one process

`WritePointForRecording(w, p, precision)` (replay.go) is three writes on `w` (`db LF rp LF`, the line, `LF`) and stops at
the first error; `doRecordStream` (services/replay) ignores the error and hands every further point to it. The writer
keeps NOTHING between two calls: a recording is a function of its own points and its own sink. `writePointScratch` is
the variant that assembles the record in a scratch buffer shared by all recordings (a pooled `bytes.Buffer` written
with `WriteTo`, which empties the buffer only when the write succeeded completely): the state is a parameter, and
`reset` says whether the buffer is emptied after a failed write too. -/

/-- A sink that takes `room` more bytes (`none`: any number) and then fails for good (volume full; the error of the
gzip writer of a recording is sticky). -/
structure Sink where
  out : Bytes := []
  room : Option Nat := none
deriving DecidableEq, Repr

/-- `w.Write(b)`: the sink after the call and the number of bytes it took (`< b.length`: an error was returned). -/
def Sink.write (s : Sink) (b : Bytes) : Sink × Nat :=
  match s.room with
  | none => (⟨s.out ++ b, none⟩, b.length)
  | some r => if b.length ≤ r then (⟨s.out ++ b, some (r - b.length)⟩, b.length) else (⟨s.out ++ b.take r, some 0⟩, r)

/-- `WritePointForRecording`: three writes, returns at the first error. -/
def writePoint (s : Sink) (f : Frame) : Sink × Bool :=
  let c1 := f.db ++ NL :: f.rp ++ [NL]
  let (s1, n1) := s.write c1
  if n1 < c1.length then (s1, false) else
  let (s2, n2) := s1.write f.line
  if n2 < f.line.length then (s2, false) else
  let (s3, n3) := s2.write [NL]
  (s3, !(n3 < 1))

/-- `doRecordStream`: every point goes to the writer, its error is ignored. -/
def recordInto (s : Sink) (fs : List Frame) : Sink := fs.foldl (fun s f => (writePoint s f).1) s

/-- The scratch-buffer variant of the writer: record appended to the shared buffer, one write, the buffer keeps what
the sink did not take unless `reset`. Returns the buffer as it goes back to the pool. -/
def writePointScratch (reset : Bool) (scratch : Bytes) (s : Sink) (f : Frame) : Bytes × Sink :=
  let buf := scratch ++ f.bytes
  let (s', n) := s.write buf
  (if n == buf.length || reset then [] else buf.drop n, s')

def recordScratch (reset : Bool) : Bytes → Sink → List Frame → Bytes × Sink
  | scratch, s, [] => (scratch, s)
  | scratch, s, f :: fs => let (b, s') := writePointScratch reset scratch s f; recordScratch reset b s' fs

end Kap.C18
