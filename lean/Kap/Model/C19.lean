/-
C19 — model of the UDF boundary: `udf/agent/io.go` (WriteMessage / ReadMessage), `udf/server.go`
(writePoint / writeBeginBatch / writeBatchPoint / writeEndBatch / writeBufferedBatch, fieldsToTypedMaps /
typeMapsToFields, handleResponse), the request dispatch of `udf/agent/agent.go` (readLoop) with an echoing
Handler, and the constructors of `edge/messages.go` / `models.ToGroupID` they call.

Transcription notes
* bytes are `Nat`s (< 256 by construction); the byte stream a reader delivers is a list of CHUNKS
  (`Chunks = List (List Nat)`): `Read(p)` returns at most the rest of the first chunk (an empty chunk is an empty
  read), `ReadByte` takes one byte of the first non-empty chunk. `ewd` ("EOF with data") says that the read which
  exhausts the stream returns its bytes together with `io.EOF`, as `io.Reader` allows.
* `binary.PutUvarint` / `binary.ReadUvarint` are transcribed with `% 128`, `/ 128`, `* 2^s` for `&0x7f`, `>>7`,
  `<<s`, and `+` for `|` (the operands never share a bit: every earlier contribution is `< 2^s`).
* `proto.Marshal` / `proto.Unmarshal` are NOT modelled: a payload is an opaque byte list, theorems are stated for
  an arbitrary codec with `dec (enc m) = some m` (protobuf is trusted to be such a codec; Go maps travel as
  association lists, compared as sets of entries).
* Go maps are association lists with distinct keys. `for k, v := range fields` over a map assigns every key once,
  so `fieldsToTypedMaps` is the four-way split; `typeMapsToFields` is transcribed with overwriting assignments
  in the order of the source (strings, ints, floats, bools).
* a Go `string` is its byte list (`Str = List Nat`): Go strings hold arbitrary bytes, proto3 `string` fields only
  valid UTF-8 — `proto.Marshal` fails otherwise (`marshalOK`, `validUTF8` transcribe `utf8.Valid`), `writeData`
  returns the error and the server aborts (`Session.aborted`).
* `time.Time` is its `UnixNano()` (an `Int`); `time.Unix(0, ns).UTC()` is the identity on it (Go runtime, trusted;
  times outside the int64 nanosecond range are outside the protocol's domain).
* not modelled: process / socket management, the keepalive timer, abort paths, hostile peers (C05): where the Go
  code would panic (`End` without `Begin`, batch point before a `begin`) the model returns `none`.
Core Lean only (the compiled driver imports this file).
-/
import Kap.Basic
namespace Kap.C19

/-! ## 1. Framing: `udf/agent/io.go` -/

/-- `binary.PutUvarint`: `for x >= 0x80 { buf[i] = byte(x) | 0x80; x >>= 7; i++ }; buf[i] = byte(x)`. -/
def putUvarint (x : Nat) : List Nat :=
  if x < 128 then [x] else (x % 128 + 128) :: putUvarint (x / 128)
termination_by x
decreasing_by omega

/-- `agent.WriteMessage` after `proto.Marshal`: `varint := make([]byte, binary.MaxVarintLen32)` (5 bytes),
`PutUvarint(varint, len(data))` — a length needing more than 5 bytes indexes out of range (`none` = panic) —
then `w.Write(varint[:n])`, `w.Write(data)`. -/
def writeMessage (data : List Nat) : Option (List Nat) :=
  let v := putUvarint data.length
  if v.length ≤ 5 then some (v ++ data) else none

/-- The frame of a payload (what `WriteMessage` puts on the wire when it does not panic). -/
def frame (data : List Nat) : List Nat := putUvarint data.length ++ data

abbrev Chunks := List (List Nat)

inductive RdErr where
  | eof            -- io.EOF before the first byte of a frame: the clean end of the stream
  | unexpectedEOF  -- io.ErrUnexpectedEOF inside the varint
  | overflow       -- binary: varint overflows a 64-bit integer
  | bodyEOF        -- "unexpected EOF, expected %d more bytes"
  | fuel           -- (model artefact, never reached: `readAll` ran out of its step budget)
deriving DecidableEq, Repr, Inhabited

/-- `ReadByte` of the chunked reader. -/
def readByte : Chunks → Option (Nat × Chunks)
  | [] => none
  | [] :: cs => readByte cs
  | (b :: c) :: cs => some (b, c :: cs)

/-- The loop of `binary.ReadUvarint` (`fuel` = `MaxVarintLen64 - i`). -/
def readUvarintLoop : (fuel i x s : Nat) → Chunks → Except RdErr (Nat × Chunks)
  | 0, _, _, _, _ => .error .overflow
  | fuel + 1, i, x, s, r =>
    match readByte r with
    | none => .error (if i > 0 then .unexpectedEOF else .eof)
    | some (b, r') =>
      if b < 128 then
        if i = 9 ∧ b > 1 then .error .overflow else .ok (x + b * 2 ^ s, r')
      else readUvarintLoop fuel (i + 1) (x + (b % 128) * 2 ^ s) (s + 7) r'

def readUvarint (r : Chunks) : Except RdErr (Nat × Chunks) := readUvarintLoop 10 0 0 0 r

/-- The `for read != size { n, err := r.Read(b[read:]); … }` loop of `ReadMessage`; `need = size - read`, `acc` = the pieces copied into `b` so far (latest first).
`dataFirst = true` is the source as it is today (`read += n` before `err` is looked at, a read that completes the
message together with `io.EOF` is a success); `dataFirst = false` is snapshot ef0888e (`if err == io.EOF` first,
the bytes delivered with it are dropped). -/
def readBodyWith (dataFirst ewd : Bool) : Chunks → Nat → List (List Nat) → Except RdErr (List Nat × Chunks)
  | cs, 0, acc => .ok (acc.reverse.flatten, cs)
  | [], _ + 1, _ => .error .bodyEOF                       -- Read returns (0, io.EOF)
  | c :: rest, need + 1, acc =>
    if need + 1 < c.length then
      -- n = len(b[read:]), the chunk is not used up
      .ok ((c.take (need + 1) :: acc).reverse.flatten, c.drop (need + 1) :: rest)
    else if ewd && rest.isEmpty && c.length > 0 then
      -- n = len(c) > 0 arrives together with io.EOF
      if dataFirst && need + 1 = c.length then .ok ((c :: acc).reverse.flatten, []) else .error .bodyEOF
    else readBodyWith dataFirst ewd rest (need + 1 - c.length) (c :: acc)

/-- `agent.ReadMessage` up to (not including) `proto.Unmarshal`: the payload and the rest of the reader.
(`make([]byte, size)` for absurd sizes is C05's business.) -/
def readMessageWith (dataFirst ewd : Bool) (cs : Chunks) : Except RdErr (List Nat × Chunks) :=
  match readUvarint cs with
  | .error e => .error e
  | .ok (size, cs') => readBodyWith dataFirst ewd cs' size []

/-- The read loops of `Server.readData` / `Agent.readLoop`: read messages until the first error. Returns the
payloads, the rest of the reader after each message, and the error that ended the loop. -/
def readAllWith (dataFirst ewd : Bool) : (fuel : Nat) → Chunks → List (List Nat × Chunks) × RdErr
  | 0, _ => ([], .fuel)
  | fuel + 1, cs =>
    match readMessageWith dataFirst ewd cs with
    | .error e => ([], e)
    | .ok (p, cs') =>
      let (ps, e) := readAllWith dataFirst ewd fuel cs'
      ((p, cs') :: ps, e)

def totalBytes (cs : Chunks) : Nat := cs.flatten.length

/-- The source as it is today. -/
def srcDataFirst : Bool := true
def readMessage (ewd : Bool) (cs : Chunks) := readMessageWith srcDataFirst ewd cs
def readAll (ewd : Bool) (cs : Chunks) : List (List Nat) × RdErr :=
  let (ps, e) := readAllWith srcDataFirst ewd (totalBytes cs + 1) cs
  (ps.map (·.1), e)
/-- Snapshot ef0888e (kept for the counterexample theorem and the corpus witness). -/
def readAllOld (ewd : Bool) (cs : Chunks) : List (List Nat) × RdErr :=
  let (ps, e) := readAllWith false ewd (totalBytes cs + 1) cs
  (ps.map (·.1), e)

/-! ## 2. Data: `models`, `edge/messages.go` -/

/-- A Go `string`: its bytes (not necessarily UTF-8). -/
abbrev Str := List Nat

/-- A field value: `string`, `float64` (its IEEE bit pattern), `int64`, `bool` — the four types
`fieldsToTypedMaps` supports (anything else panics there: C05). -/
inductive FV where
  | str (s : Str)
  | float (bits : Nat)
  | int (i : Int)
  | bool (b : Bool)
deriving DecidableEq, Repr, Inhabited

abbrev GoMap (α : Type) := List (Str × α)
abbrev Tags := GoMap Str
abbrev Fields := GoMap FV

/-- `m[k]` of a `map[string]string` (missing key ⇒ ""). -/
def tagVal (tags : Tags) (k : Str) : Str :=
  match tags.find? (fun e => e.1 == k) with
  | some e => e.2
  | none => []

/-- `m[k] = v`. -/
def mapSet {α : Type} (m : GoMap α) (k : Str) (v : α) : GoMap α :=
  if m.any (fun e => e.1 == k) then m.map (fun e => if e.1 == k then (k, v) else e) else m ++ [(k, v)]

/-- `strings.Join(parts, ",")`. -/
def joinComma : List Str → Str
  | [] => []
  | [a] => a
  | a :: rest => a ++ 44 :: joinComma rest

/-- `models.ToGroupID(name, tags, dims)` (`'\n'` = 10, `','` = 44, `'='` = 61). -/
def toGroupID (name : Str) (tags : Tags) (byName : Bool) (dims : List Str) : Str :=
  if dims.isEmpty then (if byName then name else [])
  else (if byName then name ++ [10] else []) ++ joinComma (dims.map (fun d => d ++ 61 :: tagVal tags d))

/-- Go's `<` on strings: bytewise lexicographic. -/
def strLt : Str → Str → Bool
  | _, [] => false
  | [], _ :: _ => true
  | a :: as, b :: bs => a < b || (a == b && strLt as bs)

def insertStr (x : Str) : List Str → List Str
  | [] => [x]
  | y :: ys => if strLt y x then y :: insertStr x ys else x :: y :: ys

/-- `models.SortedKeys` (`sort.Strings` of the map's keys; modelled by insertion sort — the keys of a map are
distinct, so the sorted slice is unique whatever the algorithm). -/
def sortedKeys (tags : Tags) : List Str := (tags.map (·.1)).foldr insertStr []

/-- `edge.pointMessage`. -/
structure Point where
  name : Str
  db : Str
  rp : Str
  byName : Bool
  dims : List Str
  group : Str
  tags : Tags
  fields : Fields
  time : Int
deriving DecidableEq, Repr, Inhabited

/-- `edge.NewPointMessage`. -/
def newPoint (name db rp : Str) (byName : Bool) (dims : List Str) (fields : Fields) (tags : Tags) (time : Int) : Point :=
  { name, db, rp, byName, dims, group := toGroupID name tags byName dims, tags, fields, time }

/-- `edge.beginBatchMessage`. -/
structure Begin where
  name : Str
  tags : Tags
  byName : Bool
  dims : List Str
  group : Str
  tmax : Int
  sizeHint : Int
deriving DecidableEq, Repr, Inhabited

/-- `edge.NewBeginBatchMessage`: the dimensions are the sorted tag keys. -/
def newBegin (name : Str) (tags : Tags) (byName : Bool) (tmax : Int) (sizeHint : Int) : Begin :=
  let dims := sortedKeys tags
  { name, tags, byName, dims, group := toGroupID name tags byName dims, tmax, sizeHint }

/-- `beginBatchMessage.SetTagsAndDimensions` (what `GroupByNode` calls): the tags become exactly the dimension
tags, the dimension list is taken as given. -/
def Begin.setTagsAndDimensions (b : Begin) (tags : Tags) (byName : Bool) (dims : List Str) : Begin :=
  let newTags := dims.foldl (fun m d => mapSet m d (tagVal tags d)) []
  { b with tags := newTags, byName := byName, dims := dims, group := toGroupID b.name newTags byName dims }

/-- `edge.batchPointMessage`. -/
structure BP where
  fields : Fields
  tags : Tags
  time : Int
deriving DecidableEq, Repr, Inhabited

/-- What travels on an edge into / out of the UDF. -/
inductive EdgeMsg where
  | point (p : Point)
  | begin (b : Begin)
  | bp (p : BP)
  | endB
  | buffered (b : Begin) (pts : List BP)
deriving DecidableEq, Repr, Inhabited

/-! ## 3. Protocol messages (`udf.proto`) -/

structure PBPoint where
  time : Int
  name : Str := []
  db : Str := []
  rp : Str := []
  group : Str
  dims : List Str := []
  byName : Bool := false
  tags : Tags
  fDouble : GoMap Nat
  fInt : GoMap Int
  fString : GoMap Str
  fBool : GoMap Bool
deriving DecidableEq, Repr, Inhabited

structure PBBegin where
  name : Str
  group : Str
  tags : Tags
  size : Int
  byName : Bool
deriving DecidableEq, Repr, Inhabited

structure PBEnd where
  name : Str
  group : Str
  tmax : Int
  tags : Tags
  byName : Bool := false
deriving DecidableEq, Repr, Inhabited

inductive Request where
  | info
  | init (task node : Str)
  | keepalive (t : Int)
  | snapshot
  | restore (b : List Nat)
  | begin (b : PBBegin)
  | point (p : PBPoint)
  | endB (e : PBEnd)
deriving DecidableEq, Repr, Inhabited

inductive Response where
  | info (wants provides : Nat)
  | init (ok : Bool)
  | keepalive (t : Int)
  | snapshot (b : List Nat)
  | restore (ok : Bool)
  | error (e : Str)
  | begin (b : PBBegin)
  | point (p : PBPoint)
  | endB (e : PBEnd)
deriving DecidableEq, Repr, Inhabited

/-! ## 3b. `proto.Marshal` of a proto3 message fails iff a `string` field is not valid UTF-8 -/

def isCont (b : Nat) : Bool := 0x80 ≤ b && b ≤ 0xBF

/-- `utf8.Valid` (Unicode Table 3-7: no overlong forms, no surrogates, nothing above U+10FFFF). -/
def validUTF8 : Str → Bool
  | [] => true
  | b0 :: rest =>
    if b0 < 0x80 then validUTF8 rest
    else if 0xC2 ≤ b0 && b0 ≤ 0xDF then
      match rest with
      | b1 :: r => isCont b1 && validUTF8 r
      | _ => false
    else if 0xE0 ≤ b0 && b0 ≤ 0xEF then
      match rest with
      | b1 :: b2 :: r =>
        (if b0 == 0xE0 then 0xA0 ≤ b1 && b1 ≤ 0xBF else if b0 == 0xED then 0x80 ≤ b1 && b1 ≤ 0x9F else isCont b1) &&
          isCont b2 && validUTF8 r
      | _ => false
    else if 0xF0 ≤ b0 && b0 ≤ 0xF4 then
      match rest with
      | b1 :: b2 :: b3 :: r =>
        (if b0 == 0xF0 then 0x90 ≤ b1 && b1 ≤ 0xBF else if b0 == 0xF4 then 0x80 ≤ b1 && b1 ≤ 0x8F else isCont b1) &&
          isCont b2 && isCont b3 && validUTF8 r
      | _ => false
    else false

def mapStrings {α : Type} (m : GoMap α) : List Str := m.map (·.1)

def PBPoint.strings (p : PBPoint) : List Str :=
  [p.name, p.db, p.rp, p.group] ++ p.dims ++ p.tags.flatMap (fun e => [e.1, e.2]) ++ mapStrings p.fDouble ++
    mapStrings p.fInt ++ p.fString.flatMap (fun e => [e.1, e.2]) ++ mapStrings p.fBool

/-- The `string` fields of a request (`bytes` fields — snapshots — carry anything). -/
def Request.strings : Request → List Str
  | .init t n => [t, n]
  | .begin b => [b.name, b.group] ++ b.tags.flatMap (fun e => [e.1, e.2])
  | .point p => p.strings
  | .endB e => [e.name, e.group] ++ e.tags.flatMap (fun e => [e.1, e.2])
  | _ => []

/-- `proto.Marshal(req)` succeeds. -/
def marshalOK (r : Request) : Bool := r.strings.all validUTF8

/-! ## 4. `udf/server.go`, the writing side -/

def strsOf (f : Fields) : GoMap Str := f.filterMap (fun e => match e.2 with | .str s => some (e.1, s) | _ => none)
def floatsOf (f : Fields) : GoMap Nat := f.filterMap (fun e => match e.2 with | .float x => some (e.1, x) | _ => none)
def intsOf (f : Fields) : GoMap Int := f.filterMap (fun e => match e.2 with | .int x => some (e.1, x) | _ => none)
def boolsOf (f : Fields) : GoMap Bool := f.filterMap (fun e => match e.2 with | .bool x => some (e.1, x) | _ => none)

/-- `Server.typeMapsToFields`: `for k, v := range strs { fields[k] = v }`, then ints, floats, bools. -/
def typeMapsToFields (strs : GoMap Str) (floats : GoMap Nat) (ints : GoMap Int) (bools : GoMap Bool) : Fields :=
  let f : Fields := strs.foldl (fun m e => mapSet m e.1 (.str e.2)) []
  let f := ints.foldl (fun m e => mapSet m e.1 (.int e.2)) f
  let f := floats.foldl (fun m e => mapSet m e.1 (.float e.2)) f
  bools.foldl (fun m e => mapSet m e.1 (.bool e.2)) f

/-- `Server.writePoint`. -/
def writePoint (p : Point) : Request :=
  .point { time := p.time, name := p.name, db := p.db, rp := p.rp, group := p.group, dims := p.dims, byName := p.byName,
           tags := p.tags, fDouble := floatsOf p.fields, fInt := intsOf p.fields, fString := strsOf p.fields,
           fBool := boolsOf p.fields }

/-- `Server.writeBeginBatch`. -/
def writeBegin (b : Begin) : Request :=
  .begin { name := b.name, group := b.group, tags := b.tags, size := b.sizeHint, byName := b.byName }

/-- `Server.writeBatchPoint`. -/
def writeBatchPoint (group : Str) (bp : BP) : Request :=
  .point { time := bp.time, group := group, tags := bp.tags, fDouble := floatsOf bp.fields, fInt := intsOf bp.fields,
           fString := strsOf bp.fields, fBool := boolsOf bp.fields }

/-- `Server.writeEndBatch(name, tmax, groupInfo, end)` — `ByName` is not set on the wire. -/
def writeEnd (b : Begin) : Request :=
  .endB { name := b.name, group := b.group, tmax := b.tmax, tags := b.tags }

/-- One iteration of the `inMsg` case of `Server.writeData` (`st` = its local `begin`): the requests written.
`none` = nil dereference (batch point / end before any begin). -/
def serverWrite (st : Option Begin) : EdgeMsg → Option (Option Begin × List Request)
  | .point p => some (st, [writePoint p])
  | .begin b => some (some b, [writeBegin b])
  | .bp p => st.map (fun b => (st, [writeBatchPoint b.group p]))
  | .endB => st.map (fun b => (st, [writeEnd b]))
  | .buffered b pts => some (st, writeBegin b :: pts.map (writeBatchPoint b.group) ++ [writeEnd b])

def serverWriteAll : Option Begin → List EdgeMsg → Option (Option Begin × List Request)
  | st, [] => some (st, [])
  | st, m :: ms =>
    match serverWrite st m with
    | none => none
    | some (st', rs) =>
      match serverWriteAll st' ms with
      | none => none
      | some (st'', rs') => some (st'', rs ++ rs')

/-! ## 5. `udf/agent/agent.go` readLoop with the echoing Handler -/

/-- State of the well-behaved peer: the bytes it supplies for the next snapshot, the bytes it was last asked to
restore. -/
structure Peer where
  snap : List Nat := []
  restored : List Nat := []
deriving Repr, Inhabited

/-- One iteration of `Agent.readLoop`: `(direct, viaResponses)` — management responses are written by the read
loop itself, the Handler's echo goes through `Agent.Responses` (another goroutine forwards it). -/
def agentStep (h : Peer) : Request → Peer × List Response × List Response
  | .info => (h, [.info 0 0], [])
  | .init _ _ => (h, [.init true], [])
  | .keepalive t => (h, [.keepalive t], [])
  | .snapshot => (h, [.snapshot h.snap], [])
  | .restore b => ({ h with restored := b }, [.restore true], [])
  | .begin b => (h, [], [.begin b])
  | .point p => (h, [], [.point p])
  | .endB e => (h, [], [.endB e])

/-- The read loop over a request stream: `(peer, direct, echoed)`. -/
def agentRun : Peer → List Request → Peer × List Response × List Response
  | h, [] => (h, [], [])
  | h, r :: rs =>
    let (h', d, e) := agentStep h r
    let (h'', ds, es) := agentRun h' rs
    (h'', d ++ ds, e ++ es)

/-! ## 6. `udf/server.go`, the reading side: `handleResponse` -/

structure RState where
  begin : Option PBBegin := none
  points : Option (List BP) := none
deriving Repr, Inhabited

/-- What `handleResponse` hands to the rest of the server. -/
inductive Out where
  | msg (m : EdgeMsg)            -- sent on `outMsg`
  | info (wants provides : Nat)  -- routed to the one-slot channels of doRequestResponse
  | init (ok : Bool)
  | snapshot (b : List Nat)
  | restore (ok : Bool)
  | abort (e : Str)           -- ErrorResponse: the server aborts
deriving DecidableEq, Repr, Inhabited

def pbFields (p : PBPoint) : Fields := typeMapsToFields p.fString p.fDouble p.fInt p.fBool

/-- `Server.handleResponse`. `none` = nil dereference (`End` without `Begin`). -/
def handleResponse (st : RState) : Response → Option (RState × List Out)
  | .keepalive _ => some (st, [])
  | .info w p => some (st, [.info w p])
  | .init ok => some (st, [.init ok])
  | .snapshot b => some (st, [.snapshot b])
  | .restore ok => some (st, [.restore ok])
  | .error e => some (st, [.abort e])
  | .begin b => some ({ begin := some b, points := some [] }, [])
  | .point p =>
    match st.points with
    | some pts => some ({ st with points := some (pts ++ [{ fields := pbFields p, tags := p.tags, time := p.time }]) }, [])
    | none => some (st, [.msg (.point (newPoint p.name p.db p.rp p.byName p.dims (pbFields p) p.tags p.time))])
  | .endB e =>
    match st.begin with
    | none => none
    | some b =>
      let pts := st.points.getD []
      some ({ begin := none, points := none },
            [.msg (.buffered (newBegin e.name e.tags b.byName e.tmax pts.length) pts)])

def handleAll : RState → List Response → Option (RState × List Out)
  | st, [] => some (st, [])
  | st, r :: rs =>
    match handleResponse st r with
    | none => none
    | some (st', o) =>
      match handleAll st' rs with
      | none => none
      | some (st'', os) => some (st'', o ++ os)

/-- The data messages among the outputs. -/
def dataOuts (os : List Out) : List EdgeMsg := os.filterMap (fun o => match o with | .msg m => some m | _ => none)

/-! ## 7. One sequential schedule of the whole boundary (what the driver replays) -/

structure Session where
  wbegin : Option Begin := none     -- writeData's `begin`
  peer : Peer := {}
  rstate : RState := {}
  aborted : Bool := false           -- writeRequest failed: writeData returned the error, the server aborted
deriving Repr, Inhabited

/-- Write the requests of one edge message one by one (`writeRequest`: a request that does not marshal is a write
error, `writeData` returns it and the server aborts — nothing more is written or handed out); let the peer answer
each, handle every response in order (direct responses before echoed ones for the same request — one legal order). -/
def Session.requests (s : Session) (reqs : List Request) : Option (Session × List Out) :=
  reqs.foldl (fun acc r =>
    match acc with
    | none => none
    | some (s, outs) =>
      if s.aborted then some (s, outs)
      else if !marshalOK r then some ({ s with aborted := true }, outs)
      else
        let (peer', direct, echoed) := agentStep s.peer r
        match handleAll s.rstate (direct ++ echoed) with
        | none => none
        | some (rs', os) => some ({ s with peer := peer', rstate := rs' }, outs ++ os)) (some (s, []))

def Session.send (s : Session) (m : EdgeMsg) : Option (Session × List Out) :=
  if s.aborted then some (s, []) else
  match serverWrite s.wbegin m with
  | none => none
  | some (wb, reqs) => ({ s with wbegin := wb } : Session).requests reqs

/-! ## 8. Schedules -/

/-- `zs` is an interleaving of `xs` and `ys` (each keeps its own order): what two goroutines writing to one
channel, or a `select` over two channels, can produce. -/
inductive Interleave {α : Type} : List α → List α → List α → Prop
  | nil : Interleave [] [] []
  | left {x : α} {xs ys zs : List α} : Interleave xs ys zs → Interleave (x :: xs) ys (x :: zs)
  | right {y : α} {xs ys zs : List α} : Interleave xs ys zs → Interleave xs (y :: ys) (y :: zs)

end Kap.C19
