/-
C19 — the WRITE side of the UDF boundary as a sequence of `Write` calls.

`agent.WriteMessage(msg, w)` (udf/agent/io.go) puts one message on the wire with TWO calls of `w.Write`: the
varint length, then the payload. `Kap.C19.frame` is their concatenation — but only when nothing else is written to
the same stream between the two calls. In `udf/server.go` that is so because ONE goroutine (`writeData`, started by
`Start`) is the only caller of `writeRequest`: data taken from `In()` and the requests other goroutines hand to it
over the `requests` channel (`runKeepalive`, `doRequestResponse` for info/init/snapshot/restore) are written by that
loop, one whole message after the other, in the order its `select` picked them. `udf/agent/agent.go` has the same
structure (`writeLoop` over `outResponses`).

* `writesOf`      the two `Write` calls of one `WriteMessage`;
* `wireSingle q`  the `Write` calls of one write loop serving the queue `q` (marshalled messages in the order the
                  loop's `select` took them: an interleaving of the data stream and the request stream);
* `Interleave`    (Model/C19.lean) is also what two goroutines calling `Write` on one stream produce at the
                  granularity of `Write` calls — the model of a SECOND writer, used by the counterexample theorem.
That the code has one writer per stream is a fact of the source, regenerated on every run by
/verif/extract/c19writers into Kap/Gen/C19Writers.lean (theorem `one_writer_per_stream`), and exercised by the
harness with a stream that stalls between the two `Write` calls of every message while keepalives are due.
Core Lean only.
-/
import Kap.Model.C19
namespace Kap.C19

/-- The `Write` calls of one `agent.WriteMessage`: `w.Write(varint[:n])`, `w.Write(data)`. -/
def writesOf (data : List Nat) : List (List Nat) := [putUvarint data.length, data]

/-- The `Write` calls of one write loop (`Server.writeData` / `Agent.writeLoop`) that serves the queue `q`. -/
def wireSingle (q : List (List Nat)) : List (List Nat) := q.flatMap writesOf

/-- The bytes on the stream after a sequence of `Write` calls. -/
def wireBytes (ws : List (List Nat)) : List Nat := ws.flatten

end Kap.C19
