/-
C20 — model of the authorisation path of kapacitor.

Transcribed (snapshot ef0888e):
* `auth/auth.go` (+ fix commits d662ebb, 06df506): `NewUser` (grants: `path.Clean`ed resource ↦ OR-ed privilege mask, OR-ed into the map),
  `User.AuthorizeAction` (early allow for `NoPrivileges`/admin, `path.IsAbs` test, `len(privileges) > 0`,
  `path.Clean`, the `for` loop: lookup, `authorized := p&want != 0 || p&AllPrivileges != 0`, STOP at the first
  resource that carries a grant, stop at "/", `resource = path.Dir(resource)`), `APIResource`, `DatabaseResource`.
* `services/httpd/handler.go`: `parseCredentials`, `authenticate` (incl. the `default:` clause that does not
  `return`), `requiredPrivilegeForHTTPMethod`, `authorizeRequest`, `authorize`/`authorizeForward`,
  the database check of `serveWriteLine`, `ServeHTTP` (method table), `rewritePreview`, the `cors` filter
  (OPTIONS never reaches a handler); `services/httpd/mux.go`: `cleanPath` redirect, `pathMatch`, longest match.
* `net/http` + `net/url` in front of the handler (modelled, tied differentially by the `httpraw` cases): the request
  target of the request line becomes `r.URL.Path` by ONE pass of percent-decoding (`parseTarget`, `pctDecode`);
  the mux and `authorizeRequest` both read that decoded path, nothing in services/httpd looks at the raw form
  (`RequestURI`/`RawPath` are used by the request logger only). `Handler.AddRoute`/`AddPreviewRoute`: `addRoutePattern`.
* Tables (privilege bits, resource roots/suffixes, BasePath, method switch, the `default:` return flag) are NOT
  written here: they come from `Kap/Gen/C20.lean`, regenerated from the Go source on every run.

Go standard library, modelled and tied differentially (not verified): `path.Clean` as a segment stack machine,
`path.Join`, `path.Dir` (= `Clean` of the prefix up to the last '/'), `path.IsAbs`, `strings.Replace`,
`strings.TrimPrefix`, `strings.ToUpper` (ASCII). Strings are `List Char`; Go strings are BYTE strings, which the driver
reads as Latin-1 (byte b = the character with code b, `B.emb`): Kap/Model/C20Bytes.lean gives the same definitions over
any character type with the byte instance, Kap/Proofs/C20Bytes.lean proves that they commute with the reading.

* The write path reads three URL parameters: `db` (required, decides the database resource the write is checked
  against — `writeResource` — and where the points go), `rp` (handed to `WritePoints` unread — `writeTarget`) and
  `precision` (time-stamp unit); every other parameter is ignored. `Req.rp` / `Req.params` carry them so that the
  theorems quantify over them (`write_decision_ignores_rp_and_params`).

Abstracted: JWT validation is an oracle (`Bearer.sigOK`, `exp`), the fake auth service is a finite table,
request bodies of `/write` are always one well-formed point, gzip/json/version/requestID/log filters are
transparent. The unbounded Go `for` loop gets explicit fuel; outcome `diverge` = fuel exhausted (theorem
`authorize_never_diverges` shows it cannot happen).
Core Lean only.
-/
import Kap.Basic
import Kap.Gen.C20
namespace Kap.C20

abbrev Seg := List Char
abbrev Path := List Char

/-! ### `String ↔ segments` glue -/

/-- Put a character in front of the first segment. -/
def pushChar (c : Char) : List Seg → List Seg
  | [] => [[c]]
  | s :: ss => (c :: s) :: ss

/-- Split at every '/' (like `strings.Split(p, "/")`): n slashes give n+1 segments. -/
def split : List Char → List Seg
  | [] => [[]]
  | c :: cs => if c = '/' then [] :: split cs else pushChar c (split cs)

/-- `strings.Join(segs, "/")`. -/
def join : List Seg → List Char
  | [] => []
  | [s] => s
  | s :: t :: ss => s ++ '/' :: join (t :: ss)

/-! ### `path.Clean` as a segment stack machine -/

def dot : Seg := ['.']
def dotdot : Seg := ['.', '.']

/-- Output buffer of `Clean`: `ups` leading `..` elements that can no longer be removed (only when not
rooted; Go's `dotdot` mark) and the stack of real elements above them (top first). -/
structure CS where
  ups : Nat := 0
  stack : List Seg := []
deriving Repr, DecidableEq

/-- A ".." element: remove the last real element; when there is none, a rooted path stays at the root and
a relative one keeps the "..". -/
def popStep (rooted : Bool) (st : CS) : CS :=
  match st.stack with
  | _ :: rest => { st with stack := rest }
  | [] => if rooted then st else { st with ups := st.ups + 1 }

/-- One path element: "" and "." are dropped, ".." pops (or is kept in front when not rooted and nothing is
left to pop; at the root it is dropped), anything else is pushed. -/
def cleanStep (rooted : Bool) (st : CS) (s : Seg) : CS :=
  if s = [] ∨ s = dot then st
  else if s = dotdot then popStep rooted st
  else { st with stack := s :: st.stack }

def cleanSegs (rooted : Bool) (segs : List Seg) : List Seg :=
  let st := segs.foldl (cleanStep rooted) {}
  List.replicate st.ups dotdot ++ st.stack.reverse

/-- `path.IsAbs`. -/
def isAbs : Path → Bool
  | '/' :: _ => true
  | _ => false

/-- `path.Clean`. -/
def clean (p : Path) : Path :=
  if p = [] then dot
  else
    let out := cleanSegs (isAbs p) (split p)
    if isAbs p then '/' :: join out
    else if out = [] then dot else join out

/-- `dir, _ := path.Split(p)`: everything up to and including the last '/' ("" when there is none). -/
def dirPrefix (p : Path) : Path := join ((split p).dropLast ++ [[]])

/-- `path.Dir`. -/
def dir (p : Path) : Path := clean (dirPrefix p)

/-- `path.Join(a, b)`. -/
def pathJoin2 (a b : Path) : Path :=
  if a = [] ∧ b = [] then []
  else if a = [] then clean b
  else clean (a ++ '/' :: b)

/-! ### `auth` package -/

def noPriv : Nat := Gen.noPrivileges
def readPriv : Nat := Gen.readPrivilege
def writePriv : Nat := Gen.writePrivilege
def deletePriv : Nat := Gen.deletePrivilege
def allPriv : Nat := Gen.allPrivileges

/-- `auth.User` (name and hash are irrelevant to authorisation). `privs` is the Go map
`resource ↦ mask` as an association list, most recent write first. -/
structure User where
  admin : Bool := false
  privs : List (Path × Nat) := []
deriving Repr, DecidableEq

def orMask (ps : List Nat) : Nat := ps.foldl (· ||| ·) 0

/-- `ps[clean] |= mask` on a Go map (a missing key reads as 0). -/
def mapOr (m : List (Path × Nat)) (k : Path) (v : Nat) : List (Path × Nat) :=
  match m with
  | [] => [(k, v)]
  | e :: rest => if e.1 = k then (e.1, e.2 ||| v) :: rest else e :: mapOr rest k v

/-- `auth.NewUser` (after fix 06df506): every granted resource is `Clean`ed, its privileges are OR-ed into
one mask, and the mask is OR-ed into the entry of the cleaned resource. `grants` is the Go map in the order
the `range` statement happens to visit it (theorem `newUser_order_independent`: the order does not matter). -/
def newUser (admin : Bool) (grants : List (Path × List Nat)) : User :=
  { admin := admin, privs := grants.foldl (fun m g => mapOr m (clean g.1) (orMask g.2)) [] }

/-- `auth.NewUser` as it was at snapshot ef0888e: `ps[clean] = mask` — the entry visited last wins (kept for
the counterexample theorem `newUserOld_order_dependent`). -/
def newUserOld (admin : Bool) (grants : List (Path × List Nat)) : User :=
  { admin := admin, privs := grants.foldl (fun m g => (clean g.1, orMask g.2) :: m) [] }

/-- What the auth service knows of a user: the arguments it passes to `auth.NewUser`. -/
structure Account where
  admin : Bool := false
  grants : List (Path × List Nat) := []
deriving Repr, DecidableEq

def Account.user (a : Account) : User := newUser a.admin a.grants

/-- Go map lookup `p, ok := u.privileges[resource]`. -/
def lookup (m : List (Path × Nat)) (k : Path) : Option Nat :=
  match m.find? (fun e => e.1 = k) with
  | some e => some e.2
  | none => none

inductive Decision where
  | allow      -- `return nil`
  | deny       -- `return authError{…}`
  | invalid    -- "invalid action resource … must be an absolute path"
  | diverge    -- the `for` loop did not end within the fuel (shown impossible)
deriving Repr, DecidableEq, Inhabited

/-- `authorized := p&action.Privilege != 0 || p&AllPrivileges != 0` (after fix d662ebb). -/
def authorized (p want : Nat) : Bool := (p &&& want != 0) || (p &&& allPriv != 0)

/-- … as it was at snapshot ef0888e: `p&action.Privilege != 0 || p == AllPrivileges` (kept for the
counterexample theorem `authorizedOld_refuses_all_plus_other`). -/
def authorizedOld (p want : Nat) : Bool := (p &&& want != 0) || p == allPriv

/-- The `for { … }` loop of `AuthorizeAction`. -/
def walk (privs : List (Path × Nat)) (want : Nat) : Nat → Path → Decision
  | 0, _ => .diverge
  | fuel + 1, resource =>
    match lookup privs resource with
    | some p => if authorized p want then .allow else .deny      -- `break` leaves the loop: nearest grant decides
    | none =>
      if resource = ['/'] then .deny
      else walk privs want fuel (dir resource)

/-- `User.AuthorizeAction`. -/
def authorizeAction (u : User) (resource : Path) (want : Nat) : Decision :=
  if want = noPriv ∨ u.admin = true then .allow
  else if !isAbs resource then .invalid
  else if u.privs.length > 0 then
    let r := clean resource
    walk u.privs want (r.length + 1) r
  else .deny

/-- `auth.APIResource`. -/
def apiResource (p : Path) : Path := pathJoin2 Gen.apiRootResource p

/-- `strings.Replace(database, "/", "_", -1)` (old and new are single characters in the source). -/
def dbReplace (db : List Char) : List Char :=
  match Gen.dbReplaceOld, Gen.dbReplaceNew with
  | [o], [n] => db.map (fun c => if c = o then n else c)
  | _, _ => db

/-- `auth.DatabaseResource`. -/
def databaseResource (db : List Char) : Path :=
  if db = [] then Gen.databaseRootResource
  else
    let d := dbReplace db
    let d := if d = db then d ++ Gen.cleanSuffix else d ++ Gen.dirtySuffix
    pathJoin2 Gen.databaseRootResource d

/-! ### `services/httpd` -/

/-- `strings.ToUpper` on ASCII. -/
def toUpper (m : List Char) : List Char := m.map Char.toUpper

inductive Required where
  | priv (p : Nat)
  | unknownMethod          -- the `default:` clause: an error
  | unrecognised           -- an extracted case the translator did not understand (no lemma covers it)
deriving Repr, DecidableEq

/-- `requiredPrivilegeForHTTPMethod`, read off the regenerated table. -/
def requiredPrivilege (method : List Char) : Required :=
  let m := toUpper method
  let rec go : List Gen.MethodCase → Required
    | [] => .unknownMethod
    | .priv ms p :: rest => if ms.contains m then .priv p else go rest
    | .unknown _ :: _ => .unrecognised
  go Gen.methodCases

/-- `strings.TrimPrefix`. -/
def trimPrefix (s pre : List Char) : List Char :=
  if pre.isPrefixOf s then s.drop pre.length else s

/-- `authorizeRequest` (true = `nil` error). Any error, also `invalid`, is a refusal. -/
def authorizeRequest (method : List Char) (urlPath : Path) (u : Account) : Bool :=
  match requiredPrivilege method with
  | .priv rp => authorizeAction u.user (apiResource (trimPrefix urlPath Gen.basePath)) rp = .allow
  | _ => false

/-- What `jwt.Parse` + the claim checks of `authenticate` see of a bearer token (oracle). -/
structure Bearer where
  sigOK : Bool                     -- HMAC signature with the shared secret verifies
  exp : Option Int                 -- `exp` claim relative to now, in seconds (none = absent)
  username : Option (List Char)    -- `username` claim when it is a string
deriving Repr, DecidableEq

inductive AuthHeader where
  | absent
  | bearer (t : Bearer)
  | basic (u p : List Char)
  | other                          -- some other non-empty `Authorization` value
deriving Repr, DecidableEq

/-- The authentication-relevant part of a request. -/
structure ReqAuth where
  header : AuthHeader := .absent
  qu : List Char := []             -- URL parameter u
  qp : List Char := []             -- URL parameter p
deriving Repr, DecidableEq

/-- `AuthenticationMethod`; `other n` stands for any value outside the three declared constants. -/
inductive CredMethod where
  | user | bearer | subscription | other
deriving Repr, DecidableEq

structure Creds where
  method : CredMethod
  username : List Char := []
  password : List Char := []
  token : List Char := []
  bearer : Option Bearer := none
deriving Repr, DecidableEq

/-- `parseCredentials`. -/
def parseCredentials (a : ReqAuth) : Option Creds :=
  let fromQuery : Option Creds :=
    if a.qu ≠ [] ∧ a.qp ≠ [] then some { method := .user, username := a.qu, password := a.qp } else none
  match a.header with
  | .bearer t => some { method := .bearer, bearer := some t }
  | .basic u p =>
    if u = Gen.subscriptionUser then some { method := .subscription, token := p }
    else some { method := .user, username := u, password := p }
  | .other => fromQuery
  | .absent => fromQuery

/-- The fake `auth.Interface` of the harness: a finite table. -/
structure AuthSvc where
  users : List (List Char × List Char × Account) := []     -- name, password, account
  subs : List (List Char × Account) := []                  -- subscription token, account
deriving Repr

def AuthSvc.authenticate (s : AuthSvc) (name pw : List Char) : Option Account :=
  match s.users.find? (fun e => e.1 = name) with
  | some (_, p, u) => if p = pw then some u else none
  | none => none

def AuthSvc.user (s : AuthSvc) (name : List Char) : Option Account :=
  match s.users.find? (fun e => e.1 = name) with
  | some (_, _, u) => some u
  | none => none

def AuthSvc.subscriptionUser (s : AuthSvc) (tok : List Char) : Option Account :=
  match s.subs.find? (fun e => e.1 = tok) with
  | some (_, u) => some u
  | none => none

/-- Result of `authenticate`: either an error response was written and the function returned, or the
inner handler runs as `user`; `wroteError` = an error response had ALREADY been written when the inner
handler was called (only the `default:` clause without `return` does that). -/
inductive AuthN where
  | rejected                                   -- 401, inner not called
  | inner (user : Account) (wroteError : Bool)
deriving Repr, DecidableEq

/-- `authenticate` (the part before `inner(w, r, user)`). -/
def authenticateCreds (svc : AuthSvc) (c : Creds) : AuthN :=
  match c.method with
  | .user =>
    if c.username = [] then .rejected
    else match svc.authenticate c.username c.password with
      | some u => .inner u false
      | none => .rejected
  | .bearer =>
    match c.bearer with
    | none => .rejected
    | some t =>
      if !t.sigOK then .rejected                                  -- jwt.Parse error
      else if (match t.exp with | some e => decide (e ≤ 0) | none => false) then .rejected   -- expired: !token.Valid / Parse error
      else match t.exp with
        | none => .rejected                                       -- "token expiration required"
        | some _ =>
          match t.username with
          | none => .rejected
          | some n =>
            if n = [] then .rejected
            else match svc.user n with
              | some u => .inner u false
              | none => .rejected
  | .subscription =>
    match svc.subscriptionUser c.token with
    | some u => .inner u false
    | none => .rejected
  | .other =>
    -- `default: HttpError(w, "unsupported authentication", …)` — and then? The regenerated flag says whether
    -- the clause returns. Today it does not: `inner(w, r, user)` runs with the zero `auth.User` (not admin, no grants).
    if Gen.authDefaultReturns then .rejected else .inner {} true

def authenticate (requireAuth : Bool) (svc : AuthSvc) (a : ReqAuth) : AuthN :=
  if !requireAuth then .inner { admin := true } false          -- auth.AdminUser = NewUser("ADMIN_USER", nil, true, nil)
  else match parseCredentials a with
    | none => .rejected
    | some c => authenticateCreds svc c

/-- What a registered route does once it is reached. -/
inductive RouteKind where
  | notFound        -- "/" catch-all: serve404
  | preview         -- BasePreviewPath + "/": rewritePreview
  | ping            -- servePing
  | write           -- serveWrite (receives the user: authorizeForward)
  | optionsWrite    -- ServeOptions
  | other           -- any other handler NewHandler installs (routes list, log level, pprof, expvar): it runs
  | recorder        -- a route added by the harness through Handler.AddRoutes: records that it ran
deriving Repr, DecidableEq

structure Route where
  method : List Char
  pattern : Path
  kind : RouteKind
  bypass : Bool := false      -- Route.BypassAuth
  forward : Bool := false     -- the handler has the AuthorizationHandler signature (authorizeForward)
deriving Repr, DecidableEq

/-- `pathMatch` of mux.go. -/
def pathMatch (pattern path : Path) : Bool :=
  match pattern.getLast? with
  | none => false
  | some '/' => pattern.isPrefixOf path
  | some _ => pattern = path

/-- `ServeMux.match`: the longest matching pattern wins. -/
def muxMatch (routes : List Route) (method : List Char) (path : Path) : Option Route :=
  routes.foldl (fun best r =>
    if r.method = method ∧ pathMatch r.pattern path then
      match best with
      | none => some r
      | some b => if r.pattern.length > b.pattern.length then some r else best
    else best) none

/-- `cleanPath` of mux.go. -/
def muxCleanPath (p : Path) : Path :=
  if p = [] then ['/']
  else
    let p := if isAbs p then p else '/' :: p
    let np := clean p
    if p.getLast? = some '/' ∧ np ≠ ['/'] then np ++ ['/'] else np

/-- The `allowedMethods` of NewHandler (regenerated): the methods that have a mux at all. -/
def allowedMethods : List (List Char) := Gen.allowedMethods

def preview : Path := Gen.basePreviewPath
def base : Path := Gen.basePath

/-- The handler expressions of NewHandler's Route literals, by what they do. -/
def kindOf (handler : List Char) : RouteKind :=
  if handler = "h.serve404".toList then .notFound
  else if handler = "h.rewritePreview".toList then .preview
  else if handler = "h.servePing".toList then .ping
  else if handler = "h.serveWrite".toList then .write
  else if handler = "ServeOptions".toList then .optionsWrite
  else .other

/-- Every route `NewHandler` installs, regenerated from its Route literals (the per-method loop expanded). -/
def builtinRoutes : List Route :=
  Gen.routes.map fun r => { method := r.method, pattern := r.pattern, kind := kindOf r.handler, bypass := r.bypassAuth, forward := r.forward }

/-- `Handler.AddRoute` (prefix BasePath) / `AddPreviewRoute` (prefix BasePreviewPath): a pattern that is not empty
and does not begin with '/' is refused (`len(r.Pattern) > 0 && r.Pattern[0] != '/'`), otherwise the route is
registered under `prefix + pattern`. -/
def addRoutePattern (pre pat : Path) : Option Path :=
  if pat ≠ [] ∧ pat.head? ≠ some '/' then none else some (pre ++ pat)

/-- The pattern is one `AddRoute` or `AddPreviewRoute` can have registered. -/
def viaAddRoute (pattern : Path) : Bool :=
  [base, preview].any fun pre => pre.isPrefixOf pattern && (addRoutePattern pre (pattern.drop pre.length)).isSome

/-- The query string of a request as `url.ParseQuery` hands it to the handler: decoded (key, value) pairs in the
order they stand in the URL. -/
abbrev Query := List (List Char × List Char)

/-- `url.Values.Get(key)`: the FIRST value of the key, "" when the key is absent (absent and empty are the same
to the caller). -/
def qGet (q : Query) (key : List Char) : List Char :=
  match q.find? (fun e => e.1 = key) with
  | some e => e.2
  | none => []

structure Req where
  method : List Char
  path : Path
  auth : ReqAuth := {}
  db : List Char := []          -- `qp.Get("db")` (the body is always one well-formed point)
  rp : List Char := []          -- `qp.Get("rp")`: handed to `PointsWriter.WritePoints`, read by nothing else
  params : Query := []          -- every other URL parameter (precision, consistency, …; u and p are in `auth`)
deriving Repr, DecidableEq

/-- The write-relevant fields of a request, read off its query the way `serveWriteLine` does. -/
def Req.withQuery (req : Req) (q : Query) : Req :=
  { req with db := qGet q "db".toList, rp := qGet q "rp".toList,
             params := q.filter (fun e => e.1 ≠ "db".toList ∧ e.1 ≠ "rp".toList) }

structure HttpOut where
  status : Nat
  served : Bool := false        -- a route handler other than serve404 / rewritePreview / serveWrite ran
  wrote : Bool := false         -- PointsWriter.WritePoints was called
  user : Option Account := none -- the user the LAST authenticate() stage let through (ghost, not observable)
deriving Repr, DecidableEq

structure Cfg where
  requireAuth : Bool
  exposePprof : Bool := false   -- [http] pprof-enabled
  svc : AuthSvc := {}
  extra : List Route := []      -- routes added with AddRoutes (patterns already carry BasePath)
deriving Repr

/-- `addRawRoute`: with which `requireAuthentication` the route's handler is wrapped. A handler that receives
the user always gets the configured value; a plain handler is exempt exactly when the route says `BypassAuth`
AND pprof is exposed. -/
def routeRequiresAuth (cfg : Cfg) (r : Route) : Bool :=
  if r.forward then cfg.requireAuth
  else if r.bypass && cfg.exposePprof then false else cfg.requireAuth

/-- The resource `serveWriteLine` authorises the write against: `auth.DatabaseResource(qp.Get("db"))` — the database
the points go to and nothing else of the request (not `rp`, not `precision`, not `consistency`). -/
def writeResource (req : Req) : Path := databaseResource req.db

/-- The `(database, retentionPolicy)` arguments of `h.PointsWriter.WritePoints`: where the points go. -/
def writeTarget (req : Req) : List Char × List Char := (req.db, req.rp)

/-- `serveWriteLine` after the body was parsed (`precision` only scales the time stamp of the point, an unknown
unit counts as nanoseconds; `consistency` is not read at all: `models.ConsistencyLevelAll` is passed). -/
def serveWriteLine (req : Req) (u : Account) : HttpOut :=
  if req.db = [] then { status := 400, user := some u }
  else if authorizeAction u.user (writeResource req) writePriv ≠ .allow then { status := 401, user := some u }
  else { status := 204, wrote := true, user := some u }

/-- The request after `rewritePreview`. -/
def rewritten (req : Req) : Req := { req with path := base ++ req.path.drop preview.length }

/-- One pass `Handler.ServeHTTP` → mux → cors → authenticate → authorize → route handler; `again` is
`h.ServeHTTP` called once more by `rewritePreview`. -/
def serveLevel (cfg : Cfg) (again : Req → HttpOut) (req : Req) : HttpOut :=
  if !allowedMethods.contains req.method then { status := 404 }            -- no mux for the method: serve404
  else if muxCleanPath req.path ≠ req.path then { status := 301 }          -- redirect, no handler runs
  else match muxMatch (builtinRoutes ++ cfg.extra) req.method req.path with
    | none => { status := 404 }
    | some r =>
      if req.method = "OPTIONS".toList then { status := 200 }              -- cors(): returns before inner
      else match authenticate (routeRequiresAuth cfg r) cfg.svc req.auth with
        | .rejected => { status := 401 }
        | .inner u wroteErr =>
          if !authorizeRequest req.method req.path u then { status := if wroteErr then 401 else 403 }
          else match r.kind with
            | .notFound => { status := if wroteErr then 401 else 404, user := some u }
            | .ping => { status := if wroteErr then 401 else 204, served := true, user := some u }
            | .optionsWrite => { status := if wroteErr then 401 else 204, served := true, user := some u }
            | .other => { status := if wroteErr then 401 else 200, served := true, user := some u }
            | .recorder => { status := if wroteErr then 401 else 200, served := true, user := some u }
            | .write => serveWriteLine req u
            | .preview =>
              if preview.isPrefixOf req.path then again (rewritten req)
              else { status := 404, user := some u }

/-- `Handler.ServeHTTP`. `fuel` bounds the re-entry through `rewritePreview` (theorem `preview_depth_one`:
two passes are all that can happen; 508 = fuel exhausted never shows). -/
def serveHTTP (cfg : Cfg) : Nat → Req → HttpOut
  | 0, _ => { status := 508 }
  | fuel + 1, req => serveLevel cfg (serveHTTP cfg fuel) req

/-! ### in front of the handler: request target → `r.URL.Path` -/

def hexVal? (c : Char) : Option Nat :=
  if '0' ≤ c ∧ c ≤ '9' then some (c.toNat - '0'.toNat)
  else if 'a' ≤ c ∧ c ≤ 'f' then some (c.toNat - 'a'.toNat + 10)
  else if 'A' ≤ c ∧ c ≤ 'F' then some (c.toNat - 'A'.toNat + 10)
  else none

/-- `url.unescape(s, encodePath)`: every "%XY" becomes the byte XY — one pass, the output is not looked at again;
a '%' that is not followed by two hex digits is an error. -/
def pctDecode : List Char → Option (List Char)
  | [] => some []
  | '%' :: a :: b :: rest =>
    match hexVal? a, hexVal? b, pctDecode rest with
    | some x, some y, some r => some (Char.ofNat (16 * x + y) :: r)
    | _, _, _ => none
  | '%' :: _ => none
  | c :: rest =>
    match pctDecode rest with
    | some r => some (c :: r)
    | none => none

/-- `http.ReadRequest` → `url.ParseRequestURI` on an origin-form request target: a space or control byte anywhere
makes the request line malformed; the path is what precedes the first '?'; it must begin with '/' and unescape.
`none` = net/http answers 400 by itself, no handler of kapacitor runs. -/
def parseTarget (raw : List Char) : Option Path :=
  if raw.any (fun c => decide (c.toNat ≤ 0x20 ∨ c.toNat = 0x7f)) then none
  else
    let p := raw.takeWhile (· ≠ '?')
    if !isAbs p then none else pctDecode p

structure RawReq where
  method : List Char
  target : List Char            -- the request target as it stands in the request line
  auth : ReqAuth := {}
  db : List Char := []
deriving Repr, DecidableEq

/-- A request as it arrives on the wire. -/
def serveRaw (cfg : Cfg) (fuel : Nat) (r : RawReq) : Option HttpOut :=
  match parseTarget r.target with
  | none => none
  | some p => some (serveHTTP cfg fuel { method := r.method, path := p, auth := r.auth, db := r.db })

/-! ### which handler runs: routing and authorisation look at the same method

`Handler.ServeHTTP` picks the per-method mux by `r.Method` and by nothing else (re-read from the source by the
extractor on every run: `Gen.serveHTTPMethodSources`); `authorizeRequest` reads the same `r.Method`. The routing method
is a PARAMETER here so that a variant that derives it from a request header can be run against the same chain. -/

abbrev Headers := List (List Char × List Char)

/-- The method the mux is chosen by: the one on the wire; the headers are not looked at. -/
def wireMethod (m : List Char) (_ : Headers) : List Char := m

/-- The variant this layer guards against (never in /repo): a POST carrying `X-HTTP-Method-Override: PUT|PATCH|DELETE`
(any case) is ROUTED as that verb while `r.Method` stays what it was. -/
def overrideMethod (m : List Char) (h : Headers) : List Char :=
  if m = "POST".toList then
    match h.find? (fun e => e.1.map Char.toLower = "x-http-method-override".toList) with
    | some e =>
      let o := toUpper e.2
      if o = "PUT".toList ∨ o = "PATCH".toList ∨ o = "DELETE".toList then o else m
    | none => m
  else m

/-- One pass of the chain, returning WHICH registered route's handler runs (none: redirect, refusal, 404, the
CORS short cut for OPTIONS). The mux is chosen by `route req.method hdrs`; cors, authenticate and authorizeRequest
read `req.method` as in `serveLevel`. -/
def ranLevel (route : List Char → Headers → List Char) (cfg : Cfg) (again : Req → Option Route) (hdrs : Headers)
    (req : Req) : Option Route :=
  if !allowedMethods.contains (route req.method hdrs) then none
  else if muxCleanPath req.path ≠ req.path then none
  else match muxMatch (builtinRoutes ++ cfg.extra) (route req.method hdrs) req.path with
    | none => none
    | some r =>
      if req.method = "OPTIONS".toList then none
      else match authenticate (routeRequiresAuth cfg r) cfg.svc req.auth with
        | .rejected => none
        | .inner u _ =>
          if !authorizeRequest req.method req.path u then none
          else match r.kind with
            | .notFound => none
            | .preview => if preview.isPrefixOf req.path then again (rewritten req) else none
            | _ => some r

def ranRoute (route : List Char → Headers → List Char) (cfg : Cfg) (hdrs : Headers) : Nat → Req → Option Route
  | 0, _ => none
  | fuel + 1, req => ranLevel route cfg (ranRoute route cfg hdrs fuel) hdrs req

end Kap.C20
