/-
C20 — the path / authorisation model over an ARBITRARY character type, and its BYTE instance.

Go strings are byte strings: `path.Clean`, `path.Dir`, `path.Join`, `strings.Replace`, `strings.TrimPrefix` and the map
lookups of `auth.User` compare bytes, and '/', '.', '_' are single bytes. `Kap/Model/C20.lean` is written over
`List Char`; this file gives the SAME definitions (same branches, same order — a line-by-line copy) over any type
`α` with decidable equality, parameterised by the two characters the algorithms look at (`sl` = '/', `dt` = '.').
`B.*` is the instance `α = UInt8`, `sl = 47`, `dt = 46`: the model of what the Go code does on ANY byte string,
valid UTF-8 or not.

`Kap/Proofs/C20Bytes.lean` proves that every function here commutes with any injective map `f : α → Char` that
sends `sl` to '/' and `dt` to '.' (for bytes: Latin-1, `B.emb`), i.e. the byte model IS the `List Char` model read
through the embedding, so every theorem of `Kap/Props/C20.lean` (which quantify over ALL `List Char`) applies to
byte strings; `Kap/Props/C20Bytes.lean` restates the key ones on bytes. The driver decodes every string of the
harness byte by byte (`B.emb`), and runs `B.clean`/`B.dir`/`B.apiResource`/`B.databaseResource`/`B.authorizeAction`
next to the `List Char` model on every path op. Core Lean only.
-/
import Kap.Model.C20
namespace Kap.C20.G

variable {α : Type} [DecidableEq α]

/-! ### string glue -/

def pushChar (c : α) : List (List α) → List (List α)
  | [] => [[c]]
  | s :: ss => (c :: s) :: ss

def split (sl : α) : List α → List (List α)
  | [] => [[]]
  | c :: cs => if c = sl then [] :: split sl cs else pushChar c (split sl cs)

def join (sl : α) : List (List α) → List α
  | [] => []
  | [s] => s
  | s :: t :: ss => s ++ sl :: join sl (t :: ss)

/-! ### `path.Clean` -/

structure CS (α : Type) where
  ups : Nat := 0
  stack : List (List α) := []

def popStep (rooted : Bool) (st : CS α) : CS α :=
  match st.stack with
  | _ :: rest => { st with stack := rest }
  | [] => if rooted then st else { st with ups := st.ups + 1 }

def cleanStep (dt : α) (rooted : Bool) (st : CS α) (s : List α) : CS α :=
  if s = [] ∨ s = [dt] then st
  else if s = [dt, dt] then popStep rooted st
  else { st with stack := s :: st.stack }

def cleanSegs (dt : α) (rooted : Bool) (segs : List (List α)) : List (List α) :=
  let st := segs.foldl (cleanStep dt rooted) {}
  List.replicate st.ups [dt, dt] ++ st.stack.reverse

def isAbs (sl : α) : List α → Bool
  | c :: _ => decide (c = sl)
  | [] => false

def clean (sl dt : α) (p : List α) : List α :=
  if p = [] then [dt]
  else
    let out := cleanSegs dt (isAbs sl p) (split sl p)
    if isAbs sl p then sl :: join sl out
    else if out = [] then [dt] else join sl out

def dirPrefix (sl : α) (p : List α) : List α := join sl ((split sl p).dropLast ++ [[]])

def dir (sl dt : α) (p : List α) : List α := clean sl dt (dirPrefix sl p)

def pathJoin2 (sl dt : α) (a b : List α) : List α :=
  if a = [] ∧ b = [] then []
  else if a = [] then clean sl dt b
  else clean sl dt (a ++ sl :: b)

/-! ### `auth` -/

structure User (α : Type) where
  admin : Bool := false
  privs : List (List α × Nat) := []

def mapOr (m : List (List α × Nat)) (k : List α) (v : Nat) : List (List α × Nat) :=
  match m with
  | [] => [(k, v)]
  | e :: rest => if e.1 = k then (e.1, e.2 ||| v) :: rest else e :: mapOr rest k v

def newUser (sl dt : α) (admin : Bool) (grants : List (List α × List Nat)) : User α :=
  { admin := admin, privs := grants.foldl (fun m g => mapOr m (clean sl dt g.1) (orMask g.2)) [] }

def lookup (m : List (List α × Nat)) (k : List α) : Option Nat :=
  match m.find? (fun e => e.1 = k) with
  | some e => some e.2
  | none => none

def walk (sl dt : α) (privs : List (List α × Nat)) (want : Nat) : Nat → List α → Decision
  | 0, _ => .diverge
  | fuel + 1, resource =>
    match lookup privs resource with
    | some p => if authorized p want then .allow else .deny
    | none =>
      if resource = [sl] then .deny
      else walk sl dt privs want fuel (dir sl dt resource)

def authorizeAction (sl dt : α) (u : User α) (resource : List α) (want : Nat) : Decision :=
  if want = noPriv ∨ u.admin = true then .allow
  else if !isAbs sl resource then .invalid
  else if u.privs.length > 0 then
    let r := clean sl dt resource
    walk sl dt u.privs want (r.length + 1) r
  else .deny

/-- `auth.APIResource` (`root` = the constant "/api" in the alphabet). -/
def apiResource (sl dt : α) (root : List α) (p : List α) : List α := pathJoin2 sl dt root p

/-- `strings.Replace(database, "/", "_", -1)`. -/
def dbReplace (sl us : α) (db : List α) : List α := db.map (fun c => if c = sl then us else c)

/-- `auth.DatabaseResource` (`root`, `sufClean`, `sufDirty` = the constants in the alphabet). -/
def databaseResource (sl dt us : α) (root sufClean sufDirty : List α) (db : List α) : List α :=
  if db = [] then root
  else
    let d := dbReplace sl us db
    let d := if d = db then d ++ sufClean else d ++ sufDirty
    pathJoin2 sl dt root d

/-! ### mux -/

def trimPrefix (s pre : List α) : List α :=
  if pre.isPrefixOf s then s.drop pre.length else s

/-- `cleanPath` of mux.go. -/
def muxCleanPath (sl dt : α) (p : List α) : List α :=
  if p = [] then [sl]
  else
    let p := if isAbs sl p then p else sl :: p
    let np := clean sl dt p
    if p.getLast? = some sl ∧ np ≠ [sl] then np ++ [sl] else np

end Kap.C20.G

/-! ### the byte instance -/
namespace Kap.C20.B

abbrev Bytes := List UInt8

/-- An ASCII constant of the source as bytes. -/
def ofAscii (s : List Char) : Bytes := s.map (fun c => c.toNat.toUInt8)

/-- Read a byte as the character with that code (Latin-1): injective, '/' ↦ '/', '.' ↦ '.', '_' ↦ '_'. -/
def emb (b : UInt8) : Char := Char.ofNat b.toNat

def embL (p : Bytes) : List Char := p.map emb

def sl : UInt8 := 47
def dt : UInt8 := 46
def us : UInt8 := 95

def clean (p : Bytes) : Bytes := G.clean sl dt p
def dir (p : Bytes) : Bytes := G.dir sl dt p
def isAbs (p : Bytes) : Bool := G.isAbs sl p
def apiResource (p : Bytes) : Bytes := G.apiResource sl dt (ofAscii Gen.apiRootResource) p
def databaseResource (db : Bytes) : Bytes :=
  G.databaseResource sl dt us (ofAscii Gen.databaseRootResource) (ofAscii Gen.cleanSuffix) (ofAscii Gen.dirtySuffix) db
def newUser (admin : Bool) (grants : List (Bytes × List Nat)) : G.User UInt8 := G.newUser sl dt admin grants
def authorizeAction (u : G.User UInt8) (resource : Bytes) (want : Nat) : Decision := G.authorizeAction sl dt u resource want
def trimBase (p : Bytes) : Bytes := G.trimPrefix p (ofAscii Gen.basePath)
def muxCleanPath (p : Bytes) : Bytes := G.muxCleanPath sl dt p

end Kap.C20.B
