/-
C01 — helper lemmas: the two level searches of `determineLevel` against the plain "highest holding level".
-/
import Kap.Spec.C01
namespace Kap.C01

/-! ### findFirstMatchLevel -/

theorem holds_def (c : Cfg) (p : Pt) (l : Nat) : (levelExpr c l && (p.lv l == some true)) = holds c p l := rfl

/-- Nothing found ⇔ no level in `(stop, start]` holds. -/
theorem ffml_none (c : Cfg) (p : Pt) (stop : Nat) :
    ∀ start, findFirstMatchLevel c p stop start = none ↔ ∀ l, stop < l → l ≤ start → holds c p l = false := by
  intro start
  induction start with
  | zero => simp [findFirstMatchLevel]; intro l h1 h2; omega
  | succ n ih =>
    unfold findFirstMatchLevel
    rw [holds_def]
    by_cases hgt : n + 1 > stop
    · simp only [hgt, if_true]
      by_cases hh : holds c p (n + 1) = true
      · simp only [hh, if_true]
        constructor
        · intro h; cases h
        · intro h; have := h (n + 1) hgt (Nat.le_refl _); rw [hh] at this; cases this
      · have hh' : holds c p (n + 1) = false := by simpa using hh
        simp only [hh', Bool.false_eq_true, if_false, ih]
        constructor
        · intro h l h1 h2
          by_cases hl : l = n + 1
          · subst hl; exact hh'
          · exact h l h1 (by omega)
        · intro h l h1 h2; exact h l h1 (by omega)
    · simp only [hgt, if_false]
      constructor
      · intro _ l h1 h2; omega
      · intro _; trivial

/-- Found `l` ⇒ `l` is the greatest level in `(stop, start]` that holds. -/
theorem ffml_some (c : Cfg) (p : Pt) (stop : Nat) :
    ∀ start l, findFirstMatchLevel c p stop start = some l →
      stop < l ∧ l ≤ start ∧ holds c p l = true ∧ ∀ l', l < l' → l' ≤ start → holds c p l' = false := by
  intro start
  induction start with
  | zero => intro l h; simp [findFirstMatchLevel] at h
  | succ n ih =>
    intro l h
    unfold findFirstMatchLevel at h
    rw [holds_def] at h
    by_cases hgt : n + 1 > stop
    · simp only [hgt, if_true] at h
      by_cases hh : holds c p (n + 1) = true
      · simp only [hh, if_true] at h
        cases h
        exact ⟨hgt, Nat.le_refl _, hh, fun l' h1 h2 => by omega⟩
      · have hh' : holds c p (n + 1) = false := by simpa using hh
        simp only [hh', Bool.false_eq_true, if_false] at h
        obtain ⟨a, b, c', d⟩ := ih l h
        refine ⟨a, by omega, c', fun l' h1 h2 => ?_⟩
        by_cases hl : l' = n + 1
        · subst hl; exact hh'
        · exact d l' h1 (by omega)
    · simp only [hgt, if_false] at h; cases h

/-! ### highestHolding -/

theorem holds_out_of_range (c : Cfg) (p : Pt) (l : Nat) (h : l = 0 ∨ 3 < l) : holds c p l = false := by
  unfold holds levelExpr
  rcases h with rfl | h
  · rfl
  · match l, h with
    | l + 4, _ => rfl

theorem highestHolding_le (c : Cfg) (p : Pt) : highestHolding c p ≤ 3 := by
  unfold highestHolding
  simp only [List.find?]
  cases holds c p 3 <;> cases holds c p 2 <;> cases holds c p 1 <;> simp

/-- `highestHolding` is OK or a holding level … -/
theorem highestHolding_holds (c : Cfg) (p : Pt) : highestHolding c p = 0 ∨ holds c p (highestHolding c p) = true := by
  unfold highestHolding
  simp only [List.find?]
  cases h3 : holds c p 3 <;> cases h2 : holds c p 2 <;> cases h1 : holds c p 1 <;> simp [h1, h2, h3]

/-- … and no level above it holds. -/
theorem highestHolding_max (c : Cfg) (p : Pt) (l : Nat) (h : highestHolding c p < l) : holds c p l = false := by
  by_cases hr : l = 0 ∨ 3 < l
  · exact holds_out_of_range c p l hr
  · have hl : l = 1 ∨ l = 2 ∨ l = 3 := by omega
    revert h
    unfold highestHolding
    simp only [List.find?]
    cases h3 : holds c p 3 <;> cases h2 : holds c p 2 <;> cases h1 : holds c p 1 <;>
      rcases hl with rfl | rfl | rfl <;> simp [h1, h2, h3]

/-- A level that is OK-or-holding and has nothing holding above it IS the highest holding level. -/
theorem highestHolding_unique (c : Cfg) (p : Pt) (l : Nat)
    (h1 : l = 0 ∨ holds c p l = true) (h2 : ∀ l', l < l' → holds c p l' = false) : highestHolding c p = l := by
  have a := highestHolding_holds c p
  have b := highestHolding_max c p
  rcases Nat.lt_trichotomy (highestHolding c p) l with h | h | h
  · rcases h1 with rfl | h1
    · omega
    · rw [b l h] at h1; cases h1
  · exact h
  · rcases a with a | a
    · omega
    · rw [h2 _ h] at a; cases a

/-! ### determineLevel = specLevel -/

theorem determineLevel_eq_specLevel (c : Cfg) (p : Pt) (cur : Nat) : determineLevel c p cur = specLevel c p cur := by
  unfold determineLevel specLevel
  simp only [critical, show Gen.levelSearchRecognised = true from rfl, Bool.not_true, Bool.false_eq_true, if_false]
  have hmax := highestHolding_max c p
  cases hup : findFirstMatchLevel c p (cur - 1) 3 with
  | some l =>
    -- found at or above cur: it is the highest holding level, and it is not below cur
    obtain ⟨h1, h2, h3, h4⟩ := ffml_some c p _ _ _ hup
    have hb : highestHolding c p = l := highestHolding_unique c p l (Or.inr h3) (fun l' hl' => by
      by_cases h : l' ≤ 3
      · exact h4 l' hl' h
      · exact holds_out_of_range c p l' (Or.inr (by omega)))
    have : ¬ (highestHolding c p < cur) := by omega
    simp only [hb]
    have hnot : decide (l < cur) = false := by simp; omega
    simp [hnot]
  | none =>
    have hnone := (ffml_none c p _ _).mp hup
    -- nothing at or above max cur 1 holds
    have habove : ∀ l, cur ≤ l → 1 ≤ l → holds c p l = false := fun l h1 h2 => by
      by_cases h : l ≤ 3
      · exact hnone l (by omega) h
      · exact holds_out_of_range c p l (Or.inr (by omega))
    have hlt : cur = 0 ∨ highestHolding c p < cur := by
      rcases highestHolding_holds c p with h | h
      · rcases Nat.eq_zero_or_pos cur with h0 | h0
        · exact Or.inl h0
        · exact Or.inr (by omega)
      · by_cases hc : highestHolding c p < cur
        · exact Or.inr hc
        · have : 1 ≤ highestHolding c p := by
            rcases Nat.eq_zero_or_pos (highestHolding c p) with h0 | h0
            · rw [h0] at h; rw [holds_out_of_range c p 0 (Or.inl rfl)] at h; cases h
            · exact h0
          rw [habove _ (by omega) this] at h; cases h
    -- the downward search finds the highest holding level
    have hdownS : ∀ l, findFirstMatchLevel c p 0 cur = some l → l = highestHolding c p := fun l hd => by
      obtain ⟨h1, h2, h3, h4⟩ := ffml_some c p _ _ _ hd
      exact (highestHolding_unique c p l (Or.inr h3) (fun l' hl' => by
        by_cases h : l' ≤ cur
        · exact h4 l' hl' h
        · exact habove l' (by omega) (by omega))).symm
    have hdownN : findFirstMatchLevel c p 0 cur = none → 0 = highestHolding c p := fun hd => by
      have hn := (ffml_none c p _ _).mp hd
      exact (highestHolding_unique c p 0 (Or.inl rfl) (fun l' hl' => by
        by_cases h : l' ≤ cur
        · exact hn l' hl' h
        · exact habove l' (by omega) (by omega))).symm
    have hres : (resetExpr c cur && (p.rs cur == some false)) = heldBack c p cur := rfl
    simp only [hres]
    rcases hlt with h0 | hlt
    · subst h0
      have : heldBack c p 0 = false := rfl
      simp only [this, Bool.and_false, Bool.false_eq_true, if_false]
      cases hd : findFirstMatchLevel c p 0 0 with
      | some l => exact hdownS l hd
      | none => exact hdownN hd
    · simp only [hlt, decide_true, Bool.true_and]
      by_cases hb : heldBack c p cur = true
      · simp only [hb, if_true]
      · simp only [hb]
        cases hd : findFirstMatchLevel c p 0 cur with
        | some l => exact hdownS l hd
        | none => exact hdownN hd

theorem determineLevel_of_no_resets (c : Cfg) (p : Pt) (cur : Nat)
    (h : c.infoReset = false ∧ c.warnReset = false ∧ c.critReset = false) :
    determineLevel c p cur = highestHolding c p := by
  rw [determineLevel_eq_specLevel]
  obtain ⟨h1, h2, h3⟩ := h
  have : heldBack c p cur = false := by
    unfold heldBack resetExpr
    match cur with
    | 0 => rfl
    | 1 => simp [h1]
    | 2 => simp [h2]
    | 3 => simp [h3]
    | _ + 4 => rfl
  simp [specLevel, this]

theorem determineLevel_le (c : Cfg) (p : Pt) (cur : Nat) (h : cur ≤ 3) : determineLevel c p cur ≤ 3 := by
  rw [determineLevel_eq_specLevel]
  unfold specLevel
  have := highestHolding_le c p
  simp only []
  split <;> omega

theorem effHistory_ge_two (h : Option Int) : 2 ≤ effHistory h := by
  unfold effHistory
  simp only [Gen.defaultHistory, Gen.historyClamp]
  cases h with
  | none => decide
  | some h =>
    by_cases hh : h < 2
    · simp [hh]
    · simp only [hh, if_false]; omega

end Kap.C01
