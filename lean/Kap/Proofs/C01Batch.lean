/-
C01 — the batch form: the scan loop of `BufferedBatch` against min / max / first-point-of-the-maximum, and the
step refinement.
-/
import Kap.Proofs.C01Step
namespace Kap.C01

/-- What the loop of `BufferedBatch` has computed after a NON-EMPTY prefix `pre` (levels given by `f`). -/
structure ScanInv (f : Pt → Nat) (sc : Scan) (pre : List Pt) : Prop where
  low : sc.lowest = (pre.map f).foldl min 3
  high : sc.highest = (pre.map f).foldl max 0
  bound : ∀ q ∈ pre, f q ≤ sc.highest
  point : sc.highestPoint = pre.find? (fun p => f p == sc.highest)
  some : sc.highestPoint.isSome = true

theorem scanStep_eq (c : Cfg) (cur : Nat) (sc : Scan) (bp : Pt) :
    scanStep c cur sc bp =
      (let l := determineLevel c bp cur
       if l > sc.highest || sc.highestPoint.isNone then
         { lowest := min l sc.lowest, highest := l, highestPoint := some bp }
       else { sc with lowest := min l sc.lowest }) := by
  have hmin : min (determineLevel c bp cur) sc.lowest =
      if determineLevel c bp cur < sc.lowest then determineLevel c bp cur else sc.lowest := by
    rw [Nat.min_def]; split <;> split <;> omega
  simp only [scanStep, Gen.scanLower, Gen.scanHigher, hmin, decide_eq_true_eq]

theorem foldl_min_snoc (l : List Nat) (a x : Nat) : (l ++ [x]).foldl min a = min x (l.foldl min a) := by
  rw [List.foldl_append]; simp [Nat.min_comm]

theorem foldl_max_snoc (l : List Nat) (a x : Nat) : (l ++ [x]).foldl max a = max (l.foldl max a) x := by
  rw [List.foldl_append]; simp

theorem scan_step_inv (c : Cfg) (cur : Nat) (sc : Scan) (pre : List Pt) (bp : Pt)
    (h : ScanInv (fun p => determineLevel c p cur) sc pre) :
    ScanInv (fun p => determineLevel c p cur) (scanStep c cur sc bp) (pre ++ [bp]) := by
  rw [scanStep_eq]
  obtain ⟨hlow, hhigh, hbound, hpoint, hsome⟩ := h
  have hnone : sc.highestPoint.isNone = false := by
    cases hq : sc.highestPoint with
    | none => rw [hq] at hsome; cases hsome
    | some _ => rfl
  simp only [hnone, Bool.or_false, decide_eq_true_eq]
  by_cases hgt : determineLevel c bp cur > sc.highest
  · simp only [hgt, if_true]
    refine ⟨?_, ?_, ?_, ?_, rfl⟩
    · simp only [List.map_append, List.map_cons, List.map_nil, foldl_min_snoc, hlow]
    · simp only [List.map_append, List.map_cons, List.map_nil, foldl_max_snoc, ← hhigh]; omega
    · intro q hq
      show determineLevel c q cur ≤ determineLevel c bp cur
      rcases List.mem_append.mp hq with hq | hq
      · have := hbound q hq; omega
      · simp at hq; subst hq; exact Nat.le_refl _
    · rw [List.find?_append]
      have : pre.find? (fun p => determineLevel c p cur == determineLevel c bp cur) = none := by
        rw [List.find?_eq_none]; intro q hq; have := hbound q hq; simp; omega
      simp [this]
  · simp only [hgt, if_false]
    refine ⟨?_, ?_, ?_, ?_, hsome⟩
    · simp only [List.map_append, List.map_cons, List.map_nil, foldl_min_snoc, hlow]
    · simp only [List.map_append, List.map_cons, List.map_nil, foldl_max_snoc, ← hhigh]; omega
    · intro q hq
      show determineLevel c q cur ≤ sc.highest
      rcases List.mem_append.mp hq with hq | hq
      · exact hbound q hq
      · simp at hq; subst hq; omega
    · show sc.highestPoint = _
      rw [List.find?_append, ← hpoint]
      cases hq : sc.highestPoint with
      | none => rw [hq] at hsome; cases hsome
      | some _ => rfl

theorem scan_fold_inv (c : Cfg) (cur : Nat) (rest : List Pt) :
    ∀ (sc : Scan) (pre : List Pt), ScanInv (fun p => determineLevel c p cur) sc pre →
      ScanInv (fun p => determineLevel c p cur) (rest.foldl (scanStep c cur) sc) (pre ++ rest) := by
  induction rest with
  | nil => intro sc pre h; simpa using h
  | cons bp rest ih =>
    intro sc pre h
    have := ih _ _ (scan_step_inv c cur sc pre bp h)
    simpa [List.append_assoc] using this

/-- The loop of `BufferedBatch` over a non-empty batch: lowest level, highest level, first point of the highest. -/
theorem scan_spec (c : Cfg) (cur : Nat) (p1 : Pt) (rest : List Pt) :
    ScanInv (fun p => determineLevel c p cur) ((p1 :: rest).foldl (scanStep c cur) {}) (p1 :: rest) := by
  have h1 : ScanInv (fun p => determineLevel c p cur) (scanStep c cur {} p1) [p1] := by
    rw [scanStep_eq]
    simp only [Option.isNone_none, Bool.or_true, if_true]
    refine ⟨by simp [critical, Nat.min_comm], by simp, by simp, by simp, rfl⟩
  simpa using scan_fold_inv c cur rest _ _ h1

/-- The model's "this batch alerts" decision is the spec's `due`, with flap detection letting the recovery through. -/
theorem batch_alert_eq (c : Cfg) (hc : c.WF) (flap : FlapFn) (s : St) (tr : Track) (t : Int) (l : Nat) (h : Rel c s tr) :
    let sA := addEvent c flap s t l
    (!Gen.batchSilent (guards c sA l))
      = (due c tr.level l t tr.lastAlert && (!(c.useFlap && sA.flapping) || l == 0)) := by
  intro sA
  have F := addEvent_facts c flap s t l h.ring
  have hch : sA.changed = (tr.level != l) := by rw [F.changed, h.level]
  have hex : sA.expired = (!(tr.level != l) && intervalElapsed c t tr.lastAlert) := by
    rw [F.expired, h.level, h.last, Bool.and_assoc, expired_eq c hc]
  simp only [Gen.batchSilent, guards, due, hch, hex]
  have k1 : (l != 0) = false → (tr.level != l) = (tr.level != 0) := by
    intro h; have : l = 0 := by simpa using h
    subst this; rfl
  have k2 : (tr.level != 0) = false → (tr.level != l) = (l != 0) := by
    intro h; have : tr.level = 0 := by simpa using h
    rw [this]; simp [bne, BEq.comm]
  have k3 : (l != tr.level) = (tr.level != l) := by simp [bne, BEq.comm]
  have k4 : (l == 0) = !(l != 0) := by simp [bne]
  rw [k3, k4]
  generalize (l != 0) = A at *
  generalize (tr.level != 0) = B at *
  generalize (tr.level != l) = C at *
  cases c.useFlap <;> cases sA.flapping <;> cases c.sco <;> cases intervalElapsed c t tr.lastAlert <;>
    cases A <;> cases B <;> cases C <;> simp_all

theorem batch_refines (c : Cfg) (hc : c.WF) (flap : FlapFn) (s : St) (tr : Track) (b : Batch) (h : Rel c s tr) :
    let r := batchStep c flap s b
    let fl := c.useFlap && r.1.flapping
    Rel c r.1 (specBatch c tr b fl).1 ∧ r.2 = (specBatch c tr b fl).2 := by
  intro r fl
  obtain ⟨tmax, pts⟩ := b
  cases pts with
  | nil =>
    have : batchStep c flap s { tmax := tmax, pts := [] } = (s, none) := by
      simp [batchStep, show Gen.batchEmptyReturns = true from rfl]
    show Rel c (batchStep c flap s { tmax := tmax, pts := [] }).1 _ ∧ (batchStep c flap s { tmax := tmax, pts := [] }).2 = _
    rw [this]; exact ⟨h, rfl⟩
  | cons p1 rest =>
    -- levels of the points: model = spec
    have hf : ∀ p, determineLevel c p (currentLevel s) = specLevel c p tr.level := fun p => by
      rw [determineLevel_eq_specLevel, h.level]
    have hmap : (p1 :: rest).map (fun p => determineLevel c p (currentLevel s)) = (p1 :: rest).map (fun p => specLevel c p tr.level) :=
      List.map_congr_left (fun p _ => hf p)
    have hfun : (fun p => determineLevel c p (currentLevel s) == ((p1 :: rest).foldl (scanStep c (currentLevel s)) {}).highest)
        = (fun p => specLevel c p tr.level == ((p1 :: rest).foldl (scanStep c (currentLevel s)) {}).highest) := by
      funext p; rw [hf]
    obtain ⟨hlow, hhigh, _, hpoint, hsome⟩ := scan_spec c (currentLevel s) p1 rest
    generalize hsc : (p1 :: rest).foldl (scanStep c (currentLevel s)) {} = sc at *
    rw [hmap] at hlow hhigh
    rw [hfun] at hpoint
    -- level and time of the batch: model = spec
    have hl : (if Gen.batchUseHighest { all := c.all } = true then sc.highest else sc.lowest) = batchLevel c tr.level (p1 :: rest) := by
      simp only [Gen.batchUseHighest, batchLevel, ← hlow, ← hhigh]
      cases c.all <;> simp
    generalize hlv : batchLevel c tr.level (p1 :: rest) = l at hl
    obtain ⟨hp, hhp⟩ : ∃ hp, sc.highestPoint = some hp := by
      cases hq : sc.highestPoint with
      | none => rw [hq] at hsome; cases hsome
      | some hp => exact ⟨hp, rfl⟩
    have ht : (if Gen.batchUseBatchTime { all := c.all, l := l } = true then tmax else hp.t)
        = batchTime c tr.level { tmax := tmax, pts := p1 :: rest } l := by
      simp only [Gen.batchUseBatchTime, batchTime]
      by_cases hu : (c.all || l == 0) = true
      · simp only [hu, if_true]
      · simp only [hu]
        have hall : c.all = false := by cases hca : c.all <;> simp_all
        have : l = sc.highest := by rw [← hl]; simp [Gen.batchUseHighest, hall]
        rw [this, ← hpoint, hhp]
    generalize htt : batchTime c tr.level { tmax := tmax, pts := p1 :: rest } l = t at ht
    let sA := addEvent c flap s t l
    obtain ⟨_, _, Tr_flap, _, _⟩ := triggered_facts sA t
    let alert := !Gen.batchSilent (guards c sA l)
    have halert : alert = (due c tr.level l t tr.lastAlert && (!(c.useFlap && sA.flapping) || l == 0)) :=
      batch_alert_eq c hc flap s tr t l h
    have hshape : r = (if alert then triggered sA t else sA,
        if alert && !withheld c l then some ({ level := l, time := t, dur := duration (if alert then triggered sA t else sA) } : Ev) else none) := by
      show batchStep c flap s { tmax := tmax, pts := p1 :: rest } = _
      unfold batchStep
      simp only [hsc, hhp, hl, ht]
      show (if Gen.batchSilent (guards c sA l) = true then (sA, none) else
            (if Gen.batchWithhold (guards c (triggered sA t) l) = true then (triggered sA t, none)
             else (triggered sA t, some ({ level := l, time := t, dur := duration (triggered sA t) } : Ev)))) = _
      have hw : Gen.batchWithhold (guards c (triggered sA t) l) = withheld c l := by
        simp [Gen.batchWithhold, guards, withheld]
      rw [hw]
      simp only [alert]
      by_cases hs : Gen.batchSilent (guards c sA l) = true <;> by_cases hwh : withheld c l = true <;> simp [hs, hwh]
    have hfl : fl = (c.useFlap && sA.flapping) := by
      show (c.useFlap && r.1.flapping) = _
      rw [hshape]
      cases halt : alert with
      | false => simp
      | true => simp [Tr_flap]
    have hal : alert = true → l ≠ 0 ∨ tr.level ≠ 0 := by
      intro ha
      have : (due c tr.level l t tr.lastAlert && (!(c.useFlap && sA.flapping) || l == 0)) = true := by rw [← halert]; exact ha
      simp only [due, Bool.and_eq_true, Bool.or_eq_true, bne_iff_ne] at this
      exact this.1.1
    have key := advance_refines c flap s tr t l alert h hal
    rw [hshape]
    simp only [specBatch, List.isEmpty_cons, Bool.false_eq_true, if_false, hlv, htt, hfl]
    rw [← halert]
    exact key

end Kap.C01
