/-
C01 — the spec's running quantity `Track.leftOK` IS "the time of the last point at which the ID left OK", stated on
positions of the plain level sequence (no fold): a sanity theorem about the spec itself.
-/
import Kap.Spec.C01
namespace Kap.C01

/-- Levels of the points of a stream history, in order (`prev` = level before the first point). -/
def levelsOf (c : Cfg) : Nat → List Pt → List Nat
  | _, [] => []
  | prev, p :: ps => specLevel c p prev :: levelsOf c (specLevel c p prev) ps

/-- The spec's track after a stream history. -/
def trackAfter (c : Cfg) (tr : Track) : List (Pt × Bool) → Track
  | [] => tr
  | (p, fl) :: ps => trackAfter c (specPoint c tr p fl).1 ps

/-- At position `j` the ID leaves OK: its level there is not OK and the level just before (`prev0` before the first
point) is OK. -/
def leavesOKAt (prev0 : Nat) (levels : List Nat) (j : Nat) : Prop :=
  levels.getD j 0 ≠ 0 ∧ (if j = 0 then prev0 else levels.getD (j - 1) 0) = 0

theorem levelsOf_length (c : Cfg) : ∀ (ps : List Pt) (prev : Nat), (levelsOf c prev ps).length = ps.length
  | [], _ => rfl
  | _ :: ps, _ => by simp [levelsOf, levelsOf_length c ps]

theorem leaves_succ (prev0 l0 : Nat) (L : List Nat) (j : Nat) :
    leavesOKAt prev0 (l0 :: L) (j + 1) ↔ leavesOKAt l0 L j := by
  unfold leavesOKAt
  cases j with
  | zero => simp
  | succ j => simp

/-- **`leftOK` after a history = the time of the LAST position at which the ID left OK** (or what it was before the
history when there is no such position) — whatever the flapping flags. -/
theorem leftOK_is_last_departure (c : Cfg) :
    ∀ (ps : List Pt) (fls : List Bool) (tr : Track), fls.length = ps.length →
      let L := levelsOf c tr.level ps
      let r := (trackAfter c tr (ps.zip fls)).leftOK
      (∃ j, j < ps.length ∧ leavesOKAt tr.level L j ∧ (∀ j', j < j' → j' < ps.length → ¬ leavesOKAt tr.level L j') ∧
            r = some ((ps.map (·.t)).getD j 0)) ∨
      ((∀ j, j < ps.length → ¬ leavesOKAt tr.level L j) ∧ r = tr.leftOK) := by
  intro ps
  induction ps with
  | nil => intro fls tr _; right; exact ⟨fun j hj => by simp at hj, by simp [trackAfter]⟩
  | cons p ps ih =>
    intro fls tr hlen
    cases fls with
    | nil => simp at hlen
    | cons fl fls =>
      have hlen' : fls.length = ps.length := by simpa using hlen
      -- the track after the first point
      have hlev : (specPoint c tr p fl).1.level = specLevel c p tr.level := by simp [specPoint, advance]
      have hleft : (specPoint c tr p fl).1.leftOK =
          if tr.level == 0 && specLevel c p tr.level != 0 then some p.t else tr.leftOK := by simp [specPoint, advance]
      have IH := ih fls (specPoint c tr p fl).1 hlen'
      simp only [hlev] at IH
      simp only [List.zip_cons_cons, trackAfter, levelsOf, List.length_cons, List.map_cons]
      rcases IH with ⟨j, hj, hlv, hmax, hr⟩ | ⟨hnone, hr⟩
      · left
        refine ⟨j + 1, by omega, (leaves_succ _ _ _ _).mpr hlv, ?_, by simpa using hr⟩
        intro j' h1 h2
        cases j' with
        | zero => omega
        | succ j' => rw [leaves_succ]; exact hmax j' (by omega) (by omega)
      · by_cases h0 : tr.level = 0 ∧ specLevel c p tr.level ≠ 0
        · left
          refine ⟨0, by omega, ?_, ?_, ?_⟩
          · exact ⟨by simpa using h0.2, by simpa using h0.1⟩
          · intro j' h1 h2
            cases j' with
            | zero => omega
            | succ j' => rw [leaves_succ]; exact hnone j' (by omega)
          · have e1 : (tr.level == 0) = true := by simpa using h0.1
            have e2 : (specLevel c p tr.level != 0) = true := by simpa using h0.2
            rw [hr, hleft]; simp [e1, e2]
        · right
          refine ⟨?_, ?_⟩
          · intro j hj
            cases j with
            | zero =>
              simp only [leavesOKAt, List.getD_cons_zero, if_true]
              intro h; exact h0 ⟨h.2, h.1⟩
            | succ j => rw [leaves_succ]; exact hnone j (by omega)
          · rw [hr, hleft]
            have : (tr.level == 0 && specLevel c p tr.level != 0) = false := by
              by_cases a : tr.level = 0 <;> by_cases b : specLevel c p tr.level = 0 <;> simp_all
            simp [this]

end Kap.C01
