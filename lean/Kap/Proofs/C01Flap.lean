/-
C01 — flap detection only suppresses (no state-changes-only interval); restore; ring facts at history level.
-/
import Kap.Proofs.C01Run
namespace Kap.C01

/-! ### "flapping only suppresses" on the spec -/

/-- Two tracks that agree on what matters when no state-changes-only interval is configured. -/
def Track.sim (a b : Track) : Prop := a.level = b.level ∧ a.leftOK = b.leftOK

theorem due_no_interval (c : Cfg) (h : c.scoDur = 0) (prev cur : Nat) (t : Int) (la lb : Option Int) :
    due c prev cur t la = due c prev cur t lb := by
  simp [due, intervalElapsed, h]

theorem advance_sim (c : Cfg) (a b : Track) (cur : Nat) (t : Int) (x y : Bool) (h : a.sim b) :
    (advance c a cur t x).1.sim (advance c b cur t y).1 := by
  obtain ⟨h1, h2⟩ := h
  simp [advance, Track.sim, h1, h2]

/-- One step: what is delivered with the flag set is delivered without it (same event). -/
theorem advance_sub (c : Cfg) (a b : Track) (cur : Nat) (t : Int) (x y : Bool) (h : a.sim b) (hxy : x = true → y = true) :
    ((advance c a cur t x).2.toList).Sublist ((advance c b cur t y).2.toList) := by
  obtain ⟨h1, h2⟩ := h
  simp only [advance, h1, h2]
  cases x <;> cases y <;> cases withheld c cur <;> simp_all

theorem specStream_sub (c : Cfg) (h0 : c.scoDur = 0) :
    ∀ (ps : List Pt) (fls : List Bool) (a b : Track), a.sim b →
      (specStream c a (ps.zip fls)).Sublist (specStream c b (ps.map (fun p => (p, false)))) := by
  intro ps
  induction ps with
  | nil => intro fls a b _; simp [specStream]
  | cons p ps ih =>
    intro fls a b h
    cases fls with
    | nil => simp [specStream]
    | cons fl fls =>
      simp only [List.zip_cons_cons, List.map_cons, specStream, specPoint]
      have hl : a.level = b.level := h.1
      rw [hl, due_no_interval c h0 _ _ _ a.lastAlert b.lastAlert]
      refine List.Sublist.append (advance_sub c a b _ _ _ _ h (by intro hx; simp_all)) ?_
      exact ih fls _ _ (advance_sim c a b _ _ _ _ h)

theorem specBatches_sub (c : Cfg) (h0 : c.scoDur = 0) :
    ∀ (bs : List Batch) (fls : List Bool) (a b : Track), a.sim b →
      (specBatches c a (bs.zip fls)).Sublist (specBatches c b (bs.map (fun x => (x, false)))) := by
  intro bs
  induction bs with
  | nil => intro fls a b _; simp [specBatches]
  | cons x bs ih =>
    intro fls a b h
    cases fls with
    | nil => simp [specBatches]
    | cons fl fls =>
      simp only [List.zip_cons_cons, List.map_cons, specBatches, specBatch]
      have hl : a.level = b.level := h.1
      by_cases he : x.pts.isEmpty = true
      · simp only [he, if_true, Option.toList_none, List.nil_append]
        exact ih fls _ _ h
      · simp only [he]
        rw [hl, due_no_interval c h0 _ _ _ a.lastAlert b.lastAlert]
        refine List.Sublist.append (advance_sub c a b _ _ _ _ h (by intro hx; simp_all)) ?_
        exact ih fls _ _ (advance_sim c a b _ _ _ _ h)

/-- the spec does not read `useFlap` (flap detection reaches it only through the flags) -/
theorem specStream_useFlap (c : Cfg) (u : Bool) (tr : Track) (l : List (Pt × Bool)) :
    specStream { c with useFlap := u } tr l = specStream c tr l := by
  induction l generalizing tr with
  | nil => rfl
  | cons x l ih => obtain ⟨p, fl⟩ := x; simp only [specStream]; rw [ih]; rfl

theorem specBatches_useFlap (c : Cfg) (u : Bool) (tr : Track) (l : List (Batch × Bool)) :
    specBatches { c with useFlap := u } tr l = specBatches c tr l := by
  induction l generalizing tr with
  | nil => rfl
  | cons x l ih => obtain ⟨p, fl⟩ := x; simp only [specBatches]; rw [ih]; rfl

/-! ### restore -/

/-- After the OLD `restoreEventState` the state machine stands at the stored level, and it takes the stored event's
TIME for both "left OK at" and "last alert at". -/
theorem restore_rel_old (c : Cfg) (hc : c.WF) (flap : FlapFn) (t : Int) (level : Nat) (stored : Int) (hl : level ≠ 0) :
    Rel c (restoreEventStateOld c flap t level stored) { level := level, leftOK := some stored, lastAlert := some stored } := by
  have h0 := rel_init c hc
  unfold restoreEventStateOld
  have : (level != 0) = true := by simpa using hl
  simp only [this, if_true]
  let sA := addEvent c flap (newAlertState c) t level
  have F := addEvent_facts c flap (newAlertState c) t level h0.ring
  obtain ⟨Th, Ti, _, Tl, Tf⟩ := triggered_facts sA stored
  have hprev : prevLevel sA = 0 := by rw [F.prev]; exact newAlertState_current c
  refine ⟨⟨by rw [Th]; exact F.ring.len, F.ring.two, by rw [Th, Ti]; exact F.ring.idx⟩, ?_, ?_, Tl, fun _ => rfl⟩
  · show currentLevel (triggered sA stored) = level
    simp only [currentLevel]; rw [Th, Ti]; exact F.cur
  · show (triggered sA stored).firstTriggered = some stored
    rw [Tf, hprev]; rfl

/-- After the repaired `restoreEventState`: at the stored level, last alert at the stored event's time, left OK
`dur` before it — exactly where the ID was when the event was stored. -/
theorem restore_rel (c : Cfg) (hc : c.WF) (flap : FlapFn) (t : Int) (level : Nat) (stored dur : Int) (hl : level ≠ 0) :
    Rel c (restoreEventState c flap t level stored dur)
      { level := level, leftOK := some (stored - dur), lastAlert := some stored } := by
  have hold := restore_rel_old c hc flap t level stored hl
  unfold restoreEventStateOld at hold
  unfold restoreEventState
  have : (level != 0) = true := by simpa using hl
  simp only [this, if_true] at hold ⊢
  exact ⟨⟨hold.ring.len, hold.ring.two, hold.ring.idx⟩, hold.level, rfl, hold.last, fun _ => rfl⟩

end Kap.C01
