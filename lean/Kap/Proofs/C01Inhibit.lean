/-
C01 — inhibition: the inhibitor flag of an alert state tracks the level of its ID (no flap suppression), and the
two-ID world refines the spec world.
-/
import Kap.Proofs.C01Batch
namespace Kap.C01

/-- the flag last set on the state's inhibitors = "the ID is not OK" -/
def IRel (s : St) : Prop := s.inhibiting = (currentLevel s != 0)

theorem addEvent_inhibiting (c : Cfg) (flap : FlapFn) (s : St) (t : Int) (l : Nat) :
    (addEvent c flap s t l).inhibiting = s.inhibiting := by
  unfold addEvent updateExpired updateFlapping
  cases c.useFlap <;> simp

theorem triggered_inhibiting (s : St) (t : Int) :
    (triggered s t).inhibiting = (currentLevel s != 0) ∧ currentLevel (triggered s t) = currentLevel s := by
  simp [triggered, currentLevel, Gen.inhibitRule]

theorem irel_init (c : Cfg) : IRel (newAlertState c) := by
  unfold IRel; rw [newAlertState_current]; rfl

/-- after `addEvent`, if the ID does not alert and nothing is flap-suppressed, its OK-ness did not change -/
theorem quiet_keeps_level (c : Cfg) (hf : c.useFlap = false) (flap : FlapFn) (s : St) (t : Int) (l : Nat) (h : RingOK c s)
    (hq : (!Gen.pointSuppress (guards c (addEvent c flap s t l) l) && Gen.pointSend (guards c (addEvent c flap s t l) l)) = false) :
    currentLevel s = l := by
  have F := addEvent_facts c flap s t l h
  simp only [Gen.pointSuppress, Gen.pointSend, guards, hf, F.changed, Bool.false_and, Bool.false_or] at hq
  by_cases he : currentLevel s = l
  · exact he
  · have hb : (currentLevel s != l) = true := by simpa using he
    by_cases hl : l = 0
    · simp [hb] at hq
    · have : (l != 0) = true := by simpa using hl
      simp [hb, this] at hq

/-- **Stream form**: the inhibitor flag is "the ID is not OK" after every point — for every combination of
no-recoveries / state-changes-only (with or without interval), every level sequence; flap detection off. -/
theorem point_irel (c : Cfg) (hf : c.useFlap = false) (flap : FlapFn) (s : St) (p : Pt) (h : RingOK c s) (hi : IRel s) :
    IRel (pointStep c flap s p).1 := by
  generalize hl : determineLevel c p (currentLevel s) = l
  have F := addEvent_facts c flap s p.t l h
  have hA := addEvent_inhibiting c flap s p.t l
  obtain ⟨ht1, ht2⟩ := triggered_inhibiting (addEvent c flap s p.t l) p.t
  unfold pointStep
  simp only [hl]
  unfold IRel at *
  rcases Bool.eq_false_or_eq_true (Gen.pointSuppress (guards c (addEvent c flap s p.t l) l)) with hs | hs
  · have := quiet_keeps_level c hf flap s p.t l h (by simp [hs])
    simp only [hs, if_true]; rw [hA, hi, F.cur, this]
  · rcases Bool.eq_false_or_eq_true (Gen.pointSend (guards c (addEvent c flap s p.t l) l)) with hp | hp
    · simp only [hs, hp, if_true, Bool.false_eq_true, if_false]
      rcases Bool.eq_false_or_eq_true (Gen.pointWithhold (guards c (triggered (addEvent c flap s p.t l) p.t) l)) with hw | hw <;>
        (simp only [hw, if_true, Bool.false_eq_true, if_false]; rw [ht1, ht2])
    · have := quiet_keeps_level c hf flap s p.t l h (by simp [hp])
      simp only [hs, hp, Bool.false_eq_true, if_false]; rw [hA, hi, F.cur, this]

/-- the tail of `BufferedBatch` after `addEvent` -/
theorem batch_tail_irel (c : Cfg) (hf : c.useFlap = false) (flap : FlapFn) (s : St) (t : Int) (l : Nat) (h : RingOK c s) (hi : IRel s) :
    IRel (if Gen.batchSilent (guards c (addEvent c flap s t l) l) = true then (addEvent c flap s t l, (none : Option Ev))
      else if Gen.batchWithhold (guards c (triggered (addEvent c flap s t l) t) l) = true then (triggered (addEvent c flap s t l) t, none)
      else (triggered (addEvent c flap s t l) t, some { level := l, time := t, dur := duration (triggered (addEvent c flap s t l) t) })).1 := by
  have F := addEvent_facts c flap s t l h
  have hA := addEvent_inhibiting c flap s t l
  obtain ⟨ht1, ht2⟩ := triggered_inhibiting (addEvent c flap s t l) t
  unfold IRel at *
  rcases Bool.eq_false_or_eq_true (Gen.batchSilent (guards c (addEvent c flap s t l) l)) with hs | hs
  · simp only [hs, if_true]
    -- silent without flap suppression: OK and unchanged, or non-OK unchanged (state-changes-only)
    have hq : currentLevel s = l := by
      simp only [Gen.batchSilent, guards, hf, F.changed, Bool.false_and, Bool.false_or] at hs
      by_cases he : currentLevel s = l
      · exact he
      · have hb : (currentLevel s != l) = true := by simpa using he
        by_cases hl : l = 0
        · simp [hb, hl] at hs; rw [hs, hl]
        · have : (l != 0) = true := by simpa using hl
          have h2 : (l == 0) = false := by simpa using hl
          simp [hb, this, h2] at hs
    rw [hA, hi, F.cur, hq]
  · simp only [hs, Bool.false_eq_true, if_false]
    rcases Bool.eq_false_or_eq_true (Gen.batchWithhold (guards c (triggered (addEvent c flap s t l) t) l)) with hw | hw <;>
      (simp only [hw, if_true, Bool.false_eq_true, if_false]; rw [ht1, ht2])

/-- **Batch form** likewise. -/
theorem batch_irel (c : Cfg) (hf : c.useFlap = false) (flap : FlapFn) (s : St) (b : Batch) (h : RingOK c s) (hi : IRel s) :
    IRel (batchStep c flap s b).1 := by
  obtain ⟨tmax, pts⟩ := b
  cases pts with
  | nil => simpa [batchStep, show Gen.batchEmptyReturns = true from rfl] using hi
  | cons p1 rest =>
    unfold batchStep
    exact batch_tail_irel c hf flap s _ _ h hi

theorem stream_irel (c : Cfg) (hc : c.WF) (hf : c.useFlap = false) (flap : FlapFn) :
    ∀ (ps : List Pt) (s : St) (tr : Track), Rel c s tr → IRel s → IRel (runStream c flap s ps).1 := by
  intro ps
  induction ps with
  | nil => intro s tr _ hi; exact hi
  | cons p ps ih =>
    intro s tr h hi
    have h1 := (point_refines c hc flap s tr p h).1
    simp only [runStream]
    exact ih _ _ h1 (point_irel c hf flap s p h.ring hi)

theorem batches_irel (c : Cfg) (hc : c.WF) (hf : c.useFlap = false) (flap : FlapFn) :
    ∀ (bs : List Batch) (s : St) (tr : Track), Rel c s tr → IRel s → IRel (runBatches c flap s bs).1 := by
  intro bs
  induction bs with
  | nil => intro s tr _ hi; exact hi
  | cons b bs ih =>
    intro s tr h hi
    have h1 := (batch_refines c hc flap s tr b h).1
    simp only [runBatches]
    exact ih _ _ h1 (batch_irel c hf flap s b h.ring hi)

/-- one point of an alert without flap detection against the spec (the `fl` input is false) -/
theorem point_refines_noflap (c : Cfg) (hc : c.WF) (hf : c.useFlap = false) (flap : FlapFn) (s : St) (tr : Track) (p : Pt)
    (h : Rel c s tr) :
    Rel c (pointStep c flap s p).1 (specPoint c tr p false).1 ∧ (pointStep c flap s p).2 = (specPoint c tr p false).2 := by
  have := point_refines c hc flap s tr p h
  simpa [hf] using this

/-- **The two-ID world refines the spec world**: A's events, and B's events AS DELIVERED under A's inhibition, are
those of `specRunWorld`, for every interleaving of the two IDs' points. -/
theorem world_refines (ca cb : Cfg) (hca : ca.WF) (hcb : cb.WF) (hfa : ca.useFlap = false) (hfb : cb.useFlap = false)
    (fa fb : FlapFn) (hit : Bool) :
    ∀ (ops : List WOp) (w : World) (sw : SWorld), Rel ca w.a sw.a → Rel cb w.b sw.b → IRel w.a →
      runWorld ca cb fa fb hit w ops = specRunWorld ca cb hit sw ops := by
  intro ops
  induction ops with
  | nil => intro _ _ _ _ _; rfl
  | cons op ops ih =>
    intro w sw ha hb hi
    cases op with
    | pa p =>
      obtain ⟨h1, h2⟩ := point_refines_noflap ca hca hfa fa w.a sw.a p ha
      have hi' := point_irel ca hfa fa w.a p ha.ring hi
      simp only [runWorld, specRunWorld, worldStep, specWorldStep]
      rw [h2, ih { w with a := (pointStep ca fa w.a p).1 } { sw with a := (specPoint ca sw.a p false).1 } h1 hb hi']
    | pb p =>
      obtain ⟨h1, h2⟩ := point_refines_noflap cb hcb hfb fb w.b sw.b p hb
      have hinh : w.a.inhibiting = (sw.a.level != 0) := by rw [hi, ha.level]
      simp only [runWorld, specRunWorld, worldStep, specWorldStep, show Gen.inhibitionRecognised = true from rfl, Bool.true_and]
      rw [h2, hinh, ih { w with b := (pointStep cb fb w.b p).1 } { sw with b := (specPoint cb sw.b p false).1 } ha h1 hi]

end Kap.C01
