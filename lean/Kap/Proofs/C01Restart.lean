/-
C01 — without no-recoveries and without flap suppression a restart is invisible: the last delivered event always
carries the ID's current level, its time is the last alert and its duration leads back to the time the ID left OK, so
`specRestart` gives back the track the ID had (up to what does not matter while the ID is OK).
-/
import Kap.Proofs.C01Decl
namespace Kap.C01

/-- the last event delivered by a stream history (starting from `last`) -/
def lastDelivered (c : Cfg) (tr : Track) (last : Option Ev) : List (Pt × Bool) → Option Ev
  | [] => last
  | (p, fl) :: ps =>
    let r := specPoint c tr p fl
    lastDelivered c r.1 (r.2.orElse (fun _ => last)) ps

/-- the last delivered event describes the track -/
def Describes (tr : Track) (last : Option Ev) : Prop :=
  (tr.level ≠ 0 → ∃ T L, tr.lastAlert = some T ∧ tr.leftOK = some L ∧ last = some { level := tr.level, time := T, dur := T - L }) ∧
  (tr.level = 0 → last = none ∨ ∃ e, last = some e ∧ e.level = 0)

/-- equal, up to what does not matter while the ID is OK -/
def Track.same (a b : Track) : Prop := a.level = b.level ∧ (a.level ≠ 0 → a = b)

theorem describes_restart (tr : Track) (last : Option Ev) (h : Describes tr last) : (specRestart last).same tr := by
  obtain ⟨h1, h2⟩ := h
  by_cases h0 : tr.level = 0
  · rcases h2 h0 with hn | ⟨e, he, hl⟩
    · subst hn; exact ⟨by simp [specRestart, h0], fun hc => absurd rfl hc⟩
    · subst he; simp only [specRestart, hl]; exact ⟨by simp [h0], fun hc => absurd rfl hc⟩
  · obtain ⟨T, L, hT, hL, hlast⟩ := h1 h0
    subst hlast
    have hb : (tr.level != 0) = true := by simpa using h0
    have heq : ({ level := tr.level, leftOK := some (T - (T - L)), lastAlert := some T } : Track) = tr := by
      cases tr; simp_all; omega
    simp only [specRestart, hb, if_true, heq]
    exact ⟨rfl, fun _ => rfl⟩

/-- one point, no flap suppression, recoveries delivered: `Describes` is kept -/
theorem describes_step (c : Cfg) (hn : c.noRec = false) (tr : Track) (last : Option Ev) (p : Pt) (h : Describes tr last) :
    Describes (specPoint c tr p false).1 ((specPoint c tr p false).2.orElse (fun _ => last)) := by
  obtain ⟨h1, h2⟩ := h
  simp only [specPoint, advance, withheld, hn, Bool.false_and, Bool.not_false, Bool.and_true]
  generalize specLevel c p tr.level = cur
  by_cases hd : due c tr.level cur p.t tr.lastAlert = true
  · -- delivered
    simp only [hd, if_true, Option.orElse]
    have hdue : cur ≠ 0 ∨ tr.level ≠ 0 := by
      simp only [due, Bool.and_eq_true, Bool.or_eq_true, bne_iff_ne] at hd; exact hd.1
    refine ⟨fun hc => ?_, fun hc => Or.inr ⟨_, rfl, hc⟩⟩
    by_cases h0 : tr.level = 0
    · have hb : (tr.level == 0 && cur != 0) = true := by simp [h0]; exact hc
      exact ⟨p.t, p.t, rfl, by simp [hb], by simp [hb]⟩
    · obtain ⟨T, L, _, hL, _⟩ := h1 h0
      have hb : (tr.level == 0 && cur != 0) = false := by simp [h0]
      exact ⟨p.t, L, rfl, by simp [hb, hL], by simp [hb, hL]⟩
  · -- not delivered: the level did not change (or the ID stays OK)
    have hd' : due c tr.level cur p.t tr.lastAlert = false := by simpa using hd
    simp only [hd', Bool.false_eq_true, if_false, Option.orElse]
    have hsame : cur = tr.level := by
      apply Classical.byContradiction; intro hne
      have hA : (cur != 0 || tr.level != 0) = true := by
        by_cases hc0 : cur = 0
        · have : tr.level ≠ 0 := by intro h; exact hne (by rw [hc0, h])
          simp [this]
        · simp [hc0]
      have hB : (cur != tr.level) = true := by simpa using hne
      simp [due, hA, hB] at hd'
    rw [hsame]
    refine ⟨fun hc => ?_, fun hc => h2 hc⟩
    obtain ⟨T, L, hT, hL, hl⟩ := h1 hc
    have hb : (tr.level == 0 && tr.level != 0) = false := by cases h : (tr.level == 0) <;> simp_all
    exact ⟨T, L, hT, by simp [hb, hL], hl⟩

/-- from `same` tracks a point (not suppressed by flap detection) gives the same event and `same` tracks -/
theorem same_step (c : Cfg) (a b : Track) (p : Pt) (h : a.same b) :
    (specPoint c a p false).2 = (specPoint c b p false).2 ∧ ((specPoint c a p false).1).same (specPoint c b p false).1 := by
  obtain ⟨hl, he⟩ := h
  by_cases h0 : a.level = 0
  · have hb0 : b.level = 0 := by rw [← hl]; exact h0
    simp only [specPoint, advance, h0, hb0, Bool.not_false, Bool.and_true]
    generalize specLevel c p 0 = cur
    by_cases hc : cur = 0
    · subst hc
      have ha : due c 0 0 p.t a.lastAlert = false := by simp [due]
      have hb : due c 0 0 p.t b.lastAlert = false := by simp [due]
      simp [ha, hb, Track.same]
    · have hcb : (cur != 0) = true := by simpa using hc
      have ha : due c 0 cur p.t a.lastAlert = true := by simp [due, hcb]
      have hb : due c 0 cur p.t b.lastAlert = true := by simp [due, hcb]
      simp [ha, hb, hcb, Track.same]
  · have := he h0; subst this; exact ⟨rfl, rfl, fun _ => rfl⟩

theorem specStream_same (c : Cfg) : ∀ (ps : List Pt) (a b : Track), a.same b →
    specStream c a (ps.map (fun p => (p, false))) = specStream c b (ps.map (fun p => (p, false))) := by
  intro ps
  induction ps with
  | nil => intro a b _; rfl
  | cons p ps ih =>
    intro a b h
    obtain ⟨h1, h2⟩ := same_step c a b p h
    simp only [List.map_cons, specStream]
    rw [h1, ih _ _ h2]

theorem describes_run (c : Cfg) (hn : c.noRec = false) :
    ∀ (ps : List Pt) (tr : Track) (last : Option Ev), Describes tr last →
      Describes (trackAfter c tr (ps.map (fun p => (p, false)))) (lastDelivered c tr last (ps.map (fun p => (p, false)))) := by
  intro ps
  induction ps with
  | nil => intro tr last h; exact h
  | cons p ps ih =>
    intro tr last h
    simp only [List.map_cons, trackAfter, lastDelivered]
    exact ih _ _ (describes_step c hn tr last p h)

end Kap.C01
