/-
C01 — the ring: what `addEvent` and `triggered` do to `history/idx`, under the invariant
"the ring has at least two slots and idx is inside it".
-/
import Kap.Proofs.C01
namespace Kap.C01

/-- Well-formed ring: `len(history) = n.History ≥ 2`, `idx` inside. -/
structure RingOK (c : Cfg) (s : St) : Prop where
  len : s.history.length = c.history
  two : 2 ≤ c.history
  idx : s.idx < s.history.length

/-- the slot `triggered` reads: `p := idx-1; if p == -1 { p = len-1 }` -/
def prevSlot (s : St) : Nat := if s.idx = 0 then s.history.length - 1 else s.idx - 1

/-- the level `triggered` finds in that slot -/
def prevLevel (s : St) : Nat := s.history.getD (prevSlot s) 0

theorem newAlertState_ringOK (c : Cfg) (h : 2 ≤ c.history) : RingOK c (newAlertState c) :=
  ⟨by simp [newAlertState], h, by simp [newAlertState]; omega⟩

theorem newAlertState_current (c : Cfg) : currentLevel (newAlertState c) = 0 := by
  simp [currentLevel, newAlertState, List.getD_eq_getElem?_getD, List.getElem?_replicate]
  split <;> rfl

theorem getD_set_eq (l : List Nat) (i v : Nat) (h : i < l.length) : (l.set i v).getD i 0 = v := by
  simp [List.getD_eq_getElem?_getD, List.getElem?_set, h]

theorem getD_set_ne (l : List Nat) (i j v : Nat) (h : i ≠ j) : (l.set i v).getD j 0 = l.getD j 0 := by
  simp [List.getD_eq_getElem?_getD, List.getElem?_set, h]

/-- Everything the rest of the proof needs to know about `addEvent`. -/
structure AddFacts (c : Cfg) (flap : FlapFn) (s : St) (t : Int) (l : Nat) (s' : St) : Prop where
  ring : RingOK c s'
  cur : currentLevel s' = l
  prev : prevLevel s' = currentLevel s
  changed : s'.changed = (currentLevel s != l)
  first : s'.firstTriggered = if (currentLevel s != l && currentLevel s == 0) then some t else s.firstTriggered
  last : s'.lastTriggered = s.lastTriggered
  expired : s'.expired = (!(currentLevel s != l) && c.scoDur != 0 && decide (subTime t s.lastTriggered ≥ c.scoDur))
  flapOff : c.useFlap = false → s'.flapping = s.flapping

theorem addEvent_facts (c : Cfg) (flap : FlapFn) (s : St) (t : Int) (l : Nat) (h : RingOK c s) :
    AddFacts c flap s t l (addEvent c flap s t l) := by
  obtain ⟨hlen, htwo, hidx⟩ := h
  have hn : 2 ≤ s.history.length := by omega
  have hmod : (s.idx + 1) % s.history.length < s.history.length := Nat.mod_lt _ (by omega)
  -- the slot before the new idx is the old idx, and it differs from the new idx
  have hprev : (if (s.idx + 1) % s.history.length = 0 then s.history.length - 1 else (s.idx + 1) % s.history.length - 1) = s.idx := by
    by_cases hw : s.idx + 1 = s.history.length
    · rw [hw, Nat.mod_self]; simp; omega
    · have : (s.idx + 1) % s.history.length = s.idx + 1 := Nat.mod_eq_of_lt (by omega)
      rw [this]; simp
  have hne : (s.idx + 1) % s.history.length ≠ s.idx := by
    by_cases hw : s.idx + 1 = s.history.length
    · rw [hw, Nat.mod_self]; omega
    · have : (s.idx + 1) % s.history.length = s.idx + 1 := Nat.mod_eq_of_lt (by omega)
      omega
  unfold addEvent updateExpired updateFlapping
  by_cases hf : c.useFlap = true
  all_goals
    simp only [hf, Bool.not_true, Bool.not_false, Bool.false_eq_true, if_false, if_true]
    refine ⟨⟨by simp [hlen], htwo, by simpa using hmod⟩, ?_, ?_, ?_, ?_, ?_, ?_, ?_⟩
    · simp only [currentLevel]; exact getD_set_eq _ _ _ hmod
    · simp only [prevLevel, prevSlot, currentLevel, List.length_set]
      rw [hprev]; exact getD_set_ne _ _ _ _ hne
    · simp [currentLevel, Gen.changedRule]
    · simp [currentLevel, Gen.changedRule, Gen.leftOKRule]
    · rfl
    · simp [currentLevel, Gen.changedRule, Gen.expiredRule, Bool.and_assoc]
    · intro h; simp_all

/-- `triggered` only touches the two times. -/
theorem triggered_facts (s : St) (t : Int) :
    (triggered s t).history = s.history ∧ (triggered s t).idx = s.idx ∧ (triggered s t).flapping = s.flapping ∧
    (triggered s t).lastTriggered = some t ∧
    (triggered s t).firstTriggered = (if prevLevel s == 0 then some t else s.firstTriggered) := by
  simp [triggered, prevLevel, prevSlot, Gen.firstTriggeredRule]

end Kap.C01
