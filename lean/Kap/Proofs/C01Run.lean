/-
C01 — whole histories: the events of a run of the model are the events of the history spec.
-/
import Kap.Proofs.C01Batch
namespace Kap.C01

/-- The flapping flag the code has at each point of a run (`UseFlapping && a.flapping` right after `addEvent`):
this is the `fl` input of the spec — flap DETECTION is a parameter of the property, flap SUPPRESSION is specified. -/
def streamFlags (c : Cfg) (flap : FlapFn) (s : St) : List Pt → List Bool
  | [] => []
  | p :: ps =>
    let s' := (pointStep c flap s p).1
    (c.useFlap && s'.flapping) :: streamFlags c flap s' ps

def batchFlags (c : Cfg) (flap : FlapFn) (s : St) : List Batch → List Bool
  | [] => []
  | b :: bs =>
    let s' := (batchStep c flap s b).1
    (c.useFlap && s'.flapping) :: batchFlags c flap s' bs

theorem streamFlags_length (c : Cfg) (flap : FlapFn) : ∀ (ps : List Pt) (s : St), (streamFlags c flap s ps).length = ps.length
  | [], _ => rfl
  | _ :: ps, s => by simp [streamFlags, streamFlags_length c flap ps]

theorem batchFlags_length (c : Cfg) (flap : FlapFn) : ∀ (bs : List Batch) (s : St), (batchFlags c flap s bs).length = bs.length
  | [], _ => rfl
  | _ :: bs, s => by simp [batchFlags, batchFlags_length c flap bs]

theorem stream_run_refines (c : Cfg) (hc : c.WF) (flap : FlapFn) :
    ∀ (ps : List Pt) (s : St) (tr : Track), Rel c s tr →
      (runStream c flap s ps).2 = specStream c tr (ps.zip (streamFlags c flap s ps)) := by
  intro ps
  induction ps with
  | nil => intro s tr _; rfl
  | cons p ps ih =>
    intro s tr h
    obtain ⟨hrel, hev⟩ := point_refines c hc flap s tr p h
    simp only [runStream, streamFlags, List.zip_cons_cons, specStream]
    rw [ih _ _ hrel, hev]

theorem batch_run_refines (c : Cfg) (hc : c.WF) (flap : FlapFn) :
    ∀ (bs : List Batch) (s : St) (tr : Track), Rel c s tr →
      (runBatches c flap s bs).2 = specBatches c tr (bs.zip (batchFlags c flap s bs)) := by
  intro bs
  induction bs with
  | nil => intro s tr _; rfl
  | cons b bs ih =>
    intro s tr h
    obtain ⟨hrel, hev⟩ := batch_refines c hc flap s tr b h
    simp only [runBatches, batchFlags, List.zip_cons_cons, specBatches]
    rw [ih _ _ hrel, hev]

/-- flap detection off: every flag is false -/
theorem streamFlags_off (c : Cfg) (flap : FlapFn) (h : c.useFlap = false) :
    ∀ (ps : List Pt) (s : St), streamFlags c flap s ps = ps.map (fun _ => false)
  | [], _ => rfl
  | _ :: ps, s => by simp [streamFlags, h, streamFlags_off c flap h ps]

theorem batchFlags_off (c : Cfg) (flap : FlapFn) (h : c.useFlap = false) :
    ∀ (bs : List Batch) (s : St), batchFlags c flap s bs = bs.map (fun _ => false)
  | [], _ => rfl
  | _ :: bs, s => by simp [batchFlags, h, batchFlags_off c flap h bs]

end Kap.C01
